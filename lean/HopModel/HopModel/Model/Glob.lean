/-
Model of `pkg/glob` (leftmost-greedy matcher with a single backtrack point), of the client's host
block selection (`config.ClientConfig.MatchHost`) and of the server's virtual-host selection
(`hopserver.VirtualHosts.Match`).  Bytes, `*` = 42.

`seg q s` matches the literal segment at the head of the pattern; `afterStar q s` (the pattern `q`
follows a `*`) commits to the first position where the segment matches and otherwise retries one
byte later.  One iteration of the Go loop corresponds to one step of `seg` or one retry.
The declarative relation `Matches` is the Spec: the input is the pattern with every `*` replaced
by some (possibly empty) string.
-/
namespace Glob
abbrev B := UInt8
def star : B := 42

inductive Matches : List B → List B → Prop
  | nil : Matches [] []
  | lit {p : B} {ps s : List B} (h : p ≠ star) : Matches ps s → Matches (p :: ps) (p :: s)
  | star {ps s : List B} (w : List B) : Matches ps s → Matches (star :: ps) (w ++ s)

inductive Seg
  | mismatch
  | star (q ss : List B)
  | done (ss : List B)

def seg : List B → List B → Seg
  | [], ss => .done ss
  | p :: ps, ss =>
    if p = star then .star ps ss
    else match ss with
      | [] => .mismatch
      | c :: t => if p = c then seg ps t else .mismatch

theorem seg_star_lt {q ss q' ss' : List B} (h : seg q ss = .star q' ss') : q'.length < q.length := by
  induction q generalizing ss with
  | nil => simp [seg] at h
  | cons p ps ih =>
    unfold seg at h
    split at h
    · cases h; simp
    · split at h
      · cases h
      · split at h
        · have := ih h; simp; omega
        · cases h

def afterStar (q ss : List B) : Bool :=
  match h : seg q ss with
  | .star q' ss' => afterStar q' ss'
  | .done ss' => ss' == [] || (if hs : ss = [] then false else afterStar q ss.tail)
  | .mismatch => if hs : ss = [] then false else afterStar q ss.tail
termination_by (q.length, ss.length)
decreasing_by
  · exact Prod.Lex.left _ _ (seg_star_lt h)
  · exact Prod.Lex.right _ (by cases ss <;> simp_all)
  · exact Prod.Lex.right _ (by cases ss <;> simp_all)

def glob (p s : List B) : Bool :=
  match seg p s with
  | .star q ss' => afterStar q ss'
  | .done ss' => ss' == []
  | .mismatch => false

/-- `config.ClientConfig.MatchHost`: indices of the host blocks that are merged onto the global
block, in order (a block applies when one of its patterns matches). -/
def matchHost (blocks : List (List (List B))) (host : List B) : List Nat :=
  (List.range blocks.length).filter fun i => (blocks.getD i []).any (fun pat => glob pat host)

/-- `hopserver.VirtualHosts.Match`: index of the first virtual host whose pattern matches. -/
def vhostMatch (pats : List (List B)) (name : List B) : Option Nat :=
  pats.findIdx? (fun pat => glob pat name)

end Glob
