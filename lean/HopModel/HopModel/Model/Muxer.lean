import HopModel.Model.Receiver
import HopModel.Model.Sender
/-
Model of the tube multiplexer (`tubes/muxer.go`) as far as C09 and C11 need it: decoding a
datagram into a frame (`readMsg` / `fromBytes`), the dispatch of `Muxer.receiver` (lookup by
(reliability, id); absent + REQ → create and offer; REQ/RESP → initiation path; else deliver),
`pickTubeID` / `Create*Tube`, `Accept`, reaping, and per tube: the initiation step, the reliable
receive path (receive window of `Model/Receiver.lean`, acknowledgement processing of
`Model/Sender.lean`, FIN → closeWait) and the unreliable one (one frame = one message).

Operations that can panic in Go are explicit: `goSlice` / `goIndex` follow Go's slice semantics
(`b[lo:hi]` panics iff `lo > hi ∨ hi > cap`, *not* iff `hi > len`), the acknowledgement loop
indexes `frames[0]`.  `Props/C11.lean` proves that `panic` is never the outcome.

Not modelled (C16's subject): the close handshake after a local `Close()` (finWait1/2, closing,
lastAck and their timers).  A tube leaves the maps through the abstract event `reap`, which stands
for "the tube went through its close handshake and the reaper removed it".  The congestion
window only matters to `recvAck` after 2^32 - 65535 frames were acknowledged; the muxer model
passes the default window.
-/
namespace Tubes

inductive Outcome (α : Type) where
  | ok (a : α)
  | err
  | panic
  deriving Repr

def Outcome.bind {α β : Type} (x : Outcome α) (f : α → Outcome β) : Outcome β :=
  match x with
  | .ok a => f a
  | .err => .err
  | .panic => .panic

/-- Go: `b[lo:hi]` for a slice of length `b.length` and capacity `cap` -/
def goSlice (b : Bytes) (cap lo hi : Nat) : Outcome Bytes :=
  if lo ≤ hi ∧ hi ≤ cap then .ok ((b.drop lo).take (hi - lo)) else .panic

/-- Go: `b[i]` -/
def goIndex (b : Bytes) (i : Nat) : Outcome UInt8 :=
  match b[i]? with
  | some x => .ok x
  | none => .panic

def beNat (b : Bytes) : Nat := b.foldl (fun acc x => acc * 256 + x.toNat) 0

def recvBufSize : Nat := 65535

/-- `metaToFlags` -/
def flagsOf (m : Nat) (f : Frame) : Frame :=
  { f with req := m % 2 = 1, resp := m / 2 % 2 = 1, rel := m / 4 % 2 = 1, ack := m / 8 % 2 = 1,
           fin := m / 16 % 2 = 1, rtr := m / 32 % 2 = 1 }

/-- `fromBytes(readBuf[:n])`: `b` are the `n` bytes of the datagram, `cap` the capacity of the
receive buffer.  Initiate frames (REQ/RESP) have a 10-byte header and are read through a
zero-padded copy of 12 bytes; anything else shorter than 12 bytes, and length fields pointing
beyond the datagram, are errors. -/
def fromBytes (b0 : Bytes) (cap0 : Nat) : Outcome Frame :=
  if b0.length < 10 then .err else
  (goIndex b0 1).bind fun m0 =>
  if b0.length < 12 ∧ ¬ (m0.toNat % 2 = 1 ∨ m0.toNat / 2 % 2 = 1) then .err else
  let b := if b0.length < 12 then (b0 ++ [0, 0]).take 12 else b0
  let cap := if b0.length < 12 then 12 else cap0
  (goSlice b cap 2 4).bind fun l =>
  let dataLength := beNat l
  if 12 + dataLength > b.length then .err else
  (goIndex b 0).bind fun id =>
  (goIndex b 1).bind fun m =>
  (goSlice b cap 12 (12 + dataLength)).bind fun data =>
  (goSlice b cap 4 8).bind fun a =>
  (goSlice b cap 8 12).bind fun n =>
  .ok (flagsOf m.toNat { tubeID := id.toNat, ackNo := beNat a, frameNo := beNat n, data := data })

inductive TState where
  | created
  | initiated
  | closeWait
  | closed
  deriving Repr, DecidableEq

structure Tube where
  rel : Bool
  id : Nat
  ttype : Nat
  loc : Bool          -- created by Create*Tube (req = true)
  state : TState
  held : Bool         -- handed to the application (returned by Create* or Accept)
  rx : Receiver       -- reliable tubes
  tx : Sender
  msgs : List Bytes   -- unreliable tubes: queued messages
  recvClosed : Bool
  reserved : Bool := false   -- closed, kept in the map by the reaper's timer (`shut`)
  deriving Repr

abbrev Key := Bool × Nat

def Tube.key (t : Tube) : Key := (t.rel, t.id)

structure Mux where
  parity : Nat
  tubes : List Tube := []
  queue : List Tube := []     -- offered, not yet accepted (snapshot at creation: rel, id, type)
  running : Bool := true
  deriving Repr

def acceptQueueSize : Nat := 128
def maxBufferedPackets : Nat := 1000
def defaultWindow : Nat := 10

def lookup (ts : List Tube) (k : Key) : Option Tube := ts.find? (·.key = k)

def setTube (ts : List Tube) (t : Tube) : List Tube :=
  ts.map fun u => if u.key = t.key then t else u

def newTube (rel : Bool) (id ttype : Nat) (loc : Bool) : Tube :=
  { rel := rel, id := id, ttype := ttype, loc := loc, state := .created, held := loc,
    rx := Receiver.new, tx := Sender.new, msgs := [], recvClosed := false }

/-- `receiveInitiatePkt` -/
def initTube (t : Tube) : Tube :=
  if t.state = .created then
    if t.rel then { t with state := .initiated, rx := { t.rx with ackNo := 1 } }
    else { t with state := .initiated }
  else t

/-- the loop of `recvAck`: `k` = `newAckNo - ackNo`; the guard `len(frames) > 0` is the repair -/
def ackLoop : Nat → Sender → Outcome Sender
  | 0, s => .ok s
  | k + 1, s =>
    if s.frames.length > 0 then
      match s.frames with
      | [] => .panic                       -- `s.frames[0]`
      | _ :: rest => ackLoop k { s with ackNo := s.ackNo + 1, frames := rest, dupAcks := 0 }
    else .ok s

/-- `sender.recvAck` with the loop's indexing explicit -/
def recvAckO (s : Sender) (ack32 w : Nat) : Outcome (Sender × AckOut) :=
  let newAck :=
    if ack32 < s.ackNo ∧ (ack32 + two32 + two64 - s.ackNo) % two64 ≤ w then ack32 + two32 else ack32
  if s.dupAcks > 100 then .ok (s, .tooManyDup) else
  let dup := if s.ackNo = newAck ∧ newAck > 20 then s.dupAcks + 1 else s.dupAcks
  (ackLoop (newAck - s.ackNo) { s with dupAcks := dup }).bind fun s' => .ok (s', .ok)

/-- `Reliable.receive` (states created/initiated/closeWait/closed) -/
def relReceive (t : Tube) (f : Frame) : Outcome Tube :=
  if t.state = .created ∨ t.state = .closed then .ok t else
  let rr := receive t.rx f
  let finProcessed := match rr.2 with | .ok true => true | _ => false
  let afterAck : Outcome (Sender × Bool) :=
    if f.ack then (recvAckO t.tx f.ackNo defaultWindow).bind fun (s', o) => .ok (s', o == .tooManyDup)
    else .ok (t.tx, false)
  afterAck.bind fun (tx', tooMany) =>
  if tooMany then .ok { t with rx := { rr.1 with closed := true }, tx := tx', state := .closed } else
  let st' := if ((f.fin && rr.1.closed) || finProcessed) && t.state == .initiated then TState.closeWait else t.state
  .ok { t with rx := rr.1, tx := tx', state := st' }

/-- `Unreliable.receive` -/
def unrelReceive (t : Tube) (f : Frame) : Tube :=
  if t.state = .closed then t
  else if t.msgs.length ≥ maxBufferedPackets then t
  else { t with msgs := t.msgs ++ [f.data], recvClosed := t.recvClosed || f.fin }

def deliver (t : Tube) (f : Frame) : Outcome Tube :=
  if f.req || f.resp then .ok (initTube t)
  else if t.rel then relReceive t f
  else .ok (unrelReceive t f)

/-- tube type of an initiate frame: byte 4 of the encoding, i.e. the top byte of `ackNo` -/
def initType (f : Frame) : Nat := f.ackNo / 16777216 % 256

/-- the body of the loop of `Muxer.receiver` for one decoded frame -/
def onFrame (m : Mux) (f : Frame) : Outcome Mux :=
  match lookup m.tubes (f.rel, f.tubeID) with
  | some t => (deliver t f).bind fun t' => .ok { m with tubes := setTube m.tubes t' }
  | none =>
    if f.req && m.running && decide (m.queue.length < acceptQueueSize) then
      let t := newTube f.rel f.tubeID (initType f) false
      (deliver t f).bind fun t' => .ok { m with tubes := t' :: m.tubes, queue := m.queue ++ [t] }
    else .ok m

/-- one datagram of `n = b.length` bytes read into the receive buffer -/
def onRaw (m : Mux) (b : Bytes) : Outcome Mux :=
  match fromBytes b recvBufSize with
  | .ok f => onFrame m f
  | .err => .ok m          -- malformed: dropped, the receiver keeps running
  | .panic => .panic

/-- a sequence of datagrams; stops at the first panic -/
def runRaw (m : Mux) : List Bytes → Outcome Mux
  | [] => .ok m
  | b :: rest => (onRaw m b).bind fun m' => runRaw m' rest

/-- `pickTubeID` -/
def pickFrom (ts : List Tube) (rel : Bool) : Nat → Nat → Option Nat
  | 0, _ => none
  | fuel + 1, guess =>
    if guess ≥ 256 then none
    else if (lookup ts (rel, guess)).isNone then some guess
    else pickFrom ts rel fuel (guess + 2)

def pickTubeID (m : Mux) (rel : Bool) : Option Nat := pickFrom m.tubes rel 128 m.parity

/-- `CreateReliableTube` / `CreateUnreliableTube` -/
def create (m : Mux) (rel : Bool) (ttype : Nat) : Mux × Option Nat :=
  match pickTubeID m rel with
  | none => (m, none)
  | some id =>
    if m.running then ({ m with tubes := newTube rel id ttype true :: m.tubes }, some id)
    else (m, none)

/-- `Accept` without blocking -/
def accept (m : Mux) : Mux × Option Tube :=
  match m.queue with
  | [] => (m, none)
  | q :: rest =>
    ({ m with queue := rest,
              tubes := m.tubes.map fun u => if u.key = q.key then { u with held := true } else u }, some q)

/-- the reaper removed the tube.  A reliable tube that this side opened and that has finished its
close handshake (`shut`, below) sits in the map in state `closed` until the reaper's timer has run. -/
def canReap (t : Tube) : Bool :=
  (t.held && (if t.rel then t.state == .initiated || t.state == .closeWait else true)) || t.reserved

/-- `reapTube` keeps the identifier of a reliable tube of the muxer's own parity (whoever opened it)
reserved for 4·RTT after the tube is closed -/
def canShut (parity : Nat) (t : Tube) : Bool :=
  t.rel && t.id % 2 == parity % 2 && t.held && (t.state == .initiated || t.state == .closeWait)

/-- the tube went through its close handshake: it is closed and no longer used by the application,
but stays in the map (its identifier reserved) until `reap` -/
def shut (m : Mux) (k : Key) : Mux × Bool :=
  match lookup m.tubes k with
  | some t =>
    if canShut m.parity t then
      ({ m with tubes := setTube m.tubes { t with state := .closed, held := false, reserved := true } }, true)
    else (m, false)
  | none => (m, false)

def reap (m : Mux) (k : Key) : Mux × Bool :=
  match lookup m.tubes k with
  | some t => if canReap t then ({ m with tubes := m.tubes.filter (·.key ≠ k) }, true) else (m, false)
  | none => (m, false)

inductive ReadOut where
  | noTube
  | block
  | data (b : Bytes) (flag : Bool)   -- reliable: flag = io.EOF; unreliable: flag = truncated
  | eof

/-- `Read` on a held tube with a buffer of `n` bytes -/
def readTube (m : Mux) (k : Key) (n : Nat) : Mux × ReadOut :=
  match lookup m.tubes k with
  | none => (m, .noTube)
  | some t =>
    if !t.held then (m, .noTube)
    else if t.state = .created then (m, .block)
    else if t.rel then
      match read t.rx n with
      | none => (m, .block)
      | some (rx', out, e) => ({ m with tubes := setTube m.tubes { t with rx := rx' } }, .data out e)
    else
      match t.msgs with
      | msg :: rest => ({ m with tubes := setTube m.tubes { t with msgs := rest } }, .data (msg.take n) (n < msg.length))
      | [] => if t.recvClosed || t.state = .closed then (m, .eof) else (m, .block)

/-- can the application write on the tube (`Write` accepted and the frame leaves) -/
def canWrite (m : Mux) (k : Key) : Bool :=
  match lookup m.tubes k with
  | some t => t.held && (t.state == .initiated || (t.rel && t.state == .closeWait))
  | none => false

end Tubes
