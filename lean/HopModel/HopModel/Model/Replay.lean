/-
Model of `transport/replay.go` (RFC 6479 sliding window, 8 blocks of 64 bits, window 448).

Two layers:
* `check` / `mark` over unbounded `Nat` — the layer the invariant proof works on;
* `checkU` / `markU` — the same code with the one `uint64` expression that can wrap in Go
  (`seq + windowSize`) written with its wrap.  `Proofs/Replay.lean` shows they coincide for
  counters below `2^64 - 448` (the property's domain is `< 2^63`).

The ring is a function `slot ↦ mask`; `compact` re-tabulates it (8 entries) so that the compiled
driver does not build ever deeper closures.  `Proofs/Replay.lean` shows `compact` is invisible.
-/
namespace Replay

def numBlocks : Nat := 8
def blockSize : Nat := 64
def windowSize : Nat := 448

structure Win where
  blocks : Nat → Nat      -- ring slot (0..7) ↦ 64-bit mask
  wt : Nat

def slot (q : Nat) : Nat := (q / 64) % 8
def loc (q : Nat) : Nat := q % 64

def setSlot (b : Nat → Nat) (i v : Nat) : Nat → Nat := fun j => if j = i then v else b j

def bit (w : Win) (q : Nat) : Bool := (w.blocks (slot q)).testBit (loc q)

/-- `SlidingWindow.Check` over `Nat` (no wrap). -/
def check (w : Win) (q : Nat) : Bool :=
  if q > w.wt then true
  else if q + 448 < w.wt then false
  else !bit w q

/-- the loop `for i < diff { blocks[(i+cur+1)&7] = 0 }` -/
def clearLoop (b : Nat → Nat) (cur : Nat) : Nat → Nat → Nat
  | 0 => b
  | d + 1 => setSlot (clearLoop b cur d) ((d + cur + 1) % 8) 0

/-- `SlidingWindow.Mark` over `Nat` (no wrap). -/
def mark (w : Win) (q : Nat) : Win :=
  if q + 448 < w.wt then w
  else
    let w1 : Win :=
      if q > w.wt then
        let cur := w.wt / 64
        let diff := min (q / 64 - cur) 8
        { blocks := clearLoop w.blocks cur diff, wt := q }
      else w
    { w1 with blocks := setSlot w1.blocks (slot q) (w1.blocks (slot q) ||| (1 <<< loc q)) }

/-- What a session does with a counter: `Check`, then (after authentication) `Mark`. -/
def accept (w : Win) (q : Nat) : Win := if check w q then mark w q else w

def init : Win := { blocks := fun _ => 0, wt := 0 }

/-! ### the `uint64` layer -/

def u64 : Nat := 2 ^ 64

/-- Go's `seq + windowSize` on `uint64`. -/
def addWrap (a b : Nat) : Nat := (a + b) % u64

def checkU (w : Win) (q : Nat) : Bool :=
  if q > w.wt then true
  else if addWrap q 448 < w.wt then false
  else !bit w q

def markU (w : Win) (q : Nat) : Win :=
  if addWrap q 448 < w.wt then w
  else
    let w1 : Win :=
      if q > w.wt then
        let cur := w.wt / 64
        let diff := min (q / 64 - cur) 8
        { blocks := clearLoop w.blocks cur diff, wt := q }
      else w
    { w1 with blocks := setSlot w1.blocks (slot q) (w1.blocks (slot q) ||| (1 <<< loc q)) }

/-- Re-tabulate the ring (driver only; extensionally invisible on slots `< 8`). -/
def compact (w : Win) : Win :=
  let a := (List.range 8).map w.blocks
  { blocks := fun j => a.getD j 0, wt := w.wt }

/-- One driver step: the operation the Go harness performs on the real `SlidingWindow`. -/
def acceptU (w : Win) (q : Nat) : Win := compact (if checkU w q then markU w q else w)

/-- Unconditional `Mark` (the API allows it; used by the robustness theorem and the tie). -/
def markOnlyU (w : Win) (q : Nat) : Win := compact (markU w q)

end Replay
