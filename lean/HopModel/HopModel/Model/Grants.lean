/-
Model of the target-side authorization-grant logic:

* `authgrants/authgrants.go`   `AuthgrantMapSync.AddAuthGrant` / `RemoveAuthgrants`
* `hopserver/hopserver.go`     `HopServer.AddAuthGrant` (grant map + transport key set)
* `hopserver/target.go`        `AuthorizeKeyAuthGrant`, `checkCmd`, `checkIntent`
* `hopserver/session.go`       `checkAuthorization` (grant branch), the tube dispatch of `start`,
                               the grant consultation of `startCodex`

Times: grants carry whole seconds (wire format); the clock is in nanoseconds.
Keys are tokens (the harness maps them injectively to X25519 public keys).  Core Lean only.
-/
namespace Grants

def gShell : Nat := 1
def gCommand : Nat := 2
def gLocalPF : Nat := 3
def gRemotePF : Nat := 4
def gAcme : Nat := 5

structure Grant where
  gtype : Nat
  cmd : List UInt8
  start : Nat        -- seconds
  exp : Nat          -- seconds
  user : List UInt8
  key : Nat
  startNs : Nat := 0 -- nanoseconds past `start` (a grant stored by code may carry a sub-second start; the wire cannot)
deriving DecidableEq, Repr

/-- `HopServer`: the grant map (`agMap[user][key]` lists, here one list in insertion order) and the
transport layer's authorized-key set -/
structure Server where
  grants : List Grant
  keys : List Nat
deriving DecidableEq, Repr

def Server.empty : Server := ⟨[], []⟩

/-- `HopServer.AddAuthGrant` (authgrants enabled) -/
def addGrant (sv : Server) (g : Grant) : Server :=
  { grants := sv.grants ++ [g],
    keys := if sv.keys.contains g.key then sv.keys else sv.keys ++ [g.key] }

/-- `hopSession` as far as grants are concerned -/
structure Session where
  usingGrant : Bool
  actions : List Grant
  user : List UInt8
  key : Nat
deriving DecidableEq, Repr

def mine (u : List UInt8) (k : Nat) (g : Grant) : Bool := g.user == u && g.key == k

/-- `checkAuthorization` for a key that is not in `authorized_keys`:
`AuthorizeKeyAuthGrant` = `RemoveAuthgrants(user, key)` + `keyStore.RemoveKey(key)` -/
def login (sv : Server) (u : List UInt8) (k : Nat) : Server × Option Session :=
  let ags := sv.grants.filter (mine u k)
  if ags.isEmpty then (sv, none)
  else ({ grants := sv.grants.filter (fun g => !mine u k g), keys := sv.keys.erase k },
        some ⟨true, ags, u, k⟩)

def ns : Nat := 1000000000

/-- the condition of `checkCmd`'s loop body for one grant (`now` in nanoseconds) -/
def admits (now : Nat) (cmd : List UInt8) (shell : Bool) (g : Grant) : Bool :=
  decide (now < g.exp * ns) && decide (g.start * ns + g.startNs ≤ now) &&
    ((!shell && g.gtype == gCommand && g.cmd == cmd) || (shell && g.gtype == gShell))

/-- `checkCmd`: first matching grant is removed from the session and returned -/
def checkCmd (now : Nat) (cmd : List UInt8) (shell : Bool) : List Grant → Option (Grant × List Grant)
  | [] => none
  | g :: gs =>
    if admits now cmd shell g then some (g, gs)
    else match checkCmd now cmd shell gs with
      | some (m, r) => some (m, g :: r)
      | none => none

inductive Outcome
  | started (g : Option Grant)     -- the grant consumed, `none` for a session admitted by key
  | refused
deriving DecidableEq, Repr

/-- the head of `startCodex`: `if sess.usingAuthGrant { checkCmd … }` -/
def exec (s : Session) (now : Nat) (cmd : List UInt8) (shell : Bool) : Session × Outcome :=
  if s.usingGrant then
    match checkCmd now cmd shell s.actions with
    | some (g, rest) => ({ s with actions := rest }, .started (some g))
    | none => (s, .refused)
  else (s, .started none)

/-! ### tube dispatch of `hopSession.start` -/

inductive Handler
  | codex        -- startCodex: consults the grants
  | acmeNoop     -- exec tube while the only remaining grant is an Acme grant: nothing happens
  | agc          -- handleAgc: serves intent communications (issues further grants)
  | pfControl    -- startPF
  | pf           -- handlePF
  | winSize      -- startSizeTube
  | close        -- tube closed, nothing served
deriving DecidableEq, Repr

def tExec : Nat := 1
def tAuthGrant : Nat := 2
def tPrincipalProxy : Nat := 3
def tUserAuth : Nat := 4
def tPFControl : Nat := 5
def tPF : Nat := 6
def tWinSize : Nat := 7

def dispatch (s : Session) (ttype : Nat) (reliable : Bool) : Handler :=
  if reliable then
    if ttype = tExec then
      (match s.actions with
       | [g] => if g.gtype = gAcme then .acmeNoop else .codex
       | _ => .codex)
    else if ttype = tAuthGrant then .agc
    else if ttype = tPFControl then .pfControl
    else if ttype = tPF then .pf
    else if ttype = tWinSize then .winSize
    else .close
  else
    if ttype = tPF then .pf else .close

/-- which handlers look at the session's grants before serving -/
def Handler.consultsGrants : Handler → Bool
  | .codex => true
  | _ => false

/-! ### `checkIntent` (target-side policy for issuing a grant from within a session) -/

structure IntentReq where
  gtype : Nat
  exp : Nat          -- seconds
  user : List UInt8
  leafFormatOk : Bool   -- `certs.VerifyLeafFormat(&intent.DelegateCert, …)`
deriving DecidableEq, Repr

def checkIntent (s : Session) (now : Nat) (i : IntentReq) : Bool :=
  !decide (i.exp * ns < now) && i.user == s.user && i.leafFormatOk &&
    (i.gtype == gShell || i.gtype == gCommand || i.gtype == gLocalPF || i.gtype == gRemotePF)

/-! ### whole-server histories -/

inductive Op
  | grant (g : Grant)
  | login (u : List UInt8) (k : Nat)        -- key not in authorized_keys: grant branch
  | loginKey (u : List UInt8) (k : Nat)     -- key in authorized_keys: session without grants
  | exec (sess : Nat) (now : Nat) (cmd : List UInt8) (shell : Bool)
  | tube (sess : Nat) (ttype : Nat) (reliable : Bool)
  /-- the session opens an authorization-grant tube and communicates an intent for grant `g`
  (`handleAgc` → `StartTargetInstance` with `checkIntent` and `AddAuthGrant`) -/
  | issue (sess : Nat) (now : Nat) (g : Grant) (leafOk : Bool)
deriving DecidableEq, Repr

/-- something a session got served -/
structure Served where
  user : List UInt8
  key : Nat
  usingGrant : Bool
  handler : Handler
  now : Nat
  cmd : List UInt8
  shell : Bool
  grant : Option Grant        -- the grant consumed for it
deriving DecidableEq, Repr

structure World where
  server : Server
  sessions : List Session
  served : List Served
  issued : List Grant         -- every grant ever stored through `AddAuthGrant`, in order
deriving DecidableEq, Repr

def World.empty : World := ⟨Server.empty, [], [], []⟩

/-- run `exec` on session number `i` -/
def execAt (now : Nat) (cmd : List UInt8) (shell : Bool) :
    List Session → Nat → List Session × Option (Session × Outcome)
  | [], _ => ([], none)
  | s :: ss, 0 => ((exec s now cmd shell).1 :: ss, some (s, (exec s now cmd shell).2))
  | s :: ss, i + 1 => (s :: (execAt now cmd shell ss i).1, (execAt now cmd shell ss i).2)

def stepW (w : World) : Op → World
  | .grant g => { w with server := addGrant w.server g, issued := w.issued ++ [g] }
  | .login u k =>
    match (login w.server u k).2 with
    | some s => { w with server := (login w.server u k).1, sessions := w.sessions ++ [s] }
    | none => w
  | .loginKey u k => { w with sessions := w.sessions ++ [⟨false, [], u, k⟩] }
  | .exec i now cmd shell =>
    match execAt now cmd shell w.sessions i with
    | (ss, some (s, .started g)) =>
      { w with sessions := ss,
               served := w.served ++ [⟨s.user, s.key, s.usingGrant, .codex, now, cmd, shell, g⟩] }
    | (_, _) => w
  | .tube i ttype reliable =>
    match w.sessions[i]? with
    | some s =>
      let h := dispatch s ttype reliable
      if h = .close ∨ h = .acmeNoop ∨ h = .codex then w   -- exec goes through `Op.exec`
      else { w with served := w.served ++ [⟨s.user, s.key, s.usingGrant, h, 0, [], false, none⟩] }
    | none => w
  | .issue i now g leafOk =>
    match w.sessions[i]? with
    | some s =>
      if checkIntent s now ⟨g.gtype, g.exp, g.user, leafOk⟩ then
        { w with server := addGrant w.server g, issued := w.issued ++ [g],
                 served := w.served ++ [⟨s.user, s.key, s.usingGrant, .agc, now, [], false, none⟩] }
      else w
    | none => w

def runW (w : World) (ops : List Op) : World := ops.foldl stepW w

end Grants
