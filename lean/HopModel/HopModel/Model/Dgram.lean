/-
Slice-level transcription of the certificate-vector parsing that every handshake reader runs on
attacker-controlled (decrypted) bytes: `readVector` and `DecryptCertificates`
(`transport/handshake.go`, `transport/duplex.go`), in the Go-slice semantics of
`Base/GoSlice.lean`.  The decrypted bytes are arbitrary: whatever the duplex makes of the
ciphertext an adversary sent.
-/
import HopModel.Base.GoSlice
namespace Dgram
open GoSlice

/-- `readVector(src)`: (vecLen, src[2:2+vecLen]) -/
def readVector (src : GoSlice) : Outcome (Nat × GoSlice) :=
  if src.len < 2 then .err else
  match src.index 0, src.index 1 with
  | .ok b0, .ok b1 =>
    let vecLen := b0.toNat * 256 + b1.toNat
    if src.len < 2 + vecLen then .err else
    match src.slice 2 (2 + vecLen) with
    | .ok v => .ok (vecLen, v)
    | .err => .err
    | .panic => .panic
  | _, _ => .panic

/-- `DecryptCertificates` after the duplex produced `plain` (same length as the ciphertext):
returns the lengths of the two vectors -/
def decryptCertificates (plain : List UInt8) : Outcome (Nat × Nat) :=
  let out := GoSlice.ofBytes plain
  match readVector out with
  | .panic => .panic
  | .err => .err
  | .ok (leafLen, _) =>
    match out.sliceFrom (2 + leafLen) with
    | .panic => .panic
    | .err => .err
    | .ok x =>
      match readVector x with
      | .panic => .panic
      | .err => .err
      | .ok (intermediateLen, _) =>
        if leafLen + intermediateLen + 4 ≠ plain.length then .err else .ok (leafLen, intermediateLen)

end Dgram
