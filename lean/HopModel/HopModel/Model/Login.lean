import HopModel.Model.AuthKeys
/-
Model of the server side of user login (C05): `HopServer.AddAuthGrant` (hopserver/hopserver.go),
`HopServer.AuthorizeKeyAuthGrant` (hopserver/target.go), `AuthgrantMapSync.AddAuthGrant` /
`RemoveAuthgrants` (authgrants/authgrants.go), `SyncAuthKeySet.AddKey` / `RemoveKey`
(authkeys/verify.go) and the decision of `hopSession.checkAuthorization` (hopserver/session.go).

The Go grant map `user -> key -> []Authgrant` is represented by the insertion-ordered list of
`(user, key, grant)` triples: the entry for `(user, key)` exists iff some triple carries that
pair, its slice is the grants of those triples in order (entries are only ever created by
appending a grant and deleted as a whole).  A grant's content is opaque here (C07 is about it).
-/
namespace Login
open AuthKeys

abbrev Grant := Nat

structure State where
  /-- `config.EnableAuthgrants` -/
  agEnabled : Bool
  grants : List (User × Key × Grant)
  /-- the transport layer's set of keys allowed to complete a handshake -/
  keySet : List Key
  deriving Repr

def init (agEnabled : Bool) : State := { agEnabled, grants := [], keySet := [] }

def isFor (u : User) (k : Key) (e : User × Key × Grant) : Bool := e.1 == u && e.2.1 == k

/-- `agMap[user][key]` (empty: no entry) -/
def grantsFor (s : State) (u : User) (k : Key) : List Grant :=
  (s.grants.filter (isFor u k)).map (·.2.2)

/-- `HopServer.AddAuthGrant` for an intent naming `u` and a delegate certificate with key `k` -/
def addGrant (s : State) (u : User) (k : Key) (g : Grant) : Bool × State :=
  if !s.agEnabled then (false, s)
  else (true, { s with grants := s.grants ++ [(u, k, g)],
                       keySet := if s.keySet.contains k then s.keySet else k :: s.keySet })

/-- `delete(ags, key)` and `keyStore.RemoveKey(key)` -/
def consume (s : State) (u : User) (k : Key) : State :=
  { s with grants := s.grants.filter (fun e => !isFor u k e),
           keySet := s.keySet.filter (fun k' => !(k' == k)) }

/-- `HopServer.AuthorizeKeyAuthGrant`: the grants of `(u, k)` are removed and returned, and the key
leaves the transport key set; error when disabled or when there is no entry -/
def useGrants (s : State) (u : User) (k : Key) : Option (List Grant) × State :=
  if s.agEnabled then
    if grantsFor s u k = [] then (none, s)
    else (some (grantsFor s u k), consume s u k)
  else (none, s)

inductive Outcome
  | listed
  | granted (gs : List Grant)
  | rejected
  deriving Repr, DecidableEq

/-- decision of `checkAuthorization` for user name `u` and authenticated client key `k`:
authorized keys first; otherwise grants iff enabled, consuming them -/
def login (s : State) (fs : User → FileState) (u : User) (k : Key) : Outcome × State :=
  if authorizeKey fs u k = .ok then (.listed, s)
  else if s.agEnabled then
    match useGrants s u k with
    | (some gs, s') => (.granted gs, s')
    | (none, s') => (.rejected, s')
  else (.rejected, s)

/-! ### histories -/

inductive Op
  | addGrant (u : User) (k : Key) (g : Grant)
  | useGrants (u : User) (k : Key)
  | login (fs : User → FileState) (u : User) (k : Key)

def step (s : State) : Op → State
  | .addGrant u k g => (addGrant s u k g).2
  | .useGrants u k => (useGrants s u k).2
  | .login fs u k => (login s fs u k).2

def run (s : State) (h : List Op) : State := h.foldl step s

end Login
