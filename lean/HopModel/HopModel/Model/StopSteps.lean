/-
Small-step model of the wait-for structure of `Muxer.Stop` (tubes/muxer.go), started at the moment
the elected owner has published `muxerStopping`, spawned one closer goroutine per tube
(`closeTubeHelper`: `Close()` then `WaitForClose()`) and armed the `muxerTimeout` force timer.

All tubes are alike, so they are counted per stage:
  live     tubes whose close handshake has not finished (their closer waits in Close/WaitForClose)
  marked   tubes inside `enterClosedState` (state already `closed`), waiting on `sendDone`: the tube's
           sender goroutine must hand its last frames to the Muxer sender
  closed   tubes whose `closed` channel is closed; the closer goroutine has not yet called wg.Done
Who waits on what, and who releases it:
  closer           waits for the tube's `closed`      released by: the peer (graceful), or the force timer
  enterClosedState waits for `sendDone`               released by: the Muxer sender taking frames — which
                                                       needs the transport write to return: always, unless
                                                       the transport is `stuck`; then by `underlying.Close()`
  owner            waits for all closers (wg.Wait), then closes the queues, waits for `senderErr`
                   (or the sender timer, which closes the transport), closes the transport, waits for
                   `receiverErr`, closes `stopped`
  Muxer sender     ends when the queues are closed and its write is not stuck
  Muxer receiver   ends when the transport is closed
Timers: `force` (muxerTimeout after Stop starts; closes the transport, then forces every tube),
`senderTimer` (muxerTimeout after the queues are closed).
-/
namespace StopSteps

inductive Timer where
  | pending | fired
  deriving DecidableEq, Repr

inductive Owner where
  | waitTubes | queuesClosed | gotSender | waitReceiver | done
  deriving DecidableEq, Repr

structure SS where
  live : Nat
  marked : Nat
  closed : Nat
  force : Timer
  underlyingClosed : Bool
  /-- transport writes block until the transport is closed (a constant of the run) -/
  stuck : Bool
  owner : Owner
  /-- `none`: not armed; `some false`: pending; `some true`: fired -/
  senderTimer : Option Bool
  muxSender : Bool
  receiver : Bool
  deriving DecidableEq, Repr

def init (tubes : Nat) (stuck : Bool) : SS :=
  ⟨tubes, 0, 0, .pending, false, stuck, .waitTubes, none, true, true⟩

/-- the transport accepts (or fails) a write: the Muxer sender makes progress -/
def SS.writable (s : SS) : Bool := !s.stuck || s.underlyingClosed

inductive Step : SS → SS → Prop
  /-- a tube finishes its close handshake with the peer (may never happen: loss, dead network) -/
  | peerClose (s) : 0 < s.live → Step s { s with live := s.live - 1, marked := s.marked + 1 }
  /-- the force timer: nothing if Stop is already past wg.Wait, else close the transport -/
  | forceFire (s) : s.force = .pending →
      Step s { s with force := .fired,
                      underlyingClosed := if s.owner = .waitTubes then true else s.underlyingClosed }
  | forceTube (s) : s.force = .fired → s.owner = .waitTubes → 0 < s.live →
      Step s { s with live := s.live - 1, marked := s.marked + 1 }
  /-- the tube's sender hands over its last frames: `sendDone`, then `closed` is closed -/
  | drain (s) : 0 < s.marked → s.writable = true →
      Step s { s with marked := s.marked - 1, closed := s.closed + 1 }
  | closerDone (s) : 0 < s.closed → Step s { s with closed := s.closed - 1 }
  /-- wg.Wait returns: state := stopped, the three queues are closed, the sender timer is armed -/
  | ownerQueues (s) : s.owner = .waitTubes → s.live = 0 → s.marked = 0 → s.closed = 0 →
      Step s { s with owner := .queuesClosed, senderTimer := some false }
  | senderEnd (s) : s.muxSender = true → s.owner ≠ .waitTubes → s.writable = true →
      Step s { s with muxSender := false }
  | senderTimerFire (s) : s.senderTimer = some false → s.owner = .queuesClosed →
      Step s { s with senderTimer := some true, underlyingClosed := true }
  | ownerGotSender (s) : s.owner = .queuesClosed → s.muxSender = false →
      Step s { s with owner := .gotSender }
  | ownerCloseTransport (s) : s.owner = .gotSender →
      Step s { s with owner := .waitReceiver, underlyingClosed := true }
  | receiverEnd (s) : s.receiver = true → s.underlyingClosed = true →
      Step s { s with receiver := false }
  | ownerDone (s) : s.owner = .waitReceiver → s.receiver = false →
      Step s { s with owner := .done }

inductive Reach (tubes : Nat) (stuck : Bool) : SS → Prop
  | init : Reach tubes stuck (init tubes stuck)
  | step {s s' : SS} : Reach tubes stuck s → Step s s' → Reach tubes stuck s'

def ownerRank : Owner → Nat
  | .waitTubes => 8 | .queuesClosed => 6 | .gotSender => 4 | .waitReceiver => 2 | .done => 0

/-- the number of steps that can still happen is bounded by this measure -/
def measure (s : SS) : Nat :=
  3 * s.live + 2 * s.marked + s.closed + (if s.force = .pending then 1 else 0) + ownerRank s.owner
    + (if s.senderTimer = some false then 1 else 0) + (if s.muxSender then 1 else 0)
    + (if s.receiver then 1 else 0)

/-- timer expiries among the steps -/
def isTimerStep : SS → SS → Prop := fun s s' =>
  (s.force = .pending ∧ s'.force = .fired) ∨ (s.senderTimer = some false ∧ s'.senderTimer = some true)

end StopSteps
