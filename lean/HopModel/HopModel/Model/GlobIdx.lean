/-
Index-level transcription of the loop in `pkg/glob/glob.go` (`Glob`): two cursors, the position of
the last `*` and the input position it was tried at.  Every index expression stands under the bound
check that guards it in the Go code (`i < len(pattern) && pattern[i] == …`, loop condition
`j < len(input)`), so that the definition type-checks only because no index can be out of range;
termination is proved by the measure (stars still ahead, input positions the current star can
still try, input left).

`Proofs/GlobIdx.lean` shows it computes `Glob.glob` — hence (C20) the declarative relation.
-/
import HopModel.Model.Glob
namespace Glob

/-- `for i < len(pattern) && pattern[i] == '*' { i++ }; return i == len(pattern)` -/
def skipStars (p : List B) (i : Nat) : Bool :=
  if h : i < p.length then
    if p[i] = star then skipStars p (i + 1) else false
  else true
termination_by p.length - i

/-- rank of the star cursor: 0 for "no star yet" (-1 in Go), position + 1 otherwise -/
def starRank : Option Nat → Nat
  | none => 0
  | some t => t + 1

/-- the main loop; `star = none` is Go's `star = -1`.  The three invariants are what the
termination argument needs and are maintained by every branch. -/
def idxLoop (p s : List B) (i j : Nat) (st : Option Nat) (mark : Nat)
    (hst : starRank st ≤ i) (hm : mark ≤ j) (hi : i ≤ p.length) : Bool :=
  if hj : j < s.length then
    if h1 : i < p.length then
      if p[i] = star then
        idxLoop p s (i + 1) j (some i) j (by simp [starRank]) (Nat.le_refl _) h1
      else if p[i] = s[j] then
        idxLoop p s (i + 1) (j + 1) st mark (by omega) (by omega) h1
      else
        match hs : st with
        | some t => idxLoop p s (t + 1) (mark + 1) (some t) (mark + 1) (by simp [starRank]) (Nat.le_refl _)
                      (by simp [starRank] at hst; omega)
        | none => false
    else
      match hs : st with
      | some t => idxLoop p s (t + 1) (mark + 1) (some t) (mark + 1) (by simp [starRank]) (Nat.le_refl _)
                    (by simp [starRank] at hst; omega)
      | none => false
  else skipStars p i
termination_by (p.length + 1 - starRank st, s.length - mark, s.length - j)
decreasing_by
  all_goals simp_wf
  · -- new star at i
    apply Prod.Lex.left
    have h2 : starRank (some i) = i + 1 := rfl
    rw [h2]; omega
  · -- literal matched: j advances
    apply Prod.Lex.right
    apply Prod.Lex.right
    omega
  · -- backtrack: the star absorbs one more byte
    subst hs
    apply Prod.Lex.right
    apply Prod.Lex.left
    omega
  · subst hs
    apply Prod.Lex.right
    apply Prod.Lex.left
    omega

/-- `glob.Glob(pattern, input)` as the code computes it -/
def globIdx (p s : List B) : Bool := idxLoop p s 0 0 none 0 (by simp [starRank]) (Nat.le_refl _) (Nat.zero_le _)

end Glob
