/-
The hidden-mode timestamp check of `readPQClientRequestHidden` on 64-bit machine integers:

    timeBytes := binary.BigEndian.Uint64(…)            // uint64, chosen by whoever made the request
    now := time.Now().Unix()                            // int64
    if timeBytes > uint64(now) || now-int64(timeBytes) > HiddenModeTimestampExpiration { reject }

`uint64(now)` and `int64(timeBytes)` reinterpret the same 64 bits; `>` on the left is unsigned, the
subtraction wraps and `>` on the right is signed.  `Model/Handshake.lean` accepts exactly this
condition text from the translator (`hiddenTimeCond`).
-/
namespace TimeWindow

def expiration : Nat := 5

/-- the request is rejected -/
def rejects (ts now : BitVec 64) : Bool :=
  now.ult ts || (BitVec.ofNat 64 expiration).slt (now - ts)

/-- what the property wants: the stamp is not in the future and at most `expiration` seconds old -/
def fresh (ts now : Nat) : Prop := ts ≤ now ∧ now - ts ≤ expiration

/-- the seeded variant with both sides converted to int64 first (all comparisons signed) -/
def rejectsSigned (ts now : BitVec 64) : Bool :=
  now.slt ts || (BitVec.ofNat 64 expiration).slt (now - ts)

end TimeWindow
