/-
Small-step model of the lifecycle elections of `transport.Client` (transport/client.go):
`Handshake` and `Close` called by any number of threads in any interleaving.

  state          the atomic `Client.state`
  hsDone         `handshakeDone` is closed
  closeErr       `Client.closeErr` (`none` = not stored yet; the stored value is the result of
                 `underlyingConn.Close()`, chosen by the environment)
  closeDone      `closeDone` is closed
  hsRuns         ghost: how often the handshake body `clientHandshakeLocked` was started
  owner          ghost: the thread elected by Close's compare-and-swap

One `Step` = one atomic action: a load of `state` with the following compare-and-swap (a failed
CAS just retries the loop, so load+CAS is one step), the store of `closeErr`, the close of a
completion channel, or the wake-up of a waiter.  `transport.Server.Close` has the same shape
(states ready/serving/closing/closed, the CAS taken under `lifecycleMu`, `closeDone`/`closeErr`),
i.e. it is this model with `created`≙ready, `opened`≙serving and no handshake.
-/
namespace Lifecycle

inductive CSt where
  | created | handshaking | opened | failed | closing | closed
  deriving DecidableEq, Repr

inductive HsRes where
  | ok | err | eof
  deriving DecidableEq, Repr

inductive PC where
  | idle
  | hsRunning                    -- elected: runs clientHandshakeLocked
  | hsWaiting                    -- <-c.handshakeDone
  | hsRet (r : HsRes)            -- Handshake returned r
  | closeElected (prev : CSt)    -- won the CAS to closing; closeErr not stored yet
  | closeStored (prev : CSt) (v : Nat)  -- closeErr stored; waits for handshakeDone if prev = handshaking
  | closeWaiting                 -- <-c.closeDone
  | closeRet (v : Nat)           -- Close returned v
  deriving DecidableEq, Repr

structure LS where
  state : CSt
  hsDone : Bool
  closeErr : Option Nat
  closeDone : Bool
  hsRuns : Nat
  owner : Option Nat
  pc : Nat → PC

def upd (f : Nat → PC) (t : Nat) (p : PC) : Nat → PC := fun u => if u = t then p else f u

def init : LS := ⟨.created, false, none, false, 0, none, fun _ => .idle⟩

def isClosing (s : CSt) : Bool := s = .closing || s = .closed

/-- what a Handshake caller returns when it finds the handshake finished -/
def hsResult : CSt → HsRes
  | .opened => .ok
  | .failed => .err
  | _ => .eof

/-- the CAS at the end of the handshake: handshaking→opened / handshaking→failed; no effect if
Close has taken the state -/
def finishState (st : CSt) (success : Bool) : CSt :=
  if st = .handshaking then (if success then .opened else .failed) else st

inductive Step : LS → Nat → LS → Prop
  -- Handshake
  | hsElect (s t) : s.pc t = .idle → s.state = .created →
      Step s t { s with state := .handshaking, hsRuns := s.hsRuns + 1, pc := upd s.pc t .hsRunning }
  | hsWait (s t) : s.pc t = .idle → s.state = .handshaking →
      Step s t { s with pc := upd s.pc t .hsWaiting }
  | hsFast (s t) : s.pc t = .idle → s.state ≠ .created → s.state ≠ .handshaking →
      Step s t { s with pc := upd s.pc t (.hsRet (hsResult s.state)) }
  /-- the elected caller finishes: CAS handshaking→opened (success) or →failed (error); if Close
  has taken the state meanwhile the CAS fails and the caller reports end-of-stream -/
  | hsFinish (s t) (success : Bool) : s.pc t = .hsRunning →
      Step s t { s with state := finishState s.state success, hsDone := true,
                        pc := upd s.pc t (.hsRet (hsResult (finishState s.state success))) }
  | hsWake (s t) : s.pc t = .hsWaiting → s.hsDone = true →
      Step s t { s with pc := upd s.pc t (.hsRet (hsResult s.state)) }
  -- Close
  | closeElect (s t) : s.pc t = .idle → isClosing s.state = false →
      Step s t { s with state := .closing, owner := some t, pc := upd s.pc t (.closeElected s.state) }
  | closeJoin (s t) : s.pc t = .idle → isClosing s.state = true →
      Step s t { s with pc := upd s.pc t .closeWaiting }
  | closeStore (s t prev) (v : Nat) : s.pc t = .closeElected prev →
      Step s t { s with closeErr := some v, pc := upd s.pc t (.closeStored prev v) }
  /-- after waiting for the handshake (if one was running) and the workers: publish -/
  | closePublish (s t prev v) : s.pc t = .closeStored prev v → (prev = .handshaking → s.hsDone = true) →
      Step s t { s with state := .closed, closeDone := true, pc := upd s.pc t (.closeRet v) }
  | closeWake (s t) (v : Nat) : s.pc t = .closeWaiting → s.closeDone = true → s.closeErr = some v →
      Step s t { s with pc := upd s.pc t (.closeRet v) }
  -- a returned call ends
  | hsReturn (s t r) : s.pc t = .hsRet r → Step s t { s with pc := upd s.pc t .idle }

inductive Reach : LS → Prop
  | init : Reach init
  | step {s s' : LS} (t : Nat) : Reach s → Step s t s' → Reach s'

end Lifecycle
