/-
Model of the authorized-keys path of user login (C05):

* `parseKey`            — `keys.ParseDHPublicKey` (keys/dh.go): prefix `hop-dh-v1-`, then
                          `base64.StdEncoding.DecodeString`, then exactly 32 bytes;
* `b64Decode`           — `encoding/base64` StdEncoding, non-strict: `\r` and `\n` are skipped anywhere,
                          quanta of four symbols, `=` padding mandatory and only at the end, nothing may
                          follow the padding, unused trailing bits are ignored;
* `scanLines`           — `bufio.Scanner` with `bufio.ScanLines` and the default 64 KiB token limit: lines
                          end at `\n`, one trailing `\r` is dropped, a final line needs no newline, and a
                          line of 65536 or more bytes stops the scan silently (ParseAuthorizedKeys never
                          looks at `Scanner.Err`);
* `trimSpace`           — `strings.TrimSpace`: leading and trailing Unicode White_Space runes are removed;
                          a rune is recognised exactly when the bytes are its (shortest) UTF-8 encoding,
                          invalid UTF-8 decodes to U+FFFD which is not a space;
* `parseAuthorizedKeys` — `core.ParseAuthorizedKeys`: trimmed blank lines are skipped, the first line that
                          is not a key aborts the whole parse with an error;
* `authorizeKey`        — `HopServer.AuthorizeKey` (hopserver/hopserver.go): user lookup, open, parse,
                          membership.  A file that does not parse is an error (the property's demand).

Bytes are `List UInt8`; only Lean core is imported.
-/
namespace AuthKeys

abbrev Bytes := List UInt8
/-- a DH public key: 32 bytes whenever it comes out of `parseKey` -/
abbrev Key := Bytes
abbrev User := Bytes

/-- `keys.DHPublicKeyPrefix` = "hop-dh-v1-" -/
def keyPrefix : Bytes := [104, 111, 112, 45, 100, 104, 45, 118, 49, 45]

/-! ### base64 (StdEncoding) -/

/-- value of a symbol of the standard alphabet `A–Z a–z 0–9 + /` -/
def b64Val (c : UInt8) : Option Nat :=
  if 65 ≤ c ∧ c ≤ 90 then some (c.toNat - 65)
  else if 97 ≤ c ∧ c ≤ 122 then some (c.toNat - 71)
  else if 48 ≤ c ∧ c ≤ 57 then some (c.toNat + 4)
  else if c = 43 then some 62
  else if c = 47 then some 63
  else none

/-- `=` -/
def pad : UInt8 := 61

def quantumVal (a b c d : Nat) : Nat := a * 262144 + b * 4096 + c * 64 + d

def byte0 (v : Nat) : UInt8 := UInt8.ofNat (v / 65536 % 256)
def byte1 (v : Nat) : UInt8 := UInt8.ofNat (v / 256 % 256)
def byte2 (v : Nat) : UInt8 := UInt8.ofNat (v % 256)

/-- `decodeQuantum` repeated, on input from which `\r`/`\n` were already removed -/
def decodeQuanta : Bytes → Option Bytes
  | [] => some []
  | a :: b :: c :: d :: rest =>
    match b64Val a, b64Val b with
    | some va, some vb =>
      if c = pad then
        -- "xx==" : a second pad must follow and end the input
        if d = pad ∧ rest = [] then some [byte0 (quantumVal va vb 0 0)] else none
      else
        match b64Val c with
        | none => none
        | some vc =>
          if d = pad then
            -- "xxx=" : must end the input
            if rest = [] then
              some [byte0 (quantumVal va vb vc 0), byte1 (quantumVal va vb vc 0)]
            else none
          else
            match b64Val d with
            | none => none
            | some vd =>
              match decodeQuanta rest with
              | none => none
              | some out =>
                some (byte0 (quantumVal va vb vc vd) :: byte1 (quantumVal va vb vc vd)
                      :: byte2 (quantumVal va vb vc vd) :: out)
    | _, _ => none
  -- one to three symbols left: StdEncoding requires padding
  | _ => none

def isNewline (c : UInt8) : Bool := c == 10 || c == 13

def b64Decode (s : Bytes) : Option Bytes :=
  decodeQuanta (s.filter fun c => !isNewline c)

/-! ### keys.ParseDHPublicKey -/

def hasPrefix : Bytes → Bytes → Bool
  | [], _ => true
  | _ :: _, [] => false
  | p :: ps, c :: cs => p == c && hasPrefix ps cs

def parseKey (line : Bytes) : Option Key :=
  if hasPrefix keyPrefix line then
    match b64Decode (line.drop keyPrefix.length) with
    | none => none
    | some b => if b.length = 32 then some b else none
  else none

/-! ### strings.TrimSpace -/

def isAsciiSpace (b : UInt8) : Bool :=
  b == 9 || b == 10 || b == 11 || b == 12 || b == 13 || b == 32

/-- number of bytes of the White_Space rune encoded at the head of `l` (0: none).
U+0085 U+00A0 | U+1680 | U+2000–U+200A U+2028 U+2029 U+202F | U+205F | U+3000 -/
def wsHead (l : Bytes) : Nat :=
  match l with
  | [] => 0
  | b :: t =>
    if isAsciiSpace b then 1
    else if b = 0xC2 then
      match t with
      | c :: _ => if c = 0x85 ∨ c = 0xA0 then 2 else 0
      | _ => 0
    else if b = 0xE1 then
      match t with
      | c :: d :: _ => if c = 0x9A ∧ d = 0x80 then 3 else 0
      | _ => 0
    else if b = 0xE2 then
      match t with
      | c :: d :: _ =>
        if c = 0x80 ∧ ((0x80 ≤ d ∧ d ≤ 0x8A) ∨ d = 0xA8 ∨ d = 0xA9 ∨ d = 0xAF) then 3
        else if c = 0x81 ∧ d = 0x9F then 3 else 0
      | _ => 0
    else if b = 0xE3 then
      match t with
      | c :: d :: _ => if c = 0x80 ∧ d = 0x80 then 3 else 0
      | _ => 0
    else 0

/-- the same for the *end* of a string, given reversed (`r = last :: before-last :: …`) -/
def wsLast (r : Bytes) : Nat :=
  match r with
  | [] => 0
  | z :: t =>
    if isAsciiSpace z then 1
    else
      match t with
      | [] => 0
      | y :: t' =>
        if y = 0xC2 ∧ (z = 0x85 ∨ z = 0xA0) then 2
        else
          match t' with
          | [] => 0
          | x :: _ =>
            if x = 0xE1 ∧ y = 0x9A ∧ z = 0x80 then 3
            else if x = 0xE2 ∧ y = 0x80 ∧ ((0x80 ≤ z ∧ z ≤ 0x8A) ∨ z = 0xA8 ∨ z = 0xA9 ∨ z = 0xAF) then 3
            else if x = 0xE2 ∧ y = 0x81 ∧ z = 0x9F then 3
            else if x = 0xE3 ∧ y = 0x80 ∧ z = 0x80 then 3
            else 0

def stripAux (w : Bytes → Nat) : Nat → Bytes → Bytes
  | 0, l => l
  | n + 1, l => if w l = 0 then l else stripAux w n (l.drop (w l))

def trimLeft (l : Bytes) : Bytes := stripAux wsHead l.length l
def trimRight (l : Bytes) : Bytes := (stripAux wsLast l.length l.reverse).reverse
def trimSpace (l : Bytes) : Bytes := trimRight (trimLeft l)

/-! ### bufio.Scanner / ScanLines -/

/-- `bufio.MaxScanTokenSize` -/
def maxTok : Nat := 65536

/-- split at the first `\n`: the bytes before it and, if there was one, the bytes after it -/
def splitNL (acc : Bytes) : Bytes → Bytes × Option Bytes
  | [] => (acc.reverse, none)
  | b :: t => if b = 10 then (acc.reverse, some t) else splitNL (b :: acc) t

def dropCR (l : Bytes) : Bytes := if l.getLast? = some 13 then l.dropLast else l

def scanLinesAux : Nat → Bytes → List Bytes
  | 0, _ => []
  | n + 1, data =>
    if data = [] then []
    else
      match splitNL [] data with
      | (line, some rest) => if maxTok ≤ line.length then [] else dropCR line :: scanLinesAux n rest
      | (line, none) => if maxTok ≤ line.length then [] else [dropCR line]

/-- the tokens `Scanner.Scan`/`Text` deliver for a file with content `data` -/
def scanLines (data : Bytes) : List Bytes := scanLinesAux (data.length + 1) data

/-! ### core.ParseAuthorizedKeys -/

def parseLines : List Bytes → Option (List Key)
  | [] => some []
  | l :: rest =>
    if trimSpace l = [] then parseLines rest
    else
      match parseKey (trimSpace l) with
      | none => none
      | some k =>
        match parseLines rest with
        | none => none
        | some ks => some (k :: ks)

def parseAuthorizedKeys (data : Bytes) : Option (List Key) := parseLines (scanLines data)

/-! ### HopServer.AuthorizeKey -/

/-- what the server finds for a user: `thunks.LookupUser` fails; the file cannot be opened; it opens
but cannot be read (e.g. a directory — the scanner then sees no data); or it has a content -/
inductive FileState
  | noUser
  | missing
  | unreadable
  | content (data : Bytes)
  deriving Repr, DecidableEq

inductive AuthResult
  | ok
  | errLookup
  | errOpen
  | errParse
  | errNotListed
  deriving Repr, DecidableEq

def allowed (ks : List Key) (k : Key) : Bool := ks.contains k

def authorizeData (data : Bytes) (k : Key) : AuthResult :=
  match parseAuthorizedKeys data with
  | none => .errParse
  | some ks => if allowed ks k then .ok else .errNotListed

def authorizeKey (fs : User → FileState) (u : User) (k : Key) : AuthResult :=
  match fs u with
  | .noUser => .errLookup
  | .missing => .errOpen
  | .unreadable => authorizeData [] k
  | .content data => authorizeData data k

end AuthKeys
