/-
Abstract model of the PQ handshake readers of `transport/handshake_pq.go`.

The *programs* are not written here: `Generated/HandshakeOps.lean` holds, for every reader and
writer, the ordered list of duplex operations and checks as the translator finds them in the
source on every run (`HOp`).  This file gives those programs a meaning:

* `classify` maps one `HOp` to what it does to the incoming message and the transcript (`Act`).
  The table is by the Go expression text; an expression it does not know is `Act.unknown`, and
  every theorem about a program containing one fails — a restructured reader is never silently
  accepted.
* `run` interprets a reader on an abstract environment.  Under IdealHash (DESIGN.md §3) the only
  thing that matters about the transcript is whether the receiver's transcript still equals the
  one the sender used (`sync`): absorbing or decrypting an altered field, or a secret the peer
  cannot compute, breaks `sync`; a MAC comparison passes iff `sync` still holds and the MAC field
  itself is unaltered.  `run` says whether the reader reaches its success return.
* `layout` (field kinds in wire order) is derived from the same programs, for readers and
  writers alike.
-/
import HopModel.Base.HOp
namespace Handshake

/-- kinds of message fields -/
inductive FK | hdr | sid | dhEph | kemKey | kemCt | cookie | sni | certs | mac | ts
  deriving DecidableEq, Repr

/-- byte length of a field; `n` = length of the encrypted certificates -/
def FK.size (n : Nat) : FK → Nat
  | .hdr => 4 | .sid => 4 | .dhEph => 32 | .kemKey => 800 | .kemCt => 768 | .cookie => 64
  | .sni => 256 | .certs => n | .mac => 16 | .ts => 8

inductive Act
  | absorbField (k : FK)              -- consumes the next field, absorbs it
  | decryptField (k : FK)             -- consumes the next field, decrypts (and thereby absorbs) it
  | decap                             -- consumes the next field (KEM ciphertext) and decapsulates it
  | absorbKem                         -- absorbs the decapsulated secret
  | absorbEph                         -- absorbs DH(ee): computable by whoever sent the ephemeral
  | absorbStatic                      -- absorbs a DH involving the peer's *certified static* key
  | mac (enforced : Bool)             -- consumes 16 bytes, compares with the squeezed MAC
  | verify (enforced : Bool)          -- certificate policy evaluation
  | cookie (enforced : Bool)          -- opens the cookie and replays the transcript from it
  | time (enforced : Bool)            -- timestamp window
  | setVerify                         -- the configured client-verification policy is attached
  | guard (a b : Nat)                 -- `len(b) < a + b·n → reject`
  | emitMac | emitKemCt | emitField (k : FK)   -- writers
  | skip                              -- no effect on message bytes or transcript agreement
  | unknown                           -- an operation the model has no meaning for
  deriving DecidableEq, Repr

/- The translator renders operands independently of local variable names: views of the message are
`msg[lo:hi]`, a local is replaced by its defining expression (DH / KEM computation, slice of the
message).  What the table below depends on are protocol constants, struct field paths and method
names. -/

def fieldOfAbsorb (arg : String) : Option FK :=
  if arg = "msg[:HeaderLen]" then some .hdr
  else if arg ∈ ["msg[:SessionIDLen]", "hs.sessionID[:]"] then some .sid
  else if arg = "msg[:DHLen]" then some .dhEph
  else if arg ∈ ["msg[:KemKeyLen]", "(*kemRemoteEphemeral).MarshalBinary()"] then some .kemKey
  else if arg ∈ ["msg[:PQCookieLen]", "hs.cookie"] then some .cookie
  else none

def isConstAbsorb (arg : String) : Bool :=
  arg ∈ ["[]byte(PostQuantumProtocolName)", "[]byte(PostQuantumHiddenProtocolName)", "[]byte{…}",
         "[]byte(\"client_to_server_key\")", "[]byte(\"server_to_client_key\")"]

/-- decapsulation of the KEM ciphertext field of the message -/
def isDecap (what : String) : Bool :=
  what ∈ ["hs.kem.ephemeral.Decapsulate(msg[:KemCtLen])", "cert.KEMKeyPair.Decapsulate(msg[:KemCtLen])"]

/-- a KEM shared secret (decapsulated, freshly encapsulated, or recovered from the cookie) -/
def isKemSecret (arg : String) : Bool :=
  isDecap arg || arg ∈ ["keys.Encapsulate(rand.Reader, &hs.kem.remoteEphemeral)",
                        "keys.Encapsulate(rand.Reader, serverKEMPublicKey)", "*out.decryptCookie(msg)"]

/-- DH of the two ephemerals -/
def isEphDH (arg : String) : Bool :=
  arg ∈ ["hs.dh.ephemeral.DH(hs.dh.remoteEphemeral[:])", "hs.dh.ephemeral.Agree(hs.dh.remoteEphemeral[:])"]

/-- a DH in which a *certified static* key takes part: the peer's leaf key, or our own static key -/
def isStaticDH (arg : String) : Bool :=
  arg ∈ ["hs.dh.ephemeral.DH(leaf.PublicKey[:])", "hs.dh.static.Agree(leaf.PublicKey[:])",
         "hs.dh.static.Agree(hs.dh.remoteEphemeral[:])", "c.Exchanger.Agree(hs.dh.remoteStatic[:])",
         "c.Exchanger.Agree(hs.dh.remoteEphemeral[:])"]

/-- the hidden-mode timestamp condition as the translator renders it (`TS` = the 64-bit big-endian
timestamp field, an unsigned number; `NOW` = `time.Now().Unix()`, a signed one).  Its meaning on
64-bit machine integers is `Model/TimeWindow.lean`; any other condition is `Act.unknown`. -/
def hiddenTimeCond : String := "TS > uint64(NOW) || NOW - int64(TS) > HiddenModeTimestampExpiration"

def classify : HOp → Act
  | .lenGuard _ a b => .guard a b
  | .constCheck _ _ => .skip
  | .absorb arg =>
    match fieldOfAbsorb arg with
    | some k => .absorbField k
    | none =>
      if isKemSecret arg then .absorbKem
      else if isEphDH arg then .absorbEph
      else if isStaticDH arg then .absorbStatic
      else if isConstAbsorb arg then .skip
      else .unknown
  | .encrypt arg =>
    if arg = "certs" then .emitField .certs
    else if arg = "SNI" then .emitField .sni
    else if arg = "timeBytes[:]" then .emitField .ts
    else .unknown
  | .decrypt arg _ =>
    if arg ∈ ["msg[:encCertsLen]", "msg[:encryptedCertLen]"] then .decryptField .certs
    else if arg = "msg[:SNILen]" then .decryptField .sni
    else if arg = "msg[:TimestampLen]" then .decryptField .ts
    else .unknown
  | .squeezeOut arg => if arg = "macBuf (not compared)" then .skip else .emitMac
  | .macCheck _ enforced => .mac enforced
  | .verifyCerts enforced => .verify enforced
  | .compute what enforced =>
    if isDecap what then .decap
    else if what = "ReplayPQDuplexFromCookie" then .cookie enforced
    else if what = "Encapsulate" then .emitKemCt
    else if what ∈ ["set certVerify = s.config.ClientVerify", "set certVerify = &c.config.Verify"] then .setVerify
    -- any other assignment to the policy (or to the whole state that holds it) has no meaning here
    else if what.startsWith "set certVerify = " then .unknown
    else .skip
  | .timeCheck cond enforced => if cond = hiddenTimeCond then .time enforced else .unknown
  | .rekey => .skip

/-- the field kinds a program consumes (reader) or produces (writer), in order -/
def layoutOf (prog : List HOp) : List FK :=
  prog.filterMap fun op => match classify op with
    | .absorbField k => some k
    | .decryptField k => some k
    | .decap => some .kemCt
    | .mac _ => some .mac
    | .emitMac => some .mac
    | .emitKemCt => some .kemCt
    | .emitField k => some k
    | _ => none

def known (prog : List HOp) : Bool := prog.all fun op => classify op != .unknown

/-- total length of a message with layout `l` -/
def totalLen (n : Nat) (l : List FK) : Nat := (l.map (FK.size n)).sum

/-- what is true of one incoming message and its sender -/
structure Env where
  /-- bit `i`: the `i`-th field is unaltered (a value the sender computed for *this* handshake) -/
  honest : Nat
  /-- the sender holds the private key of the certificate it presents -/
  possession : Bool
  /-- the configured policy accepts the presented certificates for the expected name now -/
  certOK : Bool
  /-- the cookie was minted by this server under its current key for this address and client key -/
  cookieOK : Bool
  /-- the timestamp lies in the accepted window -/
  timeOK : Bool
  /-- a verification policy is configured on this path before the reader runs -/
  verifySet : Bool

structure St where
  idx : Nat := 0
  sync : Bool := true
  kemOK : Bool := true
  verifySet : Bool
  rejected : Bool := false

def stepAct (env : Env) (s : St) : Act → St
  | .absorbField _ => { s with sync := s.sync && env.honest.testBit s.idx, idx := s.idx + 1 }
  | .decryptField _ => { s with sync := s.sync && env.honest.testBit s.idx, idx := s.idx + 1 }
  | .decap => { s with kemOK := env.honest.testBit s.idx, idx := s.idx + 1 }
  | .absorbKem => { s with sync := s.sync && s.kemOK }
  | .absorbEph => s
  | .absorbStatic => { s with sync := s.sync && env.possession }
  | .mac enforced =>
    let pass := s.sync && env.honest.testBit s.idx
    { s with idx := s.idx + 1, rejected := s.rejected || (enforced && !pass) }
  | .verify enforced =>
    -- with no policy attached `certificateParserAndVerifier` verifies nothing
    let pass := !s.verifySet || env.certOK
    { s with rejected := s.rejected || (enforced && !pass) }
  | .cookie enforced => { s with rejected := s.rejected || (enforced && !env.cookieOK) }
  | .time enforced => { s with rejected := s.rejected || (enforced && !env.timeOK) }
  | .setVerify => { s with verifySet := true }
  | .unknown => { s with rejected := false, sync := true }   -- no claim: theorems require `known`
  | _ => s

def finalSt (acts : List Act) (env : Env) : St := acts.foldl (stepAct env) { verifySet := env.verifySet }

/-- does a reader with these actions reach its success return? -/
def runActs (acts : List Act) (env : Env) : Bool := !(finalSt acts env).rejected

/-- does the reader reach its success return? -/
def run (prog : List HOp) (env : Env) : Bool := runActs (prog.map classify) env

/-- actions that can change the interpreter state (`skip` and length guards cannot) -/
def isCore : Act → Bool
  | .skip => false
  | .guard _ _ => false
  | .emitMac => false
  | .emitKemCt => false
  | .emitField _ => false
  | _ => true

/-- the state-changing actions of a program, in order -/
def coreActs (prog : List HOp) : List Act := (prog.map classify).filter isCore

/-- all fields honest -/
def allHonest (k : Nat) : Nat := 2 ^ k - 1

/-! ### length guards -/

/-- the strongest length guard of a program: `len ≥ a + b·n` is required for all of them -/
def guards (prog : List HOp) : List (Nat × Nat) :=
  prog.filterMap fun op => match classify op with
    | .guard a b => some (a, b)
    | _ => none

/-- bytes of a layout, as `a + b·n` -/
def consumedL : List FK → Nat × Nat
  | [] => (0, 0)
  | .certs :: rest => ((consumedL rest).1, (consumedL rest).2 + 1)
  | k :: rest => ((consumedL rest).1 + k.size 0, (consumedL rest).2)

/-- bytes a reader consumes, as `a + b·n` -/
def consumed (prog : List HOp) : Nat × Nat := consumedL (layoutOf prog)

/-- some guard covers everything the reader consumes, for every certificate length -/
def guardCovers (prog : List HOp) : Bool :=
  let c := consumed prog
  (guards prog).any fun g => decide (c.1 ≤ g.1) && decide (c.2 ≤ g.2)

/-- does a dispatch/begin program compare the reader's return value with the datagram length and
leave on a mismatch, after calling `reader`? -/
def exactLenAfter (dispatch : List HOp) (reader : String) : Bool :=
  -- the comparison must come right after the reader's call: before the next protocol step
  let rec go : List HOp → Bool → Bool
    | [], _ => false
    | .compute w _ :: rest, seen => if seen then false else go rest (w = reader)
    | .constCheck c enf :: rest, seen =>
      if seen && enf && (c = "n != msgLen" ∨ c = "shn != n" ∨ c = "n != len(b)") then true else go rest seen
    | _ :: rest, seen => go rest seen
  go dispatch false

/-! ### order facts about dispatch programs -/

/-- position of the first `compute what` (any enforcement) -/
def firstCompute (prog : List HOp) (what : String) : Option Nat :=
  prog.findIdx? fun op => match op with
    | .compute w _ => w = what
    | _ => false

/-- `b` is computed only after an *enforced* `a` (its failure leaves the function), if at all -/
def onlyAfterEnforced (prog : List HOp) (a b : String) : Bool :=
  match firstCompute prog b with
  | none => true
  | some ib => (prog.take ib).any fun op => match op with
    | .compute w enf => w = a && enf
    | _ => false

/-- `b` is computed only after an enforced check with condition text `c` -/
def onlyAfterCheck (prog : List HOp) (c b : String) : Bool :=
  match firstCompute prog b with
  | none => true
  | some ib => (prog.take ib).any fun op => match op with
    | .constCheck c' enf => c' = c && enf
    | _ => false

def computes (prog : List HOp) (what : String) : Bool := (firstCompute prog what).isSome

/-- the first operation is a length guard of at least 4 bytes -/
def firstGuardAtLeast4 (prog : List HOp) : Bool :=
  match prog.head? with
  | some (.lenGuard _ a _) => decide (4 ≤ a)
  | _ => false

/-- the whole case body is gated by `if !s.config.IsHidden` -/
def gatedByNotHidden (prog : List HOp) : Bool :=
  match prog with
  | .constCheck "!s.config.IsHidden" true :: _ => true
  | [] => true
  | _ => false

/-! ### the certificate policy (`certificateParserAndVerifier`) -/

structure Policy where
  configured : Bool      -- `certVerify != nil`
  skip : Bool            -- InsecureSkipVerify
  authKeys : Bool        -- AuthKeysAllowed
  callback : Bool        -- an additional callback is installed

/-- abstract facts about the presented leaf under that policy -/
structure CertFacts where
  parses : Bool          -- both certificates parse with no trailing bytes
  formatOK : Bool        -- leaf type and name match (VerifyLeafFormat)
  keyListed : Bool       -- the leaf's key is in the authorized-key set
  chainOK : Bool         -- Store.VerifyLeaf succeeds (C04)
  callbackOK : Bool      -- the additional callback accepts

def policyAccepts (p : Policy) (f : CertFacts) : Bool :=
  f.parses &&
  ((!p.configured || p.skip) ||
    (if p.authKeys then (f.formatOK && f.keyListed) || f.chainOK else f.chainOK)) &&
  (!(p.configured && p.callback) || f.callbackOK)

end Handshake
