/-
Keccak-p[1600, nr] over 25 little-endian 64-bit lanes (lane index `x + 5*y`), written from the
specification (FIPS 202 §3.2: θ ρ π χ ι; Keccak-p[1600, nr] performs the *last* `nr` rounds of
Keccak-f[1600], i.e. round indices `24 - nr … 23`).  The Go code has this permutation three times:
`cyclist/keccakf.go` (12 rounds, unrolled), `cyclist/keccakf_amd64.s`, `kravatte/keccakf_amd64.s`
(6 rounds).  This independent implementation is what the D-ties of C12/C13 compare them with; it is
anchored to the XKCP vectors of `cyclist/testdata` and `kravatte/testdata`.

Also: the byte view of a state (`snp.StateAddByte`, `StateAddBytes`, `StateExtractBytes`, and the
identical private helpers of `cyclist.go`): byte `i` of the state is bits `8*(i%8) …` of lane `i/8`.
-/
namespace Keccak

abbrev State := Array UInt64

def zero : State := Array.replicate 25 0

def rc : Array UInt64 := #[
  0x0000000000000001, 0x0000000000008082, 0x800000000000808A, 0x8000000080008000,
  0x000000000000808B, 0x0000000080000001, 0x8000000080008081, 0x8000000000008009,
  0x000000000000008A, 0x0000000000000088, 0x0000000080008009, 0x000000008000000A,
  0x000000008000808B, 0x800000000000008B, 0x8000000000008089, 0x8000000000008003,
  0x8000000000008002, 0x8000000000000080, 0x000000000000800A, 0x800000008000000A,
  0x8000000080008081, 0x8000000000008080, 0x0000000080000001, 0x8000000080008008]

/-- ρ offsets, index `x + 5*y` -/
def rho : Array UInt64 := #[
  0, 1, 62, 28, 27,
  36, 44, 6, 55, 20,
  3, 10, 43, 25, 39,
  41, 45, 15, 21, 8,
  18, 2, 61, 56, 14]

@[inline] def rotl (a : UInt64) (n : UInt64) : UInt64 :=
  (a <<< n) ||| (a >>> (64 - n))   -- shifts are mod 64, so n = 0 gives a

/-- one round with round constant `c` -/
def round (a : State) (c : UInt64) : State :=
  -- θ
  let cx : Array UInt64 := Array.ofFn (n := 5) fun x =>
    a[x.val]! ^^^ a[x.val + 5]! ^^^ a[x.val + 10]! ^^^ a[x.val + 15]! ^^^ a[x.val + 20]!
  let d : Array UInt64 := Array.ofFn (n := 5) fun x =>
    cx[(x.val + 4) % 5]! ^^^ rotl cx[(x.val + 1) % 5]! 1
  let a1 : Array UInt64 := Array.ofFn (n := 25) fun i => a[i.val]! ^^^ d[i.val % 5]!
  -- ρ and π:  B[y, 2x+3y] = rot(A[x, y], r[x, y]); computed per destination lane
  -- destination (X, Y) = (y, (2x+3y) % 5)  ⇒  source x = (X + 3Y) % 5, y = X
  let b : Array UInt64 := Array.ofFn (n := 25) fun i =>
    let X := i.val % 5
    let Y := i.val / 5
    let x := (X + 3 * Y) % 5
    let y := X
    rotl a1[x + 5 * y]! rho[x + 5 * y]!
  -- χ
  let a2 : Array UInt64 := Array.ofFn (n := 25) fun i =>
    let x := i.val % 5
    let y := i.val / 5
    b[i.val]! ^^^ ((~~~ b[(x + 1) % 5 + 5 * y]!) &&& b[(x + 2) % 5 + 5 * y]!)
  -- ι
  a2.set! 0 (a2[0]! ^^^ c)

/-- Keccak-p[1600, nr]: rounds `24 - nr, …, 23` -/
def keccakP (nr : Nat) (a : State) : State :=
  (List.range nr).foldl (fun s i => round s rc[24 - nr + i]!) a

def f12 : State → State := keccakP 12
def f6 : State → State := keccakP 6

/-! ### byte view -/

/-- byte `i` of the state (`byte(s[i/8] >> (8*(i%8)))`) -/
@[inline] def getByte (s : State) (i : Nat) : UInt8 :=
  (s[i / 8]! >>> (UInt64.ofNat (8 * (i % 8)))).toUInt8

/-- `StateAddByte`: xor `b` into byte `off` -/
@[inline] def addByte (s : State) (b : UInt8) (off : Nat) : State :=
  s.set! (off / 8) (s[off / 8]! ^^^ (b.toUInt64 <<< (UInt64.ofNat (8 * (off % 8)))))

/-- `StateAddBytes`: xor `bs` into bytes `off, off+1, …` -/
def addBytesAt (s : State) (bs : List UInt8) (off : Nat) : State :=
  match bs with
  | [] => s
  | b :: t => addBytesAt (addByte s b off) t (off + 1)

def addBytes (s : State) (bs : List UInt8) : State := addBytesAt s bs 0

/-- `StateExtractBytes`: bytes `off … off+n-1` -/
def extractAt (s : State) (off n : Nat) : List UInt8 :=
  (List.range n).map fun i => getByte s (off + i)

def extract (s : State) (n : Nat) : List UInt8 := extractAt s 0 n

/-- `StateAddState` -/
def addState (s t : State) : State :=
  Array.ofFn (n := 25) fun i => s[i.val]! ^^^ t[i.val]!

/-- the state whose first bytes are `bs` (little-endian lanes), rest zero -/
def ofBytes (bs : List UInt8) : State := addBytes zero bs

theorem extractAt_length (s : State) (off n : Nat) : (extractAt s off n).length = n := by
  simp [extractAt]

theorem extract_length (s : State) (n : Nat) : (extract s n).length = n := extractAt_length s 0 n

end Keccak
