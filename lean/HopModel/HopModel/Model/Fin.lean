/-
Model of the shutdown (FIN) state machine of a reliable tube, `tubes/reliable.go`:
`Close`, the two `switch` blocks of `receive` ("Handle ACK of FIN frame", "Handle FIN frame"),
`enterLastAckState`, `enterClosedState`, `receiveInitiatePkt`, the forced close of `Muxer.Stop`,
and of what `Write` / `Read` answer in each state.

Events are what happens under the tube's lifecycle lock `r.l` (each is one critical section):
  initRecv       receiveInitiatePkt on a created tube
  localClose     Reliable.Close()
  ack            a frame with ACK set arrives while no sent frame is unacknowledged
                 (`pkt.flags.ACK && r.sender.unAckedFramesRemaining() == 0`): the ACK of our FIN
  fin            the peer's FIN is processed (`finProcessed`, or a FIN retransmission on a closed receiver)
  ackFin         one frame that is both (the ACK block runs first, then the FIN block)
  ackErr         `sender.recvAck` fails (too many duplicate ACKs): `enterClosedState`, early return
  lastAckTimer   the `time.AfterFunc(4*RTT)` callback armed by `enterLastAckState`
  forceClose     the `muxerTimeout` callback of `Muxer.Stop`: `enterClosedState` on every reliable tube
-/
namespace Fin

inductive St where
  | created | initiated | closeWait | lastAck | finWait1 | finWait2 | closing | closed
  deriving DecidableEq, Repr

inductive Ev where
  | initRecv | localClose | ack | fin | ackFin | ackErr | lastAckTimer | forceClose
  deriving DecidableEq, Repr

/-- what the call behind an event returns to its caller (only `localClose` has a caller-visible
result; `bad` = ErrBadTubeState, which `receive` also returns in created/closed) -/
inductive Ret where
  | ok | eof | bad | none
  deriving DecidableEq, Repr

structure T where
  st : St
  /-- the lastAck timer is pending (armed by `enterLastAckState`, stopped by `enterClosedState`) -/
  timer : Bool
  deriving DecidableEq, Repr

def T.init : T := ⟨.created, false⟩

/-- `enterClosedState` -/
def T.enterClosed (_ : T) : T := ⟨.closed, false⟩

/-- the "Handle ACK of FIN frame" switch -/
def ackStep (t : T) : T :=
  match t.st with
  | .finWait1 => { t with st := .finWait2 }
  | .closing => t.enterClosed
  | .lastAck => t.enterClosed
  | _ => t

/-- the "Handle FIN frame" switch -/
def finStep (t : T) : T :=
  match t.st with
  | .initiated => { t with st := .closeWait }
  | .finWait1 => { t with st := .closing }
  | .finWait2 => t.enterClosed
  | _ => t

/-- `receive` rejects frames for created and closed tubes before looking at them -/
def T.receiving (t : T) : Bool := t.st ≠ .created ∧ t.st ≠ .closed

def step (t : T) : Ev → T × Ret
  | .initRecv => if t.st = .created then ({ t with st := .initiated }, .none) else (t, .none)
  | .localClose =>
    match t.st with
    | .created => (t, .bad)
    | .initiated => ({ t with st := .finWait1 }, .ok)
    | .closeWait => (⟨.lastAck, true⟩, .ok)
    | _ => (t, .eof)
  | .ack => if t.receiving then (ackStep t, .none) else (t, .bad)
  | .fin => if t.receiving then (finStep t, .none) else (t, .bad)
  | .ackFin => if t.receiving then (finStep (ackStep t), .none) else (t, .bad)
  | .ackErr => if t.receiving then (t.enterClosed, .none) else (t, .bad)
  | .lastAckTimer => if t.timer then (t.enterClosed, .none) else (t, .none)
  | .forceClose => (t.enterClosed, .none)

def run (t : T) : List Ev → T
  | [] => t
  | e :: es => run (step t e).1 es

/-- the graceful edges of the TCP-style close handshake -/
def Graceful : St → St → Prop
  | .created, .initiated => True
  | .initiated, .finWait1 => True     -- active close
  | .initiated, .closeWait => True    -- peer closed first
  | .finWait1, .finWait2 => True      -- our FIN acknowledged
  | .finWait1, .closing => True       -- simultaneous close
  | .finWait2, .closed => True        -- peer's FIN
  | .closing, .closed => True         -- our FIN acknowledged
  | .closeWait, .lastAck => True      -- passive close
  | .lastAck, .closed => True         -- our FIN acknowledged (or the timer)
  | _, _ => False

/-- an abort: straight to closed (ackErr, lastAckTimer, forceClose) -/
def Abort (s s' : St) : Prop := s' = .closed

/-! ### what Write and Read answer (Reliable.Write, sender.write, receiver.read) -/

inductive IORes where
  | ok            -- Write accepted / Read returned data (or a spurious empty read)
  | eof
  | timeout
  | bad           -- ErrBadTubeState
  | block
  deriving DecidableEq, Repr

/-- `Reliable.Write`: the switch on the tube state, then `sender.write`'s own checks
(`wdl` = the write deadline has passed, `finSent` = a FIN was queued, `sclosed` = sender closed) -/
def writeRes (t : T) (wdl finSent sclosed : Bool) : IORes :=
  match t.st with
  | .created => .bad
  | .initiated | .closeWait =>
    if wdl then .timeout else if finSent || sclosed then .eof else .ok
  | _ => .eof

/-- the receiving half as `receiver.read` sees it -/
structure R where
  /-- bytes in `receiver.buffer` -/
  buf : Nat
  /-- `receiver.closed` (peer's FIN processed, or `receiver.Close`) -/
  closed : Bool
  /-- `dataReady` holds its token -/
  token : Bool
  /-- `dataReady`'s deadline channel is closed (SetReadDeadline in the past, as `Close` does) -/
  expired : Bool
  /-- `dataReady` itself is closed (`receiver.Close`) -/
  qclosed : Bool
  deriving DecidableEq, Repr

/-- `receiver.read(buf)` with `n = len(buf) > 0`: result class, bytes returned, next state -/
def read (r : R) (n : Nat) : IORes × Nat × R :=
  let fromBuf (r : R) : IORes × Nat × R :=
    let k := min n r.buf
    let r' := { r with buf := r.buf - k }
    (if r'.closed && r'.buf == 0 then .eof else .ok, k, r')
  if r.buf == 0 && !r.closed then
    -- dataReady.Recv(): token first, then closed flag, then deadline
    if r.token then fromBuf { r with token := false }
    else if r.qclosed then (.eof, 0, r)
    else if r.expired then (.timeout, 0, r)
    else (.block, 0, r)
  else fromBuf r

/-- `Reliable.Close` on the receiving half: `SetReadDeadline(time.Now())` -/
def R.localClose (r : R) : R := if r.qclosed then r else { r with expired := true }
/-- `receiver.Close` (from `enterClosedState`) -/
def R.fullClose (r : R) : R := { r with closed := true, qclosed := true, expired := true }
/-- in-order data arrives: `processIntoBuffer` (no-op once the receiver is closed) -/
def R.deliver (r : R) (k : Nat) : R := if r.closed then r else { r with buf := r.buf + k, token := true }
/-- the peer's FIN is processed -/
def R.peerFin (r : R) : R := if r.closed then r else { r with closed := true, token := true }

end Fin
