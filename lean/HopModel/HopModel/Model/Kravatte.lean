/-
Model of `kravatte/kravatte.go`: the Kravatte deck function (Farfalle, eprint 2016/1188 §7, in
its "Achouffe" form as implemented by XKCP and ported there) with the permutation as a parameter
`f` (the Go code uses Keccak-p[1600, 6]).

Piece by piece:
  `rollC`, `rollE`            the two rolling functions (lanes 20‥24 / 15‥24)
  `pad`, `maskOf`, `init`     `RefMaskInitialize`: the mask is `f (k ‖ 1 ‖ 0*)`.  This is the
                              *specification's* key schedule; the Go code builds the padded block
                              with `snp.StateSetBytes` + `snp.StateSetByte`, and the D-tie of C12
                              compares the two for every key length 1‥199.
  `compress`                  `Kravatte.compress` (full blocks, then the padded last block)
  `kra`                       `Kravatte.Kra` incl. the queue of residual bytes and the bit-length
                              interface (the odd comparison `inputBitLen >= widthBytes` is kept)
  `vatte`                     `Kravatte.Vatte` incl. the queue of unused expanded bytes, `FlagShort`
                              and the clean-up of the last incomplete byte
  `kravatte`                  `Kravatte.Kravatte`
Return value `1` of the Go functions (an error) is kept as the `Nat` component.
-/
import HopModel.Model.Keccak
namespace Kravatte
open Keccak

def flagInit : Nat := 1
def flagLastPart : Nat := 2
def flagShort : Nat := 4
def widthBytes : Nat := 200
def widthBits : Nat := 1600

@[inline] def rol64 (a : UInt64) (n : UInt64) : UInt64 := (a <<< n) ||| (a >>> (64 - n))

def rollE (s : State) : State :=
  let x0 := s[15]!
  let x1 := s[16]!
  let x2 := s[17]!
  let n9 := rol64 x0 7 ^^^ rol64 x1 18 ^^^ (x2 &&& (x1 >>> 1))
  let s := s.set! 15 s[16]!
  let s := s.set! 16 s[17]!
  let s := s.set! 17 s[18]!
  let s := s.set! 18 s[19]!
  let s := s.set! 19 s[20]!
  let s := s.set! 20 s[21]!
  let s := s.set! 21 s[22]!
  let s := s.set! 22 s[23]!
  let s := s.set! 23 s[24]!
  s.set! 24 n9

def rollC (s : State) : State :=
  let x0 := s[20]!
  let x1 := s[21]!
  let n4 := rol64 x0 7 ^^^ x1 ^^^ (x1 >>> 3)
  let s := s.set! 20 s[21]!
  let s := s.set! 21 s[22]!
  let s := s.set! 22 s[23]!
  let s := s.set! 23 s[24]!
  s.set! 24 n4

inductive Phase where
  | compressing | expanding | expanded
  deriving DecidableEq, Repr

structure Kv where
  k : State
  kr : State
  x : State
  y : State
  q : List UInt8          -- 200 bytes
  qbits : Nat             -- queueOffsetBits
  phase : Phase

/-- `Kravatte{}` -/
def fresh : Kv :=
  { k := zero, kr := zero, x := zero, y := zero, q := List.replicate 200 0, qbits := 0,
    phase := .compressing }

/-- the key block of the specification: `k ‖ 1 ‖ 0*`, 200 bytes (for `|k| < 200`) -/
def pad (key : List UInt8) : List UInt8 :=
  key ++ 1 :: List.replicate (widthBytes - 1 - key.length) 0

/-- the mask `f (k ‖ 1 ‖ 0*)` -/
def maskOf (f : State → State) (key : List UInt8) : State := f (ofBytes (pad key))

/-- `RefMaskInitialize(key)` on `kv`; returns 1 and leaves `kv` alone for `|key| ≥ 200` -/
def refMaskInit (f : State → State) (kv : Kv) (key : List UInt8) : Kv × Nat :=
  if key.length ≥ widthBytes then (kv, 1)
  else
    let k := maskOf f key
    ({ kv with k := k, kr := k, x := zero, phase := .compressing, qbits := 0 }, 0)

/-- Go's `copy(dst[off:], src)` on a list -/
def copyInto (dst : List UInt8) (off : Nat) (src : List UInt8) : List UInt8 :=
  let n := min src.length (dst.length - off)
  dst.take off ++ src.take n ++ dst.drop (off + n)

/-- the loop over full 200-byte blocks in `compress` (entered with `byteLen ≥ 200`) -/
def compressFull (f : State → State) (kr x : State) (msg : List UInt8) (byteLen : Nat) :
    State × State × List UInt8 × Nat :=
  if _h : byteLen < widthBytes then (kr, x, msg, byteLen)
  else
    let state := addBytes kr (msg.take widthBytes)
    let kr := rollC kr
    let state := f state
    let x := addState x state
    compressFull f kr x (msg.drop widthBytes) (byteLen - widthBytes)
termination_by byteLen
decreasing_by simp only [widthBytes] at *; omega

/-- `compress(message, &messageBitLen, lastFlag)`: new object, new `*messageBitLen`, bytes
compressed -/
def compress (f : State → State) (kv : Kv) (msg : List UInt8) (bits : Nat) (last : Bool) :
    Kv × Nat × Nat :=
  let byteLen := bits / 8
  let (kr, x, msg', byteLen') := compressFull f kv.kr kv.x msg byteLen
  let done := byteLen - byteLen'
  let bits := bits % widthBits
  if last then
    let state := addBytes kr (msg'.take byteLen')
    let kr := rollC kr
    let rest := msg'.drop byteLen'
    let bits := bits % 8
    let (state, done) :=
      if bits ≠ 0 then
        (addByte state (rest.headD 0 ||| ((1 : UInt8) <<< UInt8.ofNat bits)) byteLen', done + byteLen' + 1)
      else (addByte state 1 byteLen', done + byteLen')
    let state := f state
    let x := addState x state
    let kr := rollC kr
    ({ kv with kr := kr, x := x }, 0, done)
  else
    ({ kv with kr := kr, x := x }, bits, done)

/-- `Kra`, first stage: `if (flags & FlagInit) != 0 { … }` -/
def kraInit (kv : Kv) (flags : Nat) : Kv :=
  if (flags &&& flagInit) ≠ 0 then { kv with kr := kv.k, x := zero, qbits := 0 } else kv

/-- `Kra`, second stage: leave the expanding phase, or top up the queue of residual bytes and
compress it when full / when this is the last part.  Result: object, unread input, its bit
length, and whether `Kra` returns here. -/
def kraQueue (f : State → State) (kv : Kv) (inp : List UInt8) (bits : Nat) (final : Bool) :
    Kv × List UInt8 × Nat × Bool :=
  if kv.phase ≠ .compressing then
    ({ kv with phase := .compressing, qbits := 0 }, inp, bits, false)
  else if kv.qbits ≠ 0 then
    -- data is already queued
    let bitLen := min bits (widthBits - kv.qbits)
    let byteLen := (bitLen + 7) / 8
    let q := copyInto kv.q (kv.qbits / 8) (inp.take byteLen)
    let inp := inp.drop byteLen
    let bits := bits - bitLen
    let kv := { kv with q := q, qbits := kv.qbits + bitLen }
    if kv.qbits = widthBits then
      -- queue is full
      let c := compress f kv kv.q kv.qbits false
      ({ c.1 with qbits := 0 }, inp, bits, false)
    else if final then
      let c := compress f kv kv.q kv.qbits true
      ({ c.1 with qbits := c.2.1 }, inp, bits, true)
    else (kv, inp, bits, false)
  else (kv, inp, bits, false)

/-- `Kra`, last stage: compress whole blocks (and the padded last one when final), queue the
residual bytes.  (The comparison of a bit count with `widthBytes` is the Go code's.) -/
def kraRest (f : State → State) (kv : Kv) (inp : List UInt8) (bits : Nat) (final : Bool) : Kv :=
  let r : Kv × List UInt8 × Nat :=
    if decide (bits ≥ widthBytes) || final then
      let c := compress f kv inp bits final
      (c.1, inp.drop c.2.2, c.2.1)
    else (kv, inp, bits)
  if r.2.2 ≠ 0 then
    { r.1 with q := copyInto r.1.q 0 (r.2.1.take (r.2.2 / 8)), qbits := r.2.2 }
  else r.1

/-- `Kra(in, inputBitLen, flags)` -/
def kra (f : State → State) (kv : Kv) (inp : List UInt8) (bits : Nat) (flags : Nat) : Kv × Nat :=
  let final : Bool := (flags &&& flagLastPart) != 0
  if !final && bits % 8 != 0 then (kv, 1)
  else
    let r := kraQueue f (kraInit kv flags) inp bits final
    if r.2.2.2 then (r.1, 0)
    else (kraRest f r.1 r.2.1 r.2.2.1 final, 0)

/-- `b[len-1] &= (1 << (bits & 7)) - 1` when `bits & 7 ≠ 0` -/
def maskLast (out : List UInt8) (bits : Nat) : List UInt8 :=
  if bits % 8 ≠ 0 then
    match out.reverse with
    | [] => []
    | l :: r => ((l &&& (((1 : UInt8) <<< UInt8.ofNat (bits % 8)) - 1)) :: r).reverse
  else out

/-- the expansion loop of `Vatte` (entered with `remaining ≠ 0`): new `y`, the last permuted
state, the length taken from it, and the bytes produced -/
def expand (f : State → State) (y kr : State) (remaining : Nat) (acc : List UInt8) :
    State × State × Nat × List UInt8 :=
  let byteLen := min remaining widthBytes
  let state := f y
  let y := rollE y
  let acc := acc ++ extract (addState state kr) byteLen
  if _h : remaining - byteLen = 0 then (y, state, byteLen, acc)
  else expand f y kr (remaining - byteLen) acc
termination_by remaining
decreasing_by simp only [widthBytes] at *; omega

/-- `Vatte`, first stage: on the first call after compressing, derive `y` from `x`; `false` is
the error return -/
def vatteStart (f : State → State) (kv : Kv) (flags : Nat) : Kv × Bool :=
  if kv.phase = .compressing then
    if kv.qbits ≠ 0 then (kv, false)
    else
      let y := if (flags &&& flagShort) ≠ 0 then kv.x else f kv.x
      ({ kv with y := y, phase := .expanding }, true)
  else if kv.phase ≠ .expanding then (kv, false)
  else (kv, true)

/-- `Vatte`, second stage: serve from the queue of already expanded bytes.  Result: object, bytes
written so far, bits still wanted, and whether `Vatte` returns here. -/
def vatteQueue (kv : Kv) (outBits : Nat) (final : Bool) : Kv × List UInt8 × Nat × Bool :=
  if kv.qbits ≠ 0 then
    let toBits := min outBits (widthBits - kv.qbits)
    let toBytes := (toBits + 7) / 8
    let part := (kv.q.drop (kv.qbits / 8)).take toBytes
    let qb := kv.qbits + toBits
    let kv := { kv with qbits := if qb = widthBits then 0 else qb }
    let outBits := outBits - toBits
    if final && outBits == 0 then
      ({ kv with phase := .expanded }, maskLast part toBits, outBits, true)
    else (kv, part, outBits, false)
  else (kv, [], outBits, false)

/-- `Vatte`, last stage: expand whole blocks, queue what is left of the last one (unless final),
clean up the last incomplete byte -/
def vatteBlocks (f : State → State) (kv : Kv) (out : List UInt8) (outBits : Nat) (final : Bool) :
    Kv × List UInt8 :=
  let remaining := (outBits + 7) / 8
  let r : Kv × List UInt8 :=
    if remaining ≠ 0 then
      let e := expand f kv.y kv.kr remaining out
      let kv := { kv with y := e.1 }
      let byteLen := e.2.2.1
      if !final && byteLen != widthBytes then
        -- put the rest of the expanded data in the queue
        let rest := extractAt (addState e.2.1 kv.kr) byteLen (widthBytes - byteLen)
        ({ kv with q := copyInto kv.q byteLen rest, qbits := byteLen * 8 }, e.2.2.2)
      else (kv, e.2.2.2)
    else (kv, out)
  if final then ({ r.1 with phase := .expanded }, maskLast r.2 outBits)
  else r

/-- `Vatte(out, outBits, flags)`: the bytes written to `out` (`⌈outBits/8⌉` of them on success) -/
def vatte (f : State → State) (kv : Kv) (outBits : Nat) (flags : Nat) : Kv × List UInt8 × Nat :=
  let final : Bool := (flags &&& flagLastPart) != 0
  if !final && outBits % 8 != 0 then (kv, [], 1)
  else
    let s := vatteStart f kv flags
    if !s.2 then (s.1, [], 1)
    else
      let r := vatteQueue s.1 outBits final
      if r.2.2.2 then (r.1, r.2.1, 0)
      else
        let b := vatteBlocks f r.1 r.2.1 r.2.2.1 final
        (b.1, b.2, 0)

/-- `Kravatte(in, out, flags)` with `len(out) = outLen` -/
def kravatte (f : State → State) (kv : Kv) (inp : List UInt8) (outLen : Nat) (flags : Nat) :
    Kv × List UInt8 × Nat :=
  let flags := flags ||| flagLastPart
  let (kv, r) := kra f kv inp (inp.length * 8) flags
  if r ≠ 0 then (kv, [], 1) else vatte f kv (outLen * 8) flags

end Kravatte
