/-
The timer generations of `common.Deadline` (common/sync.go `SetDeadline`, `timeoutFor`).

`time.Timer.Stop` cannot recall a callback that has already been started, so a callback of an
earlier timer may run after a later `SetDeadline` has replaced or cleared the deadline.  The code
numbers the calls of `SetDeadline` (`d.gen++` on every call that gets past the `final` check) and
gives every timer callback the number of the call that armed it; `timeoutFor(gen)` expires the
deadline only if `d.gen == gen`.

State: the number of the last call, what it asked for, whether the deadline is expired *by time*
(channel closed with `os.ErrDeadlineExceeded`; `Cancel(err)` and `Close` are other causes and not
part of this model), and the callbacks that may still run - an over-approximation: a timer that was
stopped in time simply never produces its `callback` event.
-/
namespace DeadlineGen

inductive Dl where
  | past | future | zero
  deriving DecidableEq, Repr

structure S where
  gen : Nat := 0
  dl : Dl := .zero
  expired : Bool := false
  inflight : List Nat := []
  /-- ghost: the callback armed by the last `SetDeadline` has run -/
  firedCur : Bool := false
  deriving Repr

inductive Ev where
  | set (d : Dl)          -- SetDeadline(t) with t in the past / in the future / zero
  | callback (g : Nat)    -- the callback of the timer armed by call number g gets the lock
  deriving Repr

/-- `SetDeadline`: count the call, un-expire, then expire at once (past), arm a timer carrying the
call's number (future) or leave the deadline cleared (zero).  `timeoutFor g`: a no-op unless `g` is
the number of the last call. -/
def step (s : S) : Ev → S
  | .set d =>
    { gen := s.gen + 1, dl := d, expired := d == .past,
      inflight := if d = .future then (s.gen + 1) :: s.inflight else s.inflight, firedCur := false }
  | .callback g =>
    if g ∈ s.inflight then
      let s' := { s with inflight := s.inflight.erase g }
      if g = s.gen then { s' with expired := true, firedCur := true } else s'
    else s

def run (evs : List Ev) : S := evs.foldl step {}

/-- the variant that counts only the calls that arm a timer (a seeded change did exactly this):
clearing the deadline keeps the number of the timer it replaces -/
def stepLazy (s : S) : Ev → S
  | .set d =>
    { gen := if d = .future then s.gen + 1 else s.gen, dl := d, expired := d == .past,
      inflight := if d = .future then (s.gen + 1) :: s.inflight else s.inflight, firedCur := false }
  | .callback g =>
    if g ∈ s.inflight then
      let s' := { s with inflight := s.inflight.erase g }
      if g = s.gen then { s' with expired := true, firedCur := true } else s'
    else s

end DeadlineGen
