/-
Model of the receive and send paths of an established transport session
(`transport/transport.go` `readPacketLocked` / `sealPacketLocked` / `handleControlLocked`,
`transport/server.go` and `client.go` `handleSessionMessage`, `transport/handle.go` `Write` /
`WriteMsg` / `ReadMsg`), at the level the properties C03 and C15 speak about.

Cryptography is idealised the way the properties need it (IdealAEAD, DESIGN.md §3): a datagram is
described by the public header it presents plus the *genuine sealing* its ciphertext stems from
(if any) and whether ciphertext and tag are still bit-identical to that sealing.  `genuine` then
says when SANSE opens it: exactly when it is an unmodified sealing under this endpoint's read key
(same session, same direction) whose associated data (the header as presented) is the header that
was sealed.  The replay window is the C14 model.

The checks are in the code's order; the one place where the model is the *demanded* behaviour
rather than the pinned code is the length guard `len < 48 → reject` (the pinned code reached
`make([]byte, negative)` there — defect F4, repaired).
-/
import HopModel.Model.Replay
namespace Session
open Replay

inductive Dir | c2s | s2c
  deriving DecidableEq, Repr

/-- what a packet carries: generated application data identified by (seed, offset, length), or a
control body -/
inductive Pay
  | data (seed off len : Nat)
  | ctl (body : List Nat)
  deriving DecidableEq, Repr

def Pay.len : Pay → Nat
  | .data _ _ l => l
  | .ctl b => b.length

/-- a genuine sealing: who sealed what under which header -/
structure Sealed where
  sess : Nat
  dir : Dir
  ctr : Nat
  mt : Nat
  pay : Pay
  deriving DecidableEq, Repr

/-- a datagram as it arrives -/
structure DG where
  len : Nat                 -- datagram length in bytes
  mt : Nat                  -- type byte it presents
  rsvOk : Bool              -- the three reserved bytes are zero
  sid : Option Nat          -- the session whose identifier the header shows (`none`: unknown id)
  ctr : Nat                 -- the counter it presents
  sealed : Option Sealed    -- the sealing its ciphertext+tag stem from (`none`: made-up bytes)
  intact : Bool             -- ciphertext and tag bit-identical to that sealing, nothing cut or added
  deriving Repr

def mtTransport : Nat := 16
def mtControl : Nat := 128
/-- header (4) + session id (4) + counter (8) + tag (32) -/
def overhead : Nat := 48
def maxPlaintext : Nat := 64503

/-- one end of one session -/
structure Ep where
  sess : Nat
  rdir : Dir                -- the direction this end reads
  hasKey : Bool             -- read key installed (server side: only after the handshake finished)
  win : Win
  queue : List Pay          -- decrypted messages not yet returned to the reader
  cap : Nat                 -- capacity of that queue
  closed : Bool
  remote : Nat              -- address (index) this end sends to
  txCtr : Nat
  accepted : List Sealed    -- ghost: every sealing accepted so far, newest first

/-- IdealAEAD: SANSE opens the datagram for this endpoint iff … -/
def genuine (e : Ep) (d : DG) : Bool :=
  match d.sealed with
  | none => false
  | some p =>
    d.intact && decide (p.sess = e.sess) && decide (p.dir = e.rdir) && decide (d.mt = p.mt) && d.rsvOk
      && decide (d.sid = some e.sess) && decide (d.ctr = p.ctr) && decide (d.len = overhead + p.pay.len)

inductive Verdict
  | short | unknownSession | closed | tooShort | badType | badReserved | replay | noKey | authFail
  | queued | droppedFull | closedByPeer | closedBadControl
  deriving DecidableEq, Repr

/-- `handleSessionMessage` + `readPacketLocked` for the endpoint the datagram is routed to
(`a` = source address of the datagram). -/
def recvV (e : Ep) (a : Nat) (d : DG) : Ep × Verdict :=
  if d.len < 8 then (e, .short)
  else if d.sid ≠ some e.sess then (e, .unknownSession)
  else if e.closed then (e, .closed)
  else if d.len < overhead then (e, .tooShort)
  else if d.mt ≠ mtTransport ∧ d.mt ≠ mtControl then (e, .badType)
  else if !d.rsvOk then (e, .badReserved)
  else if !checkU e.win d.ctr then (e, .replay)
  else if !e.hasKey then (e, .noKey)
  else match d.sealed with
    | none => (e, .authFail)
    | some p =>
      if !genuine e d then (e, .authFail)
      else
        let e1 := { e with win := compact (markU e.win d.ctr), accepted := p :: e.accepted }
        if d.mt = mtTransport then
          if e1.queue.length < e1.cap then
            ({ e1 with queue := e1.queue ++ [p.pay], remote := a }, .queued)
          else ({ e1 with remote := a }, .droppedFull)
        else
          if p.pay = .ctl [1] then ({ e1 with closed := true, remote := a }, .closedByPeer)
          else ({ e1 with closed := true }, .closedBadControl)

def recv (e : Ep) (a : Nat) (d : DG) : Ep := (recvV e a d).1

/-- sealing one packet: the header carries this end's session and counter; the counter moves on -/
def sealPkt (e : Ep) (mt : Nat) (pay : Pay) : Ep × Sealed :=
  ({ e with txCtr := e.txCtr + 1 },
   { sess := e.sess, dir := (if e.rdir = .c2s then .s2c else .c2s), ctr := e.txCtr, mt := mt, pay := pay })

/-- the datagram a sealing looks like on the wire when nobody touched it -/
def wire (p : Sealed) : DG :=
  { len := overhead + p.pay.len, mt := p.mt, rsvOk := true, sid := some p.sess, ctr := p.ctr,
    sealed := some p, intact := true }

/-- `Handle.Write`: the buffer is cut into consecutive chunks of at most `maxPlaintext` bytes
(a buffer of length 0 is one empty packet); returns the (offset, length) of every chunk. -/
def chunksFrom (fuel off len : Nat) : List (Nat × Nat) :=
  match fuel with
  | 0 => []
  | fuel + 1 =>
    if len ≤ maxPlaintext then [(off, len)]
    else (off, maxPlaintext) :: chunksFrom fuel (off + maxPlaintext) (len - maxPlaintext)

def chunks (len : Nat) : List (Nat × Nat) := chunksFrom (len / maxPlaintext + 1) 0 len

/-- `ReadMsg` with a read deadline in the past: buffered messages first, then end-of-stream if the
session is closed, a timeout otherwise. -/
def readAll (e : Ep) : Ep × List Pay × Bool := ({ e with queue := [] }, e.queue, e.closed)

def freshEp (sess : Nat) (rdir : Dir) (cap remote : Nat) : Ep :=
  { sess := sess, rdir := rdir, hasKey := true, win := Replay.init, queue := [], cap := cap,
    closed := false, remote := remote, txCtr := 0, accepted := [] }

end Session
