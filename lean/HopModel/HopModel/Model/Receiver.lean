/-
Model of `tubes/receiver.go` (the receive window of a reliable tube) and of the frame type of
`tubes/frame.go`.

* `unwrapFrameNo` is transcribed with the `uint64` arithmetic written out (`% 2^64`): for a
  receiver whose `ackNo` is below `2^32` the Go expression `(ackNo/mult - 1) * mult` really wraps.
* `frameInBounds` is the inclusive window test, with the wrap-around branch.
* the fragment heap is a list kept sorted by priority; `heap.Pop` is "take the head" (Go's
  `container/heap` is trusted to return a minimum).  Among equal priorities the order is not
  modelled; it is not observable as long as equal numbers carry equal content, which the
  correspondence generator guarantees.
* `processFrags` is the loop of `processIntoBuffer`: equal → append and advance, smaller → drop,
  larger → push back and stop.
* `read` returns `none` where the Go code would block (nothing buffered, not closed).
-/
namespace Tubes

abbrev Bytes := List UInt8

def two31 : Nat := 2147483648
def two32 : Nat := 4294967296
def two64 : Nat := 18446744073709551616
def maxWindowSize : Nat := 1000

/-- `tubes.frame` (the `queued` bookkeeping bit is not part of the wire frame) -/
structure Frame where
  tubeID : Nat := 0
  req : Bool := false
  resp : Bool := false
  rel : Bool := false
  ack : Bool := false
  fin : Bool := false
  rtr : Bool := false
  ackNo : Nat := 0
  frameNo : Nat := 0
  data : Bytes := []
  deriving Repr, DecidableEq

/-- `pqItem` -/
structure Frag where
  prio : Nat
  data : Bytes
  fin : Bool
  deriving Repr, DecidableEq

structure Receiver where
  ackNo : Nat
  windowStart : Nat
  frags : List Frag
  buffer : Bytes
  closed : Bool
  deriving Repr

/-- `newReceiver` -/
def Receiver.new : Receiver := ⟨0, 1, [], [], false⟩

/-- a receiver placed at a given position (hook `SetPosition`; `Reliable.receiveInitiatePkt`
sets `ackNo = 1` on a fresh receiver) -/
def Receiver.at (ackNo windowStart : Nat) : Receiver := ⟨ackNo, windowStart, [], [], false⟩

/-- `unwrapFrameNo`: the 64-bit number congruent to `frameNo` closest to `ackNo` -/
def unwrapFrameNo (ackNo frameNo : Nat) : Nat :=
  let q := ackNo / two32
  let lower :=
    if ackNo = 0 then frameNo
    else if ackNo % two32 < two31 then (((q + two64 - 1) % two64 * two32) % two64 + frameNo) % two64
    else (q * two32 + frameNo) % two64
  let upper :=
    if ackNo = 0 then two32 + frameNo
    else if ackNo % two32 < two31 then (q * two32 + frameNo) % two64
    else (((q + 1) * two32) % two64 + frameNo) % two64
  let lowerDiff := if lower < ackNo then ackNo - lower else lower - ackNo
  let upperDiff := if upper < ackNo then ackNo - upper else upper - ackNo
  if upperDiff < lowerDiff then upper else lower

/-- `frameInBounds` -/
def frameInBounds (wS wE f : Nat) : Bool :=
  if wS < wE then !(f > wE || f < wS)
  else !(f > wE && f < wS)

/-- `heap.Push` on the sorted-list representation -/
def insertFrag (f : Frag) : List Frag → List Frag
  | [] => [f]
  | g :: t => if f.prio < g.prio then f :: g :: t else g :: insertFrag f t

/-- the loop of `processIntoBuffer` over the (sorted) fragment list; second component: a FIN was
processed -/
def processFrags (r : Receiver) (fin : Bool) : List Frag → Receiver × Bool
  | [] => ({ r with frags := [] }, fin)
  | f :: rest =>
    if r.windowStart = f.prio then
      processFrags { r with buffer := r.buffer ++ f.data,
                            windowStart := (r.windowStart + 1) % two64,
                            ackNo := (r.ackNo + 1) % two64,
                            closed := r.closed || f.fin } (fin || f.fin) rest
    else if f.prio > r.windowStart then ({ r with frags := f :: rest }, fin)
    else processFrags r fin rest

def processIntoBuffer (r : Receiver) : Receiver × Bool := processFrags r false r.frags

inductive RecvOut where
  | ok (fin : Bool)
  | eof
  | outOfBounds
  deriving Repr, DecidableEq

/-- the admission condition of `receive` -/
def admits (p : Frame) : Bool := (decide (p.data.length > 0) && !p.ack) || p.fin

/-- `receiver.receive` -/
def receive (r : Receiver) (p : Frame) : Receiver × RecvOut :=
  if r.closed then (r, .eof) else
  let windowEnd := (r.windowStart + maxWindowSize) % two64
  let frameNo := unwrapFrameNo r.ackNo p.frameNo
  if admits p && frameInBounds r.windowStart windowEnd frameNo then
    let out := processIntoBuffer { r with frags := insertFrag ⟨frameNo, p.data, p.fin⟩ r.frags }
    (out.1, .ok out.2)
  else if decide (p.data.length > 0) && !p.ack then (r, .outOfBounds)
  else
    let out := processIntoBuffer r
    (out.1, .ok out.2)

/-- `receiver.read` with a buffer of `n` bytes: `none` = would block; the flag is `io.EOF` -/
def read (r : Receiver) (n : Nat) : Option (Receiver × Bytes × Bool) :=
  if r.buffer.isEmpty && !r.closed then none
  else
    let r' := { r with buffer := r.buffer.drop n }
    some (r', r.buffer.take n, r'.closed && r'.buffer.isEmpty)

end Tubes
