/-
The client's trust configuration as hop-go derives it from a configuration file:
config.ClientConfig.MatchHost (the Global block, then every matching host block merged in file order:
HostConfigOptional.MergeWith), HostConfigOptional.Unwrap (an option that is not set is its zero value),
hopclient.constructVerifyConfig (which name the server's certificate must carry), hopclient.loadCAFiles
(which roots are trusted) and authenticatorSetupLocked (InsecureSkipVerify).
-/
namespace ClientCfg

inductive NType | dns | ip4 | ip6 | raw
  deriving DecidableEq, Repr

structure Name where
  ty : NType
  label : String
  deriving DecidableEq, Repr

/-- the options of one block that decide whom the client trusts; `none` = not set in this block -/
structure Block where
  sn : Option String := none
  ip4 : Option String := none
  ip6 : Option String := none
  skip : Option Bool := none
  cas : List String := []
  deriving Repr

/-- "Set overrides unset": the value of the later block if it sets the option -/
def over {α : Type} (later earlier : Option α) : Option α :=
  match later with
  | some x => some x
  | none => earlier

/-- MergeWith: the receiver `g` takes every option set in `h`; CA lists are concatenated -/
def merge (g h : Block) : Block :=
  { sn := over h.sn g.sn, ip4 := over h.ip4 g.ip4, ip6 := over h.ip6 g.ip6, skip := over h.skip g.skip,
    cas := g.cas ++ h.cas }

/-- MatchHost: the Global block with the applied (= matching, `Glob.matchHost`) blocks merged in order -/
def effective (global : Block) (applied : List Block) : Block := applied.foldl merge global

/-- Unwrap: an option that is not set is the empty string / false -/
def str (o : Option String) : String := o.getD ""
def skips (b : Block) : Bool := b.skip.getD false

/-- constructVerifyConfig: ServerName, else ServerIPv4, else ServerIPv6, else the host name dialled -/
def expected (b : Block) (hostname : String) : Name :=
  if str b.sn ≠ "" then ⟨.dns, str b.sn⟩
  else if str b.ip4 ≠ "" then ⟨.ip4, str b.ip4⟩
  else if str b.ip6 ≠ "" then ⟨.ip6, str b.ip6⟩
  else ⟨.dns, hostname⟩

/-- what a server presents: the names of its leaf and the CA file in which the root its chain ends in is
found (`none`: no such root exists — self-signed) -/
structure Presented where
  names : List Name
  anchor : Option String

def anchored (b : Block) (p : Presented) : Bool :=
  match p.anchor with
  | some r => b.cas.contains r
  | none => false

/-- the handshake's verdict on the certificate (C04_verify_iff for the chain, C01 for possession) -/
def accepts (b : Block) (hostname : String) (p : Presented) : Bool :=
  skips b || (anchored b p && p.names.contains (expected b hostname))

end ClientCfg
