/-
Small-step interleaving model of `common.Deadline` / `common.DeadlineChan` (common/sync.go, after
the fixes F22–F24): any number of threads (thread ids are natural numbers), each inside at most one
call; one `Step` is one atomic action of the Go code — a check of the closed flag, taking or
releasing the queue mutex `d.m`, one critical section of the deadline mutex (`Done`, `Cancel`,
`finish`, `SetDeadline`), or one `select`.

Deadline channels are numbered: `cur` is the channel `Deadline.ch` currently points to,
`closedSet` the channels that have been closed.  `Deadline.SetDeadline` replaces the channel only
when it is closed, and not at all once the deadline is `final` (set by `DeadlineChan.Close`).
Values carried by the queue do not matter here (only whether the buffer is empty / full); the
sequential contract is `Model/Queue.lean`.
-/
namespace DeadlineSteps

inductive Dl where
  | past | future | zero
  deriving DecidableEq, Repr

inductive PC where
  | idle
  -- Recv
  | recvPolled               -- the entry poll found the buffer empty
  | recvChecked              -- the closed flag was false
  | recvHas (c : Nat)        -- errChan := Done() returned channel c; at the outer select
  | recvBlocked (c : Nat)    -- in the inner select { <-errChan ; <-d.C }
  | recvFinal                -- recvBufferedOr: (wait for the mutex if closed and) poll once more
  -- Send
  | sendWant                 -- waiting for d.m
  | sendLocked               -- holds d.m, before the closed check
  | sendChecked
  | sendHas (c : Nat)
  | sendBlocked (c : Nat)    -- holds d.m, in the inner select { <-errChan ; d.C <- b }
  -- Close
  | closeFlagged             -- won closed.Swap(true)
  | closeFinal               -- finish: final is set, Cancel not yet run
  | closeWantLock            -- Cancel(io.EOF) has run; waiting for d.m
  | closeLocked
  -- SetDeadline / Cancel on the DeadlineChan
  | setChecked (d : Dl)      -- passed the closed check
  | cancelChecked
  deriving DecidableEq, Repr

structure DS where
  bufLen : Nat
  cap : Nat
  closedFlag : Bool
  final : Bool
  cur : Nat
  closedSet : List Nat
  lock : Option Nat
  /-- ghost: the Cancel(io.EOF) of a Close has run -/
  cancelled : Bool
  pc : Nat → PC

def upd (f : Nat → PC) (t : Nat) (p : PC) : Nat → PC := fun u => if u = t then p else f u

def DS.isClosed (s : DS) (c : Nat) : Prop := c ∈ s.closedSet

def init (cap : Nat) : DS :=
  ⟨0, cap, false, false, 0, [], none, false, fun _ => .idle⟩

/-- `Deadline.Cancel`: close the current channel if it is open -/
def DS.cancel (s : DS) : DS := { s with closedSet := s.cur :: s.closedSet }

/-- `Deadline.SetDeadline` replaces the channel only when it is closed -/
def DS.nextCur (s : DS) : Nat := if s.cur ∈ s.closedSet then s.cur + 1 else s.cur

/-- one atomic action of thread `t` -/
inductive Step : DS → Nat → DS → Prop
  -- Recv
  | recvTake (s t) : s.pc t = .idle → 0 < s.bufLen →
      Step s t { s with bufLen := s.bufLen - 1 }
  | recvPoll (s t) : s.pc t = .idle → s.bufLen = 0 →
      Step s t { s with pc := upd s.pc t .recvPolled }
  | recvSeesClosed (s t) : s.pc t = .recvPolled → s.closedFlag = true →
      Step s t { s with pc := upd s.pc t .recvFinal }
  | recvSeesOpen (s t) : s.pc t = .recvPolled → s.closedFlag = false →
      Step s t { s with pc := upd s.pc t .recvChecked }
  | recvDone (s t) : s.pc t = .recvChecked →
      Step s t { s with pc := upd s.pc t (.recvHas s.cur) }
  | recvOuterExpired (s t c) : s.pc t = .recvHas c → s.isClosed c →
      Step s t { s with pc := upd s.pc t .recvFinal }
  | recvOuterOpen (s t c) : s.pc t = .recvHas c → ¬ s.isClosed c →
      Step s t { s with pc := upd s.pc t (.recvBlocked c) }
  | recvWakeExpired (s t c) : s.pc t = .recvBlocked c → s.isClosed c →
      Step s t { s with pc := upd s.pc t .recvFinal }
  | recvWakeData (s t c) : s.pc t = .recvBlocked c → 0 < s.bufLen →
      Step s t { s with bufLen := s.bufLen - 1, pc := upd s.pc t .idle }
  | recvFinish (s t) : s.pc t = .recvFinal → (s.closedFlag = true → s.lock = none) →
      -- (the wait for d.m only applies on a closed queue); take an item if there is one
      Step s t { s with bufLen := s.bufLen - 1, pc := upd s.pc t .idle }
  -- Send
  | sendStart (s t) : s.pc t = .idle → Step s t { s with pc := upd s.pc t .sendWant }
  | sendLock (s t) : s.pc t = .sendWant → s.lock = none →
      Step s t { s with lock := some t, pc := upd s.pc t .sendLocked }
  | sendSeesClosed (s t) : s.pc t = .sendLocked → s.closedFlag = true →
      Step s t { s with lock := none, pc := upd s.pc t .idle }
  | sendSeesOpen (s t) : s.pc t = .sendLocked → s.closedFlag = false →
      Step s t { s with pc := upd s.pc t .sendChecked }
  | sendDone (s t) : s.pc t = .sendChecked →
      Step s t { s with pc := upd s.pc t (.sendHas s.cur) }
  | sendOuterExpired (s t c) : s.pc t = .sendHas c → s.isClosed c →
      Step s t { s with lock := none, pc := upd s.pc t .idle }
  | sendOuterOpen (s t c) : s.pc t = .sendHas c → ¬ s.isClosed c →
      Step s t { s with pc := upd s.pc t (.sendBlocked c) }
  | sendWakeExpired (s t c) : s.pc t = .sendBlocked c → s.isClosed c →
      Step s t { s with lock := none, pc := upd s.pc t .idle }
  | sendWakeRoom (s t c) : s.pc t = .sendBlocked c → s.bufLen < s.cap →
      Step s t { s with bufLen := s.bufLen + 1, lock := none, pc := upd s.pc t .idle }
  -- Close
  | closeLoses (s t) : s.pc t = .idle → s.closedFlag = true → Step s t s
  | closeWins (s t) : s.pc t = .idle → s.closedFlag = false →
      Step s t { s with closedFlag := true, pc := upd s.pc t .closeFlagged }
  | closeSetFinal (s t) : s.pc t = .closeFlagged →
      Step s t { s with final := true, pc := upd s.pc t .closeFinal }
  | closeCancel (s t) : s.pc t = .closeFinal →
      Step s t { s.cancel with cancelled := true, pc := upd s.pc t .closeWantLock }
  | closeLock (s t) : s.pc t = .closeWantLock → s.lock = none →
      Step s t { s with lock := some t, pc := upd s.pc t .closeLocked }
  | closeUnlock (s t) : s.pc t = .closeLocked →
      Step s t { s with lock := none, pc := upd s.pc t .idle }
  -- SetDeadline
  | setSeesClosed (s t) : s.pc t = .idle → s.closedFlag = true → Step s t s
  | setSeesOpen (s t d) : s.pc t = .idle → s.closedFlag = false →
      Step s t { s with pc := upd s.pc t (.setChecked d) }
  | setFinal (s t d) : s.pc t = .setChecked d → s.final = true →
      Step s t { s with pc := upd s.pc t .idle }
  | setApply (s t d) : s.pc t = .setChecked d → s.final = false →
      -- replace the channel if it is closed; a deadline in the past closes the (new) channel
      Step s t { s with cur := s.nextCur,
                        closedSet := if d = .past then s.nextCur :: s.closedSet else s.closedSet,
                        pc := upd s.pc t .idle }
  -- Cancel
  | cancelSeesClosed (s t) : s.pc t = .idle → s.closedFlag = true → Step s t s
  | cancelSeesOpen (s t) : s.pc t = .idle → s.closedFlag = false →
      Step s t { s with pc := upd s.pc t .cancelChecked }
  | cancelApply (s t) : s.pc t = .cancelChecked →
      Step s t { s.cancel with pc := upd s.pc t .idle }
  -- the timer callback (any thread may play the timer): Deadline.Cancel(timeout)
  | timerFire (s t) : s.pc t = .idle → Step s t s.cancel

inductive Reach (cap : Nat) : DS → Prop
  | init : Reach cap (init cap)
  | step {s s' : DS} (t : Nat) : Reach cap s → Step s t s' → Reach cap s'

/-- thread `t` waits on deadline channel `c` -/
def Holds (p : PC) (c : Nat) : Prop :=
  p = .recvHas c ∨ p = .recvBlocked c ∨ p = .sendHas c ∨ p = .sendBlocked c

end DeadlineSteps
