/-
Sequential specification `QSpec` of `common.DeadlineChan[T]` (common/sync.go): a bounded FIFO
buffer attached to a deadline that can expire, be cancelled, be un-expired, and to a closed flag.

State (what the Go object holds):
  buf      contents of the buffered channel `C` (head = oldest)
  cap      `cap(C)`
  closed   `DeadlineChan.closed`
  expired  the current `Deadline.ch` is closed
  err      `Deadline.err` (`none` = the Go nil error; it is never observable while `expired` is
           false and every transition that sets `expired` stores an error first)
  armed    the `time.AfterFunc` timer is pending

Each operation is one atomic step, written in the order of the checks of the Go function it
transcribes (Recv: buffered data, then closed flag, then deadline channel; Send: closed flag, then
deadline channel, then room in the buffer).  `block` is the result "the call would block here".
`timerFire` is the timer callback `Deadline.timeout`.
-/
namespace Queue

inductive DErr where
  | eof      -- io.EOF
  | timeout  -- os.ErrDeadlineExceeded
  | other    -- any other error passed to Cancel
  deriving DecidableEq, Repr

inductive Dl where
  | past | future | zero
  deriving DecidableEq, Repr

structure Q where
  buf : List Nat
  cap : Nat
  closed : Bool
  expired : Bool
  err : Option DErr
  armed : Bool
  deriving DecidableEq, Repr

def Q.init (cap : Nat) : Q := ⟨[], cap, false, false, none, false⟩

inductive Op where
  | send (v : Nat)
  | recv
  | close
  | setDeadline (d : Dl)
  | cancel (e : DErr)
  | timerFire
  deriving DecidableEq, Repr

inductive Res where
  | ok                -- nil error from Send / Close / SetDeadline / Cancel
  | val (v : Nat)     -- Recv returned a value
  | err (e : DErr)
  | nilErr            -- Recv/Send returned the nil `Deadline.err` (only after Cancel(nil); unreachable here)
  | block             -- the call would block in this state
  | noop              -- timerFire with no timer pending
  deriving DecidableEq, Repr

/-- what `d.deadline.Err()` yields -/
def Q.errRes (q : Q) : Res :=
  match q.err with
  | some e => .err e
  | none => .nilErr

/-- `Deadline.Cancel(e)`: store the error, close the channel if it is open -/
def Q.cancelD (q : Q) (e : DErr) : Q := { q with err := some e, expired := true }

def step (q : Q) : Op → Q × Res
  | .send v =>
    if q.closed then (q, .err .eof)
    else if q.expired then (q, q.errRes)
    else if q.buf.length < q.cap then ({ q with buf := q.buf ++ [v] }, .ok)
    else (q, .block)
  | .recv =>
    match q.buf with
    | v :: t => ({ q with buf := t }, .val v)
    | [] =>
      if q.closed then (q, .err .eof)
      else if q.expired then (q, q.errRes)
      else (q, .block)
  | .close =>
    if q.closed then (q, .err .eof)
    else ({ q.cancelD .eof with closed := true }, .ok)
  | .setDeadline d =>
    if q.closed then (q, .err .eof)
    else
      -- timer.Stop(); a closed channel is replaced (un-expire)
      let q := { q with armed := false, expired := false }
      match d with
      | .zero => (q, .ok)
      | .past => ({ q with err := some .timeout, expired := true }, .ok)
      | .future => ({ q with armed := true }, .ok)
  | .cancel e =>
    if q.closed then (q, .err .eof)
    else (q.cancelD e, .ok)
  | .timerFire =>
    if q.armed then ({ q.cancelD .timeout with armed := false }, .ok)
    else (q, .noop)

/-- The concurrent contract is slightly weaker than the sequential one: a Recv that has seen the
deadline expire may report the deadline error although an item was queued in the meantime (the
two checks are not atomic in `DeadlineChan.Recv`); it never reports end-of-stream while data is
buffered.  `admits q o r` = the next state if operation `o` may answer `r` in state `q`. -/
def admits (q : Q) (o : Op) (r : Res) : Option Q :=
  if (step q o).2 = r then some (step q o).1
  else if o = .recv ∧ q.closed = false ∧ q.expired = true ∧ q.errRes = r
      ∧ (r = .err .timeout ∨ r = .err .other) then some q
  else none

/-- Close is not one atomic step of `DeadlineChan`: it first publishes the closed flag (from then on
SetDeadline, Cancel, Close and new Sends report end-of-stream), then expires the deadline, then
waits for a Send that was already in flight — which may still queue its item.  Recv reports
end-of-stream only after that wait.  `LQ` adds the intermediate phase to `Q`:
`closing = true` between the flag and the end of the wait (`LQ.drain`). -/
structure LQ where
  q : Q
  closing : Bool
  deriving DecidableEq, Repr

/-- the next state if operation `o` may answer `r` in the concurrent contract -/
def LQ.admits (s : LQ) (o : Op) (r : Res) : Option LQ :=
  if s.closing then
    match o with
    | .close | .setDeadline _ | .cancel _ => if r = .err .eof then some s else none
    | .send _ =>
      -- a new Send fails; one that was in flight may still be accepted
      if r = .err .eof then some s else (Queue.admits s.q o r).map fun q' => { s with q := q' }
    | .recv =>
      -- buffered data, or a deadline error; end-of-stream only after the drain
      if r = .err .eof then none else (Queue.admits s.q o r).map fun q' => { s with q := q' }
    | .timerFire => (Queue.admits s.q o r).map fun q' => { s with q := q' }
  else
    match o, r with
    | .close, .ok => if s.q.closed then none else some { s with closing := true }
    | _, _ => (Queue.admits s.q o r).map fun q' => { s with q := q' }

/-- the end of Close's wait: the queue is now closed for Recv as well -/
def LQ.drain (s : LQ) : LQ :=
  if s.closing then ⟨(step s.q .close).1, false⟩ else s

/-- run a history, collecting (operation, result) pairs -/
def trace : Q → List Op → List (Op × Res)
  | _, [] => []
  | q, o :: os => (o, (step q o).2) :: trace (step q o).1 os

def final : Q → List Op → Q
  | q, [] => q
  | q, o :: os => final (step q o).1 os

/-- values accepted by Send, in order -/
def sent : List (Op × Res) → List Nat
  | [] => []
  | (.send v, .ok) :: t => v :: sent t
  | _ :: t => sent t

/-- values returned by Recv, in order -/
def received : List (Op × Res) → List Nat
  | [] => []
  | (.recv, .val v) :: t => v :: received t
  | _ :: t => received t

end Queue
