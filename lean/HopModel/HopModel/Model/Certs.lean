/-
Model of certificate chain verification and issuance (C04): `certs/verify.go`
(`VerifyParent`, `Certificate.MatchesName`, `Store.AddCertificate`, `Store.VerifyLeaf`) and
`certs/issue.go` (`issue`, `IssueLeafAt`), check by check in the code's order.

Cryptography is abstract.  A certificate record carries *identities* (small numbers) instead of
byte strings: `pubKey` for the 32-byte public key, `fp` for the SHA3 fingerprint stored in the
certificate object, `parent` for the parent-fingerprint field (0 is the all-zero fingerprint), and
`tbs` for the pair (raw bytes without the last 64, signature field) that `VerifyParent` hands to
Ed25519.  `sv pk tbs` says whether that signature verifies under public key `pk`; it is a parameter
of everything here (in the correspondence run the harness computes it with crypto/ed25519 over the
bytes it holds, never through `VerifyParent`).

Times are `time.Time` values without monotonic reading: seconds and nanoseconds, compared as
`Time.Before` compares them.
-/
namespace Certs

abbrev Bytes := List UInt8

structure Time where
  sec : Int
  nsec : Nat
  deriving DecidableEq, Repr

/-- `t.Before(u)` -/
def Time.before (t u : Time) : Bool :=
  decide (t.sec < u.sec) || (decide (t.sec = u.sec) && decide (t.nsec < u.nsec))

/-- `time.Time{}`: January 1, year 1 — what `IsZero` recognises -/
def zeroTime : Time := ⟨-62135596800, 0⟩

/-- `t.Add(d)`, `d` in nanoseconds (the represented instant; Go normalises the same way) -/
def Time.add (t : Time) (d : Int) : Time :=
  let n : Int := (t.nsec : Int) + d % 1000000000
  if n ≥ 1000000000 then ⟨t.sec + d / 1000000000 + 1, (n - 1000000000).toNat⟩
  else ⟨t.sec + d / 1000000000, n.toNat⟩

/-- `certs.Leaf`, `certs.Intermediate`, `certs.Root` -/
def leafT : Nat := 1
def intermediateT : Nat := 2
def rootT : Nat := 3

structure Name where
  ntype : Nat
  label : Bytes
  deriving DecidableEq, Repr

structure Cert where
  ctype : Nat
  names : List Name
  issuedAt : Time
  expiresAt : Time
  pubKey : Nat
  parent : Nat
  fp : Nat
  /-- `raw.Len()` -/
  rawLen : Nat
  tbs : Nat
  deriving DecidableEq, Repr

/-- `now.Before(c.IssuedAt) || !now.Before(c.ExpiresAt)` is the rejection; this is its negation -/
def validAt (now : Time) (c : Cert) : Bool := !now.before c.issuedAt && now.before c.expiresAt

/-- `Certificate.MatchesName` -/
def matchesName (c : Cert) (n : Name) : Bool :=
  if c.ctype = leafT then c.names.any fun b => b.label == n.label && b.ntype == n.ntype
  else false

/-- `VerifyParent(child, parent)`: nil ↦ true -/
def verifyParent (sv : Nat → Nat → Bool) (child parent : Cert) : Bool :=
  let typesOK : Bool :=
    if child.ctype = leafT then decide (parent.ctype = intermediateT)
    else if child.ctype = intermediateT then decide (parent.ctype = rootT)
    else if child.ctype = rootT then decide (parent.ctype = rootT) && decide (child.parent = 0)
    else false
  if !typesOK then false
  else if child.ctype ≠ rootT ∧ child.parent ≠ parent.fp then false
  else if child.rawLen = 0 then false
  else if child.rawLen < 64 then false
  else sv parent.pubKey child.tbs

/-! ### the trust store -/

/-- `map[SHA3Fingerprint]*Certificate` as an association list -/
abbrev Store := List (Nat × Cert)

def Store.get (s : Store) (fp : Nat) : Option Cert := List.lookup fp s

/-- `Store.AddCertificate`: `s.certs[c.Fingerprint] = c` -/
def addCertificate (s : Store) (c : Cert) : Store := (c.fp, c) :: s.filter (fun e => e.1 != c.fp)

/-! ### Store.VerifyLeaf -/

structure Options where
  /-- `PresentedIntermediate` (`none`: nil) -/
  presented : Option Cert
  /-- `Name` (`none`: the zero Name — nil label and type 0) -/
  name : Option Name
  /-- `CurrentTime` -/
  currentTime : Time

/-- which check refused -/
inductive Check
  | leafType | name | leafTime | noIntermediate | interType | interTime | interFp | leafSig
  | noRoot | rootType | rootTime | rootFp | interSig
  deriving DecidableEq, Repr

inductive Result
  | ok
  | rejected (c : Check)
  deriving DecidableEq, Repr

/-- `now := opts.CurrentTime; if now.IsZero() { now = time.Now() }` -/
def Options.now (opts : Options) (clock : Time) : Time :=
  if opts.currentTime = zeroTime then clock else opts.currentTime

/-- the presented intermediate if the leaf names it, else the stored certificate the leaf names -/
def chooseIntermediate (store : Store) (opts : Options) (leaf : Cert) : Option Cert :=
  match opts.presented with
  | some p => if leaf.parent = p.fp then some p else store.get leaf.parent
  | none => store.get leaf.parent

/-- `!opts.Name.IsZero() && !leaf.MatchesName(opts.Name)` -/
def nameRefused (opts : Options) (leaf : Cert) : Bool :=
  match opts.name with
  | some n => !matchesName leaf n
  | none => false

def verifyLeaf (sv : Nat → Nat → Bool) (clock : Time) (store : Store) (opts : Options) (leaf : Cert) : Result :=
  if leaf.ctype ≠ leafT then .rejected .leafType
  else if nameRefused opts leaf then .rejected .name
  else if !validAt (opts.now clock) leaf then .rejected .leafTime
  else
    match chooseIntermediate store opts leaf with
    | none => .rejected .noIntermediate
    | some inter =>
      if inter.ctype ≠ intermediateT then .rejected .interType
      else if !validAt (opts.now clock) inter then .rejected .interTime
      else if inter.fp ≠ leaf.parent then .rejected .interFp
      else if !verifyParent sv leaf inter then .rejected .leafSig
      else
        match store.get inter.parent with
        | none => .rejected .noRoot
        | some root =>
          if root.ctype ≠ rootT then .rejected .rootType
          else if !validAt (opts.now clock) root then .rejected .rootTime
          else if root.fp ≠ inter.parent then .rejected .rootFp
          else if !verifyParent sv inter root then .rejected .interSig
          else .ok

/-- the `VerificationFailureReason` the code attaches (informational) -/
def Check.reason : Check → Nat
  | .leafType | .interType | .rootType => 5   -- ReasonInvalidCertificate (sic: unexpectedTypeError)
  | .name => 2
  | .leafTime | .interTime | .rootTime => 6
  | .noIntermediate => 0
  | .noRoot => 1
  | .interFp | .rootFp => 7
  | .leafSig | .interSig => 3

/-! ### issuance -/

/-- serialized length: 4 + 8 + 8 + 32 + 32 + (2 + Σ (3 + |label|)) + 64 -/
def serializedLen (names : List Name) : Nat := 150 + (names.map fun n => n.label.length + 3).sum

/-- `IDChunk.WriteTo` / `Name.WriteTo` succeed (a 253-byte label would need a block size of 256, which
does not fit its length byte — finding F26, repaired) -/
def namesOK (names : List Name) : Bool :=
  decide (2 + (names.map fun n => n.label.length + 3).sum ≤ 512) && names.all fun n => decide (n.label.length ≤ 252)

/-- `issue(parent, child, certType, issuedAt, duration)`; `hasKey`: the parent's private key was
provided; `fp`, `tbs`: the identities SHA3 and the serialization give the new certificate;
`none`: an error is returned -/
def issue (parent : Cert) (hasKey : Bool) (pubKey : Nat) (names : List Name) (ctype : Nat)
    (issuedAt : Time) (duration : Int) (fp tbs : Nat) : Option Cert :=
  if parent.fp = 0 then none
  else if !hasKey then none
  else if duration ≤ 0 then none
  else if issuedAt.before parent.issuedAt || !issuedAt.before parent.expiresAt then none
  else if !namesOK names then none
  else
    let e := issuedAt.add duration
    some { ctype, names, issuedAt,
           expiresAt := if parent.expiresAt.before e then parent.expiresAt else e,
           pubKey, parent := parent.fp, fp, rawLen := serializedLen names, tbs }

/-- `IssueLeafAt` -/
def issueLeafAt (parent : Cert) (hasKey : Bool) (pubKey : Nat) (names : List Name)
    (issuedAt : Time) (validity : Int) (fp tbs : Nat) : Option Cert :=
  if parent.ctype ≠ intermediateT then none
  else issue parent hasKey pubKey names leafT issuedAt validity fp tbs

/-- `IssueIntermediate` at time `now` (366 days) -/
def issueIntermediate (root : Cert) (hasKey : Bool) (pubKey : Nat) (names : List Name)
    (now : Time) (fp tbs : Nat) : Option Cert :=
  if root.ctype ≠ rootT then none
  else issue root hasKey pubKey names intermediateT now (366 * 24 * 3600 * 1000000000) fp tbs

end Certs
