/-
Model of `cyclist/cyclist.go`: the Cyclist duplex of the Xoodyak/Cyclist paper
(eprint 2018/767, Algorithms 2 and 3) as ported there, with the permutation as a *parameter* `f`
(the Go code instantiates it with Keccak-p[1600, 12]; the theorems of Props/C13 hold for any `f`).

Piece by piece:
  `down`/`up`                      `Cyclist.down` / `Cyclist.up` (domain bytes, hash-mode masking)
  `absorbAny`/`crypt`/`squeezeAny` the three loops of the same names
  `absorbKey`                      key ‖ id ‖ byte(|id|) in a 136-byte array — the Go code panics
                                   (index/slice out of range) iff |key| + |id| ≥ 136
  `initialise … ratchet`           the exported methods; the panics of the keyed-only methods in
                                   hash mode are the explicit outcome `Out.panic`

The Go struct also has fields `rAbsorb`, `rSqueeze`; they are assigned only from the constants
`rHash = rKin = rKout = 136` (Props/C13 has the obligations on the extracted constants), so the
model uses the constant `rate`.  All byte offsets used on the state are `≤ 136` or `199`.
-/
import HopModel.Model.Keccak
namespace Cyclist
open Keccak

inductive Phase where
  | up | down
  deriving DecidableEq, Repr

inductive Mode where
  | hash | key
  deriving DecidableEq, Repr

structure Cy where
  phase : Phase
  mode : Mode
  s : State

def fB : Nat := 200
def rate : Nat := 136       -- rHash = rKin = rKout
def lRatchet : Nat := 32

/-- `InitializeEmpty` / `NewCyclist` -/
def empty : Cy := { phase := .up, mode := .hash, s := zero }

/-- `down(x, cd)` -/
def down (c : Cy) (x : List UInt8) (cd : UInt8) : Cy :=
  let s := addBytes c.s x
  let s := addByte s 0x01 x.length
  let cd := if c.mode = .hash then cd &&& 0x01 else cd
  let s := addByte s cd (fB - 1)
  { c with s := s, phase := .down }

/-- `up(y, cu)` with `len(y) = n`; returns the bytes written into `y` -/
def up (f : State → State) (c : Cy) (n : Nat) (cu : UInt8) : Cy × List UInt8 :=
  let s := if c.mode ≠ .hash then addByte c.s cu (fB - 1) else c.s
  let s := f s
  ({ c with s := s, phase := .up }, extract s n)

/-- `absorbAny(x, r, cd)`.  (`r` is 136 or 1 at every call site; with `r = 0` and a non-empty `x`
the Go loop would not terminate — unreachable, the model stops.) -/
def absorbAny (f : State → State) (c : Cy) (x : List UInt8) (r : Nat) (cd : UInt8) : Cy :=
  let c := if c.phase ≠ .up then (up f c 0 0x00).1 else c
  let c := down c (x.take r) cd
  if _h : (x.drop r).isEmpty ∨ r = 0 then c
  else absorbAny f c (x.drop r) r 0x00
termination_by x.length
decreasing_by
  simp only [not_or, List.isEmpty_iff] at _h
  have : x.length ≠ 0 := by
    intro h0
    have : x = [] := List.eq_nil_of_length_eq_zero h0
    simp [this] at _h
  simp only [List.length_drop]
  omega

/-- outcome of `absorbKey`: the object, and whether the Go code panicked -/
def absorbKey (f : State → State) (c : Cy) (key id counter : List UInt8) : Cy × Bool :=
  let c := { c with mode := .key }
  if key.length + id.length ≥ rate then (c, true)   -- kid[klen+idlen] / kid[klen:] out of range
  else
    let kid := key ++ id ++ [UInt8.ofNat id.length]
    let c := absorbAny f c kid rate 0x02
    let c := if counter.length > 0 then absorbAny f c counter 1 0x00 else c
    (c, false)

/-- one block step of `crypt` on an input block `blk` (≤ 136 bytes) -/
def cryptBlock (f : State → State) (decrypt : Bool) (c : Cy) (cu : UInt8) (blk : List UInt8) :
    Cy × List UInt8 :=
  let (c, ks) := up f c blk.length cu
  let o := List.zipWith (· ^^^ ·) ks blk          -- stateCopyAndAddBytes
  let c := down c (if decrypt then o else blk) 0x00
  (c, o)

/-- `crypt(out, in, decrypt)`; returns the bytes written to `out` -/
def crypt (f : State → State) (decrypt : Bool) (c : Cy) (cu : UInt8) (inp : List UInt8) :
    Cy × List UInt8 :=
  let r := cryptBlock f decrypt c cu (inp.take rate)
  if _h : (inp.drop rate).isEmpty then r
  else
    let r' := crypt f decrypt r.1 0x00 (inp.drop rate)
    (r'.1, r.2 ++ r'.2)
termination_by inp.length
decreasing_by
  simp only [List.isEmpty_iff] at _h
  have : inp.length ≠ 0 := by
    intro h0
    have : inp = [] := List.eq_nil_of_length_eq_zero h0
    simp [this] at _h
  simp only [List.length_drop, rate]
  omega

/-- the `for yLen != 0` loop of `squeezeAny` -/
def squeezeMore (f : State → State) (c : Cy) (n : Nat) (acc : List UInt8) : Cy × List UInt8 :=
  if _h : n = 0 then (c, acc)
  else
    let c := down c [] 0x00
    let r := up f c (min n rate) 0x00
    squeezeMore f r.1 (n - min n rate) (acc ++ r.2)
termination_by n
decreasing_by simp only [rate]; omega

/-- `squeezeAny(y, cu)` with `len(y) = n` -/
def squeezeAny (f : State → State) (c : Cy) (n : Nat) (cu : UInt8) : Cy × List UInt8 :=
  let r := up f c (min n rate) cu
  squeezeMore f r.1 (n - min n rate) r.2

/-! ### the exported methods -/

inductive Out where
  | done                      -- method returned, no output
  | bytes (b : List UInt8)    -- bytes written to the output slice
  | panic                     -- the Go method panicked
  deriving DecidableEq, Repr

/-- `Initialize(key, id, counter)` -/
def initialise (f : State → State) (key id counter : List UInt8) : Cy × Out :=
  if key.length > 0 then
    let r := absorbKey f empty key id counter
    (r.1, if r.2 then .panic else .done)
  else (empty, .done)

def absorb (f : State → State) (c : Cy) (x : List UInt8) : Cy × Out :=
  (absorbAny f c x rate 0x03, .done)

def encrypt (f : State → State) (c : Cy) (p : List UInt8) : Cy × Out :=
  if c.mode ≠ .key then (c, .panic)
  else let r := crypt f false c 0x80 p; (r.1, .bytes r.2)

def decrypt (f : State → State) (c : Cy) (ct : List UInt8) : Cy × Out :=
  if c.mode ≠ .key then (c, .panic)
  else let r := crypt f true c 0x80 ct; (r.1, .bytes r.2)

def squeeze (f : State → State) (c : Cy) (n : Nat) : Cy × Out :=
  let r := squeezeAny f c n 0x40; (r.1, .bytes r.2)

def squeezeKey (f : State → State) (c : Cy) (n : Nat) : Cy × Out :=
  if c.mode ≠ .key then (c, .panic)
  else let r := squeezeAny f c n 0x20; (r.1, .bytes r.2)

def ratchet (f : State → State) (c : Cy) : Cy × Out :=
  if c.mode ≠ .key then (c, .panic)
  else
    let r := squeezeAny f c lRatchet 0x10
    (absorbAny f r.1 r.2 rate 0x00, .done)

/-! ### programs over the API -/

inductive Op where
  | init (key id counter : List UInt8)
  | initEmpty
  | absorb (x : List UInt8)
  | encrypt (p : List UInt8)
  | decrypt (c : List UInt8)
  | squeeze (n : Nat)
  | squeezeKey (n : Nat)
  | ratchet
  deriving DecidableEq, Repr

def step (f : State → State) (c : Cy) : Op → Cy × Out
  | .init k i n => initialise f k i n
  | .initEmpty => (empty, .done)
  | .absorb x => absorb f c x
  | .encrypt p => encrypt f c p
  | .decrypt ct => decrypt f c ct
  | .squeeze n => squeeze f c n
  | .squeezeKey n => squeezeKey f c n
  | .ratchet => ratchet f c

/-- run a program; a panicking call leaves the object as the Go code leaves it and the run goes on
(the harness recovers) -/
def run (f : State → State) (c : Cy) : List Op → Cy × List Out
  | [] => (c, [])
  | op :: rest =>
    let r := step f c op
    let r' := run f r.1 rest
    (r'.1, r.2 :: r'.2)

end Cyclist
