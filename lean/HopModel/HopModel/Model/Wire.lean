/-
Wire formats of hop-go (C18, decoder half of C11).  Core-only, executable.

Every codec `X` is transcribed field by field from the Go code:

  `encX : α → Except Err Bytes`            the writer (`WriteTo` / `toBytes` / `ToBytes`)
  `rdX  : R α`                             the reader (`ReadFrom` / `fromBytes` / `GetCmd` …) as a
                                           function on the bytes still unread, returning the value
                                           or an error, the unread remainder, and an *allocation
                                           counter*: the sum of the sizes the Go reader passes to
                                           `make`/a copy buffer *before* the corresponding bytes
                                           have arrived
  `decX : Bytes → Except Err (α × Bytes)`  `rdX` without the counter (what C18 speaks about)

A short read is an error, never a default — except where the Go reader really has no error
path (`userauth.GetInitMsg`), which is modelled as it is (zero padding).

Go sources: common/encode.go, certs/certificate.go, authgrants/messages.go,
authgrants/proxy_messages.go, tubes/frame.go, codex/exec.go, userauth/userauth.go,
portforwarding/portforwarding.go.
-/
import HopModel.Base.Bytes
namespace Wire
open Bytes

inductive Err
  | short          -- the stream ended inside a field
  | invalid        -- a field value the reader refuses
  | tooLong        -- a value that does not fit its length field (writers)
  | unimplemented  -- LocalPF / RemotePF grant data
  deriving DecidableEq, Repr

/-! ## Readers -/

/-- result (value or error), unread remainder, allocation counter -/
def R (α : Type) := Bytes → Except Err α × Bytes × Nat

def R.pure (v : α) : R α := fun bs => (.ok v, bs, 0)

def R.bind (m : R α) (f : α → R β) : R β := fun bs =>
  match m bs with
  | (.ok v, r, a) => match f v r with
    | (res, r', a') => (res, r', a + a')
  | (.error e, r, a) => (.error e, r, a)

instance : Monad R where
  pure := R.pure
  bind := R.bind

def R.fail (e : Err) : R α := fun bs => (.error e, bs, 0)

/-- `make([]byte, n)` / a copy buffer of `n` bytes before the data is there -/
def allocate (n : Nat) : R Unit := fun bs => (.ok (), bs, n)

/-- `io.ReadFull` of exactly `n` bytes; a short stream is consumed and is an error -/
def readN (n : Nat) : R Bytes := fun bs =>
  if n ≤ bs.length then (.ok (bs.take n), bs.drop n, 0) else (.error .short, [], 0)

def u8 : R UInt8 := fun bs =>
  match bs with
  | [] => (.error .short, [], 0)
  | b :: r => (.ok b, r, 0)

/-- `binary.Read(r, binary.BigEndian, &uintXX)` -/
def uBE (k : Nat) : R Nat := do
  let b ← readN k
  pure (fromBE b)

/-- the reader without its allocation counter -/
def R.dec (m : R α) (bs : Bytes) : Except Err (α × Bytes) :=
  match m bs with
  | (.ok v, r, _) => .ok (v, r)
  | (.error e, _, _) => .error e

def R.alloc (m : R α) (bs : Bytes) : Nat := (m bs).2.2
def R.consumed (m : R α) (bs : Bytes) : Nat := bs.length - (m bs).2.1.length

/-! ## common.WriteString / common.ReadString — one length byte, then the bytes -/

/-- `common.WriteString` (after `fix:`: a string longer than 255 bytes is refused; the pinned code
wrote `byte(len(s))` and then the whole string) -/
def encStr (s : Bytes) : Except Err Bytes :=
  if s.length ≤ 255 then .ok (UInt8.ofNat s.length :: s) else .error .tooLong

/-- `common.ReadString`: `io.CopyN` into a `strings.Builder` uses a copy buffer of the announced
length (at most 255) -/
def rdStr : R Bytes := do
  let l ← u8
  allocate l.toNat
  readN l.toNat

/-! ## certs.Name (id block), certs.IDChunk, certs.Certificate -/

structure Name where
  label : Bytes
  type : UInt8
  deriving DecidableEq, Repr

/-- `Name.WriteTo` (after `fix:`: the block size `len+3` must fit one byte, i.e. label ≤ 252; the
pinned code let 253 through and wrote block size `byte(256) = 0`) -/
def encName (n : Name) : Except Err Bytes :=
  if n.label.length ≤ 252 then
    .ok ([UInt8.ofNat (n.label.length + 3), n.type, UInt8.ofNat n.label.length] ++ n.label)
  else .error .tooLong

/-- `Name.ReadFrom`: block size (≥ 3), type, label length (≤ block size − 3), label.  The padding
a larger block size announces is *not* consumed (as in the code). -/
def rdName : R Name := do
  let bsz ← u8
  if bsz.toNat < 3 then R.fail .invalid else do
  let t ← u8
  let l ← u8
  if l.toNat > bsz.toNat - 3 then R.fail .invalid else do
  allocate l.toNat
  let lab ← readN l.toNat
  pure ⟨lab, t⟩

def blockSize (n : Name) : Nat := n.label.length + 3

/-- `IDChunk.SerializedLen` -/
def chunkLen (ns : List Name) : Nat := 2 + (ns.map blockSize).sum

def encNames : List Name → Except Err Bytes
  | [] => .ok []
  | n :: ns => do
    let a ← encName n
    let b ← encNames ns
    pure (a ++ b)

/-- `IDChunk.WriteTo` -/
def encChunk (ns : List Name) : Except Err Bytes :=
  if chunkLen ns ≤ 512 then do
    let b ← encNames ns
    pure (toBE 2 (chunkLen ns) ++ b)
  else .error .tooLong

/-- the block loop of `IDChunk.ReadFrom`; `rem` = announced block bytes not yet read (after `fix:`:
a block that runs past the announced chunk length is refused; the pinned code accepted it and
produced chunks that `WriteTo` cannot write) -/
def rdNames (rem : Nat) : R (List Name) :=
  if h : rem = 0 then pure [] else do
    let n ← rdName
    if n.label.length + 3 > rem then R.fail .invalid else do
    let ns ← rdNames (rem - (n.label.length + 3))
    pure (n :: ns)
termination_by rem
decreasing_by omega

/-- `IDChunk.ReadFrom` -/
def rdChunk : R (List Name) := do
  let l ← uBE 2
  if l > 512 ∨ l < 2 then R.fail .invalid else
  rdNames (l - 2)

/-- value fields of `certs.Certificate` (`Fingerprint`, `raw`, `privateKey` are derived/private and
not part of the encoding).  Times are Unix seconds (`int64`). -/
structure Cert where
  version : UInt8
  type : UInt8
  issuedAt : Int
  expiresAt : Int
  pub : Bytes      -- [32]byte
  parent : Bytes   -- [32]byte
  chunk : List Name
  sig : Bytes      -- [64]byte
  deriving DecidableEq, Repr

/-- `binary.Write(w, BigEndian, t.Unix())`: two's complement of an `int64` -/
def encTime (t : Int) : Bytes := toBE 8 (t % 2 ^ 64).toNat

/-- `binary.Read(&uint64)` + the `> math.MaxInt64` check -/
def rdTime : R Int := do
  let t ← uBE 8
  if t > 2 ^ 63 - 1 then R.fail .invalid else pure (Int.ofNat t)

/-- `Certificate.WriteTo` / `Marshal` -/
def encCert (c : Cert) : Except Err Bytes := do
  let ch ← encChunk c.chunk
  pure ([c.version, c.type, 0, 0] ++ (encTime c.issuedAt ++ (encTime c.expiresAt ++
    (c.pub ++ (c.parent ++ (ch ++ c.sig))))))

/-- `Certificate.ReadFrom` (two reserved bytes are read and ignored) -/
def rdCert : R Cert := do
  let v ← u8
  let t ← u8
  let _ ← readN 2
  let ia ← rdTime
  let ea ← rdTime
  allocate 32
  let pk ← readN 32
  let par ← readN 32
  let ch ← rdChunk
  let sg ← readN 64
  pure ⟨v, t, ia, ea, pk, par, ch, sg⟩

/-! ## authgrants.Intent, authgrants.AgMessage -/

/-- `authgrants.Intent`; `cmd` is `AssociatedData.CommandGrantData.Cmd`, the only associated data
that exists on the wire (grant type Command = 2) -/
structure Intent where
  grantType : UInt8
  reserved : UInt8
  port : Nat        -- uint16
  start : Int
  exp : Int
  sni : Name
  user : Bytes
  cert : Cert
  cmd : Bytes
  deriving DecidableEq, Repr

/-- `Intent.WriteTo` (after `fix:`: LocalPF = 3 / RemotePF = 4 return an error; the pinned code
reached `panic("unimplemented")`) -/
def encIntent (i : Intent) : Except Err Bytes := do
  let sni ← encName i.sni
  let user ← encStr i.user
  let cert ← encCert i.cert
  let assoc ← (if i.grantType = 2 then encStr i.cmd
    else if i.grantType = 3 ∨ i.grantType = 4 then .error .unimplemented
    else .ok [])
  pure ([i.grantType, i.reserved] ++ (toBE 2 i.port ++ (encTime i.start ++ (encTime i.exp ++
    (sni ++ (user ++ (cert ++ assoc)))))))

/-- `Intent.ReadFrom` -/
def rdIntent : R Intent := do
  let gt ← u8
  let rs ← u8
  let port ← uBE 2
  let st ← rdTime
  let ex ← rdTime
  let sni ← rdName
  let user ← rdStr
  let cert ← rdCert
  let cmd ← (if gt = 2 then rdStr
    else if gt = 3 ∨ gt = 4 then R.fail .unimplemented
    else pure [])
  pure ⟨gt, rs, port, st, ex, sni, user, cert, cmd⟩

/-- `authgrants.AgMessage`: message type byte, then the data that type carries -/
inductive AgMsg
  | request (i : Intent)        -- IntentRequest = 1
  | communication (i : Intent)  -- IntentCommunication = 2
  | confirmation                -- IntentConfirmation = 3
  | denied (reason : Bytes)     -- IntentDenied = 4
  | unknown (t : UInt8)         -- any other type byte: no data in either direction
  deriving DecidableEq, Repr

/-- `AgMessage.WriteTo` -/
def encAg : AgMsg → Except Err Bytes
  | .request i => do let b ← encIntent i; pure (1 :: b)
  | .communication i => do let b ← encIntent i; pure (2 :: b)
  | .confirmation => .ok [3]
  | .denied s => do let b ← encStr s; pure (4 :: b)
  | .unknown t => .ok [t]

/-- `AgMessage.ReadFrom` -/
def rdAg : R AgMsg := do
  let t ← u8
  if t = 1 then do let i ← rdIntent; pure (.request i)
  else if t = 2 then do let i ← rdIntent; pure (.communication i)
  else if t = 3 then pure .confirmation
  else if t = 4 then do let s ← rdStr; pure (.denied s)
  else pure (.unknown t)

/-! ## tubes.frame / tubes.initiateFrame -/

structure Flags where
  req : Bool
  resp : Bool
  rel : Bool
  ack : Bool
  fin : Bool
  rtr : Bool
  deriving DecidableEq, Repr

def bit (b : Bool) (i : Nat) : Nat := if b then 2 ^ i else 0

/-- `flagsToMetaByte` -/
def metaOf (f : Flags) : UInt8 :=
  UInt8.ofNat (bit f.req 0 + bit f.resp 1 + bit f.rel 2 + bit f.ack 3 + bit f.fin 4 + bit f.rtr 5)

/-- `metaToFlags` (bits 6 and 7 are ignored) -/
def flagsOf (b : UInt8) : Flags :=
  let n := b.toNat
  ⟨n % 2 = 1, n / 2 % 2 = 1, n / 4 % 2 = 1, n / 8 % 2 = 1, n / 16 % 2 = 1, n / 32 % 2 = 1⟩

/-- `tubes.frame` without the bookkeeping field `queued` -/
structure Frame where
  tubeID : UInt8
  flags : Flags
  dataLength : Nat   -- uint16, a field of its own in the Go struct
  ackNo : Nat        -- uint32
  frameNo : Nat      -- uint32
  data : Bytes
  deriving DecidableEq, Repr

/-- `frame.toBytes` (no error path; writes the `dataLength` field and all of `data`) -/
def encFrame (f : Frame) : Bytes :=
  [f.tubeID, metaOf f.flags] ++ (toBE 2 f.dataLength ++ (toBE 4 f.ackNo ++ (toBE 4 f.frameNo ++ f.data)))

/-- `fromBytes` on a datagram: 12 header bytes, then `dataLength` bytes (anything after that is
ignored by the Go code; here it is the remainder).  `12+dataLength` is computed in `uint16` by the
Go code, so a length ≥ 65524 can never be satisfied.  Where the pinned Go code panics on a short
buffer this reader returns an error; panic-freedom of the frame path is C11's muxer half. -/
def rdFrame : R Frame := do
  let tube ← u8
  let m ← u8
  let dl ← uBE 2
  let ack ← uBE 4
  let fno ← uBE 4
  if dl + 12 > 65535 then R.fail .invalid else do
  let data ← readN dl
  pure ⟨tube, flagsOf m, dl, ack, fno, data⟩

structure InitFrame where
  tubeID : UInt8
  flags : Flags
  dataLength : Nat   -- uint16
  tubeType : UInt8
  frameNo : Nat      -- uint32
  data : Bytes
  deriving DecidableEq, Repr

/-- `initiateFrame.toBytes` -/
def encInitFrame (f : InitFrame) : Bytes :=
  [f.tubeID, metaOf f.flags] ++ (toBE 2 f.dataLength ++ ([f.tubeType, 0] ++ (toBE 4 f.frameNo ++ f.data)))

/-- `fromInitiateBytes` (the byte after the tube type is ignored) -/
def rdInitFrame : R InitFrame := do
  let tube ← u8
  let m ← u8
  let dl ← uBE 2
  let tt ← u8
  let _ ← u8
  let fno ← uBE 4
  if dl + 10 > 65535 then R.fail .invalid else do
  let data ← readN dl
  pure ⟨tube, flagsOf m, dl, tt, fno, data⟩

/-! ## codex.execInitMsg -/

structure WinSize where
  rows : Nat
  cols : Nat
  x : Nat
  y : Nat
  deriving DecidableEq, Repr

structure ExecInit where
  usePty : Bool
  cmd : Bytes
  term : Bytes
  size : Option WinSize
  deriving DecidableEq, Repr

def encSize (s : WinSize) : Bytes := toBE 2 s.rows ++ (toBE 2 s.cols ++ (toBE 2 s.x ++ toBE 2 s.y))

/-- `execInitMsg.ToBytes` (no error path: lengths are `uint32(len(..))`) -/
def encExec (m : ExecInit) : Bytes :=
  [UInt8.ofNat (bit m.usePty 0 + bit m.size.isSome 1)] ++ (toBE 4 m.cmd.length ++ (m.cmd ++
    (toBE 4 m.term.length ++ (m.term ++ (match m.size with | some s => encSize s | none => [])))))

def rdSize : R WinSize := do
  let r ← uBE 2
  let c ← uBE 2
  let x ← uBE 2
  let y ← uBE 2
  pure ⟨r, c, x, y⟩

/-- a 4-byte length and that many bytes, read through a copy buffer of at most 32 KiB (after
`fix:`; the pinned `GetCmd` did `make([]byte, length)` with the announced 32-bit length) -/
def rdLen32 : R Bytes := do
  let l ← uBE 4
  allocate (min l 32768)
  readN l

/-- `codex.GetCmd` (after `fix:` a short read is an error; the pinned code ignored every read
error and went on with zero-filled buffers) -/
def rdExec : R ExecInit := do
  let t ← u8
  let cmd ← rdLen32
  let term ← rdLen32
  let size ← (if t.toNat / 2 % 2 = 1 then do let s ← rdSize; pure (some s) else pure none)
  pure ⟨t.toNat % 2 = 1, cmd, term, size⟩

/-! ## userauth init message -/

/-- `userAuthInitMsg.toBytes`: 2-byte length, the name, and two zero bytes (`headerLen` is 4 but
the name starts at offset 2).  After `fix:` a name longer than 65535 bytes is refused. -/
def encUA (u : Bytes) : Except Err Bytes :=
  if u.length ≤ 65535 then .ok (toBE 2 u.length ++ (u ++ [0, 0])) else .error .tooLong

/-- `io.ReadFull` into a fresh zeroed buffer with the error ignored -/
def readPad (n : Nat) : R Bytes := fun bs =>
  (.ok (bs.take n ++ List.replicate (n - bs.length) 0), bs.drop n, 0)

/-- `userauth.GetInitMsg`: has no error result; short reads leave zero bytes.  It reads the
length and the name and leaves the two trailing bytes of `toBytes` unread. -/
def rdUA : R Bytes := do
  let l ← readPad 2
  allocate (fromBE l)
  readPad (fromBE l)

/-! ## exec status (`codex.SendSuccess`, `codex.SendFailure`, `codex.getStatus`) -/

inductive XStatus where
  | conf                      -- the command was started
  | fail (msg : Bytes)        -- it was not; the error text
  deriving Repr, DecidableEq

/-- `SendSuccess` writes one byte.  `SendFailure` writes the status byte, a 4-byte field whose
first two bytes are the length of the text as a 16-bit number, and the text.  It has no error
path: the length of a text of 65536 bytes or more wraps. -/
def encXst : XStatus → Bytes
  | .conf => [1]
  | .fail m => [2] ++ (toBE 2 (m.length % 65536) ++ [0, 0]) ++ m

/-- `getStatus` (the client's side): every read error is ignored - a short read leaves zero bytes -
and the text buffer is allocated from the 16-bit length before anything of it is read -/
def rdXst : R XStatus := do
  let r ← readPad 1
  if r = [1] then pure .conf else do
    let l ← readPad 4
    allocate (fromBE (l.take 2))
    let m ← readPad (fromBE (l.take 2))
    pure (.fail m)

/-! ## port-forward request, at the level (network type, forward type, address string) -/

structure PF where
  netType : UInt8
  fwdType : UInt8
  addr : Bytes
  deriving DecidableEq, Repr

def idxOf (c : UInt8) (s : Bytes) : Option Nat :=
  let i := s.findIdx (· == c)
  if i < s.length then some i else none

def lastIdxOf (c : UInt8) (s : Bytes) : Option Nat :=
  match idxOf c s.reverse with
  | some i => some (s.length - 1 - i)
  | none => none

/-- does Go's `net.SplitHostPort` accept the string? (standard library, modelled from its source:
last colon, optional brackets around the host, no stray brackets, no further colon) -/
def splitHostPortOK (s : Bytes) : Bool :=
  match lastIdxOf 58 s with
  | none => false
  | some i =>
    if s.head? = some 91 then
      match idxOf 93 s with
      | none => false
      | some e =>
        if e + 1 = i then
          (idxOf 91 (s.drop 1)).isNone && (idxOf 93 (s.drop (e + 1))).isNone
        else false
    else
      (idxOf 58 (s.take i)).isNone && (idxOf 91 s).isNone && (idxOf 93 s).isNone

/-- what `readPacket` accepts as address for a network type -/
def addrOK (nt : UInt8) (a : Bytes) : Bool :=
  if nt = 1 ∨ nt = 2 then splitHostPortOK a else nt = 3

/-- `portforwarding.toBytes` on (TCP|UDP|Unix address, forward type) (after `fix:` an address
string longer than 65535 bytes gives `nil`; the pinned code wrote `uint16(len)`) -/
def encPF (p : PF) : Except Err Bytes :=
  if p.netType = 1 ∨ p.netType = 2 ∨ p.netType = 3 then
    if p.addr.length ≤ 65535 then .ok ([p.netType, p.fwdType] ++ (toBE 2 p.addr.length ++ p.addr))
    else .error .tooLong
  else .error .invalid

/-- `portforwarding.readPacket` -/
def rdPF : R PF := do
  let nt ← u8
  let ft ← u8
  let l ← uBE 2
  allocate l
  let a ← readN l
  if addrOK nt a then pure ⟨nt, ft, a⟩ else R.fail .invalid

/-! ## decoders without the counter -/

def decStr := rdStr.dec
def decName := rdName.dec
def decChunk := rdChunk.dec
def decCert := rdCert.dec
def decIntent := rdIntent.dec
def decAg := rdAg.dec
def decFrame := rdFrame.dec
def decInitFrame := rdInitFrame.dec
def decExec := rdExec.dec
def decUA := rdUA.dec
def decPF := rdPF.dec
def decXst := rdXst.dec

end Wire
