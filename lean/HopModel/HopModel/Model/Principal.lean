/-
Model of the authorization-grant decision logic of `authgrants/principal.go`
(`principalInstance.run` / `handleIntentRequest` / `doIntentRequestChecks`) and of
`authgrants/target.go` (`targetInstance.handleIntentCommunication`).

Everything outside the package is a *script* carried by the request (an oracle answer per
request, so that any stateful callback / set-up function / target is covered by quantifying over
all lists of requests):

* `Req.approve`  — what the approval callback (`CheckIntentCallback`) answers if it is invoked;
* `Req.setup`    — how the set-up function (`setUpTargetConnCallback`) behaves if it is invoked:
                   it fails before the peer certificate is seen, or it reaches certificate
                   verification and invokes the verify callback with certificate `c` (failing if
                   the callback refuses, and otherwise completing or failing later), or — as the
                   package's own unit tests do, unlike `hopclient.setupTargetClient` — it succeeds
                   without ever invoking the callback;
* `Req.answer`   — how the target connection behaves if the intent is forwarded.

Events are the property-level observables: invocations of the approval callback with their
arguments and result, intents written on the target connection, answers written on the delegate
connection.  Denial reasons (error texts) are not observables.

The model is the behaviour the property demands: one answer per request, forward only what was
approved.  Core Lean only.
-/
namespace Principal

/-- `authgrants.Intent`, field for field.  The delegate certificate is a token: the harness maps
tokens injectively to certificates and maps the bytes that arrive back to tokens. -/
structure Intent where
  gtype : Nat
  reserved : Nat
  port : Nat
  start : Nat
  exp : Nat
  sniType : Nat
  sni : List UInt8
  user : List UInt8
  cert : Nat
  cmd : List UInt8
deriving DecidableEq, Repr

/-- `Intent.TargetURL()` : `core.URL{User, Host: string(TargetSNI.Label), Port}` -/
structure Target where
  user : List UInt8
  host : List UInt8
  port : Nat
deriving DecidableEq, Repr

def Intent.target (i : Intent) : Target := ⟨i.user, i.sni, i.port⟩

/-- identifies the target certificate handed to the verify callback -/
abbrev Cert := Nat

inductive Setup
  /-- fails before the target's certificate is verified; the callback is not invoked -/
  | failEarly
  /-- reaches certificate verification: invokes the callback with certificate `c`; fails if the
  callback refuses; otherwise completes iff `thenOk` -/
  | verify (c : Cert) (thenOk : Bool)
  /-- returns a connection without having invoked the callback -/
  | skipVerify
deriving DecidableEq, Repr

inductive Answer
  | confirm      -- reads the intent communication, answers IntentConfirmation
  | deny         -- reads it, answers IntentDenied
  | readFail     -- reads it, then closes / answers something that is no confirmation or denial
  | writeFail    -- the connection is dead: nothing can be written
deriving DecidableEq, Repr

structure Req where
  intent : Intent
  setup : Setup
  approve : Bool
  answer : Answer
deriving DecidableEq, Repr

inductive Ev
  | callback (i : Intent) (c : Option Cert) (d : Bool)
  | toTarget (i : Intent)
  | toDelegate (confirm : Bool)
deriving DecidableEq, Repr

/-- `principalInstance`: `targetConnected`/`targetInfo` and `targetCert` -/
structure St where
  connected : Option Target
  cert : Option Cert
deriving DecidableEq, Repr

def init : St := ⟨none, none⟩

/-- the tail of `doIntentRequestChecks`: `WriteIntentCommunication`, `ReadConfOrDenial`, answer -/
def forward (i : Intent) : Answer → List Ev
  | .writeFail => [.toDelegate false]
  | .readFail => [.toTarget i, .toDelegate false]
  | .deny => [.toTarget i, .toDelegate false]
  | .confirm => [.toTarget i, .toDelegate true]

/-- `doIntentRequestChecks` for one request -/
def handle (s : St) (r : Req) : St × List Ev :=
  let i := r.intent
  match s.connected with
  | some t =>
    if t ≠ i.target then
      (s, [.toDelegate false])                       -- "request for different target"
    else if r.approve then
      (s, .callback i s.cert true :: forward i r.answer)
    else
      (s, [.callback i s.cert false, .toDelegate false])
  | none =>
    match r.setup with
    | .failEarly => (s, [.toDelegate false])
    | .verify c thenOk =>
      -- `checkIntentWithCert`: `p.targetCert = cert`, then the approval callback
      let s1 : St := { s with cert := some c }
      if !r.approve then (s1, [.callback i (some c) false, .toDelegate false])
      else if !thenOk then (s1, [.callback i (some c) true, .toDelegate false])
      else ({ connected := some i.target, cert := some c },
            .callback i (some c) true :: forward i r.answer)
    | .skipVerify =>
      ({ s with connected := some i.target }, forward i r.answer)

/-- `run`: one trace segment per request served -/
def run : St → List Req → List (Req × List Ev)
  | _, [] => []
  | s, r :: rs => (r, (handle s r).2) :: run (handle s r).1 rs

def finalState : St → List Req → St
  | s, [] => s
  | s, r :: rs => finalState (handle s r).1 rs

/-- the whole trace of a delegate connection -/
def trace (s : St) (rs : List Req) : List Ev := (run s rs).flatMap (·.2)

/-- what arrives on the delegate connection: a request, or something that is not one (the
instance then quits: `handleIntentRequest` returns the read error) -/
inductive Msg
  | req (r : Req)
  | junk
deriving DecidableEq, Repr

def served : List Msg → List Req
  | .req r :: ms => r :: served ms
  | _ => []

/-! ### target side: `handleIntentCommunication` -/

structure TReq where
  intent : Intent
  checkOk : Bool     -- result of the target's `checkIntent` policy
  addOk : Bool       -- result of `addAuthGrant`
deriving DecidableEq, Repr

inductive TEv
  | check (i : Intent)
  | add (i : Intent)
  | reply (confirm : Bool)
deriving DecidableEq, Repr

def targetStep (r : TReq) : List TEv :=
  if !r.checkOk then [.check r.intent, .reply false]
  else if !r.addOk then [.check r.intent, .add r.intent, .reply false]
  else [.check r.intent, .add r.intent, .reply true]

def targetRun (rs : List TReq) : List (TReq × List TEv) := rs.map fun r => (r, targetStep r)

/-- the answer a principal sees from a target running `targetStep` -/
def answerOf (r : TReq) : Answer := if r.checkOk && r.addOk then .confirm else .deny

end Principal
