/-
`transport/replay.go` once more, this time with the machine types of the Go code: the ring is
eight `UInt64` words, counters and the window top are `UInt64`, every operator is the `uint64`
operator (`+` wraps, `>>`, `&`, `|`, `<<`).  `Proofs/ReplayU64.lean` shows that this machine-level
transcription is the `Nat`-level model of `Model/Replay.lean` seen through `toNat`.
-/
import HopModel.Model.Replay
namespace ReplayU64

structure WinU where
  blocks : Array UInt64      -- `[numBlocks]uint64`
  wt : UInt64

def init : WinU := { blocks := Array.replicate 8 0, wt := 0 }

/-- `blocks[i]` for `i = … & indexMask` -/
def blk (w : WinU) (i : UInt64) : UInt64 := w.blocks.getD i.toNat 0

/-- `func (s SlidingWindow) Check(seq uint64) bool` -/
def check (w : WinU) (seq : UInt64) : Bool :=
  if seq > w.wt then true
  else if seq + 448 < w.wt then false
  else
    let bitIndex := seq &&& 63
    let blockIndex := (seq >>> 6) &&& 7
    (blk w blockIndex &&& (1 <<< bitIndex)) == 0

/-- `for i := uint64(0); i < diff; i++ { blocks[(i+cur+1)&indexMask] = 0 }`, `d` iterations -/
def clearLoop (b : Array UInt64) (cur : UInt64) : Nat → Array UInt64
  | 0 => b
  | d + 1 => (clearLoop b cur d).setIfInBounds ((UInt64.ofNat d + cur + 1) &&& 7).toNat 0

/-- `func (s *SlidingWindow) Mark(seq uint64)` -/
def mark (w : WinU) (seq : UInt64) : WinU :=
  if seq + 448 < w.wt then w
  else
    let unmaskedBlockIndex := seq >>> 6
    let w1 : WinU :=
      if seq > w.wt then
        let unmaskedCurrentIndex := w.wt >>> 6
        let diff0 := unmaskedBlockIndex - unmaskedCurrentIndex
        let diff := if diff0 > 8 then 8 else diff0
        { blocks := clearLoop w.blocks unmaskedCurrentIndex diff.toNat, wt := seq }
      else w
    let index := unmaskedBlockIndex &&& 7
    let location := seq &&& 63
    { w1 with blocks := w1.blocks.setIfInBounds index.toNat (blk w1 index ||| (1 <<< location)) }

/-- what the receive path does with a counter -/
def accept (w : WinU) (seq : UInt64) : WinU := if check w seq then mark w seq else w

end ReplayU64
