/-
Model of `kravatte/sanse.go`: Farfalle-SANSE (eprint 2016/1188 §6.3) session authenticated
encryption, over an **arbitrary deck function** given as a parameter `dk : Deck D`:

  `dk.absorb d data last n`   history ← (data ‖ the low `n` bits of `last`) ∘ history
                              (the Go code: `Kra(data, 8·|data|, FlagNone)` then
                              `Kra([last], n, FlagLastPart)` — exactly what `addToHistory` does for
                              byte-aligned data, the only case reachable through `Seal`/`Open`)
  `dk.squeeze d n lastPart`   the first `n` bytes of `F_K(history)` (the Go code: `Vatte`)

`D` is the state of the deck function after absorbing the history (for Kravatte: the `Kravatte`
struct in compressing phase).  The Go code keeps, after a `Vatte`, the *expanded* struct in
`s.kravatte` (receiver side, and sender side for an empty plaintext); the next operation always
starts with `Kra`, which discards the expansion (`phase != PhaseCompressing` ⇒ queue reset), so
the model keeps the un-expanded state.  That this abstraction is right for the real code is part
of what the multi-message sessions of the D-tie check.

  `addToHistory`, `wrap`, `unwrap`   the functions of the same names (byte-aligned lengths)
  `sealMsg`, `openMsg`                 `Seal` / `Open` of the `cipher.AEAD` returned by `NewSANSE`:
                                     output `C ‖ T`, `|T| = 32`; `Open` compares all 32 tag bytes
                                     and — like the Go code — has *already* updated history and
                                     parity when it rejects
`kravatteDeck f` instantiates the deck with the model of `kravatte.go`.
-/
import HopModel.Model.Kravatte
namespace Sanse

structure Deck (D : Type) where
  absorb : D → List UInt8 → UInt8 → Nat → D
  squeeze : D → Nat → Bool → List UInt8

def tagSize : Nat := 32

structure St (D : Type) where
  d : D
  e : Bool        -- the session parity bit (`e uint32`, toggled by `^= 1`)

def eBit (e : Bool) : UInt8 := if e then 1 else 0

/-- `addToHistory(data, 8·|data|, appendix, appendixLen)` -/
def addToHistory {D : Type} (dk : Deck D) (d : D) (e : Bool) (data : List UInt8)
    (appendix : UInt8) (appendixLen : Nat) : D :=
  dk.absorb d data (appendix ||| (eBit e <<< UInt8.ofNat appendixLen)) (appendixLen + 1)

/-- `memxoris` for whole bytes -/
def xorBytes (a b : List UInt8) : List UInt8 := List.zipWith (· ^^^ ·) a b

/-- the history after the associated data step shared by `wrap` and `unwrap`:
`if |A| > 0 OR |P| = 0 then history ← A ‖ 0 ‖ e ∘ history` -/
def adStep {D : Type} (dk : Deck D) (s : St D) (ad : List UInt8) (emptyData : Bool) : D :=
  if ad ≠ [] ∨ emptyData then addToHistory dk s.d s.e ad 0 1 else s.d

/-- `wrap`: new state, ciphertext, tag -/
def wrap {D : Type} (dk : Deck D) (s : St D) (ad p : List UInt8) : St D × List UInt8 × List UInt8 :=
  let d1 := adStep dk s ad p.isEmpty
  if p ≠ [] then
    -- T = F_K(P ‖ 01 ‖ e ∘ history)
    let d2 := addToHistory dk d1 s.e p 2 2
    let tag := dk.squeeze d2 tagSize false
    -- C = P + F_K(T ‖ 11 ‖ e ∘ history)
    let ks := dk.squeeze (addToHistory dk d1 s.e tag 3 2) p.length true
    -- history = P ‖ 01 ‖ e ∘ history
    ({ d := d2, e := !s.e }, xorBytes ks p, tag)
  else
    -- T = F_K(history)
    ({ d := d1, e := !s.e }, [], dk.squeeze d1 tagSize false)

/-- `unwrap`: new state and the plaintext, or `none` when the tag does not match (the state is
updated in both cases, as in the Go code) -/
def unwrap {D : Type} (dk : Deck D) (s : St D) (ad c tag : List UInt8) : St D × Option (List UInt8) :=
  let d1 := adStep dk s ad c.isEmpty
  if c ≠ [] then
    -- P = C + F_K(T ‖ 11 ‖ e ∘ history)
    let ks := dk.squeeze (addToHistory dk d1 s.e tag 3 2) c.length true
    let p := xorBytes ks c
    -- history = P ‖ 01 ‖ e ∘ history;  T' = F_K(history)
    let d2 := addToHistory dk d1 s.e p 2 2
    let tag' := dk.squeeze d2 tagSize false
    ({ d := d2, e := !s.e }, if tag' = tag then some p else none)
  else
    let tag' := dk.squeeze d1 tagSize false
    ({ d := d1, e := !s.e }, if tag' = tag then some [] else none)

/-- `Seal(dst, nil, plaintext, ad)`: the bytes appended to `dst` -/
def sealMsg {D : Type} (dk : Deck D) (s : St D) (ad p : List UInt8) : St D × List UInt8 :=
  let r := wrap dk s ad p
  (r.1, r.2.1 ++ r.2.2)

/-- `Open(dst, nil, ciphertext, ad)`: `none` is the error return -/
def openMsg {D : Type} (dk : Deck D) (s : St D) (ad ct : List UInt8) : St D × Option (List UInt8) :=
  if ct.length < tagSize then (s, none)
  else
    let n := ct.length - tagSize
    unwrap dk s ad (ct.take n) (ct.drop n)

/-! ### the Kravatte instance -/

open Kravatte in
def kravatteDeck (f : Keccak.State → Keccak.State) : Deck Kv where
  absorb d data last n :=
    let d := (kra f d data (8 * data.length) 0).1
    (kra f d [last] n flagLastPart).1
  squeeze d n lastPart := (vatte f d (8 * n) (if lastPart then flagLastPart else 0)).2.1

/-- `NewSANSE(key)`; `none` is the error return (`|key| ≥ 200`) -/
def newSanse (f : Keccak.State → Keccak.State) (key : List UInt8) : Option (St Kravatte.Kv) :=
  let r := Kravatte.refMaskInit f Kravatte.fresh key
  if r.2 ≠ 0 then none else some { d := r.1, e := false }

end Sanse
