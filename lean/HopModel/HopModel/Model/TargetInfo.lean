/-
Target info (`authgrants.WriteTargetInfo` / `ReadTargetInfo`, authgrants/proxy_messages.go): a
`core.URL` {User, Host, Port} travels as the text `hop://<user>@<host>[:<port>]` in a one-byte-length
string (`common.WriteString`).  The text is produced by `net/url` (`core.URL.String`) and parsed by
`net/url` (`core.ParseURL`, which keeps `u.User.Username()`, i.e. the UNescaped user name).

Modelled: the user-name escaping of `net/url` in full (every byte value), hosts made of letters,
digits, `.` and `-`, ports of 1-5 digits.  Other hosts (IPv6 literals, zones, percent-escapes in
the host), an empty port after a colon, and texts with more than one `@` are outside the model:
`parseTI` answers `none` for them and the correspondence run prints `unmodelled` on both sides.
-/
import HopModel.Model.Wire
namespace Wire
open Bytes

structure TURL where
  user : Bytes
  host : Bytes
  port : Bytes
  deriving Repr, DecidableEq

def isDigit (c : UInt8) : Bool := 48 ≤ c && c ≤ 57
def isAlnum (c : UInt8) : Bool := isDigit c || (65 ≤ c && c ≤ 90) || (97 ≤ c && c ≤ 122)

/-- bytes `net/url` writes unescaped in a user name: unreserved ones and `$ & + , ; =` -/
def userPlain (c : UInt8) : Bool :=
  isAlnum c || c == 45 || c == 95 || c == 46 || c == 126 ||
  c == 36 || c == 38 || c == 43 || c == 44 || c == 59 || c == 61

/-- bytes `net/url` accepts unescaped in a user name when parsing: also `! ' ( ) *` -/
def userAccepted (c : UInt8) : Bool :=
  userPlain c || c == 33 || c == 39 || c == 40 || c == 41 || c == 42

def hostChar (c : UInt8) : Bool := isAlnum c || c == 45 || c == 46

def hexUp (n : Nat) : UInt8 := if n < 10 then UInt8.ofNat (48 + n) else UInt8.ofNat (55 + n)

def unhex (c : UInt8) : Option Nat :=
  if isDigit c then some (c.toNat - 48)
  else if 65 ≤ c && c ≤ 70 then some (c.toNat - 55)
  else if 97 ≤ c && c ≤ 102 then some (c.toNat - 87)
  else none

/-- `url.User(u).String()` -/
def escUser : Bytes → Bytes
  | [] => []
  | c :: t =>
    if userPlain c then c :: escUser t
    else 37 :: hexUp (c.toNat / 16) :: hexUp (c.toNat % 16) :: escUser t

/-- the inverse, as the parser applies it: accepted bytes stand for themselves, `%XY` for a byte;
anything else (an invalid escape, a separator) is refused -/
def unescUser : Bytes → Option Bytes
  | [] => some []
  | c :: t =>
    if c = 37 then
      match t with
      | a :: b :: t' =>
        match unhex a, unhex b, unescUser t' with
        | some x, some y, some r => some (UInt8.ofNat (x * 16 + y) :: r)
        | _, _, _ => none
      | _ => none
    else if userAccepted c then (unescUser t).map (c :: ·) else none

def hopPrefix : Bytes := [104, 111, 112, 58, 47, 47]   -- "hop://"

/-- `core.URL.String()` for the hosts and ports of the model -/
def tiText (t : TURL) : Bytes :=
  hopPrefix ++ (escUser t.user ++ 64 :: (t.host ++ (if t.port = [] then [] else 58 :: t.port)))

/-- the values of the model: a non-empty host of letters, digits, `.`, `-`; no port or 1-5 digits -/
def TIFits (t : TURL) : Prop :=
  t.host ≠ [] ∧ t.host.all hostChar = true ∧ t.port.all isDigit = true ∧ t.port.length ≤ 5

def stripPre : Bytes → Bytes → Option Bytes
  | [], s => some s
  | _ :: _, [] => none
  | p :: ps, c :: s => if p = c then stripPre ps s else none

/-- split at the first `@` -/
def splitAt64 : Bytes → Option (Bytes × Bytes)
  | [] => none
  | c :: t => if c = 64 then some ([], t) else (splitAt64 t).map fun ab => (c :: ab.1, ab.2)

def hostPort (hp : Bytes) : Option (Bytes × Bytes) :=
  let h := hp.takeWhile hostChar
  if h = [] then none else
  match hp.dropWhile hostChar with
  | [] => some (h, [])
  | c :: p => if c = 58 ∧ p ≠ [] ∧ p.length ≤ 5 ∧ p.all isDigit = true then some (h, p) else none

/-- `core.ParseURL` on the texts of the model; `none`: refused, or outside the model -/
def parseTI (s : Bytes) : Option TURL :=
  match stripPre hopPrefix s with
  | none => none
  | some a =>
    match splitAt64 a with
    | some (ui, hp) =>
      if hp.any (· == 64) then none else
      match unescUser ui, hostPort hp with
      | some u, some (h, p) => some ⟨u, h, p⟩
      | _, _ => none
    | none => (hostPort a).map fun hp => ⟨[], hp.1, hp.2⟩

/-- `WriteTargetInfo` -/
def encTI (t : TURL) : Except Err Bytes := encStr (tiText t)

/-- `ReadTargetInfo` (`.invalid`: refused or outside the model) -/
def rdTI : R TURL := do
  let s ← rdStr
  match parseTI s with
  | some t => pure t
  | none => R.fail .invalid

def decTI := rdTI.dec

end Wire
