import HopModel.Model.Receiver
/-
Model of the stream side of `tubes/sender.go`: `write` (chunking at `MaxFrameDataLength`,
consecutive 32-bit frame numbers), `recvAck` (cumulative acknowledgement with the 32-bit
unwrap relative to the congestion window, the duplicate-ACK limit), `sendFin` (the FIN takes the
next frame number; later writes fail).

Not modelled: congestion control (`cwndSize`, `ssThresh`, RTT/RTO estimation) — it decides *when*
frames are (re)sent, which no stream-level observable depends on.  `framesToSend` — how many entries
of the retransmission buffer the send loop may touch on a window-open signal or a retransmission
timeout — is modelled as the pure function it is (`framesToSend` below): the send loop indexes
`frames[i]` for `i <` its result, and a timeout must always reach the oldest frame.
The one place where the window enters an observable — the wrap-around test of `recvAck` — takes
the window size as an argument (the harness sets it through a hook before the call).

`recvAck` is the demanded behaviour for acknowledgements beyond anything sent: the loop stops when
the retransmission buffer is empty (the unrepaired code indexed `frames[0]` of an empty slice).
-/
namespace Tubes

def maxFrameDataLength : Nat := 32768

/-- an entry of `sender.frames` -/
structure SFrame where
  frameNo : Nat
  data : Bytes
  ack : Bool
  fin : Bool
  deriving Repr, DecidableEq

structure Sender where
  ackNo : Nat          -- uint64
  frameNo : Nat        -- uint32
  frames : List SFrame
  finSent : Bool
  finFrameNo : Nat
  closed : Bool
  dupAcks : Nat
  deriving Repr

/-- `newSender` -/
def Sender.new : Sender := ⟨1, 1, [], false, 0, false, 0⟩

def Sender.at (ackNo frameNo : Nat) : Sender := ⟨ackNo, frameNo, [], false, 0, false, 0⟩

/-- split into pieces of `maxFrameDataLength` bytes (the last one may be shorter); `fuel` bounds
the number of pieces -/
def chunkFuel : Nat → Bytes → List Bytes
  | 0, _ => []
  | fuel + 1, b =>
    if b.isEmpty then [] else b.take maxFrameDataLength :: chunkFuel fuel (b.drop maxFrameDataLength)

def chunk (b : Bytes) : List Bytes := chunkFuel b.length b

/-- data frames for `cs`, numbered from `no` (32-bit wrap) -/
def numberFrom (no : Nat) : List Bytes → List SFrame
  | [] => []
  | c :: cs => ⟨no, c, false, false⟩ :: numberFrom ((no + 1) % two32) cs

inductive IoOut where
  | ok (n : Nat)
  | eof
  deriving Repr, DecidableEq

/-- `sender.write` (no write deadline) -/
def Sender.write (s : Sender) (b : Bytes) : Sender × IoOut :=
  if s.finSent || s.closed then (s, .eof) else
  let cs := chunk b
  ({ s with frames := s.frames ++ numberFrom s.frameNo cs,
            frameNo := (s.frameNo + cs.length) % two32 }, .ok b.length)

inductive AckOut where
  | ok
  | tooManyDup
  deriving Repr, DecidableEq

/-- `sender.recvAck` with congestion window `w` -/
def Sender.recvAck (s : Sender) (ack32 w : Nat) : Sender × AckOut :=
  let newAck :=
    if ack32 < s.ackNo ∧ (ack32 + two32 + two64 - s.ackNo) % two64 ≤ w then ack32 + two32 else ack32
  if s.dupAcks > 100 then (s, .tooManyDup) else
  let dup := if s.ackNo = newAck ∧ newAck > 20 then s.dupAcks + 1 else s.dupAcks
  let k := min (newAck - s.ackNo) s.frames.length
  ({ s with ackNo := s.ackNo + k, frames := s.frames.drop k,
            dupAcks := if k > 0 then 0 else dup }, .ok)

/-- `sender.sendFin` -/
def Sender.sendFin (s : Sender) : Sender × IoOut :=
  if s.finSent then (s, .eof) else
  ({ s with finSent := true, finFrameNo := s.frameNo,
            frames := s.frames ++ [⟨s.frameNo, [], true, true⟩],
            frameNo := (s.frameNo + 1) % two32 }, .ok 0)

/-- `sender.framesToSend(rto, startIndex)` on a sender with `windowSize = window`, `unacked`,
`rtoCounter` and `len(frames) = nframes` (Go `int` arithmetic; every operand is far below 2^62) -/
def framesToSend (window unacked : Nat) (rtoCounter : Int) (nframes : Nat) (rto : Bool) (start : Int) : Int :=
  let n0 : Int :=
    if rto then (if rtoCounter < (window : Int) then rtoCounter + 1 else (window : Int))
    else (window : Int) - (unacked : Int) - start
  let n1 : Int := if n0 + start > (nframes : Int) then (nframes : Int) - start else n0
  if n1 < 0 then 0 else n1

end Tubes
