/-
Byte strings and big-endian integers (core-only; shared by the wire-format models).

`toBE k n` is the `k`-byte big-endian encoding of `n mod 256^k` (this is what Go's
`binary.BigEndian.PutUintXX(uintXX(n))` writes, truncation included); `fromBE` reads it back.
-/
abbrev Bytes := List UInt8

namespace Bytes

def toBE : Nat → Nat → Bytes
  | 0, _ => []
  | k + 1, n => UInt8.ofNat (n / 256 ^ k) :: toBE k (n % 256 ^ k)

def fromBE : Bytes → Nat
  | [] => 0
  | b :: bs => b.toNat * 256 ^ bs.length + fromBE bs

@[simp] theorem toBE_length (k n : Nat) : (toBE k n).length = k := by
  induction k generalizing n with
  | zero => rfl
  | succ k ih => simp [toBE, ih]

theorem pow256_pos (k : Nat) : 0 < 256 ^ k := Nat.pow_pos (by decide)

/-- the one round-trip lemma for big-endian integers -/
theorem fromBE_toBE (k n : Nat) (h : n < 256 ^ k) : fromBE (toBE k n) = n := by
  induction k generalizing n with
  | zero => simp [toBE, fromBE] at *; omega
  | succ k ih =>
    have hp := pow256_pos k
    have hd : n / 256 ^ k < 256 := by
      apply Nat.div_lt_of_lt_mul
      rw [Nat.pow_succ] at h
      exact h
    have hm : n % 256 ^ k < 256 ^ k := Nat.mod_lt _ hp
    simp only [toBE, fromBE, toBE_length, ih _ hm]
    have : (UInt8.ofNat (n / 256 ^ k)).toNat = n / 256 ^ k := by
      simp; omega
    rw [this, Nat.mul_comm]
    exact Nat.div_add_mod n (256 ^ k)

theorem fromBE_lt (bs : Bytes) : fromBE bs < 256 ^ bs.length := by
  induction bs with
  | nil => simp [fromBE]
  | cons b bs ih =>
    simp only [fromBE, List.length_cons, Nat.pow_succ]
    have hb := b.toNat_lt
    have : b.toNat * 256 ^ bs.length + 256 ^ bs.length ≤ 256 ^ bs.length * 256 := by
      rw [Nat.mul_comm (256 ^ bs.length) 256]
      have : (b.toNat + 1) * 256 ^ bs.length ≤ 256 * 256 ^ bs.length :=
        Nat.mul_le_mul_right _ (by omega)
      rw [Nat.add_mul] at this
      omega
    omega

/-- `toBE` only sees `n mod 256^k` (Go's integer conversion truncates) -/
theorem toBE_mod (k n : Nat) : toBE k (n % 256 ^ k) = toBE k n := by
  induction k generalizing n with
  | zero => rfl
  | succ k ih =>
    simp only [toBE]
    have hp := pow256_pos k
    have h1 : n % 256 ^ (k + 1) % 256 ^ k = n % 256 ^ k := by
      rw [Nat.pow_succ]; exact Nat.mod_mul_right_mod n (256 ^ k) 256
    have h2 : UInt8.ofNat (n % 256 ^ (k + 1) / 256 ^ k) = UInt8.ofNat (n / 256 ^ k) := by
      apply UInt8.toNat_inj.mp
      simp only [UInt8.toNat_ofNat']
      rw [Nat.pow_succ, Nat.mod_mul_right_div_self]
      simp
    rw [h1, h2]

end Bytes
