/-
Go slice semantics as far as *panics* are concerned: a slice is a window (`len`) onto a backing
array that extends to its capacity.  `s[lo:hi]` panics iff `lo > hi ∨ hi > cap(s)` — not iff
`hi > len(s)` — and `s[i]` panics iff `i ≥ len(s)`.  Panic is an explicit outcome, so "never
panics" is a theorem and not a default.
-/
inductive Outcome (α : Type)
  | ok (a : α)
  | err
  | panic
  deriving Repr, DecidableEq

namespace Outcome
def bind {α β : Type} (o : Outcome α) (f : α → Outcome β) : Outcome β :=
  match o with
  | .ok a => f a
  | .err => .err
  | .panic => .panic
instance : Monad Outcome where
  pure := .ok
  bind := bind
def isPanic {α : Type} : Outcome α → Bool
  | .panic => true
  | _ => false
end Outcome

structure GoSlice where
  arr : List UInt8     -- the backing array from the slice's first element up to its capacity
  len : Nat
  deriving Repr, DecidableEq

namespace GoSlice
def cap (s : GoSlice) : Nat := s.arr.length
def WF (s : GoSlice) : Prop := s.len ≤ s.cap

/-- `make([]byte, n)` -/
def make (n : Nat) : GoSlice := { arr := List.replicate n 0, len := n }
/-- a slice holding exactly these bytes (len = cap) -/
def ofBytes (b : List UInt8) : GoSlice := { arr := b, len := b.length }

/-- `s[lo:hi]` -/
def slice (s : GoSlice) (lo hi : Nat) : Outcome GoSlice :=
  if lo ≤ hi ∧ hi ≤ s.cap then .ok { arr := s.arr.drop lo, len := hi - lo } else .panic
/-- `s[lo:]` -/
def sliceFrom (s : GoSlice) (lo : Nat) : Outcome GoSlice :=
  if lo ≤ s.len then .ok { arr := s.arr.drop lo, len := s.len - lo } else .panic
/-- `s[i]` -/
def index (s : GoSlice) (i : Nat) : Outcome UInt8 :=
  if i < s.len then .ok (s.arr[i]?.getD 0) else .panic
end GoSlice
