/-
The vocabulary in which the translator (`harness/extract/structural.go`) describes the handshake
readers and writers of `transport/handshake_pq.go`: the ordered list of duplex operations and
checks of each function, as they stand in the source *now*.  Arguments are the Go expressions as
text; `enforced` records whether the failure branch of a check leaves the function (`return` /
`continue`) — a comparison whose mismatch is only logged has `enforced = false`.
-/
inductive HOp
  | lenGuard (expr : String) (a b : Nat)       -- `if len(b) < expr { return … }`; expr = a + b·n, n = length of the
                                               -- encrypted certificates from the header (0 0: not of that form)
  | constCheck (cond : String) (enforced : Bool) -- other `if cond { return … }` on message bytes
  | absorb (arg : String)                      -- duplex.Absorb(arg)
  | encrypt (arg : String)                     -- duplex.Encrypt / EncryptSNI / EncryptCertificates
  | decrypt (arg : String) (enforced : Bool)   -- duplex.Decrypt / DecryptCertificates (+ error check)
  | squeezeOut (arg : String)                  -- writer: Squeeze straight into the message
  | macCheck (arg : String) (enforced : Bool)  -- reader: Squeeze(macBuf); if !bytes.Equal(macBuf, arg) {…}
  | verifyCerts (enforced : Bool)              -- certificateParserAndVerifier (+ error check)
  | compute (what : String) (enforced : Bool)  -- DH / Agree / Decapsulate / Encapsulate / cookie (+ error check)
  | timeCheck (cond : String) (enforced : Bool) -- hidden-mode timestamp window: `if cond { return … }`
  | rekey                                      -- RekeyFromSqueeze
  deriving DecidableEq, Repr, Inhabited
