/-
Statement shapes: for a few small Go functions whose *order of statements* is what a model rests
on, the translator (`harness/extract`, `shapes`) regenerates on every run the list of their
statements in source order - nesting depth, kind (if, else, return, incdec, assign, call, defer, go,
select, case, default, for, switch, branch, send, expr) and the expression text.  Props files state
the facts they need about that order as decidable checks over these lists.
-/
namespace Shape

structure Item where
  depth : Nat
  kind : String
  /-- the assigned / incremented operand (`x`, or `x <- f` when the right-hand side is a call of `f`),
  or the called function; empty otherwise -/
  head : String
  text : String
  deriving DecidableEq, Repr

/-- position of the first item satisfying `p` -/
def find (sh : List Item) (p : Item → Bool) : Option Nat := sh.findIdx? p


/-- the function is ONE critical section of the mutex `mu` (texts `mu.Lock`, `mu.Unlock`): it begins
with `mu.Lock()` and `defer mu.Unlock()` and mentions no other locking of `mu` (no early unlock,
no second section, no reader lock) -/
def oneCriticalSection (mu : String) (sh : List Item) : Bool :=
  sh.take 2 == [⟨0, "call", mu ++ ".Lock", mu ++ ".Lock()"⟩, ⟨0, "defer", "", mu ++ ".Unlock"⟩] &&
  (sh.filter (fun it =>
      it.head == mu ++ ".Lock" || it.head == mu ++ ".Unlock" || it.head == mu ++ ".RLock" || it.head == mu ++ ".RUnlock" ||
      it.head == mu ++ ".TryLock" ||
      (it.kind == "defer" && (it.text == mu ++ ".Unlock" || it.text == mu ++ ".RUnlock" || it.text == mu ++ ".Lock")))).length == 2

/-- positions of the items satisfying `p` -/
def positions (sh : List Item) (p : Item → Bool) : List Nat :=
  (List.range sh.length).filter fun i => match sh[i]? with | some it => p it | none => false

/-- every item satisfying `p` is directly preceded by an item satisfying `q it` (at the same depth) -/
def eachPrecededBy (sh : List Item) (p : Item → Bool) (q : Item → Item → Bool) : Bool :=
  (positions sh p).all fun i =>
    match i, sh[i]? with
    | j + 1, some it => (match sh[j]? with | some prev => prev.depth == it.depth && q it prev | none => false)
    | _, _ => false

/-- every item satisfying `p` is directly followed by an item satisfying `q` (at the same depth) -/
def eachFollowedBy (sh : List Item) (p : Item → Bool) (q : Item → Bool) : Bool :=
  (positions sh p).all fun i =>
    match sh[i]?, sh[i + 1]? with
    | some it, some next => next.depth == it.depth && q next
    | _, _ => false

end Shape
