/-
Statement shapes: for a few small Go functions whose *order of statements* is what a model rests
on, the translator (`harness/extract`, `shapes`) regenerates on every run the list of their
statements in source order - nesting depth, kind (if, else, return, incdec, assign, call, defer, go,
select, case, default, for, switch, branch, send, expr) and the expression text.  Props files state
the facts they need about that order as decidable checks over these lists.
-/
namespace Shape

structure Item where
  depth : Nat
  kind : String
  /-- the assigned / incremented operand (`x`, or `x <- f` when the right-hand side is a call of `f`),
  or the called function; empty otherwise -/
  head : String
  text : String
  deriving DecidableEq, Repr

/-- position of the first item satisfying `p` -/
def find (sh : List Item) (p : Item → Bool) : Option Nat := sh.findIdx? p


end Shape
