import HopModel.Model.StopSteps
namespace StopSteps

structure Inv (s : SS) : Prop where
  /-- past wg.Wait no tube is left -/
  tubes : s.owner ≠ .waitTubes → s.live = 0 ∧ s.marked = 0 ∧ s.closed = 0
  /-- the force timer that fired during wg.Wait has closed the transport -/
  forced : s.force = .fired → s.owner = .waitTubes → s.underlyingClosed = true
  /-- while the owner waits for the sender, the sender timer is pending or the transport is closed -/
  sender : s.owner = .queuesClosed → s.senderTimer = some false ∨ s.underlyingClosed = true
  recv : s.owner = .waitReceiver → s.underlyingClosed = true
  armed : s.owner = .waitTubes → s.senderTimer = none

theorem inv_init (n : Nat) (b : Bool) : Inv (init n b) := by
  refine ⟨?_, ?_, ?_, ?_, ?_⟩ <;> simp [init]

theorem inv_step {s s' : SS} (h : Inv s) (hs : Step s s') : Inv s' := by
  cases hs with
  | peerClose hl =>
    refine ⟨?_, h.forced, h.sender, h.recv, h.armed⟩
    intro ho; have := h.tubes ho; simp only at *; omega
  | forceFire hf =>
    refine ⟨h.tubes, ?_, ?_, ?_, h.armed⟩
    · intro _ ho; simp only at ho; simp [ho]
    · intro ho; simp only at ho ⊢
      rcases h.sender ho with a | a
      · left; exact a
      · right; split <;> simp_all
    · intro ho; simp only at ho ⊢
      have := h.recv ho; split <;> simp_all
  | forceTube hf ho hl =>
    refine ⟨?_, h.forced, h.sender, h.recv, h.armed⟩
    intro ho'; exact absurd ho ho'
  | drain hm hw =>
    refine ⟨?_, h.forced, h.sender, h.recv, h.armed⟩
    intro ho; have := h.tubes ho; simp only at *; omega
  | closerDone hc =>
    refine ⟨?_, h.forced, h.sender, h.recv, h.armed⟩
    intro ho; have := h.tubes ho; simp only at *; omega
  | ownerQueues ho hl hm hc =>
    refine ⟨fun _ => ⟨hl, hm, hc⟩, ?_, ?_, ?_, ?_⟩ <;> simp
  | senderEnd hm ho hw => exact ⟨h.tubes, h.forced, h.sender, h.recv, h.armed⟩
  | senderTimerFire ht ho =>
    refine ⟨h.tubes, ?_, ?_, ?_, ?_⟩ <;> simp_all
  | ownerGotSender ho hm =>
    refine ⟨?_, ?_, ?_, ?_, ?_⟩ <;> simp
    exact h.tubes (by simp [ho])
  | ownerCloseTransport ho =>
    refine ⟨?_, ?_, ?_, ?_, ?_⟩ <;> simp
    exact h.tubes (by simp [ho])
  | receiverEnd hr hu => exact ⟨h.tubes, h.forced, h.sender, h.recv, h.armed⟩
  | ownerDone ho hr =>
    refine ⟨?_, ?_, ?_, ?_, ?_⟩ <;> simp
    exact h.tubes (by simp [ho])

theorem inv_reach {n : Nat} {b : Bool} {s : SS} (h : Reach n b s) : Inv s := by
  induction h with
  | init => exact inv_init n b
  | step _ hs ih => exact inv_step ih hs

end StopSteps
