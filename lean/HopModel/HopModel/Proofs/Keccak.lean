/-
Byte view of the 25-lane state: reading back what `addByte`/`addBytes` wrote; the lane packing
`ofBytes` is injective on byte strings of equal length ≤ 200 (used by C12_key_sensitivity).
-/
import HopModel.Model.Keccak
namespace Keccak

theorem shifted_byte (b : UInt8) (j j' : Nat) (hj : j < 8) (hj' : j' < 8) :
    ((b.toUInt64 <<< UInt64.ofNat (8 * j)) >>> UInt64.ofNat (8 * j')).toUInt8 = if j = j' then b else 0 := by
  apply UInt8.toNat_inj.mp
  have hb := b.toNat_lt
  have e1 : (UInt64.ofNat (8 * j)).toNat = 8 * j := by
    rw [UInt64.toNat_ofNat']; omega
  have e2 : (UInt64.ofNat (8 * j')).toNat = 8 * j' := by
    rw [UInt64.toNat_ofNat']; omega
  rw [UInt64.toNat_toUInt8, UInt64.toNat_shiftRight, UInt64.toNat_shiftLeft, UInt8.toNat_toUInt64, e1, e2,
    Nat.shiftRight_eq_div_pow, Nat.shiftLeft_eq]
  have h1 : j = 0 ∨ j = 1 ∨ j = 2 ∨ j = 3 ∨ j = 4 ∨ j = 5 ∨ j = 6 ∨ j = 7 := by omega
  have h2 : j' = 0 ∨ j' = 1 ∨ j' = 2 ∨ j' = 3 ∨ j' = 4 ∨ j' = 5 ∨ j' = 6 ∨ j' = 7 := by omega
  rcases h1 with rfl | rfl | rfl | rfl | rfl | rfl | rfl | rfl <;>
  rcases h2 with rfl | rfl | rfl | rfl | rfl | rfl | rfl | rfl <;>
  simp <;> omega

theorem xor_shift_byte (x y k : UInt64) :
    ((x ^^^ y) >>> k).toUInt8 = (x >>> k).toUInt8 ^^^ (y >>> k).toUInt8 := by
  apply UInt8.toNat_inj.mp
  simp only [UInt64.toNat_toUInt8, UInt64.toNat_shiftRight, UInt64.toNat_xor, UInt8.toNat_xor,
    Nat.shiftRight_xor_distrib, Nat.xor_mod_two_pow]

theorem addByte_size (s : State) (b : UInt8) (off : Nat) : (addByte s b off).size = s.size := by
  simp [addByte]

theorem getByte_addByte (s : State) (hs : s.size = 25) (b : UInt8) (off i : Nat) (ho : off < 200) (hi : i < 200) :
    getByte (addByte s b off) i = if i = off then getByte s i ^^^ b else getByte s i := by
  unfold getByte addByte
  have h1 : off / 8 < s.size := by omega
  have h2 : i / 8 < s.size := by omega
  simp only [Array.set!_eq_setIfInBounds, Array.getElem!_eq_getD, Array.getD_eq_getD_getElem?,
    Array.getElem?_setIfInBounds]
  by_cases hl : off / 8 = i / 8
  · simp only [hl, if_true, h2, Option.getD_some]
    rw [xor_shift_byte]
    have := shifted_byte b (off % 8) (i % 8) (by omega) (by omega)
    rw [this]
    by_cases he : i = off
    · subst he; simp
    · have : off % 8 ≠ i % 8 := by omega
      simp [he, this]
  · have he : i ≠ off := by intro h; subst h; exact hl rfl
    simp [hl, he]

theorem addBytesAt_size (s : State) (bs : List UInt8) (off : Nat) : (addBytesAt s bs off).size = s.size := by
  induction bs generalizing s off with
  | nil => rfl
  | cons b t ih => simp only [addBytesAt]; rw [ih, addByte_size]

theorem getByte_addBytesAt (s : State) (hs : s.size = 25) (bs : List UInt8) (off i : Nat)
    (hb : off + bs.length ≤ 200) (hi : i < 200) :
    getByte (addBytesAt s bs off) i =
      if off ≤ i then getByte s i ^^^ (bs[i - off]?.getD 0) else getByte s i := by
  induction bs generalizing s off with
  | nil => simp [addBytesAt]
  | cons b t ih =>
    simp only [addBytesAt]
    simp only [List.length_cons] at hb
    rw [ih (addByte s b off) (by rw [addByte_size]; exact hs) (off + 1) (by omega)]
    rw [getByte_addByte s hs b off i (by omega) hi]
    by_cases h1 : i < off
    · have : ¬ off + 1 ≤ i := by omega
      have : ¬ off ≤ i := by omega
      have : i ≠ off := by omega
      simp [*]
    · by_cases h2 : i = off
      · subst h2
        have : ¬ i + 1 ≤ i := by omega
        simp [this]
      · have h3 : off + 1 ≤ i := by omega
        have h4 : off ≤ i := by omega
        obtain ⟨j, hj⟩ : ∃ j, i - off = j + 1 := ⟨i - off - 1, by omega⟩
        have h5 : i - (off + 1) = j := by omega
        simp [h2, h3, h4, hj, h5]

theorem getByte_zero (i : Nat) (hi : i < 200) : getByte zero i = 0 := by
  unfold getByte zero
  have : i / 8 < 25 := by omega
  simp [this]

theorem getByte_ofBytes (bs : List UInt8) (hl : bs.length ≤ 200) (i : Nat) (hi : i < 200) :
    getByte (ofBytes bs) i = bs[i]?.getD 0 := by
  unfold ofBytes addBytes
  rw [getByte_addBytesAt zero (by simp [zero]) bs 0 i (by omega) hi, getByte_zero i hi]
  simp

/-- the little-endian lane packing loses nothing: byte strings of equal length ≤ 200 with the same
25 lanes are equal -/
theorem ofBytes_injective (a b : List UInt8) (hl : a.length = b.length) (ha : a.length ≤ 200)
    (h : ofBytes a = ofBytes b) : a = b := by
  apply List.ext_getElem? 
  intro i
  by_cases hi : i < a.length
  · have h1 := getByte_ofBytes a ha i (by omega)
    have h2 := getByte_ofBytes b (by omega) i (by omega)
    rw [h] at h1
    rw [h1] at h2
    have hib : i < b.length := by omega
    rw [List.getElem?_eq_getElem hi, List.getElem?_eq_getElem hib] at h2 ⊢
    simpa using h2
  · rw [List.getElem?_eq_none (by omega), List.getElem?_eq_none (by omega)]

end Keccak
