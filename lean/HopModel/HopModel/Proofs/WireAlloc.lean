/-
Allocation bounds for the readers of `Model/Wire.lean` (decoder half of C11).
-/
import HopModel.Proofs.Wire
namespace Wire
open Bytes

/-! ### allocation bounds -/

/-- the allocation counter is at most `c · consumed + kOk` when the reader succeeds and at most
`c · consumed + kErr` when it fails; the remainder is never longer than the input -/
def Bnd (m : R α) (c kOk kErr : Nat) : Prop :=
  ∀ bs, (m bs).2.1.length ≤ bs.length ∧
    (m bs).2.2 ≤ c * (bs.length - (m bs).2.1.length) + (match (m bs).1 with | .ok _ => kOk | .error _ => kErr)

theorem bnd_pure (v : α) (c : Nat) : Bnd (pure v : R α) c 0 0 := fun bs => by simp [pure_apply]
theorem bnd_fail (e : Err) (c : Nat) : Bnd (R.fail e : R α) c 0 0 := fun bs => by simp [R.fail]
theorem bnd_allocate (n c : Nat) : Bnd (allocate n) c n n := fun bs => by simp [allocate]
theorem bnd_u8 (c : Nat) : Bnd u8 c 0 0 := fun bs => by cases bs <;> simp [u8]
theorem bnd_readPad (n c : Nat) : Bnd (readPad n) c 0 0 := fun bs => by simp [readPad]

theorem bnd_readN (n c : Nat) : Bnd (readN n) c 0 0 := fun bs => by
  by_cases h : n ≤ bs.length <;> simp [readN, h]

theorem Bnd.mono {m : R α} {c k e k' e' : Nat} (h : Bnd m c k e) (hk : k ≤ k') (he : e ≤ e') : Bnd m c k' e' := by
  intro bs
  obtain ⟨h1, h2⟩ := h bs
  refine ⟨h1, ?_⟩
  cases hr : (m bs).1 <;> simp only [hr] at h2 ⊢ <;> omega

theorem bnd_bind {m : R α} {f : α → R β} {P : α → Prop} {c k1 e1 k2 e2 : Nat}
    (h1 : Bnd m c k1 e1) (hp : Post m P) (h2 : ∀ v, P v → Bnd (f v) c k2 e2) :
    Bnd (m >>= f) c (k1 + k2) (max e1 (k1 + e2)) := by
  intro bs
  obtain ⟨l1, a1⟩ := h1 bs
  rw [bind_apply]
  rcases hm : m bs with ⟨res, r, a⟩
  rw [hm] at l1 a1
  cases res with
  | error e =>
    simp only at l1 a1 ⊢
    exact ⟨l1, by omega⟩
  | ok v =>
    have hv : P v := hp bs v r (by rw [dec_def, hm])
    obtain ⟨l2, a2⟩ := h2 v hv r
    rcases hf : f v r with ⟨res2, r2, a'⟩
    rw [hf] at l2 a2
    simp only at l1 a1 l2 a2 ⊢
    rw [hf]
    simp only
    refine ⟨by omega, ?_⟩
    have hmul : c * (bs.length - r.length) + c * (r.length - r2.length) = c * (bs.length - r2.length) := by
      rw [← Nat.mul_add]; congr 1; omega
    cases res2 <;> simp only at a2 ⊢ <;> omega

theorem bnd_ite {p : Prop} [Decidable p] {a b : R α} {c k e : Nat} (ha : Bnd a c k e) (hb : Bnd b c k e) :
    Bnd (if p then a else b) c k e := by
  split <;> assumption

/-- a buffer of `n` bytes allocated for a read of `n' ≥ n` bytes is paid for by the bytes read —
unless the stream ends first -/
theorem bnd_alloc_readN_bind {n n' : Nat} (hn : n ≤ n') {f : Bytes → R β} {c k e : Nat} (hc : 1 ≤ c)
    (hf : ∀ v, Bnd (f v) c k e) : Bnd (allocate n >>= fun _ => readN n' >>= f) c k (n + e) := by
  intro bs
  simp only [bind_apply, allocate, readN]
  by_cases h : n' ≤ bs.length
  · simp only [if_pos h]
    obtain ⟨l2, a2⟩ := hf (bs.take n') (bs.drop n')
    rcases hfr : f (bs.take n') (bs.drop n') with ⟨res2, r2, a'⟩
    rw [hfr] at l2 a2
    simp only [List.length_drop] at l2 a2 ⊢
    refine ⟨by omega, ?_⟩
    have hmul : c * n' + c * (bs.length - n' - r2.length) = c * (bs.length - r2.length) := by
      rw [← Nat.mul_add]; congr 1; omega
    have : n ≤ c * n' := Nat.le_trans hn (Nat.le_mul_of_pos_left _ hc)
    cases res2 <;> simp only at a2 ⊢ <;> omega
  · simp only [if_neg h]
    simp
    exact Nat.le_trans (Nat.le_add_right n e) (Nat.le_add_left _ _)

theorem bnd_alloc_readN {n n' : Nat} (hn : n ≤ n') {c : Nat} (hc : 1 ≤ c) :
    Bnd (allocate n >>= fun _ => readN n') c 0 n := by
  have := bnd_alloc_readN_bind (f := fun v => (pure v : R Bytes)) hn hc (fun v => bnd_pure v c)
  intro bs
  have h := this bs
  simp only [bind_apply, pure_apply, allocate, readN] at h ⊢
  by_cases hl : n' ≤ bs.length <;> simp only [hl, if_true, if_false] at h ⊢ <;> simp at h ⊢ <;> omega

theorem bnd_alloc (m : R α) {c k e : Nat} (h : Bnd m c k e) (bs : Bytes) :
    m.alloc bs ≤ c * m.consumed bs + max k e := by
  obtain ⟨_, h2⟩ := h bs
  unfold R.alloc R.consumed
  cases hr : (m bs).1 <;> simp only [hr] at h2 <;> omega

theorem bnd_uBE (k c : Nat) : Bnd (uBE k) c 0 0 :=
  (bnd_bind (bnd_readN k c) (post_true _) fun v _ => bnd_pure _ c).mono (by omega) (by omega)

/-! ### per reader (all with `c = 1`: one counted byte per byte consumed, plus a constant) -/

theorem bnd_str : Bnd rdStr 1 0 255 := by
  unfold rdStr
  refine (bnd_bind (bnd_u8 1) (post_true _) fun l _ =>
    (bnd_alloc_readN (Nat.le_refl l.toNat) (Nat.le_refl 1)).mono (Nat.le_refl 0) (?_ : l.toNat ≤ 255)).mono
    (by omega) (by omega)
  have := l.toNat_lt; omega

theorem bnd_name : Bnd rdName 1 0 255 := by
  unfold rdName
  refine (bnd_bind (bnd_u8 1) (post_true _) fun bsz _ => bnd_ite ((bnd_fail _ 1).mono (Nat.zero_le 0) (Nat.zero_le 255)) ?_).mono
    (by omega) (by omega)
  refine (bnd_bind (bnd_u8 1) (post_true _) fun t _ => (bnd_bind (bnd_u8 1) (post_true _) fun l _ =>
    bnd_ite ((bnd_fail _ 1).mono (Nat.zero_le 0) (Nat.zero_le 255)) ?_).mono (Nat.le_refl _) (Nat.le_refl _)).mono
    (by omega) (by omega)
  refine (bnd_alloc_readN_bind (Nat.le_refl l.toNat) (Nat.le_refl 1) fun lab => bnd_pure _ 1).mono (Nat.le_refl 0) ?_
  have := l.toNat_lt; omega

theorem bnd_names (rem : Nat) : Bnd (rdNames rem) 1 0 255 := by
  induction rem using Nat.strongRecOn with
  | _ rem ih =>
    rw [rdNames]
    split
    · exact (bnd_pure _ 1).mono (Nat.le_refl 0) (Nat.zero_le _)
    · refine (bnd_bind bnd_name (post_true _) fun n _ =>
        bnd_ite ((bnd_fail _ 1).mono (Nat.zero_le 0) (Nat.zero_le 255)) ?_).mono (by omega) (by omega)
      by_cases hlt : rem - (n.label.length + 3) < rem
      · exact (bnd_bind (ih _ hlt) (post_true _) fun ns _ => bnd_pure _ 1).mono (by omega) (by omega)
      · have h0 : rem = 0 := by omega
        contradiction

theorem bnd_chunk : Bnd rdChunk 1 0 255 := by
  unfold rdChunk
  exact (bnd_bind (bnd_uBE 2 1) (post_true _) fun l _ =>
    bnd_ite ((bnd_fail _ 1).mono (Nat.zero_le 0) (Nat.zero_le 255)) (bnd_names _)).mono (by omega) (by omega)

theorem bnd_time : Bnd rdTime 1 0 0 := by
  unfold rdTime
  exact (bnd_bind (bnd_uBE 8 1) (post_true _) fun t _ => bnd_ite (bnd_fail _ 1) (bnd_pure _ 1)).mono (by omega) (by omega)

theorem bnd_cert : Bnd rdCert 1 0 287 := by
  unfold rdCert
  refine (bnd_bind (bnd_u8 1) (post_true _) fun v _ => (bnd_bind (bnd_u8 1) (post_true _) fun t _ =>
    (bnd_bind (bnd_readN 2 1) (post_true _) fun _ _ => (bnd_bind bnd_time (post_true _) fun ia _ =>
    (bnd_bind bnd_time (post_true _) fun ea _ => (?_ : Bnd _ 1 0 (32 + 255))).mono (Nat.le_refl _) (Nat.le_refl _)).mono
    (Nat.le_refl _) (Nat.le_refl _)).mono (Nat.le_refl _) (Nat.le_refl _)).mono (Nat.le_refl _) (Nat.le_refl _)).mono
    (by omega) (by omega)
  refine bnd_alloc_readN_bind (k := 0) (e := 255) (Nat.le_refl 32) (Nat.le_refl 1) fun pk => ?_
  refine (bnd_bind (bnd_readN 32 1) (post_true _) fun par _ => (bnd_bind bnd_chunk (post_true _) fun ch _ =>
    (bnd_bind (bnd_readN 64 1) (post_true _) fun sg _ => bnd_pure _ 1).mono (Nat.le_refl _) (Nat.le_refl _)).mono
    (Nat.le_refl _) (Nat.le_refl _)).mono (by omega) (by omega)

theorem bnd_intent : Bnd rdIntent 1 0 287 := by
  unfold rdIntent
  refine (bnd_bind (bnd_u8 1) (post_true _) fun gt _ => (bnd_bind (bnd_u8 1) (post_true _) fun rs _ =>
    (bnd_bind (bnd_uBE 2 1) (post_true _) fun port _ => (bnd_bind bnd_time (post_true _) fun st _ =>
    (bnd_bind bnd_time (post_true _) fun ex _ => (bnd_bind bnd_name (post_true _) fun sni _ =>
    (bnd_bind bnd_str (post_true _) fun user _ => (bnd_bind bnd_cert (post_true _) fun cert _ =>
    (bnd_bind (k1 := 0) (e1 := 255) ?_ (post_true _) fun cmd _ => bnd_pure _ 1).mono
    (Nat.le_refl _) (Nat.le_refl _)).mono (Nat.le_refl _) (Nat.le_refl _)).mono (Nat.le_refl _) (Nat.le_refl _)).mono
    (Nat.le_refl _) (Nat.le_refl _)).mono (Nat.le_refl _) (Nat.le_refl _)).mono (Nat.le_refl _) (Nat.le_refl _)).mono
    (Nat.le_refl _) (Nat.le_refl _)).mono (Nat.le_refl _) (Nat.le_refl _)).mono (by omega) (by omega)
  exact bnd_ite bnd_str (bnd_ite ((bnd_fail _ 1).mono (Nat.zero_le 0) (Nat.zero_le 255))
    ((bnd_pure _ 1).mono (Nat.zero_le 0) (Nat.zero_le 255)))

theorem bnd_ag : Bnd rdAg 1 0 287 := by
  unfold rdAg
  refine (bnd_bind (bnd_u8 1) (post_true _) fun t _ => ?_).mono (k := 0 + 0) (e := max 0 (0 + 287)) (by omega) (by omega)
  have hi : ∀ g : Intent → AgMsg, Bnd (rdIntent >>= fun i => pure (g i)) 1 0 287 := fun g =>
    (bnd_bind bnd_intent (post_true _) fun i _ => bnd_pure _ 1).mono (by omega) (by omega)
  refine bnd_ite (hi _) (bnd_ite (hi _) (bnd_ite ((bnd_pure _ 1).mono (Nat.zero_le 0) (Nat.zero_le _)) (bnd_ite ?_
    ((bnd_pure _ 1).mono (Nat.zero_le 0) (Nat.zero_le _)))))
  exact (bnd_bind bnd_str (post_true _) fun s _ => bnd_pure _ 1).mono (by omega) (by omega)

theorem bnd_len32 : Bnd rdLen32 1 0 32768 := by
  unfold rdLen32
  exact (bnd_bind (bnd_uBE 4 1) (post_true _) fun l _ =>
    (bnd_alloc_readN (Nat.min_le_left l 32768) (Nat.le_refl 1)).mono (Nat.le_refl 0) (Nat.min_le_right l 32768)).mono
    (by omega) (by omega)

theorem bnd_size : Bnd rdSize 1 0 0 := by
  unfold rdSize
  exact (bnd_bind (bnd_uBE 2 1) (post_true _) fun r _ => (bnd_bind (bnd_uBE 2 1) (post_true _) fun c _ =>
    (bnd_bind (bnd_uBE 2 1) (post_true _) fun x _ => (bnd_bind (bnd_uBE 2 1) (post_true _) fun y _ => bnd_pure _ 1).mono
    (Nat.le_refl _) (Nat.le_refl _)).mono (Nat.le_refl _) (Nat.le_refl _)).mono (Nat.le_refl _) (Nat.le_refl _)).mono
    (by omega) (by omega)

theorem bnd_exec : Bnd rdExec 1 0 32768 := by
  unfold rdExec
  refine (bnd_bind (bnd_u8 1) (post_true _) fun t _ => (bnd_bind bnd_len32 (post_true _) fun cmd _ =>
    (bnd_bind bnd_len32 (post_true _) fun term _ => (bnd_bind (k1 := 0) (e1 := 0) ?_ (post_true _) fun size _ => bnd_pure _ 1).mono
    (Nat.le_refl _) (Nat.le_refl _)).mono (Nat.le_refl _) (Nat.le_refl _)).mono (Nat.le_refl _) (Nat.le_refl _)).mono
    (by omega) (by omega)
  exact bnd_ite ((bnd_bind bnd_size (post_true _) fun s _ => bnd_pure _ 1).mono (by omega) (by omega)) (bnd_pure _ 1)

theorem bnd_ua : Bnd rdUA 1 65535 65535 := by
  unfold rdUA
  refine (bnd_bind (bnd_readPad 2 1) (post_readPad 2) fun l hl =>
    ((bnd_bind (bnd_allocate (fromBE l) 1) (post_true _) fun _ _ => bnd_readPad (fromBE l) 1).mono
      (k' := 65535) (e' := 65535) ?_ ?_)).mono (by omega) (by omega)
  all_goals
    have := fromBE_lt l
    rw [hl] at this
    omega

theorem bnd_xst : Bnd rdXst 1 65535 65535 := by
  unfold rdXst
  refine (bnd_bind (bnd_readPad 1 1) (post_true _) fun r _ => bnd_ite ((bnd_pure _ 1).mono (k' := 65535) (e' := 65535) (by omega) (by omega)) ?_).mono
    (by omega) (by omega)
  refine (bnd_bind (bnd_readPad 4 1) (post_readPad 4) fun l hl =>
    ((bnd_bind (bnd_allocate (fromBE (l.take 2)) 1) (post_true _) fun _ _ =>
      (bnd_bind (bnd_readPad (fromBE (l.take 2)) 1) (post_true _) fun m _ => bnd_pure _ 1)).mono
      (k' := 65535) (e' := 65535) ?_ ?_)).mono (by omega) (by omega)
  all_goals
    have := fromBE_lt (l.take 2)
    have h2 : (l.take 2).length = 2 := by simp [hl]
    rw [h2] at this
    omega

theorem bnd_pf : Bnd rdPF 1 0 65535 := by
  unfold rdPF
  refine (bnd_bind (bnd_u8 1) (post_true _) fun nt _ => (bnd_bind (bnd_u8 1) (post_true _) fun ft _ =>
    (bnd_bind (bnd_uBE 2 1) (post_uBE 2) fun l hl => ?_).mono (Nat.le_refl _) (Nat.le_refl _)).mono
    (Nat.le_refl _) (Nat.le_refl _)).mono (k := 0 + (0 + (0 + 0))) (e := max 0 (0 + max 0 (0 + max 0 (0 + 65535))))
    (by omega) (by omega)
  refine (bnd_alloc_readN_bind (k := 0) (e := 0) (Nat.le_refl l) (Nat.le_refl 1) fun a =>
    bnd_ite (bnd_pure _ 1) (bnd_fail _ 1)).mono (Nat.le_refl 0) (by omega)

end Wire
