import HopModel.Spec.MuxRun
import HopModel.Proofs.Muxer
/-
Helper lemmas for C09: bookkeeping of the tube list under all events.
-/
namespace Tubes

theorem lookup_none_iff (ts : List Tube) (k : Key) : lookup ts k = none ↔ k ∉ ts.map Tube.key := by
  unfold lookup
  induction ts with
  | nil => simp
  | cons u rest ih =>
    simp only [List.find?_cons, List.map_cons, List.mem_cons, not_or]
    by_cases h : u.key = k
    · simp [h]
    · simp only [h, decide_false]
      rw [ih]
      constructor
      · intro h2; exact ⟨fun e => h e.symm, h2⟩
      · intro h2; exact h2.2

theorem setTube_keys (ts : List Tube) (t : Tube) : (setTube ts t).map Tube.key = ts.map Tube.key := by
  unfold setTube
  induction ts with
  | nil => rfl
  | cons u rest ih =>
    simp only [List.map_cons, ih]
    by_cases h : u.key = t.key
    · simp [h]
    · simp [h]

theorem lookup_map (ts : List Tube) (g : Tube → Tube) (hg : ∀ u, (g u).key = u.key) (k : Key) :
    lookup (ts.map g) k = (lookup ts k).map g := by
  unfold lookup
  induction ts with
  | nil => rfl
  | cons u rest ih =>
    rw [List.map_cons, List.find?_cons, List.find?_cons, hg u]
    cases h : decide (u.key = k)
    · exact ih
    · rfl

theorem lookup_map_ne (ts : List Tube) (g : Tube → Tube) (k k' : Key)
    (hg : ∀ u, (if u.key = k' then g u else u).key = u.key) (h : k' ≠ k) :
    lookup (ts.map fun u => if u.key = k' then g u else u) k = lookup ts k := by
  rw [lookup_map _ _ hg]
  cases hl : lookup ts k with
  | none => rfl
  | some t =>
    have := lookup_key hl
    simp only [Option.map_some]
    rw [if_neg (by rw [this]; exact fun e => h e.symm)]

theorem map_held_keys (ts : List Tube) (k' : Key) :
    (ts.map fun u => if u.key = k' then { u with held := true } else u).map Tube.key = ts.map Tube.key := by
  rw [List.map_map]
  apply List.map_congr_left
  intro u _
  simp only [Function.comp]
  split <;> rfl

theorem lookup_filter_ne (ts : List Tube) (k k' : Key) (h : k' ≠ k) :
    lookup (ts.filter (·.key ≠ k')) k = lookup ts k := by
  unfold lookup
  induction ts with
  | nil => rfl
  | cons u rest ih =>
    by_cases hu : u.key = k'
    · rw [List.filter_cons_of_neg (by simp [hu]), List.find?_cons_of_neg (by simp [hu, h]), ih]
    · rw [List.filter_cons_of_pos (by simp [hu]), List.find?_cons, List.find?_cons, ih]

theorem lookup_setTube_self (ts : List Tube) (t u : Tube) (h : lookup ts t.key = some u) :
    lookup (setTube ts t) t.key = some t := by
  unfold lookup setTube at *
  induction ts with
  | nil => cases h
  | cons v vs ih =>
    rw [List.find?_cons] at h
    rw [List.map_cons, List.find?_cons]
    by_cases hv : v.key = t.key
    · simp [hv]
    · simp only [hv, decide_false] at h
      simp only [hv, if_false, decide_false]
      exact ih h

/-! ### pickTubeID -/

theorem pickFrom_spec (ts : List Tube) (rel : Bool) : ∀ (fuel g id : Nat), pickFrom ts rel fuel g = some id →
    lookup ts (rel, id) = none ∧ id % 2 = g % 2 ∧ id < 256 := by
  intro fuel
  induction fuel with
  | zero => intro g id h; simp [pickFrom] at h
  | succ n ih =>
    intro g id h
    unfold pickFrom at h
    split at h
    · cases h
    · split at h
      · rename_i hlt hnone
        simp only [Option.some.injEq] at h
        subst h
        refine ⟨by simpa using hnone, rfl, by omega⟩
      · obtain ⟨h1, h2, h3⟩ := ih _ _ h
        exact ⟨h1, by omega, h3⟩

theorem create_spec {m m' : Mux} {rel : Bool} {ty id : Nat} (h : create m rel ty = (m', some id)) :
    lookup m.tubes (rel, id) = none ∧ id % 2 = m.parity % 2 ∧ id < 256 ∧
    m'.tubes = newTube rel id ty true :: m.tubes ∧ m'.queue = m.queue ∧ m'.parity = m.parity := by
  unfold create at h
  split at h
  · cases h
  · rename_i id' hp
    split at h
    · simp only [Prod.mk.injEq, Option.some.injEq] at h
      obtain ⟨rfl, rfl⟩ := h
      obtain ⟨h1, h2, h3⟩ := pickFrom_spec _ _ _ _ _ hp
      exact ⟨h1, h2, h3, rfl, rfl, rfl⟩
    · cases h

/-! ### every event touches only the tube it is addressed to -/

theorem onRaw_local (m : Mux) (b : Bytes) (m' : Mux) (h : onRaw m b = .ok m') (k : Key)
    (hk : ∀ f, fromBytes b recvBufSize = .ok f → (f.rel, f.tubeID) ≠ k) :
    lookup m'.tubes k = lookup m.tubes k := by
  unfold onRaw at h
  split at h
  · rename_i f hf
    obtain ⟨m1, h1, h2, _⟩ := onFrame_total m f
    rw [h1] at h; cases h
    exact h2 k (fun e => hk f hf e.symm)
  · cases h; rfl
  · cases h

theorem step_local (m : Mux) (ev : MEv) (k : Key) (hk : target m ev ≠ some k) :
    lookup (mStep m ev).1.tubes k = lookup m.tubes k := by
  cases ev with
  | raw b =>
    simp only [mStep]
    split
    · rename_i m' h
      apply onRaw_local m b m' h k
      intro f hf e
      apply hk
      simp [target, hf, e]
    · rfl
  | create rel ty =>
    simp only [mStep]
    split
    · rename_i m' id h
      obtain ⟨_, _, _, h4, _⟩ := create_spec h
      show lookup m'.tubes k = _
      rw [h4]
      apply lookup_cons_ne
      intro e
      apply hk
      unfold create at h
      split at h
      · cases h
      · rename_i id' hp
        split at h
        · simp only [Prod.mk.injEq, Option.some.injEq] at h
          simp only [target, hp, Option.map_some]
          rw [h.2]; exact congrArg some e
        · cases h
    · rename_i m' h
      unfold create at h
      split at h
      · cases h; rfl
      · split at h
        · cases h
        · cases h; rfl
  | accept =>
    simp only [mStep, accept]
    split
    · rename_i m' t h
      split at h
      · cases h
      · rename_i q rest hq
        simp only [Prod.mk.injEq, Option.some.injEq] at h
        obtain ⟨rfl, rfl⟩ := h
        apply lookup_map_ne
        · intro u; split <;> rfl
        · intro e; apply hk; simp [target, hq, e]
    · rename_i m' h
      split at h
      · cases h; rfl
      · cases h
  | reap k' =>
    simp only [mStep, reap]
    have hne : k' ≠ k := fun e => hk (by simp [target, e])
    split
    · rename_i m' h
      split at h
      · split at h
        · cases h; exact lookup_filter_ne _ _ _ hne
        · cases h
      · cases h
    · rename_i m' h
      split at h
      · split at h
        · cases h
        · cases h; rfl
      · cases h; rfl
  | shut k' =>
    have hne : k' ≠ k := fun e => hk (by simp [target, e])
    simp only [mStep]
    have key : ∀ r, shut m k' = r → lookup r.1.tubes k = lookup m.tubes k := by
      intro r hr
      unfold shut at hr
      split at hr
      · rename_i t ht
        have htk := lookup_key ht
        split at hr
        · subst hr
          apply lookup_setTube_ne
          show t.key ≠ k
          rw [htk]; exact hne
        · subst hr; rfl
      · subst hr; rfl
    split
    · rename_i m' h; exact key _ h
    · rename_i m' h; exact key _ h
  | read k' n =>
    have hne : k' ≠ k := fun e => hk (by simp [target, e])
    simp only [mStep]
    have key : ∀ r, readTube m k' n = r → lookup r.1.tubes k = lookup m.tubes k := by
      intro r hr
      unfold readTube at hr
      split at hr
      · subst hr; rfl
      · rename_i t ht
        have htk := lookup_key ht
        split at hr
        · subst hr; rfl
        · split at hr
          · subst hr; rfl
          · split at hr
            · split at hr
              · subst hr; rfl
              · subst hr
                apply lookup_setTube_ne
                show t.key ≠ k
                rw [htk]; exact hne
            · split at hr
              · subst hr
                apply lookup_setTube_ne
                show t.key ≠ k
                rw [htk]; exact hne
              · split at hr <;> (subst hr; rfl)
    split
    · rename_i m' b fl h
      exact key _ h
    · rename_i m' o h
      exact key _ h

/-! ### keys stay distinct -/

def KeysNodup (m : Mux) : Prop := (m.tubes.map Tube.key).Nodup

theorem onFrame_keys (m : Mux) (f : Frame) (m' : Mux) (h : onFrame m f = .ok m') (hn : KeysNodup m) :
    KeysNodup m' ∧
    (m'.queue = m.queue ∨
      ∃ t, m'.queue = m.queue ++ [t] ∧ f.req = true ∧ lookup m.tubes (f.rel, f.tubeID) = none ∧
        t.rel = f.rel ∧ t.id = f.tubeID ∧ t.ttype = initType f ∧ (lookup m'.tubes (f.rel, f.tubeID)).isSome) := by
  unfold onFrame at h
  split at h
  · rename_i t ht
    obtain ⟨t', h1, h2⟩ := deliver_total t f
    rw [h1] at h
    simp only [Outcome.bind, Outcome.ok.injEq] at h
    subst h
    exact ⟨by unfold KeysNodup; rw [setTube_keys]; exact hn, Or.inl rfl⟩
  · rename_i hnone
    split at h
    · rename_i hc
      obtain ⟨t', h1, h2⟩ := deliver_total (newTube f.rel f.tubeID (initType f) false) f
      simp only [] at h
      rw [h1] at h
      simp only [Outcome.bind, Outcome.ok.injEq] at h
      subst h
      simp only [Bool.and_eq_true, decide_eq_true_eq] at hc
      refine ⟨?_, Or.inr ⟨_, rfl, hc.1.1, hnone, rfl, rfl, rfl, ?_⟩⟩
      · unfold KeysNodup
        simp only [List.map_cons]
        refine List.nodup_cons.mpr ⟨?_, hn⟩
        rw [h2]
        exact (lookup_none_iff _ _).mp hnone
      · have : t'.key = (f.rel, f.tubeID) := h2
        simp [lookup, List.find?_cons, this]
    · cases h; exact ⟨hn, Or.inl rfl⟩

theorem step_keys (m : Mux) (ev : MEv) (hn : KeysNodup m) : KeysNodup (mStep m ev).1 := by
  cases ev with
  | raw b =>
    simp only [mStep]
    split
    · rename_i m' h
      unfold onRaw at h
      split at h
      · exact (onFrame_keys m _ m' h hn).1
      · cases h; exact hn
      · cases h
    · exact hn
  | create rel ty =>
    simp only [mStep]
    split
    · rename_i m' id h
      obtain ⟨h1, _, _, h4, _⟩ := create_spec h
      show (m'.tubes.map Tube.key).Nodup
      rw [h4]
      simp only [List.map_cons]
      exact List.nodup_cons.mpr ⟨(lookup_none_iff _ _).mp h1, hn⟩
    · rename_i m' h
      unfold create at h
      split at h
      · cases h; exact hn
      · split at h
        · cases h
        · cases h; exact hn
  | accept =>
    simp only [mStep, accept]
    split
    · rename_i m' t h
      split at h
      · cases h
      · simp only [Prod.mk.injEq, Option.some.injEq] at h
        obtain ⟨rfl, rfl⟩ := h
        show ((List.map _ m.tubes).map Tube.key).Nodup
        rw [map_held_keys]; exact hn
    · rename_i m' h
      split at h
      · cases h; exact hn
      · cases h
  | reap k =>
    simp only [mStep, reap]
    have hf : ((m.tubes.filter (·.key ≠ k)).map Tube.key).Nodup :=
      (List.filter_sublist.map Tube.key).nodup hn
    split
    · rename_i m' h
      split at h
      · split at h
        · cases h; exact hf
        · cases h
      · cases h
    · rename_i m' h
      split at h
      · split at h
        · cases h
        · cases h; exact hn
      · cases h; exact hn
  | shut k =>
    simp only [mStep]
    have key : ∀ r, shut m k = r → KeysNodup r.1 := by
      intro r hr
      unfold shut at hr
      split at hr
      · split at hr
        · subst hr; unfold KeysNodup; rw [setTube_keys]; exact hn
        · subst hr; exact hn
      · subst hr; exact hn
    split
    · rename_i m' h; exact key _ h
    · rename_i m' h; exact key _ h
  | read k n =>
    simp only [mStep]
    have key : ∀ r, readTube m k n = r → KeysNodup r.1 := by
      intro r hr
      unfold readTube at hr
      split at hr
      · subst hr; exact hn
      · split at hr
        · subst hr; exact hn
        · split at hr
          · subst hr; exact hn
          · split at hr
            · split at hr
              · subst hr; exact hn
              · subst hr; unfold KeysNodup; rw [setTube_keys]; exact hn
            · split at hr
              · subst hr; unfold KeysNodup; rw [setTube_keys]; exact hn
              · split at hr <;> (subst hr; exact hn)
    split
    · rename_i m' b fl h; exact key _ h
    · rename_i m' o h; exact key _ h

theorem run_keys : ∀ (evs : List MEv) (m : Mux), KeysNodup m → KeysNodup (mRun m evs).1 := by
  intro evs
  induction evs with
  | nil => intro m h; exact h
  | cons e rest ih =>
    intro m h
    simp only [mRun]
    exact ih _ (step_keys m e h)

/-! ### the reservation: a closed tube that is still in the map swallows every frame -/

theorem deliver_closed (t : Tube) (f : Frame) (h : t.state = .closed) : deliver t f = .ok t := by
  unfold deliver
  split
  · unfold initTube; simp [h]
  · split
    · unfold relReceive; simp [h]
    · unfold unrelReceive; simp [h]

theorem setTube_self (ts : List Tube) (t : Tube) (hn : (ts.map Tube.key).Nodup)
    (h : lookup ts t.key = some t) : setTube ts t = ts := by
  unfold setTube
  induction ts with
  | nil => rfl
  | cons v vs ih =>
    simp only [List.map_cons, List.nodup_cons] at hn
    unfold lookup at h ih
    rw [List.find?_cons] at h
    rw [List.map_cons]
    by_cases hv : v.key = t.key
    · simp only [hv, decide_true, Option.some.injEq] at h
      subst h
      simp only [if_true]
      congr 1
      -- no other element has this key
      have hid : ∀ u ∈ vs, (if u.key = v.key then v else u) = id u := by
        intro u hu
        have hne : u.key ≠ v.key := fun e => hn.1 (e ▸ List.mem_map_of_mem (f := Tube.key) hu)
        simp [hne]
      rw [List.map_congr_left hid, List.map_id]
    · simp only [hv, decide_false] at h
      simp only [hv, if_false]
      rw [ih hn.2 h]

theorem onFrame_closed (m : Mux) (f : Frame) (t : Tube) (hn : KeysNodup m)
    (hl : lookup m.tubes (f.rel, f.tubeID) = some t) (hc : t.state = .closed) : onFrame m f = .ok m := by
  unfold onFrame
  rw [hl]
  simp only [deliver_closed t f hc, Outcome.bind]
  have hk := lookup_key hl
  rw [setTube_self m.tubes t hn (by rw [hk]; exact hl)]

end Tubes
