/-
Simulation between the replay-window model and the reference filter of `Spec/Replay.lean`
(used by C14 and, through the session model, by C03).
-/
import HopModel.Proofs.Replay
import HopModel.Spec.Replay
namespace Replay

/-- the model run over a history (what the driver does) -/
def runU (w : Win) (hist : List Nat) : Win := hist.foldl acceptU w

def Bounded (hist : List Nat) : Prop := ∀ q ∈ hist, q < 2 ^ 63

/-! ### simulation -/

/-- model state `w` and reference state `acc` agree -/
structure Sim (w : Win) (acc : List Nat) : Prop where
  inv : Inv w (fun x => x ∈ acc)
  top : w.wt = maxL acc

theorem sim_init : Sim init [] :=
  ⟨by simpa using inv_init, rfl⟩

theorem sim_check {w : Win} {acc : List Nat} (h : Sim w acc) {q : Nat} (hq : q < 2 ^ 63) :
    checkU w q = specAccepts acc q := by
  have hb : q + 448 < u64 := by unfold u64; omega
  rw [checkU_eq w hb]
  have := check_iff h.inv q
  unfold specAccepts
  rw [← h.top]
  cases hc : check w q
  · have h' : ¬ (¬ q ∈ acc ∧ w.wt ≤ q + 448) := by rw [← this]; simp [hc]
    by_cases hm : q ∈ acc
    · simp [hm]
    · have : ¬ w.wt ≤ q + 448 := fun hw => h' ⟨hm, hw⟩
      simp [this]
  · obtain ⟨h1, h2⟩ := this.mp hc
    simp [h1, h2]

theorem sim_step {w : Win} {acc : List Nat} (h : Sim w acc) {q : Nat} (hq : q < 2 ^ 63) :
    Sim (acceptU w q) (if specAccepts acc q then q :: acc else acc) := by
  have hb : q + 448 < u64 := by unfold u64; omega
  have hcs := sim_check h hq
  unfold acceptU
  cases hc : checkU w q
  · rw [← hcs, hc]
    simp only [Bool.false_eq_true, if_false]
    exact ⟨h.inv.compact, by rw [compact_wt]; exact h.top⟩
  · rw [← hcs, hc]
    simp only [if_true]
    rw [markU_eq w hb]
    have hc' : check w q = true := by rw [← checkU_eq w hb]; exact hc
    have hwin := ((check_iff h.inv q).mp hc').2
    refine ⟨((mark_inv h.inv hc').congr ?_).compact, ?_⟩
    · intro x; simp [List.mem_cons, or_comm]
    · rw [compact_wt, mark_wt hwin, h.top]; rfl

theorem sim_run {w : Win} {acc : List Nat} (h : Sim w acc) (hist : List Nat) (hb : Bounded hist) :
    Sim (runU w hist) (specRun acc hist) := by
  induction hist generalizing w acc with
  | nil => exact h
  | cons q qs ih =>
    simp only [runU, List.foldl_cons, specRun]
    exact ih (sim_step h (hb q (by simp))) (fun x hx => hb x (by simp [hx]))

/-- `compact` is invisible in the other direction too -/
theorem Inv.of_compact {w : Win} {S : Nat → Prop} (h : Inv (Replay.compact w) S) : Inv w S :=
  ⟨fun q h1 h2 => by rw [← compact_bit]; exact h.inWin q h1 h2,
   fun q h1 h2 => by rw [← compact_bit]; exact h.above q h1 h2,
   h.le_top⟩

/-- one step of the receive path without the driver's re-tabulation -/
theorem sim_step_plain {w : Win} {acc : List Nat} (h : Sim w acc) {q : Nat} (hq : q < 2 ^ 63) :
    Sim (if checkU w q then markU w q else w) (if specAccepts acc q then q :: acc else acc) := by
  have := sim_step h hq
  unfold acceptU at this
  exact ⟨this.inv.of_compact, by have := this.top; rwa [compact_wt] at this⟩

end Replay
