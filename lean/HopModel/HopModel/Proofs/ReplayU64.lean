/-
The machine-level transcription of `transport/replay.go` (`Model/ReplayU64.lean`, `UInt64`
arithmetic throughout) refines the `Nat`-level model of `Model/Replay.lean`.
-/
import HopModel.Model.ReplayU64
import HopModel.Proofs.Replay
namespace ReplayU64
open Replay

/-- the ring of a machine state seen as a function slot ↦ mask -/
def absB (b : Array UInt64) : Nat → Nat := fun j => (b.getD j 0).toNat

def abs (w : WinU) : Win := { blocks := absB w.blocks, wt := w.wt.toNat }

/-! ### bit tricks -/

theorem and_two_pow_eq_zero (n i : Nat) : (n &&& 2 ^ i = 0) ↔ n.testBit i = false := by
  constructor
  · intro h
    have := congrArg (fun m => m.testBit i) h
    simpa [Nat.testBit_and, Nat.testBit_two_pow_self] using this
  · intro h
    apply Nat.eq_of_testBit_eq
    intro j
    simp only [Nat.testBit_and, Nat.testBit_two_pow, Nat.zero_testBit]
    by_cases hij : i = j
    · subst hij; simp [h]
    · simp [hij]

theorem slot_eq (seq : UInt64) : ((seq >>> 6) &&& 7).toNat = slot seq.toNat := by
  rw [UInt64.toNat_and, UInt64.toNat_shiftRight]
  have h7 : (7 : UInt64).toNat = 2 ^ 3 - 1 := by decide
  have h6 : (6 : UInt64).toNat % 64 = 6 := by decide
  rw [h7, h6, Nat.and_two_pow_sub_one_eq_mod, Nat.shiftRight_eq_div_pow]
  rfl

theorem loc_eq (seq : UInt64) : (seq &&& 63).toNat = loc seq.toNat := by
  rw [UInt64.toNat_and]
  have h63 : (63 : UInt64).toNat = 2 ^ 6 - 1 := by decide
  rw [h63, Nat.and_two_pow_sub_one_eq_mod]
  rfl

theorem loc_lt (n : Nat) : loc n < 64 := by unfold loc; omega

theorem one_shl (seq : UInt64) : ((1 : UInt64) <<< (seq &&& 63)).toNat = 2 ^ loc seq.toNat := by
  rw [UInt64.toNat_shiftLeft, loc_eq]
  have h1 : (1 : UInt64).toNat = 1 := by decide
  have hl := loc_lt seq.toNat
  rw [h1, Nat.mod_eq_of_lt hl, Nat.one_shiftLeft]
  apply Nat.mod_eq_of_lt
  exact Nat.pow_lt_pow_right (by omega) hl

theorem add448 (seq : UInt64) : (seq + 448).toNat = addWrap seq.toNat 448 := by
  rw [UInt64.toNat_add]
  have : (448 : UInt64).toNat = 448 := by decide
  rw [this]; rfl

/-! ### Check -/

theorem check_refines (w : WinU) (seq : UInt64) : check w seq = checkU (abs w) seq.toNat := by
  unfold check checkU
  have hgt : (seq > w.wt) ↔ (seq.toNat > (abs w).wt) := by
    show w.wt < seq ↔ _
    rw [UInt64.lt_iff_toNat_lt]; rfl
  have hlt : (seq + 448 < w.wt) ↔ (addWrap seq.toNat 448 < (abs w).wt) := by
    rw [UInt64.lt_iff_toNat_lt, add448]; rfl
  by_cases h1 : seq > w.wt
  · rw [if_pos h1, if_pos (hgt.mp h1)]
  · rw [if_neg h1, if_neg (fun h => h1 (hgt.mpr h))]
    by_cases h2 : seq + 448 < w.wt
    · rw [if_pos h2, if_pos (hlt.mp h2)]
    · rw [if_neg h2, if_neg (fun h => h2 (hlt.mpr h))]
      simp only [bit, abs, absB, blk]
      rw [← slot_eq]
      cases hb : (w.blocks.getD ((seq >>> 6) &&& 7).toNat 0).toNat.testBit (loc seq.toNat) with
      | false =>
        have := (and_two_pow_eq_zero _ _).mpr hb
        have hz : (w.blocks.getD ((seq >>> 6) &&& 7).toNat 0 &&& (1 <<< (seq &&& 63))) = 0 := by
          apply UInt64.toNat_inj.mp
          rw [UInt64.toNat_and, one_shl, this]; rfl
        rw [hz]; rfl
      | true =>
        have hz : (w.blocks.getD ((seq >>> 6) &&& 7).toNat 0 &&& (1 <<< (seq &&& 63))) ≠ 0 := by
          intro h
          have := congrArg UInt64.toNat h
          rw [UInt64.toNat_and, one_shl] at this
          have := (and_two_pow_eq_zero _ _).mp this
          rw [hb] at this; cases this
        exact beq_eq_false_iff_ne.mpr hz

/-! ### the ring -/

theorem absB_set (b : Array UInt64) (i : Nat) (v : UInt64) (hi : i < b.size) :
    absB (b.setIfInBounds i v) = setSlot (absB b) i v.toNat := by
  funext j
  simp only [absB, setSlot, Array.getD_eq_getD_getElem?, Array.getElem?_setIfInBounds]
  by_cases h : i = j
  · subst h; simp [hi]
  · have h' : ¬ j = i := fun e => h e.symm
    simp [h, h']

theorem clearLoop_size (b : Array UInt64) (cur : UInt64) (d : Nat) : (clearLoop b cur d).size = b.size := by
  induction d with
  | zero => rfl
  | succ d ih => simp [clearLoop, ih]

theorem clear_idx (d : Nat) (cur : UInt64) (hd : d < 2 ^ 64) :
    ((UInt64.ofNat d + cur + 1) &&& 7).toNat = (d + cur.toNat + 1) % 8 := by
  rw [UInt64.toNat_and]
  have h7 : (7 : UInt64).toNat = 2 ^ 3 - 1 := by decide
  rw [h7, Nat.and_two_pow_sub_one_eq_mod, UInt64.toNat_add, UInt64.toNat_add]
  have h1 : (1 : UInt64).toNat = 1 := by decide
  have hof : (UInt64.ofNat d).toNat = d := by
    simp [UInt64.toNat_ofNat', Nat.mod_eq_of_lt hd]
  rw [h1, hof]
  omega

theorem clearLoop_refines (b : Array UInt64) (hb : b.size = 8) (cur : UInt64) (d : Nat) (hd : d ≤ 8) :
    absB (clearLoop b cur d) = Replay.clearLoop (absB b) cur.toNat d := by
  induction d with
  | zero => rfl
  | succ d ih =>
    simp only [clearLoop, Replay.clearLoop]
    rw [clear_idx d cur (by omega)]
    rw [absB_set _ _ _ (by rw [clearLoop_size, hb]; omega), ih (by omega)]
    rfl

/-! ### Mark -/

theorem shr6 (x : UInt64) : (x >>> 6).toNat = x.toNat / 64 := by
  rw [UInt64.toNat_shiftRight]
  have h6 : (6 : UInt64).toNat % 64 = 6 := by decide
  rw [h6, Nat.shiftRight_eq_div_pow]

/-- size invariant -/
theorem mark_size (w : WinU) (seq : UInt64) (hs : w.blocks.size = 8) : (mark w seq).blocks.size = 8 := by
  unfold mark
  split
  · exact hs
  · split <;> simp [clearLoop_size, hs]

/-- setting the counter's bit, machine level vs `Nat` level -/
theorem final_step (b : Array UInt64) (hb : b.size = 8) (seq : UInt64) :
    absB (b.setIfInBounds ((seq >>> 6) &&& 7).toNat
        (b.getD ((seq >>> 6) &&& 7).toNat 0 ||| (1 <<< (seq &&& 63))))
      = setSlot (absB b) (slot seq.toNat) (absB b (slot seq.toNat) ||| (1 <<< loc seq.toNat)) := by
  rw [absB_set _ _ _ (by rw [hb, slot_eq]; exact slot_lt _), slot_eq, UInt64.toNat_or, one_shl,
    Nat.one_shiftLeft]
  rfl

theorem diff_refines (w : WinU) (seq : UInt64) (h1 : w.wt < seq) :
    (if (seq >>> 6) - (w.wt >>> 6) > 8 then (8 : UInt64) else (seq >>> 6) - (w.wt >>> 6)).toNat
      = min (seq.toNat / 64 - w.wt.toNat / 64) 8 := by
  have hle : (w.wt >>> 6).toNat ≤ (seq >>> 6).toNat := by
    rw [shr6, shr6]
    exact Nat.div_le_div_right (Nat.le_of_lt (UInt64.lt_iff_toNat_lt.mp h1))
  have hsub : ((seq >>> 6) - (w.wt >>> 6)).toNat = seq.toNat / 64 - w.wt.toNat / 64 := by
    rw [UInt64.toNat_sub, ← shr6, ← shr6]
    have h1 := UInt64.toNat_lt (seq >>> 6)
    have h2 := UInt64.toNat_lt (w.wt >>> 6)
    omega
  have h8 : (8 : UInt64).toNat = 8 := by decide
  by_cases hg : (seq >>> 6) - (w.wt >>> 6) > 8
  · rw [if_pos hg]
    have : (8 : UInt64).toNat < ((seq >>> 6) - (w.wt >>> 6)).toNat := UInt64.lt_iff_toNat_lt.mp hg
    rw [hsub, h8] at this
    rw [h8]; omega
  · rw [if_neg hg]
    have : ¬ (8 : UInt64).toNat < ((seq >>> 6) - (w.wt >>> 6)).toNat := fun h => hg (UInt64.lt_iff_toNat_lt.mpr h)
    rw [hsub, h8] at this
    rw [hsub]; omega

theorem mark_refines (w : WinU) (hs : w.blocks.size = 8) (seq : UInt64) :
    abs (mark w seq) = markU (abs w) seq.toNat := by
  unfold mark markU
  have hlt : (seq + 448 < w.wt) ↔ (addWrap seq.toNat 448 < (abs w).wt) := by
    rw [UInt64.lt_iff_toNat_lt, add448]; rfl
  by_cases h2 : seq + 448 < w.wt
  · rw [if_pos h2, if_pos (hlt.mp h2)]
  · rw [if_neg h2, if_neg (fun h => h2 (hlt.mpr h))]
    have hgt : (seq > w.wt) ↔ (seq.toNat > (abs w).wt) := by
      show w.wt < seq ↔ _
      rw [UInt64.lt_iff_toNat_lt]; rfl
    by_cases h1 : seq > w.wt
    · dsimp only
      rw [if_pos h1, if_pos (hgt.mp h1)]
      dsimp only [abs, blk]
      have hd := diff_refines w seq h1
      have hd8 : (if (seq >>> 6) - (w.wt >>> 6) > 8 then (8 : UInt64) else (seq >>> 6) - (w.wt >>> 6)).toNat ≤ 8 := by
        rw [hd]; omega
      rw [final_step _ (by rw [clearLoop_size, hs]) seq]
      rw [clearLoop_refines w.blocks hs (w.wt >>> 6) _ hd8, hd, shr6]
    · dsimp only
      rw [if_neg h1, if_neg (fun h => h1 (hgt.mpr h))]
      dsimp only [abs, blk]
      rw [final_step _ hs seq]

/-! ### the whole machine -/

theorem accept_refines (w : WinU) (hs : w.blocks.size = 8) (seq : UInt64) :
    abs (accept w seq) = (if checkU (abs w) seq.toNat then markU (abs w) seq.toNat else abs w) := by
  unfold accept
  rw [check_refines]
  split
  · exact mark_refines w hs seq
  · rfl

theorem accept_size (w : WinU) (hs : w.blocks.size = 8) (seq : UInt64) : (accept w seq).blocks.size = 8 := by
  unfold accept; split
  · exact mark_size w seq hs
  · exact hs

end ReplayU64
