/-
Helper lemmas about `Model/Queue.lean` (the sequential specification of the deadline queue).
-/
import HopModel.Model.Queue
namespace Queue

theorem trace_append (q : Q) (a b : List Op) :
    trace q (a ++ b) = trace q a ++ trace (final q a) b := by
  induction a generalizing q with
  | nil => rfl
  | cons o os ih => simp [trace, final, ih]

theorem final_append (q : Q) (a b : List Op) :
    final q (a ++ b) = final (final q a) b := by
  induction a generalizing q with
  | nil => rfl
  | cons o os ih => simp [final, ih]

theorem sent_append (a b : List (Op × Res)) : sent (a ++ b) = sent a ++ sent b := by
  induction a with
  | nil => rfl
  | cons x t ih =>
    obtain ⟨o, r⟩ := x
    cases o <;> cases r <;> simp [sent, ih]

theorem received_append (a b : List (Op × Res)) : received (a ++ b) = received a ++ received b := by
  induction a with
  | nil => rfl
  | cons x t ih =>
    obtain ⟨o, r⟩ := x
    cases o <;> cases r <;> simp [received, ih]

/-- one step: what was received plus what is buffered afterwards = what was buffered plus what
was accepted -/
theorem step_conserve (q : Q) (o : Op) :
    received [(o, (step q o).2)] ++ (step q o).1.buf = q.buf ++ sent [(o, (step q o).2)] := by
  cases o with
  | send v =>
    simp only [step]
    split
    · simp [received, sent]
    · split
      · cases h : q.err <;> simp [Q.errRes, h, received, sent]
      · split <;> simp [received, sent]
  | recv =>
    simp only [step]
    split
    · rename_i v t h; simp [received, sent, h]
    · rename_i h
      split
      · simp [received, sent, h]
      · split
        · cases h' : q.err <;> simp [Q.errRes, h', received, sent, h]
        · simp [received, sent, h]
  | close =>
    simp only [step]
    split <;> simp [received, sent, Q.cancelD]
  | setDeadline d =>
    simp only [step]
    split
    · simp [received, sent]
    · cases d <;> simp [received, sent]
  | cancel e =>
    simp only [step]
    split <;> simp [received, sent, Q.cancelD]
  | timerFire =>
    simp only [step]
    split <;> simp [received, sent, Q.cancelD]

theorem conserve (q : Q) (ops : List Op) :
    received (trace q ops) ++ (final q ops).buf = q.buf ++ sent (trace q ops) := by
  induction ops generalizing q with
  | nil => simp [trace, final, received, sent]
  | cons o os ih =>
    have h1 := step_conserve q o
    have h2 := ih (step q o).1
    have e1 : trace q (o :: os) = [(o, (step q o).2)] ++ trace (step q o).1 os := rfl
    have e2 : final q (o :: os) = final (step q o).1 os := rfl
    rw [e1, e2, received_append, sent_append, List.append_assoc, h2, ← List.append_assoc, h1,
      List.append_assoc]

theorem step_closed (q : Q) (o : Op) (h : q.closed = true) : (step q o).1.closed = true := by
  cases o with
  | send v => simp [step, h]
  | recv => simp only [step]; split <;> simp [h]
  | close => simp [step, h]
  | setDeadline d => simp [step, h]
  | cancel e => simp [step, h]
  | timerFire => simp only [step]; split <;> simp [h, Q.cancelD]

theorem final_closed (q : Q) (ops : List Op) (h : q.closed = true) : (final q ops).closed = true := by
  induction ops generalizing q with
  | nil => exact h
  | cons o os ih => exact ih _ (step_closed q o h)

theorem step_cap (q : Q) (o : Op) : (step q o).1.cap = q.cap := by
  cases o with
  | send v => simp only [step]; split; rfl; split; rfl; split <;> rfl
  | recv => simp only [step]; split; rfl; split; rfl; split <;> rfl
  | close => simp only [step]; split <;> rfl
  | setDeadline d => simp only [step]; split; rfl; cases d <;> rfl
  | cancel e => simp only [step]; split <;> rfl
  | timerFire => simp only [step]; split <;> rfl

theorem step_bounded (q : Q) (o : Op) (h : q.buf.length ≤ q.cap) :
    (step q o).1.buf.length ≤ (step q o).1.cap := by
  rw [step_cap]
  cases o with
  | send v =>
    simp only [step]; split; exact h; split; exact h; split
    · simp; omega
    · exact h
  | recv =>
    simp only [step]; split
    · rename_i v t hb; simp [hb] at h ⊢; omega
    · split; exact h; split <;> exact h
  | close => simp only [step]; split <;> simpa [Q.cancelD] using h
  | setDeadline d => simp only [step]; split; exact h; cases d <;> simpa using h
  | cancel e => simp only [step]; split <;> simpa [Q.cancelD] using h
  | timerFire => simp only [step]; split <;> simpa [Q.cancelD] using h

theorem final_bounded (q : Q) (ops : List Op) (h : q.buf.length ≤ q.cap) :
    (final q ops).buf.length ≤ (final q ops).cap := by
  induction ops generalizing q with
  | nil => exact h
  | cons o os ih => exact ih _ (step_bounded q o h)

/-! ### which deadline-control event determines the expiry state -/

inductive Ctl where
  | unexpired
  | expiredBy (e : DErr)
  deriving DecidableEq, Repr

/-- the deadline-control effect of one (operation, result) pair, if it had one -/
def ctlOf : Op × Res → Option Ctl
  | (.setDeadline .past, .ok) => some (.expiredBy .timeout)
  | (.setDeadline .future, .ok) => some .unexpired
  | (.setDeadline .zero, .ok) => some .unexpired
  | (.cancel e, .ok) => some (.expiredBy e)
  | (.timerFire, .ok) => some (.expiredBy .timeout)
  | (.close, .ok) => some (.expiredBy .eof)
  | _ => none

/-- the most recent deadline-control event of a trace (`c` if there is none) -/
def lastCtl (c : Ctl) : List (Op × Res) → Ctl
  | [] => c
  | x :: t => lastCtl ((ctlOf x).getD c) t

def Agree (c : Ctl) (q : Q) : Prop :=
  match c with
  | .unexpired => q.expired = false
  | .expiredBy e => q.expired = true ∧ q.err = some e

theorem step_agree (c : Ctl) (q : Q) (o : Op) (h : Agree c q) :
    Agree ((ctlOf (o, (step q o).2)).getD c) (step q o).1 := by
  cases o with
  | send v =>
    simp only [step]; split
    · simpa [ctlOf] using h
    · split
      · cases he : q.err <;> simpa [Q.errRes, he, ctlOf] using h
      · split
        · cases c <;> simpa [ctlOf, Agree] using h
        · simpa [ctlOf] using h
  | recv =>
    simp only [step]; split
    · cases c <;> simpa [ctlOf, Agree] using h
    · split
      · simpa [ctlOf] using h
      · split
        · cases he : q.err <;> simpa [Q.errRes, he, ctlOf] using h
        · simpa [ctlOf] using h
  | close =>
    simp only [step]; split
    · simpa [ctlOf] using h
    · simp [ctlOf, Agree, Q.cancelD]
  | setDeadline d =>
    simp only [step]; split
    · cases d <;> simpa [ctlOf] using h
    · cases d <;> simp [ctlOf, Agree]
  | cancel e =>
    simp only [step]; split
    · simpa [ctlOf] using h
    · simp [ctlOf, Agree, Q.cancelD]
  | timerFire =>
    simp only [step]; split
    · simp [ctlOf, Agree, Q.cancelD]
    · simpa [ctlOf] using h

theorem run_agree (c : Ctl) (q : Q) (ops : List Op) (h : Agree c q) :
    Agree (lastCtl c (trace q ops)) (final q ops) := by
  induction ops generalizing c q with
  | nil => exact h
  | cons o os ih => exact ih _ _ (step_agree c q o h)

end Queue
