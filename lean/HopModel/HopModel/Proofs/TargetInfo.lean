/-
Lemmas for the target-info codec (`Model/TargetInfo.lean`).
-/
import HopModel.Model.TargetInfo
import HopModel.Proofs.Wire
namespace Wire
open Bytes

/-! ### hex digits and the escaping of user names -/

theorem unhex_hexUp : ∀ n : Fin 16, unhex (hexUp n.val) = some n.val := by decide

theorem hexUp_ne_64 : ∀ n : Fin 16, hexUp n.val ≠ 64 := by decide

theorem userPlain_facts (c : UInt8) (h : userPlain c = true) : c ≠ 37 ∧ c ≠ 64 ∧ userAccepted c = true := by
  refine ⟨?_, ?_, ?_⟩
  · intro e; subst e; revert h; decide
  · intro e; subst e; revert h; decide
  · unfold userAccepted; simp [h]

theorem byte_of_nibbles (c : UInt8) : UInt8.ofNat (c.toNat / 16 * 16 + c.toNat % 16) = c := by
  rw [Nat.div_add_mod']
  exact UInt8.ofNat_toNat

theorem nibble_lt (c : UInt8) : c.toNat / 16 < 16 ∧ c.toNat % 16 < 16 := by
  have := c.toNat_lt
  omega

theorem unesc_esc : ∀ u : Bytes, unescUser (escUser u) = some u := by
  intro u
  induction u with
  | nil => rfl
  | cons c t ih =>
    unfold escUser
    by_cases hp : userPlain c = true
    · obtain ⟨h37, _, hacc⟩ := userPlain_facts c hp
      simp only [hp, if_true]
      unfold unescUser
      simp [h37, hacc, ih]
    · have hp' : userPlain c = false := by simpa using hp
      rw [if_neg (by simp [hp'])]
      obtain ⟨h1, h2⟩ := nibble_lt c
      have e1 : unhex (hexUp (c.toNat / 16)) = some (c.toNat / 16) := unhex_hexUp ⟨c.toNat / 16, h1⟩
      have e2 : unhex (hexUp (c.toNat % 16)) = some (c.toNat % 16) := unhex_hexUp ⟨c.toNat % 16, h2⟩
      unfold unescUser
      rw [if_pos rfl]
      simp only [e1, e2, ih, byte_of_nibbles]

theorem esc_no_at : ∀ u : Bytes, ∀ b ∈ escUser u, b ≠ 64 := by
  intro u
  induction u with
  | nil => intro b hb; cases hb
  | cons c t ih =>
    intro b hb
    unfold escUser at hb
    by_cases hp : userPlain c = true
    · simp only [hp, if_true, List.mem_cons] at hb
      rcases hb with rfl | hb
      · exact (userPlain_facts _ hp).2.1
      · exact ih b hb
    · have hp' : userPlain c = false := by simpa using hp
      rw [if_neg (by simp [hp'])] at hb
      simp only [List.mem_cons] at hb
      obtain ⟨h1, h2⟩ := nibble_lt c
      rcases hb with hb | hb | hb | hb
      · rw [hb]; decide
      · rw [hb]; exact hexUp_ne_64 ⟨c.toNat / 16, h1⟩
      · rw [hb]; exact hexUp_ne_64 ⟨c.toNat % 16, h2⟩
      · exact ih b hb

/-! ### splitting and the host / port part -/

theorem stripPre_append (p x : Bytes) : stripPre p (p ++ x) = some x := by
  induction p with
  | nil => cases x <;> rfl
  | cons c t ih => simp [stripPre, ih]

theorem splitAt64_append (a b : Bytes) (h : ∀ c ∈ a, c ≠ 64) : splitAt64 (a ++ 64 :: b) = some (a, b) := by
  induction a with
  | nil => simp [splitAt64]
  | cons c t ih =>
    have hc : c ≠ 64 := h c (List.mem_cons_self ..)
    have := ih (fun x hx => h x (List.mem_cons_of_mem _ hx))
    simp [splitAt64, hc, this]

theorem splitAt64_none (a : Bytes) (h : ∀ c ∈ a, c ≠ 64) : splitAt64 a = none := by
  induction a with
  | nil => rfl
  | cons c t ih =>
    have hc : c ≠ 64 := h c (List.mem_cons_self ..)
    have := ih (fun x hx => h x (List.mem_cons_of_mem _ hx))
    simp [splitAt64, hc, this]

theorem takeWhile_stop {f : UInt8 → Bool} (h : Bytes) (x : UInt8) (r : Bytes) (hall : h.all f = true) (hx : f x = false) :
    (h ++ x :: r).takeWhile f = h ∧ (h ++ x :: r).dropWhile f = x :: r := by
  induction h with
  | nil => simp [List.takeWhile, List.dropWhile, hx]
  | cons c t ih =>
    simp only [List.all_cons, Bool.and_eq_true] at hall
    obtain ⟨i1, i2⟩ := ih hall.2
    simp [List.takeWhile, List.dropWhile, hall.1, i1, i2]

theorem takeWhile_all {f : UInt8 → Bool} (h : Bytes) (hall : h.all f = true) :
    h.takeWhile f = h ∧ h.dropWhile f = [] := by
  induction h with
  | nil => simp
  | cons c t ih =>
    simp only [List.all_cons, Bool.and_eq_true] at hall
    obtain ⟨i1, i2⟩ := ih hall.2
    simp [List.takeWhile, List.dropWhile, hall.1, i1, i2]

theorem all_takeWhile (f : UInt8 → Bool) (l : Bytes) : (l.takeWhile f).all f = true := by
  induction l with
  | nil => rfl
  | cons c t ih =>
    simp only [List.takeWhile]
    split
    · simp [*]
    · rfl

theorem hostChar_ne_64 (c : UInt8) (h : hostChar c = true) : c ≠ 64 := by
  intro e; subst e; revert h; decide

theorem isDigit_ne_64 (c : UInt8) (h : isDigit c = true) : c ≠ 64 := by
  intro e; subst e; revert h; decide

def portPart (t : TURL) : Bytes := if t.port = [] then [] else 58 :: t.port

theorem hostPort_ok (t : TURL) (h : TIFits t) : hostPort (t.host ++ portPart t) = some (t.host, t.port) := by
  obtain ⟨hne, hall, hdig, hlen⟩ := h
  unfold hostPort portPart
  by_cases hp : t.port = []
  · obtain ⟨e1, e2⟩ := takeWhile_all t.host hall
    simp [hp, e1, e2, hne]
  · obtain ⟨e1, e2⟩ := takeWhile_stop t.host 58 t.port hall (by decide)
    simp [hp, e1, e2, hne, hdig, hlen]

theorem hostPart_no_at (t : TURL) (h : TIFits t) : (t.host ++ portPart t).any (· == 64) = false := by
  obtain ⟨_, hall, hdig, _⟩ := h
  rw [List.any_eq_false]
  intro c hc
  have hne : c ≠ 64 := by
    rw [List.mem_append] at hc
    rcases hc with hc | hc
    · exact hostChar_ne_64 c (List.all_eq_true.mp hall c hc)
    · unfold portPart at hc
      split at hc
      · cases hc
      · rw [List.mem_cons] at hc
        rcases hc with rfl | hc
        · decide
        · exact isDigit_ne_64 c (List.all_eq_true.mp hdig c hc)
  simpa using hne

theorem parse_text (t : TURL) (h : TIFits t) : parseTI (tiText t) = some t := by
  have e : tiText t = hopPrefix ++ (escUser t.user ++ 64 :: (t.host ++ portPart t)) := rfl
  unfold parseTI
  rw [e, stripPre_append]
  simp only [splitAt64_append _ _ (esc_no_at t.user), hostPart_no_at t h, unesc_esc, hostPort_ok t h]
  rfl

theorem parse_fits (s : Bytes) (t : TURL) (h : parseTI s = some t) : TIFits t := by
  have hp : ∀ hp h p, hostPort hp = some (h, p) → h ≠ [] ∧ h.all hostChar = true ∧ p.all isDigit = true ∧ p.length ≤ 5 := by
    intro hp h p e
    unfold hostPort at e
    simp only at e
    split at e
    · cases e
    · rename_i hne
      split at e
      · cases e
        exact ⟨hne, all_takeWhile _ _, rfl, by simp⟩
      · split at e
        · rename_i hc
          cases e
          exact ⟨hne, all_takeWhile _ _, hc.2.2.2, hc.2.2.1⟩
        · cases e
  unfold parseTI at h
  split at h
  · cases h
  · split at h
    · split at h
      · cases h
      · split at h
        · rename_i u hh pp _ e2
          cases h
          exact hp _ _ _ e2
        · cases h
    · simp only [Option.map_eq_some_iff] at h
      obtain ⟨x, e, rfl⟩ := h
      exact hp _ _ _ e

/-! ### the reader -/

theorem reads_ti (t : TURL) (h : TIFits t) (hl : (tiText t).length ≤ 255) :
    Reads rdTI (UInt8.ofNat (tiText t).length :: tiText t) t := by
  unfold rdTI
  have := reads_bind (f := fun s => match parseTI s with | some t => (pure t : R TURL) | none => R.fail .invalid)
    (reads_str hl) (by rw [parse_text t h]; exact reads_pure t)
  exact this.congr (List.append_nil _)

theorem post_ti : Post rdTI TIFits := by
  unfold rdTI
  refine post_bind (post_true _) fun s _ => ?_
  intro bs v r h
  split at h
  · rename_i t e
    rw [dec_pure] at h
    cases h
    exact parse_fits s _ e
  · simp [R.dec, R.fail] at h

end Wire
