/-
Invariants of the small-step model of Deadline/DeadlineChan (`Model/DeadlineSteps.lean`).
-/
import HopModel.Model.DeadlineSteps
namespace DeadlineSteps

structure Inv (s : DS) : Prop where
  /-- every deadline channel ever handed out, except the current one, is closed -/
  old : ∀ c, c < s.cur → c ∈ s.closedSet
  /-- once Close's Cancel has run the deadline is final and the current channel is closed -/
  fin : s.cancelled = true → s.final = true ∧ s.cur ∈ s.closedSet
  /-- a thread only ever holds a channel that was current at some point -/
  held : ∀ t c, Holds (s.pc t) c → c ≤ s.cur
  /-- `finish` sets `final` before it cancels -/
  fin' : ∀ t, s.pc t = .closeFinal → s.final = true

theorem inv_init (cap : Nat) : Inv (init cap) := by
  refine ⟨?_, ?_, ?_, ?_⟩ <;> simp [init, Holds]

theorem holds_upd {f : Nat → PC} {t u : Nat} {p : PC} {c : Nat} (h : Holds (upd f t p u) c) :
    (u = t ∧ Holds p c) ∨ (u ≠ t ∧ Holds (f u) c) := by
  unfold upd at h
  by_cases hu : u = t
  · left; simp [hu] at h; exact ⟨hu, h⟩
  · right; simp [hu] at h; exact ⟨hu, h⟩

theorem upd_eq {f : Nat → PC} {t u : Nat} {p q : PC} (h : upd f t p u = q) :
    (u = t ∧ p = q) ∨ (u ≠ t ∧ f u = q) := by
  unfold upd at h
  by_cases hu : u = t
  · left; simp [hu] at h; exact ⟨hu, h⟩
  · right; simp [hu] at h; exact ⟨hu, h⟩

/-- steps that only move thread `t` to a program counter that holds no channel and is not
`closeFinal`, leaving everything else alone -/
theorem inv_pc_only {s : DS} (h : Inv s) (t : Nat) (p : PC) (hp : ∀ c, ¬ Holds p c) (hf : p ≠ .closeFinal)
    (bl : Nat) (lk : Option Nat) :
    Inv { s with bufLen := bl, lock := lk, pc := upd s.pc t p } := by
  refine ⟨h.old, h.fin, ?_, ?_⟩
  · intro u c hc
    rcases holds_upd hc with ⟨_, hc⟩ | ⟨_, hc⟩
    · exact absurd hc (hp c)
    · exact h.held u c hc
  · intro u hu
    rcases upd_eq hu with ⟨_, e⟩ | ⟨_, e⟩
    · exact absurd e hf
    · exact h.fin' u e

theorem inv_cancel {s : DS} (h : Inv s) : Inv s.cancel := by
  refine ⟨?_, ?_, h.held, h.fin'⟩
  · intro c hc; exact List.mem_cons_of_mem _ (h.old c hc)
  · intro hc; exact ⟨(h.fin hc).1, List.mem_cons_self⟩

theorem inv_step {s s' : DS} {t : Nat} (h : Inv s) (hs : Step s t s') : Inv s' := by
  cases hs with
  | recvTake _ _ => exact ⟨h.old, h.fin, h.held, h.fin'⟩
  | recvPoll _ _ => exact inv_pc_only h t _ (by simp [Holds]) (by simp) _ _
  | recvSeesClosed _ _ => exact inv_pc_only h t _ (by simp [Holds]) (by simp) _ _
  | recvSeesOpen _ _ => exact inv_pc_only h t _ (by simp [Holds]) (by simp) _ _
  | recvDone _ =>
    refine ⟨h.old, h.fin, ?_, ?_⟩
    · intro u c hc
      rcases holds_upd hc with ⟨_, hc⟩ | ⟨_, hc⟩
      · simp [Holds] at hc; show c ≤ s.cur; omega
      · exact h.held u c hc
    · intro u hu
      rcases upd_eq hu with ⟨_, e⟩ | ⟨_, e⟩
      · cases e
      · exact h.fin' u e
  | recvOuterExpired _ _ _ => exact inv_pc_only h t _ (by simp [Holds]) (by simp) _ _
  | recvOuterOpen c hp _ =>
    refine ⟨h.old, h.fin, ?_, ?_⟩
    · intro u c' hc
      rcases holds_upd hc with ⟨_, hc⟩ | ⟨_, hc⟩
      · simp [Holds] at hc; subst hc; exact h.held t c (by simp [Holds, hp])
      · exact h.held u c' hc
    · intro u hu
      rcases upd_eq hu with ⟨_, e⟩ | ⟨_, e⟩
      · cases e
      · exact h.fin' u e
  | recvWakeExpired _ _ _ => exact inv_pc_only h t _ (by simp [Holds]) (by simp) _ _
  | recvWakeData _ _ _ => exact inv_pc_only h t _ (by simp [Holds]) (by simp) _ _
  | recvFinish _ _ => exact inv_pc_only h t _ (by simp [Holds]) (by simp) _ _
  | sendStart _ => exact inv_pc_only h t _ (by simp [Holds]) (by simp) _ _
  | sendLock _ _ => exact inv_pc_only h t _ (by simp [Holds]) (by simp) _ _
  | sendSeesClosed _ _ => exact inv_pc_only h t _ (by simp [Holds]) (by simp) _ _
  | sendSeesOpen _ _ => exact inv_pc_only h t _ (by simp [Holds]) (by simp) _ _
  | sendDone _ =>
    refine ⟨h.old, h.fin, ?_, ?_⟩
    · intro u c hc
      rcases holds_upd hc with ⟨_, hc⟩ | ⟨_, hc⟩
      · simp [Holds] at hc; show c ≤ s.cur; omega
      · exact h.held u c hc
    · intro u hu
      rcases upd_eq hu with ⟨_, e⟩ | ⟨_, e⟩
      · cases e
      · exact h.fin' u e
  | sendOuterExpired _ _ _ => exact inv_pc_only h t _ (by simp [Holds]) (by simp) _ _
  | sendOuterOpen c hp _ =>
    refine ⟨h.old, h.fin, ?_, ?_⟩
    · intro u c' hc
      rcases holds_upd hc with ⟨_, hc⟩ | ⟨_, hc⟩
      · simp [Holds] at hc; subst hc; exact h.held t c (by simp [Holds, hp])
      · exact h.held u c' hc
    · intro u hu
      rcases upd_eq hu with ⟨_, e⟩ | ⟨_, e⟩
      · cases e
      · exact h.fin' u e
  | sendWakeExpired _ _ _ => exact inv_pc_only h t _ (by simp [Holds]) (by simp) _ _
  | sendWakeRoom _ _ _ => exact inv_pc_only h t _ (by simp [Holds]) (by simp) _ _
  | closeLoses _ _ => exact h
  | closeWins _ _ =>
    have := inv_pc_only h t .closeFlagged (by simp [Holds]) (by simp) s.bufLen s.lock
    exact ⟨this.old, this.fin, this.held, this.fin'⟩
  | closeSetFinal _ =>
    refine ⟨h.old, ?_, ?_, ?_⟩
    · intro hc; exact ⟨rfl, (h.fin hc).2⟩
    · intro u c hc
      rcases holds_upd hc with ⟨_, hc⟩ | ⟨_, hc⟩
      · simp [Holds] at hc
      · exact h.held u c hc
    · intro _ _; rfl
  | closeCancel hp =>
    have hc := inv_cancel h
    refine ⟨hc.old, ?_, ?_, ?_⟩
    · intro _; exact ⟨h.fin' t hp, List.mem_cons_self⟩
    · intro u c hh
      rcases holds_upd hh with ⟨_, hh⟩ | ⟨_, hh⟩
      · simp [Holds] at hh
      · exact h.held u c hh
    · intro u hu
      rcases upd_eq hu with ⟨_, e⟩ | ⟨_, e⟩
      · cases e
      · exact h.fin' u e
  | closeLock _ _ => exact inv_pc_only h t _ (by simp [Holds]) (by simp) _ _
  | closeUnlock _ => exact inv_pc_only h t _ (by simp [Holds]) (by simp) _ _
  | setSeesClosed _ _ => exact h
  | setSeesOpen d _ _ => exact inv_pc_only h t _ (by simp [Holds]) (by simp) _ _
  | setFinal d _ _ => exact inv_pc_only h t _ (by simp [Holds]) (by simp) _ _
  | setApply d _ hfin =>
    have hnc : s.cancelled = false := by
      cases hc : s.cancelled with
      | false => rfl
      | true => have := (h.fin hc).1; simp [hfin] at this
    have hcur : s.cur ≤ s.nextCur := by unfold DS.nextCur; split <;> omega
    refine ⟨?_, ?_, ?_, ?_⟩
    · intro c hc
      simp only at hc ⊢
      have hmem : c ∈ s.closedSet := by
        unfold DS.nextCur at hc
        by_cases hin : s.cur ∈ s.closedSet
        · simp only [hin, if_true] at hc
          by_cases hlt : c < s.cur
          · exact h.old c hlt
          · have : c = s.cur := by omega
            rw [this]; exact hin
        · simp only [hin, if_false] at hc
          exact h.old c hc
      split
      · exact List.mem_cons_of_mem _ hmem
      · exact hmem
    · intro hc; simp only at hc; simp [hnc] at hc
    · intro u c hc
      simp only at hc ⊢
      rcases holds_upd hc with ⟨_, hc⟩ | ⟨_, hc⟩
      · simp [Holds] at hc
      · have := h.held u c hc
        omega
    · intro u hu
      simp only at hu ⊢
      rcases upd_eq hu with ⟨_, e⟩ | ⟨_, e⟩
      · cases e
      · exact h.fin' u e
  | cancelSeesClosed _ _ => exact h
  | cancelSeesOpen _ _ => exact inv_pc_only h t _ (by simp [Holds]) (by simp) _ _
  | cancelApply _ =>
    have hc := inv_cancel h
    have := inv_pc_only hc t .idle (by simp [Holds]) (by simp) s.cancel.bufLen s.cancel.lock
    exact ⟨this.old, this.fin, this.held, this.fin'⟩
  | timerFire _ => exact inv_cancel h

theorem inv_reach {cap : Nat} {s : DS} (h : Reach cap s) : Inv s := by
  induction h with
  | init => exact inv_init cap
  | step t _ hs ih => exact inv_step ih hs

end DeadlineSteps
