/-
Helper lemmas for C13: xor cancellation on byte lists, one block of `crypt`, the `crypt` loop,
lengths of squeezed output.  Everything is for an arbitrary permutation `f`.
-/
import HopModel.Model.Cyclist
import HopModel.Proofs.XorBytes
namespace Cyclist
open Keccak

export XorBytes (zipXor_cancel)

theorem up_fst (f : State → State) (c : Cy) (n m : Nat) (cu : UInt8) :
    (up f c n cu).1 = (up f c m cu).1 := rfl

theorem up_snd_length (f : State → State) (c : Cy) (n : Nat) (cu : UInt8) :
    (up f c n cu).2.length = n := by
  simp [up, extract_length]

theorem cryptBlock_length (f : State → State) (d : Bool) (c : Cy) (cu : UInt8) (blk : List UInt8) :
    (cryptBlock f d c cu blk).2.length = blk.length := by
  simp [cryptBlock, List.length_zipWith, up_snd_length]

/-- one block: running the opposite direction on the output block, from the same state, gives
back the input block and the same new state -/
theorem cryptBlock_inv (f : State → State) (d : Bool) (c : Cy) (cu : UInt8) (blk : List UInt8) :
    cryptBlock f (!d) c cu (cryptBlock f d c cu blk).2 = ((cryptBlock f d c cu blk).1, blk) := by
  have hl : (cryptBlock f d c cu blk).2.length = blk.length := cryptBlock_length f d c cu blk
  have hks : (up f c blk.length cu).2.length = blk.length := up_snd_length f c _ cu
  have hc := zipXor_cancel (up f c blk.length cu).2 blk (by omega)
  unfold cryptBlock at hl ⊢
  simp only at hl ⊢
  rw [hl]
  cases d <;> simp [hc]

theorem crypt_nil (f : State → State) (d : Bool) (c : Cy) (cu : UInt8) :
    crypt f d c cu [] = cryptBlock f d c cu [] := by
  rw [crypt]; simp

/-- unfolding of `crypt` when the input fits one block -/
theorem crypt_short (f : State → State) (d : Bool) (c : Cy) (cu : UInt8) (inp : List UInt8)
    (h : inp.length ≤ rate) : crypt f d c cu inp = cryptBlock f d c cu inp := by
  rw [crypt]
  have h1 : inp.drop rate = [] := List.drop_of_length_le h
  have h2 : inp.take rate = inp := List.take_of_length_le h
  simp [h1, h2]

/-- unfolding of `crypt` when more than one block is left -/
theorem crypt_long (f : State → State) (d : Bool) (c : Cy) (cu : UInt8) (inp : List UInt8)
    (h : rate < inp.length) :
    crypt f d c cu inp =
      ((crypt f d (cryptBlock f d c cu (inp.take rate)).1 0x00 (inp.drop rate)).1,
       (cryptBlock f d c cu (inp.take rate)).2 ++
         (crypt f d (cryptBlock f d c cu (inp.take rate)).1 0x00 (inp.drop rate)).2) := by
  rw [crypt]
  have h1 : (inp.drop rate).isEmpty = false := by
    cases hd : inp.drop rate with
    | nil =>
      have := congrArg List.length hd
      simp only [List.length_drop, List.length_nil] at this
      omega
    | cons a t => rfl
  simp [h1]

theorem crypt_inv_aux (f : State → State) (d : Bool) (n : Nat) :
    ∀ (inp : List UInt8), inp.length = n → ∀ (c : Cy) (cu : UInt8),
      (crypt f d c cu inp).2.length = inp.length ∧
      crypt f (!d) c cu (crypt f d c cu inp).2 = ((crypt f d c cu inp).1, inp) := by
  induction n using Nat.strongRecOn with
  | _ n ih =>
    intro inp hn c cu
    by_cases hs : inp.length ≤ rate
    · rw [crypt_short f d c cu inp hs]
      have hl := cryptBlock_length f d c cu inp
      refine ⟨hl, ?_⟩
      rw [crypt_short f (!d) c cu _ (by omega)]
      exact cryptBlock_inv f d c cu inp
    · have hlong : rate < inp.length := by omega
      rw [crypt_long f d c cu inp hlong]
      have hb := cryptBlock_length f d c cu (inp.take rate)
      have hbi := cryptBlock_inv f d c cu (inp.take rate)
      have htl : (inp.take rate).length = rate := by
        simp only [List.length_take]; omega
      have hrec := ih (inp.drop rate).length (by simp only [List.length_drop, rate] at *; omega)
        (inp.drop rate) rfl (cryptBlock f d c cu (inp.take rate)).1 0x00
      obtain ⟨hl2, hinv2⟩ := hrec
      simp only
      constructor
      · simp only [List.length_append, hb, hl2, List.length_take, List.length_drop]; omega
      · have hlen1 : (cryptBlock f d c cu (inp.take rate)).2.length = rate := by rw [hb, htl]
        rw [crypt_long f (!d) c cu _ (by
          simp only [List.length_append, hlen1, hl2, List.length_drop]; omega)]
        rw [List.take_left' hlen1, List.drop_left' hlen1, hbi]
        simp only
        rw [hinv2]
        simp [List.take_append_drop]

/-- the `crypt` loop: the opposite direction on the output, from the same state, returns the
input and ends in the same state; the output is as long as the input -/
theorem crypt_inv (f : State → State) (d : Bool) (c : Cy) (cu : UInt8) (inp : List UInt8) :
    crypt f (!d) c cu (crypt f d c cu inp).2 = ((crypt f d c cu inp).1, inp) :=
  (crypt_inv_aux f d inp.length inp rfl c cu).2

theorem crypt_length (f : State → State) (d : Bool) (c : Cy) (cu : UInt8) (inp : List UInt8) :
    (crypt f d c cu inp).2.length = inp.length :=
  (crypt_inv_aux f d inp.length inp rfl c cu).1

theorem squeezeMore_length (f : State → State) (c : Cy) (n : Nat) (acc : List UInt8) :
    (squeezeMore f c n acc).2.length = acc.length + n := by
  induction n using Nat.strongRecOn generalizing c acc with
  | _ n ih =>
    rw [squeezeMore]
    by_cases h : n = 0
    · simp [h]
    · simp only [h, dite_false]
      rw [ih (n - min n rate) (by simp only [rate]; omega)]
      simp only [List.length_append, up_snd_length]
      omega

theorem squeezeAny_length (f : State → State) (c : Cy) (n : Nat) (cu : UInt8) :
    (squeezeAny f c n cu).2.length = n := by
  unfold squeezeAny
  simp only
  rw [squeezeMore_length, up_snd_length]
  omega

end Cyclist
