import HopModel.Spec.Stream
/-
Helper lemmas for the sender half of C08.
-/
namespace Tubes

theorem chunkFuel_flatten : ∀ (fuel : Nat) (b : Bytes), b.length ≤ fuel → (chunkFuel fuel b).flatten = b := by
  intro fuel
  induction fuel with
  | zero => intro b h; have : b = [] := List.eq_nil_of_length_eq_zero (by omega); simp [chunkFuel, this]
  | succ n ih =>
    intro b h
    unfold chunkFuel
    split
    · rename_i he; simp [List.isEmpty_iff.mp he]
    · rename_i hne
      have hpos : 0 < b.length := by
        cases b with
        | nil => simp at hne
        | cons _ _ => simp
      have : (b.drop maxFrameDataLength).length ≤ n := by
        rw [List.length_drop]; unfold maxFrameDataLength; omega
      rw [List.flatten_cons, ih _ this, List.take_append_drop]

theorem chunk_flatten (b : Bytes) : (chunk b).flatten = b := chunkFuel_flatten _ _ (Nat.le_refl _)

theorem chunkFuel_pieces : ∀ (fuel : Nat) (b : Bytes), ∀ c ∈ chunkFuel fuel b,
    c ≠ [] ∧ c.length ≤ maxFrameDataLength := by
  intro fuel
  induction fuel with
  | zero => intro b c hc; simp [chunkFuel] at hc
  | succ n ih =>
    intro b c hc
    unfold chunkFuel at hc
    split at hc
    · simp at hc
    · rename_i hne
      rcases List.mem_cons.mp hc with rfl | hc
      · constructor
        · cases b with
          | nil => simp at hne
          | cons x t => simp [maxFrameDataLength]
        · rw [List.length_take]; omega
      · exact ih _ c hc

theorem numberFrom_data : ∀ (cs : List Bytes) (no : Nat), (numberFrom no cs).map (·.data) = cs := by
  intro cs
  induction cs with
  | nil => intro _; rfl
  | cons c t ih => intro no; simp [numberFrom, ih]

theorem numberFrom_length : ∀ (cs : List Bytes) (no : Nat), (numberFrom no cs).length = cs.length := by
  intro cs
  induction cs with
  | nil => intro _; rfl
  | cons c t ih => intro no; simp [numberFrom, ih]

theorem numberFrom_getElem : ∀ (cs : List Bytes) (no i : Nat) (fr : SFrame),
    (numberFrom no cs)[i]? = some fr →
      fr.frameNo = (if i = 0 then no else (no + i) % two32) ∧ fr.fin = false ∧ fr.ack = false ∧ cs[i]? = some fr.data := by
  intro cs
  induction cs with
  | nil => intro no i fr h; simp [numberFrom] at h
  | cons c t ih =>
    intro no i fr h
    cases i with
    | zero =>
      simp only [numberFrom, List.getElem?_cons_zero, Option.some.injEq] at h
      subst h; simp
    | succ j =>
      simp only [numberFrom, List.getElem?_cons_succ] at h
      have := ih _ j fr h
      refine ⟨?_, this.2.1, this.2.2.1, by simpa using this.2.2.2⟩
      rw [this.1]
      simp only [Nat.add_eq_zero_iff, Nat.succ_ne_self, and_false, if_false]
      split
      · subst_vars; simp
      · unfold two32; omega

/-- wire numbers of consecutive frames are consecutive modulo 2^32 -/
theorem numberFrom_no (cs : List Bytes) (no i : Nat) (fr : SFrame) (hno : no < two32)
    (h : (numberFrom no cs)[i]? = some fr) : fr.frameNo = (no + i) % two32 := by
  have := (numberFrom_getElem cs no i fr h).1
  rw [this]
  split
  · subst_vars; simp [Nat.mod_eq_of_lt hno]
  · rfl

/-! ### invariant of sender runs -/

structure SInv (a0 f0 : Nat) (x : SRun) : Prop where
  ackLo : a0 ≤ x.s.ackNo
  ackHi : x.s.ackNo - a0 ≤ x.all.length
  retains : x.s.frames = x.all.drop (x.s.ackNo - a0)
  numbering : ∀ i fr, x.all[i]? = some fr → fr.frameNo = (f0 + i) % two32
  next : x.s.frameNo = (f0 + x.all.length) % two32
  data : (x.all.map (·.data)).flatten = x.written
  pieces : ∀ fr ∈ x.all, fr.fin = false → fr.data ≠ [] ∧ fr.data.length ≤ maxFrameDataLength
  finLast : ∀ i fr, x.all[i]? = some fr → fr.fin = true → i + 1 = x.all.length
  noFin : x.s.finSent = false → ∀ fr ∈ x.all, fr.fin = false

theorem sinv_init (a0 f0 : Nat) (h : f0 < two32) : SInv a0 f0 ⟨Sender.at a0 f0, [], []⟩ := by
  refine ⟨Nat.le_refl _, by simp [Sender.at], by simp [Sender.at], by simp, ?_, by simp, by simp, by simp, by simp⟩
  simp [Sender.at, Nat.mod_eq_of_lt h]

theorem drop_append_of_le {α} (l m : List α) (k : Nat) (h : k ≤ l.length) :
    (l ++ m).drop k = l.drop k ++ m := by
  rw [List.drop_append_of_le_length h]

theorem sinv_step {a0 f0 : Nat} {x : SRun} (inv : SInv a0 f0 x) (op : SOp) : SInv a0 f0 (sStep x op) := by
  cases op with
  | write b =>
    by_cases hns : (x.s.finSent || x.s.closed) = true
    · simp only [sStep, Sender.write, hns, if_true]; exact inv
    · have e : (x.s.finSent || x.s.closed) = false := by simpa using hns
      simp only [sStep, Sender.write, e, Bool.false_eq_true, ↓reduceIte]
      · have hfs : x.s.finSent = false := by
          cases h : x.s.finSent <;> simp [h] at hns ⊢
        refine ⟨inv.ackLo, ?_, ?_, ?_, ?_, ?_, ?_, ?_, ?_⟩
        · show x.s.ackNo - a0 ≤ (x.all ++ _).length
          have := inv.ackHi; rw [List.length_append]; omega
        · show x.s.frames ++ _ = (x.all ++ _).drop _
          rw [drop_append_of_le _ _ _ inv.ackHi, inv.retains]
        · intro i fr h
          rcases Nat.lt_or_ge i x.all.length with hi | hi
          · rw [List.getElem?_append_left hi] at h; exact inv.numbering i fr h
          · rw [List.getElem?_append_right hi] at h
            have hno : x.s.frameNo < two32 := by rw [inv.next]; exact Nat.mod_lt _ (by unfold two32; omega)
            have := numberFrom_no _ _ _ fr hno h
            rw [this, inv.next]
            unfold two32; omega
        · show (x.s.frameNo + (chunk b).length) % two32 = (f0 + (x.all ++ _).length) % two32
          rw [List.length_append, numberFrom_length, inv.next]
          unfold two32; omega
        · show ((x.all ++ _).map (·.data)).flatten = x.written ++ b
          rw [List.map_append, List.flatten_append, inv.data, numberFrom_data, chunk_flatten]
        · intro fr hfr hfin
          rcases List.mem_append.mp hfr with h | h
          · exact inv.pieces fr h hfin
          · have : fr.data ∈ chunk b := by
              have := List.mem_map_of_mem (f := (·.data)) h
              rwa [numberFrom_data] at this
            exact chunkFuel_pieces _ _ _ this
        · intro i fr h hfin
          rcases Nat.lt_or_ge i x.all.length with hi | hi
          · rw [List.getElem?_append_left hi] at h
            have := inv.noFin hfs fr (List.mem_of_getElem? h)
            rw [this] at hfin; cases hfin
          · rw [List.getElem?_append_right hi] at h
            have := (numberFrom_getElem _ _ _ fr h).2.1
            rw [this] at hfin; cases hfin
        · intro _ fr hfr
          rcases List.mem_append.mp hfr with h | h
          · exact inv.noFin hfs fr h
          · obtain ⟨i, hi⟩ := List.getElem?_of_mem h
            exact (numberFrom_getElem _ _ _ fr hi).2.1
  | ack a w =>
    simp only [sStep, Sender.recvAck]
    split
    · exact inv
    · have hret := inv.retains
      have hlen : x.s.frames.length = x.all.length - (x.s.ackNo - a0) := by rw [hret, List.length_drop]
      refine ⟨?_, ?_, ?_, inv.numbering, inv.next, inv.data, inv.pieces, inv.finLast, inv.noFin⟩
      · show a0 ≤ x.s.ackNo + _
        have := inv.ackLo; omega
      · show x.s.ackNo + min _ x.s.frames.length - a0 ≤ x.all.length
        have := inv.ackLo; have := inv.ackHi; omega
      · show x.s.frames.drop _ = x.all.drop (x.s.ackNo + min _ x.s.frames.length - a0)
        rw [hret, List.drop_drop]
        congr 1
        have := inv.ackLo; omega
  | fin =>
    by_cases hns : x.s.finSent = true
    · simp only [sStep, Sender.sendFin, hns, if_true]; exact inv
    · have e : x.s.finSent = false := by simpa using hns
      simp only [sStep, Sender.sendFin, e, Bool.false_eq_true, ↓reduceIte]
      · have hfs : x.s.finSent = false := by
          cases h : x.s.finSent <;> simp [h] at hns ⊢
        refine ⟨inv.ackLo, ?_, ?_, ?_, ?_, ?_, ?_, ?_, ?_⟩
        · show x.s.ackNo - a0 ≤ (x.all ++ _).length
          have := inv.ackHi; rw [List.length_append]; omega
        · show x.s.frames ++ _ = (x.all ++ _).drop _
          rw [drop_append_of_le _ _ _ inv.ackHi, inv.retains]
        · intro i fr h
          rcases Nat.lt_or_ge i x.all.length with hi | hi
          · rw [List.getElem?_append_left hi] at h; exact inv.numbering i fr h
          · rw [List.getElem?_append_right hi] at h
            have : i - x.all.length = 0 := by
              rcases Nat.eq_zero_or_pos (i - x.all.length) with h0 | h0
              · exact h0
              · rw [List.getElem?_eq_none (by simp; omega)] at h; cases h
            rw [this] at h
            simp only [List.getElem?_cons_zero, Option.some.injEq] at h
            subst h
            show x.s.frameNo = _
            rw [inv.next]
            have : i = x.all.length := by omega
            rw [this]
        · show (x.s.frameNo + 1) % two32 = (f0 + (x.all ++ _).length) % two32
          rw [List.length_append, inv.next]
          simp only [List.length_cons, List.length_nil]
          unfold two32; omega
        · show ((x.all ++ _).map (·.data)).flatten = x.written
          rw [List.map_append, List.flatten_append, inv.data]
          simp
        · intro fr hfr hfin
          rcases List.mem_append.mp hfr with h | h
          · exact inv.pieces fr h hfin
          · simp only [List.mem_singleton] at h
            subst h; cases hfin
        · intro i fr h hfin
          rw [List.length_append]
          simp only [List.length_cons, List.length_nil]
          rcases Nat.lt_or_ge i x.all.length with hi | hi
          · rw [List.getElem?_append_left hi] at h
            have := inv.noFin hfs fr (List.mem_of_getElem? h)
            rw [this] at hfin; cases hfin
          · rw [List.getElem?_append_right hi] at h
            rcases Nat.eq_zero_or_pos (i - x.all.length) with h0 | h0
            · omega
            · rw [List.getElem?_eq_none (by simp; omega)] at h; cases h
        · intro hc
          simp at hc

theorem sRun_inv {a0 f0 : Nat} : ∀ (ops : List SOp) (x : SRun), SInv a0 f0 x → SInv a0 f0 (sRun x ops) := by
  intro ops
  induction ops with
  | nil => intro x h; exact h
  | cons o t ih => intro x h; exact ih _ (sinv_step h o)

end Tubes
