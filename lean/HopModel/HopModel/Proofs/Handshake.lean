/-
The interpreter only depends on a program's state-changing actions.
-/
import HopModel.Model.Handshake
namespace Handshake

theorem stepAct_noncore (env : Env) (s : St) (a : Act) (h : isCore a = false) : stepAct env s a = s := by
  cases a <;> simp_all [isCore, stepAct]

theorem foldl_filter_core (env : Env) (acts : List Act) (s : St) :
    (acts.filter isCore).foldl (stepAct env) s = acts.foldl (stepAct env) s := by
  induction acts generalizing s with
  | nil => rfl
  | cons a rest ih =>
    by_cases h : isCore a = true
    · simp [List.filter, h, ih]
    · have h' : isCore a = false := by simpa using h
      simp [List.filter, h', ih, stepAct_noncore env s a h']

theorem finalSt_core (prog : List HOp) (env : Env) :
    finalSt (prog.map classify) env = finalSt (coreActs prog) env := by
  unfold finalSt coreActs
  rw [foldl_filter_core]

theorem run_core (prog : List HOp) (env : Env) : run prog env = runActs (coreActs prog) env := by
  unfold run runActs
  rw [finalSt_core]

end Handshake
