/-
Helper lemmas for C03 / C15 about `Session.recvV`.
-/
import HopModel.Model.Session
import HopModel.Proofs.ReplaySim
namespace Session
open Replay

/-- The only way `recvV` changes anything: every guard passed, the datagram is a genuine sealing
`p`, the counter was fresh; the result is then one of four shapes. -/
theorem recvV_cases (e : Ep) (a : Nat) (d : DG) :
    (recvV e a d).1 = e ∨
    ∃ p, d.sealed = some p ∧ genuine e d = true ∧ checkU e.win d.ctr = true ∧ e.closed = false ∧
      e.hasKey = true ∧ (d.mt = mtTransport ∨ d.mt = mtControl) ∧
      let e1 : Ep := { e with win := compact (markU e.win d.ctr), accepted := p :: e.accepted }
      ((d.mt = mtTransport ∧ e.queue.length < e.cap ∧
          (recvV e a d).1 = { e1 with queue := e.queue ++ [p.pay], remote := a }) ∨
       (d.mt = mtTransport ∧ ¬ e.queue.length < e.cap ∧ (recvV e a d).1 = { e1 with remote := a }) ∨
       (d.mt ≠ mtTransport ∧ p.pay = .ctl [1] ∧ (recvV e a d).1 = { e1 with closed := true, remote := a }) ∨
       (d.mt ≠ mtTransport ∧ p.pay ≠ .ctl [1] ∧ (recvV e a d).1 = { e1 with closed := true })) := by
  unfold recvV
  by_cases h1 : d.len < 8
  · simp [h1]
  by_cases h2 : d.sid ≠ some e.sess
  · simp [h1, h2]
  by_cases h3 : e.closed = true
  · simp [h1, h2, h3]
  by_cases h4 : d.len < overhead
  · simp [h1, h2, h3, h4]
  by_cases h5 : d.mt ≠ mtTransport ∧ d.mt ≠ mtControl
  · simp [h1, h2, h3, h4, h5]
  by_cases h6 : d.rsvOk = true
  case neg => simp [h1, h2, h3, h4, h5, h6]
  by_cases h7 : checkU e.win d.ctr = true
  case neg => simp [h1, h2, h3, h4, h5, h6, h7]
  by_cases h8 : e.hasKey = true
  case neg => simp [h1, h2, h3, h4, h5, h6, h7, h8]
  simp only [h1, h2, h3, h4, h5, h6, h7, h8, if_false, Bool.not_true, Bool.false_eq_true]
  cases hs : d.sealed with
  | none => simp
  | some p =>
    simp only
    by_cases h9 : genuine e d = true
    case neg => simp [h9]
    right
    have hmt : d.mt = mtTransport ∨ d.mt = mtControl := by
      by_cases hm : d.mt = mtTransport
      · exact Or.inl hm
      · by_cases hm' : d.mt = mtControl
        · exact Or.inr hm'
        · exact absurd ⟨hm, hm'⟩ h5
    refine ⟨p, rfl, h9, by first | trivial | exact h7, by first | trivial | simpa using h3,
      by first | trivial | exact h8, hmt, ?_⟩
    simp only [h9, Bool.not_true, Bool.false_eq_true, if_false]
    by_cases hm : d.mt = mtTransport
    · by_cases hq : e.queue.length < e.cap
      · left; simp [hm, hq]
      · right; left; simp [hm, hq]
    · by_cases hc : p.pay = .ctl [1]
      · right; right; left; simp [hm, hc]
      · right; right; right; simp [hm, hc]

theorem genuine_sealed {e : Ep} {d : DG} (h : genuine e d = true) :
    ∃ p, d.sealed = some p ∧ d.intact = true ∧ p.sess = e.sess ∧ p.dir = e.rdir ∧ d.mt = p.mt ∧
      d.rsvOk = true ∧ d.sid = some e.sess ∧ d.ctr = p.ctr ∧ d.len = overhead + p.pay.len := by
  unfold genuine at h
  cases hs : d.sealed with
  | none => simp [hs] at h
  | some p =>
    simp only [hs, Bool.and_eq_true, decide_eq_true_eq] at h
    obtain ⟨⟨⟨⟨⟨⟨⟨h1, h2⟩, h3⟩, h4⟩, h5⟩, h6⟩, h7⟩, h8⟩ := h
    exact ⟨p, rfl, h1, h2, h3, h4, h5, h6, h7, h8⟩

/-- running a schedule of (source address, datagram) pairs -/
def run (e : Ep) (sched : List (Nat × DG)) : Ep := sched.foldl (fun e ad => recv e ad.1 ad.2) e

/-- the window of an endpoint simulates the reference filter over the counters it accepted -/
def WinOK (e : Ep) : Prop := Sim e.win (e.accepted.map (·.ctr))

theorem winOK_fresh (s : Nat) (dir : Dir) (c r : Nat) : WinOK (freshEp s dir c r) := sim_init

end Session
