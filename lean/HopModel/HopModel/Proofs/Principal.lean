/-
Helper lemmas for C06: the possible shapes of one request's trace segment.
-/
import HopModel.Model.Principal
namespace Principal

/-- the shapes a segment can take -/
inductive Shape (r : Req) : List Ev → Prop
  /-- refused without asking (other target / set-up failed before verification) -/
  | refused : Shape r [.toDelegate false]
  /-- the callback refused -/
  | denied (c : Option Cert) : Shape r [.callback r.intent c false, .toDelegate false]
  /-- approved, but the set-up failed afterwards or the target connection is dead -/
  | approvedNotSent (c : Option Cert) : Shape r [.callback r.intent c true, .toDelegate false]
  /-- approved and forwarded; the answer is a confirmation iff the target confirmed -/
  | forwarded (c : Option Cert) :
      Shape r [.callback r.intent c true, .toTarget r.intent,
               .toDelegate (decide (r.answer = .confirm))]
  /-- forwarded without approval: only possible with a set-up function that skips verification -/
  | unverified : r.setup = .skipVerify →
      Shape r (forward r.intent r.answer)

theorem forward_shape (r : Req) (c : Option Cert) :
    Shape r (.callback r.intent c true :: forward r.intent r.answer) := by
  cases h : r.answer <;> simp only [forward]
  · have := Shape.forwarded (r := r) c; simpa [h] using this
  · have := Shape.forwarded (r := r) c; simpa [h] using this
  · have := Shape.forwarded (r := r) c; simpa [h] using this
  · exact .approvedNotSent c

theorem handle_shape (s : St) (r : Req) : Shape r (handle s r).2 := by
  rcases s with ⟨conn, cert⟩
  cases conn with
  | some t =>
    by_cases ht : t = r.intent.target <;> cases ha : r.approve <;> simp only [handle, ht, ha]
    · simpa using Shape.denied (r := r) cert
    · simpa using forward_shape r cert
    · simpa [ht] using Shape.refused (r := r)
    · simpa [ht] using Shape.refused (r := r)
  | none =>
    cases hs : r.setup with
    | failEarly => simp only [handle, hs]; exact .refused
    | verify c thenOk =>
      cases ha : r.approve <;> cases thenOk <;> simp only [handle, hs, ha]
      · simpa using Shape.denied (r := r) (some c)
      · simpa using Shape.denied (r := r) (some c)
      · simpa using Shape.approvedNotSent (r := r) (some c)
      · simpa using forward_shape r (some c)
    | skipVerify => simp only [handle, hs]; exact .unverified hs

theorem mem_run {s : St} {rs : List Req} {r : Req} {seg : List Ev} (h : (r, seg) ∈ run s rs) :
    r ∈ rs ∧ ∃ s', seg = (handle s' r).2 := by
  induction rs generalizing s with
  | nil => simp [run] at h
  | cons a as ih =>
    simp only [run, List.mem_cons, Prod.mk.injEq] at h
    rcases h with ⟨rfl, rfl⟩ | h
    · exact ⟨by simp, s, rfl⟩
    · obtain ⟨h1, h2⟩ := ih h
      exact ⟨by simp [h1], h2⟩

theorem run_length (s : St) (rs : List Req) : (run s rs).length = rs.length := by
  induction rs generalizing s with
  | nil => rfl
  | cons a as ih => simp [run, ih]

theorem run_map_fst (s : St) (rs : List Req) : (run s rs).map (·.1) = rs := by
  induction rs generalizing s with
  | nil => rfl
  | cons a as ih => simp [run, ih]

end Principal
