/-
Helper lemmas for C07: what `checkCmd`/`exec` do to a session, and the conservation invariant of
whole-server histories (every grant is in exactly one place: the server map, a session, or
consumed by a served action).
-/
import HopModel.Model.Grants
namespace Grants

theorem checkCmd_some {now : Nat} {cmd : List UInt8} {shell : Bool} :
    ∀ {l : List Grant} {m : Grant} {r : List Grant}, checkCmd now cmd shell l = some (m, r) →
      l.Perm (m :: r) ∧ admits now cmd shell m = true ∧ m ∈ l := by
  intro l
  induction l with
  | nil => intro m r h; simp [checkCmd] at h
  | cons g gs ih =>
    intro m r h
    unfold checkCmd at h
    by_cases ha : admits now cmd shell g = true
    · simp only [ha, if_true, Option.some.injEq, Prod.mk.injEq] at h
      obtain ⟨rfl, rfl⟩ := h
      exact ⟨List.Perm.refl _, ha, by simp⟩
    · simp only [ha, Bool.false_eq_true, if_false] at h
      cases hc : checkCmd now cmd shell gs with
      | none => simp [hc] at h
      | some p =>
        obtain ⟨m', r'⟩ := p
        simp only [hc, Option.some.injEq, Prod.mk.injEq] at h
        obtain ⟨rfl, rfl⟩ := h
        obtain ⟨hp, hadm, hmem⟩ := ih hc
        exact ⟨(List.Perm.cons g hp).trans (List.Perm.swap _ _ _), hadm, by simp [hmem]⟩

/-- `checkCmd` refuses only if no remaining grant admits the request -/
theorem checkCmd_none {now : Nat} {cmd : List UInt8} {shell : Bool} :
    ∀ {l : List Grant}, checkCmd now cmd shell l = none → ∀ g ∈ l, admits now cmd shell g = false := by
  intro l
  induction l with
  | nil => intro _ g hg; simp at hg
  | cons a as ih =>
    intro h g hg
    unfold checkCmd at h
    by_cases ha : admits now cmd shell a = true
    · simp [ha] at h
    · simp only [ha, Bool.false_eq_true, if_false] at h
      cases hc : checkCmd now cmd shell as with
      | some p => simp [hc] at h
      | none =>
        rcases List.mem_cons.mp hg with rfl | hg'
        · simpa using ha
        · exact ih hc g hg'

/-- the first admitting grant is the one taken -/
theorem checkCmd_first {now : Nat} {cmd : List UInt8} {shell : Bool} :
    ∀ {l : List Grant} {m : Grant} {r : List Grant}, checkCmd now cmd shell l = some (m, r) →
      ∃ pre post, l = pre ++ m :: post ∧ r = pre ++ post ∧ ∀ g ∈ pre, admits now cmd shell g = false := by
  intro l
  induction l with
  | nil => intro m r h; simp [checkCmd] at h
  | cons g gs ih =>
    intro m r h
    unfold checkCmd at h
    by_cases ha : admits now cmd shell g = true
    · simp only [ha, if_true, Option.some.injEq, Prod.mk.injEq] at h
      obtain ⟨rfl, rfl⟩ := h
      exact ⟨[], gs, rfl, rfl, by simp⟩
    · simp only [ha, Bool.false_eq_true, if_false] at h
      cases hc : checkCmd now cmd shell gs with
      | none => simp [hc] at h
      | some p =>
        obtain ⟨m', r'⟩ := p
        simp only [hc, Option.some.injEq, Prod.mk.injEq] at h
        obtain ⟨rfl, rfl⟩ := h
        obtain ⟨pre, post, h1, h2, h3⟩ := ih hc
        refine ⟨g :: pre, post, by simp [h1], by simp [h2], ?_⟩
        intro x hx
        rcases List.mem_cons.mp hx with rfl | hx'
        · simpa using ha
        · exact h3 x hx'

/-! ### one session -/

theorem exec_started_some {s s' : Session} {now : Nat} {cmd : List UInt8} {shell : Bool} {g : Grant}
    (h : exec s now cmd shell = (s', .started (some g))) :
    s.usingGrant = true ∧ s.actions.Perm (g :: s'.actions) ∧ admits now cmd shell g = true ∧
      s'.user = s.user ∧ s'.key = s.key ∧ s'.usingGrant = s.usingGrant := by
  unfold exec at h
  cases hu : s.usingGrant
  · simp [hu] at h
  · simp only [hu, if_true] at h
    cases hc : checkCmd now cmd shell s.actions with
    | none => simp [hc] at h
    | some p =>
      obtain ⟨m, r⟩ := p
      simp only [hc, Prod.mk.injEq, Outcome.started.injEq, Option.some.injEq] at h
      obtain ⟨rfl, rfl⟩ := h
      obtain ⟨hp, hadm, _⟩ := checkCmd_some hc
      exact ⟨rfl, hp, hadm, rfl, rfl, hu.symm ▸ rfl⟩

theorem exec_other {s s' : Session} {now : Nat} {cmd : List UInt8} {shell : Bool} {o : Outcome}
    (h : exec s now cmd shell = (s', o)) (ho : ∀ g, o ≠ .started (some g)) :
    s' = s ∧ (o = .started none → s.usingGrant = false) := by
  unfold exec at h
  cases hu : s.usingGrant
  · simp only [hu, Bool.false_eq_true, if_false, Prod.mk.injEq] at h
    exact ⟨h.1.symm, fun _ => rfl⟩
  · simp only [hu, if_true] at h
    cases hc : checkCmd now cmd shell s.actions with
    | none =>
      simp only [hc, Prod.mk.injEq] at h
      exact ⟨h.1.symm, fun ho' => by rw [← h.2] at ho'; cases ho'⟩
    | some p =>
      obtain ⟨m, r⟩ := p
      simp only [hc, Prod.mk.injEq] at h
      exact absurd h.2.symm (ho m)

/-! ### the list of sessions -/

def allActions (ss : List Session) : List Grant := ss.flatMap (·.actions)

/-- sessions only keep their identity and may lose grants -/
def Shrinks (ss' ss : List Session) : Prop :=
  ∀ s' ∈ ss', ∃ s ∈ ss, s'.user = s.user ∧ s'.key = s.key ∧ s'.usingGrant = s.usingGrant ∧
    ∀ g ∈ s'.actions, g ∈ s.actions

theorem shrinks_refl (ss : List Session) : Shrinks ss ss :=
  fun s hs => ⟨s, hs, rfl, rfl, rfl, fun _ h => h⟩

theorem execAt_started_some {now : Nat} {cmd : List UInt8} {shell : Bool} :
    ∀ {ss ss' : List Session} {i : Nat} {s : Session} {g : Grant},
      execAt now cmd shell ss i = (ss', some (s, .started (some g))) →
      s ∈ ss ∧ s.usingGrant = true ∧ g ∈ s.actions ∧ admits now cmd shell g = true ∧
        (allActions ss).Perm (g :: allActions ss') ∧ Shrinks ss' ss := by
  intro ss
  induction ss with
  | nil => intro ss' i s g h; simp [execAt] at h
  | cons a as ih =>
    intro ss' i s g h
    cases i with
    | zero =>
      simp only [execAt, Prod.mk.injEq, Option.some.injEq] at h
      obtain ⟨rfl, rfl, ho⟩ := h
      have he : exec a now cmd shell = ((exec a now cmd shell).1, .started (some g)) := by
        rw [← ho]
      obtain ⟨hu, hp, hadm, h1, h2, h3⟩ := exec_started_some he
      refine ⟨by simp, hu, (hp.mem_iff.mpr (by simp)), hadm, ?_, ?_⟩
      · simp only [allActions, List.flatMap_cons]
        exact (List.Perm.append_right _ hp)
      · intro s' hs'
        rcases List.mem_cons.mp hs' with rfl | hs'
        · exact ⟨a, by simp, h1, h2, h3, fun x hx => hp.mem_iff.mpr (by simp [hx])⟩
        · exact ⟨s', by simp [hs'], rfl, rfl, rfl, fun _ h => h⟩
    | succ j =>
      simp only [execAt, Prod.mk.injEq] at h
      obtain ⟨rfl, h2⟩ := h
      have he : execAt now cmd shell as j = ((execAt now cmd shell as j).1, some (s, .started (some g))) := by
        rw [← h2]
      obtain ⟨hm, hu, hg, hadm, hp, hs⟩ := ih he
      refine ⟨by simp [hm], hu, hg, hadm, ?_, ?_⟩
      · simp only [allActions, List.flatMap_cons] at hp ⊢
        exact (List.Perm.append_left _ hp).trans List.perm_middle
      · intro s' hs'
        rcases List.mem_cons.mp hs' with rfl | hs'
        · exact ⟨s', by simp, rfl, rfl, rfl, fun _ h => h⟩
        · obtain ⟨s0, h0, rest⟩ := hs s' hs'
          exact ⟨s0, by simp [h0], rest⟩

theorem execAt_started_none {now : Nat} {cmd : List UInt8} {shell : Bool} :
    ∀ {ss ss' : List Session} {i : Nat} {s : Session},
      execAt now cmd shell ss i = (ss', some (s, .started none)) →
      ss' = ss ∧ s ∈ ss ∧ s.usingGrant = false := by
  intro ss
  induction ss with
  | nil => intro ss' i s h; simp [execAt] at h
  | cons a as ih =>
    intro ss' i s h
    cases i with
    | zero =>
      simp only [execAt, Prod.mk.injEq, Option.some.injEq] at h
      obtain ⟨rfl, rfl, ho⟩ := h
      have he : exec a now cmd shell = ((exec a now cmd shell).1, .started none) := by rw [← ho]
      obtain ⟨h1, h2⟩ := exec_other he (by intro g; simp)
      exact ⟨by rw [h1], by simp, h2 rfl⟩
    | succ j =>
      simp only [execAt, Prod.mk.injEq] at h
      obtain ⟨rfl, h2⟩ := h
      have he : execAt now cmd shell as j = ((execAt now cmd shell as j).1, some (s, .started none)) := by
        rw [← h2]
      obtain ⟨h1, hm, hu⟩ := ih he
      exact ⟨by rw [h1], by simp [hm], hu⟩

/-! ### whole-server invariant -/

def consumed (w : World) : List Grant := w.served.filterMap (·.grant)

/-- every place a grant can be -/
def held (w : World) : List Grant := w.server.grants ++ allActions w.sessions ++ consumed w

structure Inv (w : World) : Prop where
  /-- conservation: every issued grant is in exactly one place -/
  perm : (held w).Perm w.issued
  keyBound : ∀ s ∈ w.sessions, ∀ g ∈ s.actions, g.user = s.user ∧ g.key = s.key
  servedOk : ∀ x ∈ w.served, ∀ g, x.grant = some g →
    x.handler = .codex ∧ x.usingGrant = true ∧ g.user = x.user ∧ g.key = x.key ∧
      admits x.now x.cmd x.shell g = true
  codexGranted : ∀ x ∈ w.served, x.usingGrant = true → x.handler = .codex → ∃ g, x.grant = some g

theorem inv_empty : Inv World.empty :=
  ⟨by simp [held, World.empty, Server.empty, allActions, consumed],
   by intro s hs; simp [World.empty] at hs, by intro x hx; simp [World.empty] at hx,
   by intro x hx; simp [World.empty] at hx⟩

theorem count_filter_split (p : Grant → Bool) (l : List Grant) (a : Grant) :
    (l.filter p).count a + (l.filter fun g => !p g).count a = l.count a := by
  have := (List.filter_append_perm p l).count_eq a
  simpa [List.count_append] using this

theorem keyBound_of_shrinks {ss' ss : List Session} (hs : Shrinks ss' ss)
    (h : ∀ s ∈ ss, ∀ g ∈ s.actions, g.user = s.user ∧ g.key = s.key) :
    ∀ s ∈ ss', ∀ g ∈ s.actions, g.user = s.user ∧ g.key = s.key := by
  intro s' hs' g hg
  obtain ⟨s, hm, hu, hk, _, hsub⟩ := hs s' hs'
  have := h s hm g (hsub g hg)
  rw [hu, hk]; exact this

/-- appending a served entry that consumed no grant, other than through `startCodex` -/
theorem served_append_none {w : World} (h : Inv w) (x : Served) (hg : x.grant = none)
    (hh : x.handler ≠ .codex ∨ x.usingGrant = false) :
    (∀ y ∈ w.served ++ [x], ∀ g, y.grant = some g →
        y.handler = .codex ∧ y.usingGrant = true ∧ g.user = y.user ∧ g.key = y.key ∧
          admits y.now y.cmd y.shell g = true) ∧
      (∀ y ∈ w.served ++ [x], y.usingGrant = true → y.handler = .codex → ∃ g, y.grant = some g) := by
  constructor
  · intro y hy g hyg
    rcases List.mem_append.mp hy with hy | hy
    · exact h.servedOk y hy g hyg
    · simp only [List.mem_singleton] at hy
      subst hy
      simp [hg] at hyg
  · intro y hy hu hc
    rcases List.mem_append.mp hy with hy | hy
    · exact h.codexGranted y hy hu hc
    · simp only [List.mem_singleton] at hy
      subst hy
      rcases hh with hh | hh
      · exact absurd hc hh
      · simp [hh] at hu

theorem step_inv (w : World) (op : Op) (h : Inv w) : Inv (stepW w op) := by
  have hperm := h.perm
  rw [List.perm_iff_count] at hperm
  cases op with
  | grant g =>
    refine ⟨?_, h.keyBound, h.servedOk, h.codexGranted⟩
    rw [List.perm_iff_count]
    intro a
    have := hperm a
    simp only [stepW, held, addGrant, consumed, List.count_append] at this ⊢
    omega
  | login u k =>
    simp only [stepW]
    cases hl : (login w.server u k).2 with
    | none => exact h
    | some s =>
      simp only
      unfold login at hl ⊢
      by_cases he : (w.server.grants.filter (mine u k)).isEmpty = true
      · simp [he] at hl
      · simp only [he, Bool.false_eq_true, if_false, Option.some.injEq] at hl ⊢
        subst hl
        refine ⟨?_, ?_, h.servedOk, h.codexGranted⟩
        · rw [List.perm_iff_count]
          intro a
          have h1 := count_filter_split (mine u k) w.server.grants a
          have h2 := hperm a
          simp only [held, allActions, consumed, List.count_append, List.flatMap_append,
            List.flatMap_cons, List.flatMap_nil, List.append_nil] at h2 ⊢
          omega
        · intro s hs g hg
          rcases List.mem_append.mp hs with hs | hs
          · exact h.keyBound s hs g hg
          · simp only [List.mem_singleton] at hs
            subst hs
            simp only [List.mem_filter, mine, Bool.and_eq_true, beq_iff_eq] at hg
            exact hg.2
  | loginKey u k =>
    refine ⟨?_, ?_, h.servedOk, h.codexGranted⟩
    · have := h.perm
      simpa [stepW, held, allActions, consumed] using this
    · intro s hs g hg
      simp only [stepW] at hs
      rcases List.mem_append.mp hs with hs | hs
      · exact h.keyBound s hs g hg
      · simp only [List.mem_singleton] at hs
        subst hs
        simp at hg
  | exec i now cmd shell =>
    simp only [stepW]
    rcases hx : execAt now cmd shell w.sessions i with ⟨ss', r⟩
    rcases r with _ | ⟨s, o⟩
    · exact h
    · cases o with
      | refused => exact h
      | started og =>
        cases og with
        | none =>
          obtain ⟨h1, hm, hu⟩ := execAt_started_none hx
          subst h1
          obtain ⟨a1, a2⟩ := served_append_none h
            ⟨s.user, s.key, s.usingGrant, .codex, now, cmd, shell, none⟩ rfl (.inr hu)
          refine ⟨?_, h.keyBound, a1, a2⟩
          have := h.perm
          simpa [held, consumed, List.filterMap_append] using this
        | some g =>
          obtain ⟨hm, hu, hg, hadm, hp, hs⟩ := execAt_started_some hx
          have hkb := h.keyBound s hm g hg
          refine ⟨?_, keyBound_of_shrinks hs h.keyBound, ?_, ?_⟩
          · rw [List.perm_iff_count]
            intro a
            have h1 := hp.count_eq a
            have h2 := hperm a
            simp only [held, consumed, List.count_append, List.filterMap_append,
              List.filterMap_cons, List.filterMap_nil, List.count_cons, List.count_nil] at h1 h2 ⊢
            omega
          · intro x hxm g' hg'
            rcases List.mem_append.mp hxm with hxm | hxm
            · exact h.servedOk x hxm g' hg'
            · simp only [List.mem_singleton] at hxm
              subst hxm
              simp only [Option.some.injEq] at hg'
              subst hg'
              exact ⟨rfl, hu, hkb.1, hkb.2, hadm⟩
          · intro x hxm hug hh
            rcases List.mem_append.mp hxm with hxm | hxm
            · exact h.codexGranted x hxm hug hh
            · simp only [List.mem_singleton] at hxm
              subst hxm
              exact ⟨g, rfl⟩
  | tube i ttype reliable =>
    simp only [stepW]
    cases hs : w.sessions[i]? with
    | none => exact h
    | some s =>
      simp only
      split
      · exact h
      · next hne =>
        obtain ⟨a1, a2⟩ := served_append_none h
          ⟨s.user, s.key, s.usingGrant, dispatch s ttype reliable, 0, [], false, none⟩ rfl
          (.inl (fun hc => hne (Or.inr (Or.inr hc))))
        refine ⟨?_, h.keyBound, a1, a2⟩
        have := h.perm
        simpa [held, consumed, List.filterMap_append] using this
  | issue i now g leafOk =>
    simp only [stepW]
    cases hs : w.sessions[i]? with
    | none => exact h
    | some s =>
      simp only
      split
      · obtain ⟨a1, a2⟩ := served_append_none h
          ⟨s.user, s.key, s.usingGrant, .agc, now, [], false, none⟩ rfl (.inl (by simp))
        refine ⟨?_, h.keyBound, a1, a2⟩
        rw [List.perm_iff_count]
        intro a
        have := hperm a
        simp only [held, addGrant, consumed, List.count_append, List.filterMap_append,
          List.filterMap_cons, List.filterMap_nil, List.count_nil] at this ⊢
        omega
      · exact h

theorem run_inv (w : World) (ops : List Op) (h : Inv w) : Inv (runW w ops) := by
  induction ops generalizing w with
  | nil => exact h
  | cons op ops ih => exact ih (stepW w op) (step_inv w op h)

/-- where issued grants come from -/
theorem issued_sources (w : World) (ops : List Op) (g : Grant) (h : g ∈ (runW w ops).issued) :
    g ∈ w.issued ∨ Op.grant g ∈ ops ∨ ∃ i now ok, Op.issue i now g ok ∈ ops := by
  induction ops generalizing w with
  | nil => exact .inl h
  | cons op ops ih =>
    rcases ih (stepW w op) h with h1 | h1 | ⟨i, now, ok, h1⟩
    · cases op with
      | grant g' =>
        simp only [stepW, List.mem_append, List.mem_singleton] at h1
        rcases h1 with h1 | rfl
        · exact .inl h1
        · exact .inr (.inl (by simp))
      | login u k =>
        simp only [stepW] at h1
        split at h1 <;> exact .inl h1
      | loginKey u k => exact .inl h1
      | exec i now cmd shell =>
        simp only [stepW] at h1
        split at h1 <;> exact .inl h1
      | tube i t r =>
        simp only [stepW] at h1
        split at h1
        · split at h1 <;> exact .inl h1
        · exact .inl h1
      | issue i now g' ok =>
        simp only [stepW] at h1
        split at h1
        · split at h1
          · simp only [List.mem_append, List.mem_singleton] at h1
            rcases h1 with h1 | rfl
            · exact .inl h1
            · exact .inr (.inr ⟨i, now, ok, by simp⟩)
          · exact .inl h1
        · exact .inl h1
    · exact .inr (.inl (by simp [h1]))
    · exact .inr (.inr ⟨i, now, ok, by simp [h1]⟩)

end Grants
