/-
Helper lemmas for C12 about the Kravatte model: the key block, and output lengths of `vatte`.
-/
import HopModel.Model.Sanse
import HopModel.Proofs.Sanse
namespace Kravatte
open Keccak

theorem pad_length (k : List UInt8) (h : k.length < 200) : (pad k).length = 200 := by
  simp only [pad, widthBytes, List.length_append, List.length_cons, List.length_replicate]
  omega

theorem pad_at_len (k : List UInt8) : (pad k)[k.length]? = some 1 := by
  simp [pad]

theorem pad_after (k : List UInt8) (i : Nat) (h1 : k.length < i) (h2 : i < 200) : (pad k)[i]? = some 0 := by
  unfold pad
  rw [List.getElem?_append_right (by omega)]
  obtain ⟨j, hj⟩ : ∃ j, i - k.length = j + 1 := ⟨i - k.length - 1, by omega⟩
  rw [hj, List.getElem?_cons_succ, List.getElem?_replicate]
  have : j < widthBytes - 1 - k.length := by simp only [widthBytes]; omega
  simp [this]

theorem pad_injective (k₁ k₂ : List UInt8) (h₁ : k₁.length < 200) (h₂ : k₂.length < 200)
    (h : pad k₁ = pad k₂) : k₁ = k₂ := by
  have hlen : k₁.length = k₂.length := by
    rcases Nat.lt_trichotomy k₁.length k₂.length with hlt | heq | hgt
    · have a := pad_at_len k₂
      have b := pad_after k₁ k₂.length hlt h₂
      rw [h] at b; rw [a] at b; simp at b
    · exact heq
    · have a := pad_at_len k₁
      have b := pad_after k₂ k₁.length hgt h₁
      rw [← h] at b; rw [a] at b; simp at b
  unfold pad at h
  exact List.append_inj_left h hlen

/-! ### after a final `Kra` the object is compressing with an empty queue -/

theorem compress_fields (f : State → State) (kv : Kv) (msg : List UInt8) (bits : Nat) (last : Bool) :
    (compress f kv msg bits last).1.phase = kv.phase ∧ (compress f kv msg bits last).1.qbits = kv.qbits ∧
    (compress f kv msg bits last).1.q = kv.q ∧
    (last = true → (compress f kv msg bits last).2.1 = 0) := by
  unfold compress
  simp only
  split <;> simp_all

theorem kraQueue_final (f : State → State) (kv : Kv) (inp : List UInt8) (bits : Nat) :
    (kraQueue f kv inp bits true).1.phase = .compressing ∧ (kraQueue f kv inp bits true).1.qbits = 0 := by
  unfold kraQueue
  by_cases hp : kv.phase = .compressing
  · by_cases hq : kv.qbits = 0
    · simp [hp, hq]
    · simp only [hp, hq, ne_eq, not_true_eq_false, not_false_eq_true, if_true, if_false]
      split
      · simp [(compress_fields f _ _ _ false).1, hp]
      · simp [(compress_fields f _ _ _ true).1, (compress_fields f _ _ _ true).2.2.2 rfl, hp]
  · simp [hp]

theorem kraRest_final (f : State → State) (kv : Kv) (inp : List UInt8) (bits : Nat)
    (hp : kv.phase = .compressing) (hq : kv.qbits = 0) :
    (kraRest f kv inp bits true).phase = .compressing ∧ (kraRest f kv inp bits true).qbits = 0 := by
  unfold kraRest
  have h := compress_fields f kv inp bits true
  simp [h.1, h.2.1, h.2.2.2 rfl, hp, hq]

theorem kra_final (f : State → State) (kv : Kv) (inp : List UInt8) (bits : Nat) :
    (kra f kv inp bits flagLastPart).1.phase = .compressing ∧ (kra f kv inp bits flagLastPart).1.qbits = 0 := by
  unfold kra
  have hfin : ((flagLastPart &&& flagLastPart) != 0) = true := by decide
  simp only [hfin, Bool.not_true, Bool.false_and, Bool.false_eq_true, if_false]
  have hq := kraQueue_final f (kraInit kv flagLastPart) inp bits
  split
  · exact hq
  · exact kraRest_final f _ _ _ hq.1 hq.2

/-! ### `Vatte` from such a state writes exactly the requested bytes -/

theorem maskLast_length (out : List UInt8) (bits : Nat) : (maskLast out bits).length = out.length := by
  unfold maskLast
  split
  · split
    · rename_i h; have := congrArg List.length h; simp at this; simp [this]
    · rename_i l r h; have := congrArg List.length h; simp at this; simp [this]
  · rfl

theorem expand_length (f : State → State) (y kr : State) (rem : Nat) (acc : List UInt8) :
    (expand f y kr rem acc).2.2.2.length = acc.length + rem := by
  induction rem using Nat.strongRecOn generalizing y acc with
  | _ rem ih =>
    rw [expand]
    split
    · rename_i h
      simp only [List.length_append, extract_length]
      omega
    · rename_i h
      rw [ih _ (by simp only [widthBytes] at *; omega)]
      simp only [List.length_append, extract_length]
      omega

theorem vatteBlocks_length (f : State → State) (kv : Kv) (out : List UInt8) (outBits : Nat) (final : Bool) :
    (vatteBlocks f kv out outBits final).2.length = out.length + (outBits + 7) / 8 := by
  unfold vatteBlocks
  by_cases hr : (outBits + 7) / 8 = 0
  · cases final <;> simp [hr, maskLast_length]
  · simp only [hr, ne_eq, not_false_eq_true, if_true]
    have he := expand_length f kv.y kv.kr ((outBits + 7) / 8) out
    cases final
    · simp only [Bool.not_false, Bool.true_and, Bool.false_eq_true, if_false]
      split <;> exact he
    · simp [maskLast_length, he]

/-- `Vatte` on a compressing object with an empty queue: no error, `n` bytes for `8·n` bits
(flags `FlagNone` or `FlagLastPart`, as used by SANSE) -/
theorem vatte_length (f : State → State) (kv : Kv) (n : Nat) (lp : Bool)
    (hp : kv.phase = .compressing) (hq : kv.qbits = 0) :
    (vatte f kv (8 * n) (if lp then flagLastPart else 0)).2.1.length = n ∧
    (vatte f kv (8 * n) (if lp then flagLastPart else 0)).2.2 = 0 := by
  unfold vatte
  have h8 : ((8 * n) % 8 != 0) = false := by simp
  have hs : vatteStart f kv (if lp then flagLastPart else 0) =
      ({ kv with y := f kv.x, phase := .expanding }, true) := by
    unfold vatteStart
    have : ¬ ((if lp then flagLastPart else 0) &&& flagShort) ≠ 0 := by cases lp <;> decide
    simp [hp, hq, this]
  have hqu : ∀ fin, vatteQueue { kv with y := f kv.x, phase := .expanding } (8 * n) fin =
      ({ kv with y := f kv.x, phase := .expanding }, [], 8 * n, false) := by
    intro fin; unfold vatteQueue; simp [hq]
  simp only [h8, Bool.and_false, Bool.false_eq_true, if_false, hs, Bool.not_true, hqu]
  refine ⟨?_, trivial⟩
  rw [vatteBlocks_length]
  simp only [List.length_nil]
  omega

theorem kravatteDeck_squeezeLen (f : State → State) : Sanse.SqueezeLen (Sanse.kravatteDeck f) := by
  intro d x l k n lp
  simp only [Sanse.kravatteDeck]
  have hk := kra_final f (kra f d x (8 * x.length) 0).1 [l] k
  exact (vatte_length f _ n lp hk.1 hk.2).1

end Kravatte
