/-
Helper lemmas for C14: the ring invariant `Inv` and its preservation by `mark`.
-/
import HopModel.Model.Replay
namespace Replay

theorem clearLoop_spec (b : Nat → Nat) (cur d j : Nat) :
    clearLoop b cur d j = if ∃ k, k < d ∧ (k + cur + 1) % 8 = j then 0 else b j := by
  induction d with
  | zero => simp [clearLoop]
  | succ d ih =>
    simp only [clearLoop, setSlot]
    by_cases hj : j = (d + cur + 1) % 8
    · have h' : ∃ k, k < d + 1 ∧ (k + cur + 1) % 8 = j := ⟨d, by omega, hj.symm⟩
      rw [if_pos hj, if_pos h']
    · rw [if_neg hj, ih]
      by_cases h : ∃ k, k < d ∧ (k + cur + 1) % 8 = j
      · obtain ⟨k, hk, hkj⟩ := h
        have h' : ∃ k, k < d + 1 ∧ (k + cur + 1) % 8 = j := ⟨k, by omega, hkj⟩
        rw [if_pos ⟨k, hk, hkj⟩, if_pos h']
      · have h' : ¬ ∃ k, k < d + 1 ∧ (k + cur + 1) % 8 = j := by
          rintro ⟨k, hk, hkj⟩
          by_cases hkd : k = d
          · subst hkd; exact hj hkj.symm
          · exact h ⟨k, by omega, hkj⟩
        rw [if_neg h, if_neg h']

/-- the invariant relating the ring to the set `S` of accepted counters -/
structure Inv (w : Win) (S : Nat → Prop) : Prop where
  inWin : ∀ q, q ≤ w.wt → w.wt ≤ q + 448 → (bit w q = true ↔ S q)
  above : ∀ q, w.wt < q → q / 64 = w.wt / 64 → bit w q = false
  le_top : ∀ q, S q → q ≤ w.wt

theorem inv_init : Inv init (fun _ => False) := by
  constructor <;> intros <;> simp_all [init, bit]

theorem check_iff {w : Win} {S : Nat → Prop} (h : Inv w S) (q : Nat) :
    check w q = true ↔ (¬ S q ∧ w.wt ≤ q + 448) := by
  unfold check
  split
  · rename_i hq
    simp
    exact ⟨fun hs => by have := h.le_top q hs; omega, by omega⟩
  · split
    · rename_i _ hq; simp; intro _; omega
    · rename_i h1 h2
      have := h.inWin q (by omega) (by omega)
      simp only [Bool.not_eq_true', ← this]
      constructor
      · intro hb; exact ⟨by simp [hb], by omega⟩
      · intro ⟨hb, _⟩; simpa using hb

theorem bit_set_same (b : Nat → Nat) (q : Nat) (wt : Nat) :
    bit { blocks := setSlot b (slot q) (b (slot q) ||| (1 <<< loc q)), wt := wt } q = true := by
  simp [bit, setSlot, Nat.testBit_or, Nat.one_shiftLeft, Nat.testBit_two_pow_self]

theorem bit_set_other (b : Nat → Nat) (q q' : Nat) (wt wt' : Nat)
    (hne : ¬ (slot q' = slot q ∧ loc q' = loc q)) :
    bit { blocks := setSlot b (slot q) (b (slot q) ||| (1 <<< loc q)), wt := wt } q' =
    bit { blocks := b, wt := wt' } q' := by
  simp only [bit, setSlot]
  by_cases hs : slot q' = slot q
  · have hl : loc q' ≠ loc q := fun hl => hne ⟨hs, hl⟩
    simp [hs, Nat.testBit_or, Nat.one_shiftLeft, Nat.testBit_two_pow]
    intro h; exact absurd h.symm hl
  · simp [hs]

theorem same_cell_eq {q q' : Nat} (h : slot q' = slot q ∧ loc q' = loc q)
    (hd : q' < q + 512) (hd' : q < q' + 512) : q' = q := by
  unfold slot loc at h; omega

theorem bit_clear (b : Nat → Nat) (cur d q' wt wt' : Nat) :
    bit { blocks := clearLoop b cur d, wt := wt } q' =
      if ∃ k, k < d ∧ (k + cur + 1) % 8 = slot q' then false else bit { blocks := b, wt := wt' } q' := by
  simp only [bit, clearLoop_spec]
  split <;> simp

/-- `mark` of any counter that is not below the window (fresh or not) keeps the invariant. -/
theorem mark_inv_win {w : Win} {S : Nat → Prop} (h : Inv w S) {q : Nat} (hwin : w.wt ≤ q + 448) :
    Inv (mark w q) (fun x => S x ∨ x = q) := by
  unfold mark
  rw [if_neg (by omega)]
  by_cases hq : q > w.wt
  · -- the top advances
    simp only [if_pos hq]
    constructor
    · intro q' h1 h2
      simp only at h1 h2
      by_cases hqq : q' = q
      · subst hqq; simp [bit_set_same]
      · have hne : ¬ (slot q' = slot q ∧ loc q' = loc q) :=
          fun hcell => hqq (same_cell_eq hcell (by omega) (by omega))
        rw [bit_set_other _ _ _ _ q hne, bit_clear _ _ _ _ _ w.wt]
        by_cases hblk : q' / 64 > w.wt / 64
        · -- block entered the window: it was cleared
          have hex : ∃ k, k < min (q / 64 - w.wt / 64) 8 ∧ (k + w.wt / 64 + 1) % 8 = slot q' := by
            unfold slot
            by_cases hd : q / 64 - w.wt / 64 < 8
            · exact ⟨q' / 64 - w.wt / 64 - 1, by omega, by omega⟩
            · exact ⟨(q' / 64 + 8 - (w.wt / 64 + 1) % 8) % 8, by omega, by omega⟩
          rw [if_pos hex]
          simp only [Bool.false_eq_true, false_iff]
          rintro (hs | hs)
          · have := h.le_top q' hs; omega
          · exact hqq hs
        · have hnex : ¬ ∃ k, k < min (q / 64 - w.wt / 64) 8 ∧ (k + w.wt / 64 + 1) % 8 = slot q' := by
            unfold slot
            rintro ⟨k, hk, hk'⟩
            omega
          rw [if_neg hnex]
          by_cases hle : q' ≤ w.wt
          · rw [h.inWin q' hle (by omega)]
            constructor
            · intro hs; exact Or.inl hs
            · rintro (hs | hs)
              · exact hs
              · exact absurd hs hqq
          · rw [h.above q' (by omega) (by omega)]
            simp only [Bool.false_eq_true, false_iff]
            rintro (hs | hs)
            · have := h.le_top q' hs; omega
            · exact hqq hs
    · intro q' h1 h2
      simp only at h1 h2
      have hne : ¬ (slot q' = slot q ∧ loc q' = loc q) := by
        unfold slot loc; omega
      rw [bit_set_other _ _ _ _ q hne, bit_clear _ _ _ _ _ w.wt]
      by_cases hblk : q / 64 > w.wt / 64
      · have hex : ∃ k, k < min (q / 64 - w.wt / 64) 8 ∧ (k + w.wt / 64 + 1) % 8 = slot q' := by
          unfold slot
          by_cases hd : q / 64 - w.wt / 64 < 8
          · exact ⟨q' / 64 - w.wt / 64 - 1, by omega, by omega⟩
          · exact ⟨(q' / 64 + 8 - (w.wt / 64 + 1) % 8) % 8, by omega, by omega⟩
        rw [if_pos hex]
      · have hnex : ¬ ∃ k, k < min (q / 64 - w.wt / 64) 8 ∧ (k + w.wt / 64 + 1) % 8 = slot q' := by
          rintro ⟨k, hk, _⟩
          omega
        rw [if_neg hnex]
        exact h.above q' (by omega) (by omega)
    · intro x hx
      simp only
      rcases hx with hs | hs
      · have := h.le_top x hs; omega
      · omega
  · -- inside the window: only one bit changes
    simp only [if_neg hq]
    constructor
    · intro q' h1 h2
      simp only at h1 h2
      by_cases hqq : q' = q
      · subst hqq; simp [bit_set_same]
      · have hne : ¬ (slot q' = slot q ∧ loc q' = loc q) :=
          fun hcell => hqq (same_cell_eq hcell (by omega) (by omega))
        rw [bit_set_other _ _ _ _ w.wt hne]
        have : bit { blocks := w.blocks, wt := w.wt } q' = bit w q' := rfl
        rw [this, h.inWin q' h1 h2]
        constructor
        · intro hs; exact Or.inl hs
        · rintro (hs | hs)
          · exact hs
          · exact absurd hs hqq
    · intro q' h1 h2
      simp only at h1 h2
      have hne : ¬ (slot q' = slot q ∧ loc q' = loc q) := by
        unfold slot loc; omega
      rw [bit_set_other _ _ _ _ w.wt hne]
      exact h.above q' h1 h2
    · intro x hx
      simp only
      rcases hx with hs | hs
      · exact h.le_top x hs
      · omega

theorem mark_inv {w : Win} {S : Nat → Prop} (h : Inv w S) {q : Nat} (hc : check w q = true) :
    Inv (mark w q) (fun x => S x ∨ x = q) :=
  mark_inv_win h ((check_iff h q).mp hc).2

/-- `mark` of a counter below the window is a no-op. -/
theorem mark_stale {w : Win} {q : Nat} (hq : q + 448 < w.wt) : mark w q = w := by
  unfold mark; rw [if_pos hq]

theorem Inv.congr {w : Win} {S S' : Nat → Prop} (h : Inv w S) (hS : ∀ x, S x ↔ S' x) : Inv w S' :=
  ⟨fun q h1 h2 => (h.inWin q h1 h2).trans (hS q), h.above, fun q hq => h.le_top q ((hS q).mpr hq)⟩

theorem accept_inv {w : Win} {S : Nat → Prop} (h : Inv w S) (q : Nat) :
    Inv (accept w q) (fun x => S x ∨ (check w q = true ∧ x = q)) := by
  unfold accept
  by_cases hc : check w q = true
  · rw [if_pos hc]
    exact (mark_inv h hc).congr (fun x => by simp [hc])
  · rw [if_neg hc]
    exact h.congr (fun x => by simp [hc])

/-- the set of counters accepted along a history -/
def acceptedSet : Win → List Nat → (Nat → Prop)
  | _, [] => fun _ => False
  | w, q :: qs => fun x => (check w q = true ∧ x = q) ∨ acceptedSet (accept w q) qs x

def run (w : Win) (hist : List Nat) : Win := hist.foldl accept w

theorem run_inv {w : Win} {S : Nat → Prop} (h : Inv w S) (hist : List Nat) :
    Inv (run w hist) (fun x => S x ∨ acceptedSet w hist x) := by
  induction hist generalizing w S with
  | nil => simpa [run, acceptedSet] using h
  | cons q qs ih =>
    have := ih (accept_inv h q)
    simp only [run, List.foldl_cons] at this ⊢
    refine ⟨?_, ?_, ?_⟩
    · intro q' h1 h2; rw [this.inWin q' h1 h2]; simp [acceptedSet, or_assoc]
    · exact this.above
    · intro x hx; apply this.le_top; simpa [acceptedSet, or_assoc] using hx

/-! ### the top of the window -/

theorem mark_wt {w : Win} {q : Nat} (hwin : w.wt ≤ q + 448) : (mark w q).wt = max q w.wt := by
  unfold mark
  rw [if_neg (by omega)]
  by_cases hq : q > w.wt
  · simp only [if_pos hq]; omega
  · simp only [if_neg hq]; omega

/-! ### `compact` is invisible -/

theorem slot_lt (q : Nat) : slot q < 8 := by unfold slot; omega

theorem compact_blocks (w : Win) {j : Nat} (hj : j < 8) : (compact w).blocks j = w.blocks j := by
  simp [compact, List.getD, hj]

theorem compact_wt (w : Win) : (compact w).wt = w.wt := rfl

theorem compact_bit (w : Win) (q : Nat) : bit (compact w) q = bit w q := by
  unfold bit; rw [compact_blocks w (slot_lt q)]

theorem compact_check (w : Win) (q : Nat) : check (compact w) q = check w q := by
  unfold check; rw [compact_bit, compact_wt]

theorem Inv.compact {w : Win} {S : Nat → Prop} (h : Inv w S) : Inv (compact w) S :=
  ⟨fun q h1 h2 => by rw [compact_bit]; exact h.inWin q h1 h2,
   fun q h1 h2 => by rw [compact_bit]; exact h.above q h1 h2,
   h.le_top⟩

/-! ### the `uint64` layer coincides with the `Nat` layer below `2^64 - 448` -/

theorem addWrap_eq {q : Nat} (h : q + 448 < u64) : addWrap q 448 = q + 448 := by
  unfold addWrap; exact Nat.mod_eq_of_lt h

theorem checkU_eq (w : Win) {q : Nat} (h : q + 448 < u64) : checkU w q = check w q := by
  unfold checkU check; rw [addWrap_eq h]

theorem markU_eq (w : Win) {q : Nat} (h : q + 448 < u64) : markU w q = mark w q := by
  unfold markU mark; rw [addWrap_eq h]

end Replay
