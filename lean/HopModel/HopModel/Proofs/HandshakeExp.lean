/-
Facts about the *expected* reader actions (`Spec/Handshake.lean`) that do not depend on the
generated programs: decided once by the kernel over the complete table of environments and cached.
-/
import HopModel.Spec.Handshake
namespace Handshake

theorem any_alteration_rejected_exp :
    ∀ e ∈ expected, ∀ mask, mask < 2 ^ e.2.2 → mask ≠ allHonest e.2.2 →
      ∀ poss cert cook time vs,
        runActs e.2.1 { honest := mask, possession := poss, certOK := cert, cookieOK := cook, timeOK := time,
                        verifySet := vs } = false := by decide +kernel

theorem success_means_synchronised_exp :
    ∀ e ∈ expected, ∀ mask, mask < 2 ^ e.2.2 → ∀ poss cert cook time vs,
      runActs e.2.1 { honest := mask, possession := poss, certOK := cert, cookieOK := cook, timeOK := time,
                      verifySet := vs } = true →
      (finalSt e.2.1 { honest := mask, possession := poss, certOK := cert, cookieOK := cook, timeOK := time,
                       verifySet := vs }).sync = true := by decide +kernel


theorem expected_names_unique :
    ∀ e1 ∈ expected, ∀ e2 ∈ expected, e1.1 = e2.1 → e1.2.1 = e2.2.1 := by decide +kernel

end Handshake
