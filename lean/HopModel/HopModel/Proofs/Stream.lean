import HopModel.Spec.Stream
/-
Helper lemmas for C08: the receiver invariant and its preservation.
-/
namespace Tubes

theorem unwrap_near (ack n : Nat) (ha : ack < 2 ^ 63) (h1 : ack < n + two31) (h2 : n < ack + two31) :
    unwrapFrameNo ack (n % two32) = n := by
  unfold unwrapFrameNo two31 two32 two64 at *
  simp only []
  repeat' split
  all_goals omega

/-! ### sorted fragment list -/

theorem mem_insertFrag {f g : Frag} {l : List Frag} : g ∈ insertFrag f l ↔ g = f ∨ g ∈ l := by
  induction l with
  | nil => simp [insertFrag]
  | cons h t ih =>
    unfold insertFrag
    split
    · simp
    · simp only [List.mem_cons, ih]
      constructor
      · rintro (h | h | h) <;> simp [h]
      · rintro (h | h | h) <;> simp [h]

theorem insertFrag_sorted {f : Frag} {l : List Frag} (h : l.Pairwise (·.prio ≤ ·.prio)) :
    (insertFrag f l).Pairwise (·.prio ≤ ·.prio) := by
  induction l with
  | nil => simp [insertFrag]
  | cons g t ih =>
    unfold insertFrag
    rw [List.pairwise_cons] at h
    split
    · rename_i hlt
      refine List.pairwise_cons.mpr ⟨?_, List.pairwise_cons.mpr h⟩
      intro x hx
      rcases List.mem_cons.mp hx with rfl | hx
      · omega
      · have := h.1 x hx; omega
    · rename_i hge
      refine List.pairwise_cons.mpr ⟨?_, ih h.2⟩
      intro x hx
      rcases mem_insertFrag.mp hx with rfl | hx
      · omega
      · exact h.1 x hx

theorem insertFrag_head {f : Frag} {l : List Frag} (h : ∀ g ∈ l, f.prio < g.prio) :
    insertFrag f l = f :: l := by
  cases l with
  | nil => rfl
  | cons g t => simp [insertFrag, h g (by simp)]

/-! ### the invariant -/

def FragOk (st : Stream) (g : Frag) : Prop :=
  (g.fin = false ∧ st.start ≤ g.prio ∧ st.chunks[g.prio - st.start]? = some g.data) ∨
  (g.fin = true ∧ g.prio = st.finNo ∧ g.data = [])

/-- the part of the invariant that does not mention the fragment list -/
structure Core (st : Stream) (d : Nat) (del : Bytes) (r : Receiver) : Prop where
  ack : r.ackNo + d = r.windowStart
  lo : st.start ≤ r.windowStart
  hi : r.windowStart ≤ st.finNo + 1
  data : del ++ r.buffer = (st.chunks.take (r.windowStart - st.start)).flatten
  closed : r.closed = true → r.windowStart = st.finNo + 1
  finClosed : r.windowStart = st.finNo + 1 → r.closed = true

theorem take_succ_flatten {l : List Bytes} {k : Nat} {c : Bytes} (h : l[k]? = some c) :
    (l.take (k + 1)).flatten = (l.take k).flatten ++ c := by
  rw [List.take_add_one, h]
  simp

theorem processFrags_core {st : Stream} {d : Nat} {del : Bytes} (hb : st.finNo + 2 < 2 ^ 62) :
    ∀ (l : List Frag) (r : Receiver) (fin : Bool), Core st d del r → (∀ g ∈ l, FragOk st g) →
      Core st d del (processFrags r fin l).1 ∧
      (∀ g ∈ (processFrags r fin l).1.frags, g ∈ l) ∧
      r.windowStart ≤ (processFrags r fin l).1.windowStart ∧
      (∀ f rest, l = f :: rest → f.prio = r.windowStart →
        r.windowStart + 1 ≤ (processFrags r fin l).1.windowStart) := by
  intro l
  induction l with
  | nil =>
    intro r fin hc _
    simp only [processFrags]
    exact ⟨⟨hc.ack, hc.lo, hc.hi, hc.data, hc.closed, hc.finClosed⟩, by simp, Nat.le_refl _, by simp⟩
  | cons f rest ih =>
    intro r fin hc hl
    have hf := hl f (by simp)
    have hrest : ∀ g ∈ rest, FragOk st g := fun g hg => hl g (by simp [hg])
    unfold processFrags
    split
    · rename_i heq
      have hws : r.windowStart + 1 < two64 := by
        have := hc.hi; unfold two64; omega
      have hak : r.ackNo + 1 < two64 := by
        have := hc.hi; have := hc.ack; unfold two64; omega
      have core' : Core st d del
          { r with buffer := r.buffer ++ f.data, windowStart := (r.windowStart + 1) % two64,
                   ackNo := (r.ackNo + 1) % two64, closed := r.closed || f.fin } := by
        rw [Nat.mod_eq_of_lt hws, Nat.mod_eq_of_lt hak]
        rcases hf with ⟨hfin, hlo, hch⟩ | ⟨hfin, hp, hd⟩
        · have hlt : f.prio - st.start < st.chunks.length := by
            rcases Nat.lt_or_ge (f.prio - st.start) st.chunks.length with h | h
            · exact h
            · rw [List.getElem?_eq_none h] at hch; cases hch
          refine ⟨?_, ?_, ?_, ?_, ?_, ?_⟩
          rotate_left 5
          · show r.windowStart + 1 = st.finNo + 1 → _
            intro h; unfold Stream.finNo at h; omega
          · show r.ackNo + 1 + d = r.windowStart + 1
            have := hc.ack; omega
          · show st.start ≤ r.windowStart + 1
            have := hc.lo; omega
          · show r.windowStart + 1 ≤ st.finNo + 1
            unfold Stream.finNo; omega
          · show del ++ (r.buffer ++ f.data) = _
            have e : r.windowStart + 1 - st.start = (r.windowStart - st.start) + 1 := by
              have := hc.lo; omega
            rw [e, take_succ_flatten (c := f.data) (by rw [heq]; exact hch), ← hc.data]
            simp
          · show (r.closed || f.fin) = true → r.windowStart + 1 = st.finNo + 1
            intro h
            rw [hfin, Bool.or_false] at h
            have := hc.closed h
            unfold Stream.finNo at *; omega
        · refine ⟨?_, ?_, ?_, ?_, ?_, ?_⟩
          rotate_left 5
          · show _ → (r.closed || f.fin) = true
            intro _; rw [hfin]; simp
          · show r.ackNo + 1 + d = r.windowStart + 1
            have := hc.ack; omega
          · show st.start ≤ r.windowStart + 1
            have := hc.lo; omega
          · show r.windowStart + 1 ≤ st.finNo + 1
            omega
          · show del ++ (r.buffer ++ f.data) = _
            rw [hd, List.append_nil, hc.data]
            have e1 : r.windowStart - st.start = st.chunks.length := by
              unfold Stream.finNo at hp; omega
            have e2 : r.windowStart + 1 - st.start = st.chunks.length + 1 := by
              unfold Stream.finNo at hp; omega
            rw [e1, e2, List.take_length, List.take_of_length_le (by omega)]
          · show (r.closed || f.fin) = true → r.windowStart + 1 = st.finNo + 1
            intro _; omega
      obtain ⟨h1, h2, h3, _⟩ := ih _ (fin || f.fin) core' hrest
      have e : (r.windowStart + 1) % two64 = r.windowStart + 1 := Nat.mod_eq_of_lt hws
      have h3' := Nat.le_trans (Nat.le_of_eq e.symm) h3
      refine ⟨h1, fun g hg => by simp [h2 g hg], Nat.le_trans (Nat.le_succ _) h3', fun _ _ _ _ => h3'⟩
    · rename_i hne
      split
      · refine ⟨⟨hc.ack, hc.lo, hc.hi, hc.data, hc.closed, hc.finClosed⟩, fun g hg => hg, Nat.le_refl _, ?_⟩
        intro f' rest' he hp
        simp only [List.cons.injEq] at he
        rw [← he.1] at hp; exact absurd hp.symm hne
      · obtain ⟨h1, h2, h3, _⟩ := ih r fin hc hrest
        refine ⟨h1, fun g hg => by simp [h2 g hg], h3, ?_⟩
        intro f' rest' he hp
        simp only [List.cons.injEq] at he
        rw [← he.1] at hp; exact absurd hp.symm hne

/-- after the loop the remaining fragments are a sorted list strictly above the window start -/
theorem processFrags_above :
    ∀ (l : List Frag) (r : Receiver) (fin : Bool), l.Pairwise (·.prio ≤ ·.prio) →
      (processFrags r fin l).1.frags.Pairwise (·.prio ≤ ·.prio) ∧
      ∀ g ∈ (processFrags r fin l).1.frags, (processFrags r fin l).1.windowStart < g.prio := by
  intro l
  induction l with
  | nil => intro r fin _; simp [processFrags]
  | cons f rest ih =>
    intro r fin hs
    rw [List.pairwise_cons] at hs
    unfold processFrags
    split
    · exact ih _ _ hs.2
    · split
      · rename_i hgt
        refine ⟨List.pairwise_cons.mpr hs, ?_⟩
        intro g hg
        rcases List.mem_cons.mp hg with rfl | hg
        · exact hgt
        · have := hs.1 g hg
          show r.windowStart < g.prio
          omega
      · exact ih _ _ hs.2

/-! ### the full invariant over a run -/

structure RxInv (st : Stream) (d : Nat) (s : RxRun) : Prop where
  core : Core st d s.delivered s.r
  frags : ∀ g ∈ s.r.frags, FragOk st g
  sorted : s.r.frags.Pairwise (·.prio ≤ ·.prio)
  above : ∀ g ∈ s.r.frags, s.r.windowStart < g.prio
  eof : s.eof = true → s.r.closed = true ∧ s.r.buffer = []

theorem core_mono_frags {st : Stream} {d : Nat} {del : Bytes} {r : Receiver} (l : List Frag)
    (h : Core st d del r) : Core st d del { r with frags := l } :=
  ⟨h.ack, h.lo, h.hi, h.data, h.closed, h.finClosed⟩

/-- one arrival preserves the invariant and never moves the window backwards -/
theorem receive_inv {st : Stream} {d : Nat} {s : RxRun} (hb : st.finNo + 2 < 2 ^ 62) (hd : d ≤ 1)
    (inv : RxInv st d s) {n : Nat} {f : Frame} (hh : Honest st n f) (hn : Near s.r.ackNo n) :
    RxInv st d (rxStep s (.arrive n f)) ∧
    s.r.windowStart ≤ (rxStep s (.arrive n f)).r.windowStart := by
  have hack : s.r.ackNo < 2 ^ 63 := by
    have := inv.core.ack; have := inv.core.hi; omega
  have hun : unwrapFrameNo s.r.ackNo f.frameNo = n := by
    rw [hh.1]; exact unwrap_near _ _ hack hn.1 hn.2
  simp only [rxStep, receive]
  split
  · exact ⟨⟨inv.core, inv.frags, inv.sorted, inv.above, inv.eof⟩, Nat.le_refl _⟩
  · rename_i hcl
    have hcl' : s.r.closed = false := by simpa using hcl
    have heof : s.eof = true → False := fun h => by have := (inv.eof h).1; simp [hcl'] at this
    split
    · rename_i hadm
      rw [Bool.and_eq_true] at hadm
      -- the inserted fragment is honest
      have hnew : FragOk st ⟨n, f.data, f.fin⟩ := by
        cases hfin : f.fin
        · have hadm1 := hadm.1
          simp only [admits, hfin, Bool.or_false, Bool.and_eq_true, decide_eq_true_eq,
            Bool.not_eq_true'] at hadm1
          have hne : f.data ≠ [] := by
            intro h; rw [h] at hadm1; simp at hadm1
          have := hh.2.2 hfin hne hadm1.2
          exact Or.inl ⟨rfl, this.1, this.2⟩
        · have := hh.2.1 hfin
          exact Or.inr ⟨rfl, this.1, this.2⟩
      rw [hun]
      have hfr : ∀ g ∈ insertFrag ⟨n, f.data, f.fin⟩ s.r.frags, FragOk st g := by
        intro g hg
        rcases mem_insertFrag.mp hg with rfl | hg
        · exact hnew
        · exact inv.frags g hg
      have hso := insertFrag_sorted (f := ⟨n, f.data, f.fin⟩) inv.sorted
      unfold processIntoBuffer
      obtain ⟨c1, c2, c3⟩ := processFrags_core (d := d) (del := s.delivered) hb
        (insertFrag ⟨n, f.data, f.fin⟩ s.r.frags)
        { s.r with frags := insertFrag ⟨n, f.data, f.fin⟩ s.r.frags } false
        (core_mono_frags _ inv.core) hfr
      obtain ⟨a1, a2⟩ := processFrags_above (insertFrag ⟨n, f.data, f.fin⟩ s.r.frags)
        { s.r with frags := insertFrag ⟨n, f.data, f.fin⟩ s.r.frags } false hso
      refine ⟨⟨c1, fun g hg => hfr g (c2 g hg), a1, a2, fun h => (heof h).elim⟩, c3.1⟩
    · split
      · exact ⟨⟨inv.core, inv.frags, inv.sorted, inv.above, inv.eof⟩, Nat.le_refl _⟩
      · unfold processIntoBuffer
        obtain ⟨c1, c2, c3⟩ := processFrags_core (d := d) (del := s.delivered) hb s.r.frags s.r false
          inv.core inv.frags
        obtain ⟨a1, a2⟩ := processFrags_above s.r.frags s.r false inv.sorted
        exact ⟨⟨c1, fun g hg => inv.frags g (c2 g hg), a1, a2, fun h => (heof h).elim⟩, c3.1⟩

/-- a read preserves the invariant -/
theorem read_inv {st : Stream} {d : Nat} {s : RxRun} (inv : RxInv st d s) (k : Nat) :
    RxInv st d (rxStep s (.read k)) ∧ (rxStep s (.read k)).r.windowStart = s.r.windowStart := by
  simp only [rxStep, read]
  split
  · exact ⟨inv, rfl⟩
  · rename_i r' out e heq
    split at heq
    · cases heq
    · simp only [Option.some.injEq, Prod.mk.injEq] at heq
      obtain ⟨rfl, rfl, rfl⟩ := heq
      refine ⟨⟨⟨inv.core.ack, inv.core.lo, inv.core.hi, ?_, inv.core.closed, inv.core.finClosed⟩, inv.frags, inv.sorted,
        inv.above, ?_⟩, rfl⟩
      · show s.delivered ++ List.take k s.r.buffer ++ List.drop k s.r.buffer = _
        rw [List.append_assoc, List.take_append_drop]; exact inv.core.data
      · intro h
        show s.r.closed = true ∧ List.drop k s.r.buffer = []
        simp only [Bool.or_eq_true, Bool.and_eq_true, List.isEmpty_iff] at h
        rcases h with h | h
        · have := inv.eof h; simp [this]
        · exact h

theorem rxRun_inv {st : Stream} {d : Nat} (hb : st.finNo + 2 < 2 ^ 62) (hd : d ≤ 1) :
    ∀ (evs : List RxEv) (s : RxRun), RxInv st d s → Admissible st s evs →
      RxInv st d (rxRun s evs) ∧ s.r.windowStart + hits s evs ≤ (rxRun s evs).r.windowStart := by
  intro evs
  induction evs with
  | nil => intro s inv _; exact ⟨inv, by simp [rxRun, hits]⟩
  | cons e t ih =>
    intro s inv adm
    cases e with
    | arrive n f =>
      obtain ⟨hh, hn, ht⟩ := adm
      obtain ⟨inv', mono⟩ := receive_inv hb hd inv hh hn
      obtain ⟨i2, m2⟩ := ih _ inv' ht
      refine ⟨i2, ?_⟩
      show s.r.windowStart + ((if _ then 1 else 0) + hits _ t) ≤ (rxRun (rxStep s (.arrive n f)) t).r.windowStart
      split
      · -- the awaited frame arrived: the window advances
        rename_i hhit
        obtain ⟨hnw, hcl, hadm⟩ := hhit
        have step : s.r.windowStart + 1 ≤ (rxStep s (.arrive n f)).r.windowStart := by
          have hack : s.r.ackNo < 2 ^ 63 := by
            have := inv.core.ack; have := inv.core.hi; omega
          have hun : unwrapFrameNo s.r.ackNo f.frameNo = n := by
            rw [hh.1]; exact unwrap_near _ _ hack hn.1 hn.2
          have hws : s.r.windowStart + 1 < two64 := by
            have := inv.core.hi; unfold two64; omega
          have hinb : frameInBounds s.r.windowStart ((s.r.windowStart + maxWindowSize) % two64) n = true := by
            have : (s.r.windowStart + maxWindowSize) % two64 = s.r.windowStart + maxWindowSize := by
              apply Nat.mod_eq_of_lt; have := inv.core.hi; unfold two64 maxWindowSize; omega
            rw [this, hnw]
            unfold frameInBounds maxWindowSize
            simp
          have hnew : FragOk st ⟨n, f.data, f.fin⟩ := by
            cases hfin : f.fin
            · have hadm1 := hadm
              simp only [admits, hfin, Bool.or_false, Bool.and_eq_true, decide_eq_true_eq,
                Bool.not_eq_true'] at hadm1
              have hne : f.data ≠ [] := by
                intro h; rw [h] at hadm1; simp at hadm1
              have := hh.2.2 hfin hne hadm1.2
              exact Or.inl ⟨rfl, this.1, this.2⟩
            · have := hh.2.1 hfin
              exact Or.inr ⟨rfl, this.1, this.2⟩
          simp only [rxStep, receive, hcl, Bool.false_eq_true, if_false, hadm, hun, hinb, Bool.and_self,
            if_true, processIntoBuffer]
          rw [insertFrag_head (by intro g hg; show n < g.prio; rw [hnw]; exact inv.above g hg)]
          have hfr : ∀ g ∈ (⟨n, f.data, f.fin⟩ : Frag) :: s.r.frags, FragOk st g := by
            intro g hg
            rcases List.mem_cons.mp hg with rfl | hg
            · exact hnew
            · exact inv.frags g hg
          obtain ⟨_, _, _, c4⟩ := processFrags_core (d := d) (del := s.delivered) hb
            (⟨n, f.data, f.fin⟩ :: s.r.frags)
            { s.r with frags := ⟨n, f.data, f.fin⟩ :: s.r.frags } false
            (core_mono_frags _ inv.core) hfr
          have := c4 _ _ rfl hnw
          simpa [hcl] using this
        omega
      · omega
    | read k =>
      obtain ⟨inv', same⟩ := read_inv inv k
      obtain ⟨i2, m2⟩ := ih _ inv' adm
      refine ⟨i2, ?_⟩
      show s.r.windowStart + hits _ t ≤ (rxRun (rxStep s (.read k)) t).r.windowStart
      omega

end Tubes
