import HopModel.Model.Muxer
/-
Helper lemmas for C11 (frame half) and C09: panic-freedom of the decoding and dispatch skeleton,
locality of a frame's effect, key bookkeeping of the tube list.
-/
namespace Tubes

/-! ### decoding -/

theorem goSlice_ok {b : Bytes} {cap lo hi : Nat} (h : lo ≤ hi ∧ hi ≤ cap) :
    goSlice b cap lo hi = .ok ((b.drop lo).take (hi - lo)) := by
  simp [goSlice, h]

theorem goIndex_ok {b : Bytes} {i : Nat} (h : i < b.length) : goIndex b i = .ok b[i] := by
  simp [goIndex, List.getElem?_eq_getElem h]

theorem pad_length (b : Bytes) (h : 10 ≤ b.length) : ((b ++ [0, 0]).take 12).length = 12 := by
  rw [List.length_take, List.length_append]; simp only [List.length_cons, List.length_nil]; omega

/-- the core of `fromBytes` after the short-datagram handling -/
def fromBytesCore (b : Bytes) (cap : Nat) : Outcome Frame :=
  (goSlice b cap 2 4).bind fun l =>
  let dataLength := beNat l
  if 12 + dataLength > b.length then .err else
  (goIndex b 0).bind fun id =>
  (goIndex b 1).bind fun m =>
  (goSlice b cap 12 (12 + dataLength)).bind fun data =>
  (goSlice b cap 4 8).bind fun a =>
  (goSlice b cap 8 12).bind fun n =>
  .ok (flagsOf m.toNat { tubeID := id.toNat, ackNo := beNat a, frameNo := beNat n, data := data })

theorem fromBytesCore_total (b : Bytes) (cap : Nat) (h12 : 12 ≤ b.length) (hcap : b.length ≤ cap) :
    fromBytesCore b cap = .err ∨
    ∃ f, fromBytesCore b cap = .ok f ∧ f.data.length + 12 ≤ b.length ∧ f.data = (b.drop 12).take f.data.length := by
  unfold fromBytesCore
  rw [goSlice_ok (by omega)]
  simp only [Outcome.bind]
  split
  · exact Or.inl rfl
  · rename_i hlen
    rw [goIndex_ok (by omega), goIndex_ok (by omega)]
    simp only [Outcome.bind]
    rw [goSlice_ok (by omega), goSlice_ok (by omega), goSlice_ok (by omega)]
    refine Or.inr ⟨_, rfl, ?_⟩
    simp only [flagsOf]
    have hl : (List.take (12 + beNat (List.take (4 - 2) (List.drop 2 b)) - 12) (List.drop 12 b)).length =
        beNat (List.take (4 - 2) (List.drop 2 b)) := by
      rw [List.length_take, List.length_drop]; omega
    refine ⟨by rw [hl]; omega, ?_⟩
    rw [hl]
    congr 1
    omega

theorem fromBytes_cases (b : Bytes) (cap : Nat) (hcap : b.length ≤ cap) :
    fromBytes b cap = .err ∨
    ∃ f, fromBytes b cap = .ok f ∧ f.data = (b.drop 12).take f.data.length ∧
      (f.data ≠ [] → f.data.length + 12 ≤ b.length) := by
  unfold fromBytes
  split
  · exact Or.inl rfl
  · rename_i h10
    rw [goIndex_ok (by omega)]
    simp only [Outcome.bind]
    split
    · exact Or.inl rfl
    · by_cases h12 : b.length < 12
      · simp only [h12, if_true]
        have hp := pad_length b (by omega)
        rcases fromBytesCore_total ((b ++ [0, 0]).take 12) 12 (by omega) (by omega) with he | ⟨f, hf, h1, h2⟩
        · unfold fromBytesCore at he; exact Or.inl he
        · unfold fromBytesCore at hf
          refine Or.inr ⟨f, hf, ?_, ?_⟩
          · have : f.data.length = 0 := by omega
            rw [this]; simp only [List.take_zero]
            exact List.eq_nil_of_length_eq_zero this
          · intro hne
            have : f.data.length = 0 := by omega
            exact absurd (List.eq_nil_of_length_eq_zero this) hne
      · simp only [h12, if_false]
        rcases fromBytesCore_total b cap (by omega) hcap with he | ⟨f, hf, h1, h2⟩
        · unfold fromBytesCore at he; exact Or.inl he
        · unfold fromBytesCore at hf
          exact Or.inr ⟨f, hf, h2, fun _ => h1⟩

theorem fromBytes_total (b : Bytes) (cap : Nat) (hcap : b.length ≤ cap) :
    fromBytes b cap = .err ∨ ∃ f, fromBytes b cap = .ok f := by
  rcases fromBytes_cases b cap hcap with h | ⟨f, hf, _⟩
  · exact Or.inl h
  · exact Or.inr ⟨f, hf⟩

/-- the decoded payload lies inside the datagram -/
theorem fromBytes_data {b : Bytes} {cap : Nat} {f : Frame} (hcap : b.length ≤ cap) (h : fromBytes b cap = .ok f) :
    f.data = (b.drop 12).take f.data.length ∧ (f.data ≠ [] → f.data.length + 12 ≤ b.length) := by
  rcases fromBytes_cases b cap hcap with he | ⟨g, hg, h1, h2⟩
  · rw [he] at h; cases h
  · rw [hg] at h; cases h; exact ⟨h1, h2⟩

/-! ### acknowledgement loop -/

theorem ackLoop_eq : ∀ (k : Nat) (s : Sender),
    ackLoop k s = .ok { s with ackNo := s.ackNo + min k s.frames.length,
                               frames := s.frames.drop (min k s.frames.length),
                               dupAcks := if min k s.frames.length > 0 then 0 else s.dupAcks } := by
  intro k
  induction k with
  | zero => intro s; simp [ackLoop]
  | succ k ih =>
    intro s
    cases s with
    | mk a n fr fs ff cl du =>
      unfold ackLoop
      cases fr with
      | nil => simp
      | cons x rest =>
        simp only [List.length_cons, Nat.zero_lt_succ, if_true]
        rw [ih]
        have e : min (k + 1) (rest.length + 1) = min k rest.length + 1 := by omega
        simp only [e, List.drop_succ_cons, Nat.zero_lt_succ, if_true, Outcome.ok.injEq, Sender.mk.injEq,
          true_and, and_true]
        refine ⟨by omega, ?_⟩
        split <;> rfl

/-- the transcription with explicit indexing agrees with the sender model of C08 -/
theorem recvAckO_eq (s : Sender) (a w : Nat) : recvAckO s a w = .ok (s.recvAck a w) := by
  unfold recvAckO Sender.recvAck
  simp only []
  split
  · rfl
  · rw [ackLoop_eq]
    simp only [Outcome.bind]

/-! ### dispatch -/

theorem initTube_key (t : Tube) : (initTube t).key = t.key := by
  unfold initTube
  repeat' split
  all_goals rfl

theorem relReceive_total (t : Tube) (f : Frame) : ∃ t', relReceive t f = .ok t' ∧ t'.key = t.key := by
  unfold relReceive
  split
  · exact ⟨t, rfl, rfl⟩
  · simp only []
    split
    · rw [recvAckO_eq]
      simp only [Outcome.bind]
      split
      · exact ⟨_, rfl, rfl⟩
      · exact ⟨_, rfl, rfl⟩
    · simp only [Outcome.bind]
      exact ⟨_, rfl, rfl⟩

theorem unrelReceive_key (t : Tube) (f : Frame) : (unrelReceive t f).key = t.key := by
  unfold unrelReceive
  repeat' split
  all_goals rfl

theorem deliver_total (t : Tube) (f : Frame) : ∃ t', deliver t f = .ok t' ∧ t'.key = t.key := by
  unfold deliver
  split
  · exact ⟨_, rfl, initTube_key t⟩
  · split
    · exact relReceive_total t f
    · exact ⟨_, rfl, unrelReceive_key t f⟩

theorem lookup_setTube_ne (ts : List Tube) (t : Tube) (k : Key) (h : t.key ≠ k) :
    lookup (setTube ts t) k = lookup ts k := by
  unfold lookup setTube
  induction ts with
  | nil => rfl
  | cons u rest ih =>
    simp only [List.map_cons, List.find?_cons]
    by_cases hu : u.key = t.key
    · have hk : ¬ u.key = k := by rw [hu]; exact h
      simp [hu, h, hk, ih]
    · simp only [hu, if_false]
      rw [ih]

theorem lookup_cons_ne (ts : List Tube) (t : Tube) (k : Key) (h : t.key ≠ k) :
    lookup (t :: ts) k = lookup ts k := by
  simp [lookup, List.find?_cons, h]

theorem lookup_key {ts : List Tube} {k : Key} {t : Tube} (h : lookup ts k = some t) : t.key = k := by
  have := List.find?_some h
  simpa using this

theorem onFrame_total (m : Mux) (f : Frame) :
    ∃ m', onFrame m f = .ok m' ∧ (∀ k, k ≠ (f.rel, f.tubeID) → lookup m'.tubes k = lookup m.tubes k) ∧
      m'.parity = m.parity ∧ m'.running = m.running ∧
      (m.queue.length ≤ acceptQueueSize → m'.queue.length ≤ acceptQueueSize) := by
  unfold onFrame
  split
  · rename_i t ht
    obtain ⟨t', h1, h2⟩ := deliver_total t f
    rw [h1]
    refine ⟨_, rfl, ?_, rfl, rfl, fun h => h⟩
    intro k hk
    apply lookup_setTube_ne
    rw [h2, lookup_key ht]
    exact fun e => hk e.symm
  · split
    · rename_i hc
      obtain ⟨t', h1, h2⟩ := deliver_total (newTube f.rel f.tubeID (initType f) false) f
      simp only []
      rw [h1]
      refine ⟨_, rfl, ?_, rfl, rfl, ?_⟩
      · intro k hk
        apply lookup_cons_ne
        rw [h2]
        exact fun e => hk e.symm
      · intro _
        simp only [Bool.and_eq_true, decide_eq_true_eq] at hc
        show (m.queue ++ [_]).length ≤ _
        rw [List.length_append]
        have := hc.2
        simp only [List.length_cons, List.length_nil]
        omega
    · exact ⟨m, rfl, fun _ _ => rfl, rfl, rfl, fun h => h⟩

end Tubes
