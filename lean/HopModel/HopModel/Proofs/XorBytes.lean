/-
Xor on byte lists: `ks ⊕ (ks ⊕ b) = b` (shared by the proofs of C12 and C13).
-/
namespace XorBytes

theorem xor_cancel_left (k b : UInt8) : k ^^^ (k ^^^ b) = b := by
  rw [← UInt8.xor_assoc, UInt8.xor_self, UInt8.zero_xor]

/-- `ks ⊕ (ks ⊕ blk) = blk` when the key stream is at least as long as the block -/
theorem zipXor_cancel (ks blk : List UInt8) (h : blk.length ≤ ks.length) :
    List.zipWith (· ^^^ ·) ks (List.zipWith (· ^^^ ·) ks blk) = blk := by
  induction ks generalizing blk with
  | nil =>
    cases blk with
    | nil => rfl
    | cons b bs => simp at h
  | cons k ks ih =>
    cases blk with
    | nil => simp
    | cons b bs =>
      simp only [List.zipWith_cons_cons, xor_cancel_left, List.cons.injEq, true_and]
      exact ih bs (by simpa using h)

end XorBytes
