/-
Helper lemmas for C12: the SANSE mode over an arbitrary deck function.
-/
import HopModel.Model.Sanse
import HopModel.Proofs.XorBytes
namespace Sanse
open XorBytes

/-- the only thing the mode needs from the deck function: squeezing `n` bytes from a state that
has just absorbed a string yields `n` bytes (every `squeeze` of `wrap`/`unwrap` is of that form) -/
def SqueezeLen {D : Type} (dk : Deck D) : Prop :=
  ∀ (d : D) (x : List UInt8) (l : UInt8) (k n : Nat) (lp : Bool),
    (dk.squeeze (dk.absorb d x l k) n lp).length = n

variable {D : Type} (dk : Deck D)

theorem ath_squeeze_len (h : SqueezeLen dk) (d : D) (e : Bool) (x : List UInt8) (a : UInt8) (al n : Nat)
    (lp : Bool) : (dk.squeeze (addToHistory dk d e x a al) n lp).length = n := h ..

theorem xorBytes_length (a b : List UInt8) (h : a.length = b.length) : (xorBytes a b).length = b.length := by
  simp [xorBytes, List.length_zipWith, h]

theorem xorBytes_cancel (ks b : List UInt8) (h : ks.length = b.length) :
    xorBytes ks (xorBytes ks b) = b := zipXor_cancel ks b (by omega)

theorem isEmpty_eq_of_length_eq {a b : List UInt8} (h : a.length = b.length) : a.isEmpty = b.isEmpty := by
  cases a <;> cases b <;> simp_all

theorem wrap_ct_length (h : SqueezeLen dk) (s : St D) (ad p : List UInt8) :
    (wrap dk s ad p).2.1.length = p.length := by
  unfold wrap
  by_cases hp : p = []
  · simp [hp]
  · simp only [hp, ne_eq, not_false_eq_true, if_true]
    exact xorBytes_length _ _ (ath_squeeze_len dk h ..)

theorem adStep_empty (s : St D) (ad : List UInt8) :
    adStep dk s ad true = addToHistory dk s.d s.e ad 0 1 := by
  simp [adStep]

theorem wrap_tag_length (h : SqueezeLen dk) (s : St D) (ad p : List UInt8) :
    (wrap dk s ad p).2.2.length = tagSize := by
  unfold wrap
  by_cases hp : p = []
  · simp only [hp, ne_eq, not_true_eq_false, if_false, List.isEmpty_nil]
    rw [adStep_empty]
    exact ath_squeeze_len dk h ..
  · simp only [hp, ne_eq, not_false_eq_true, if_true]
    exact ath_squeeze_len dk h ..

/-- `unwrap` of what `wrap` produced, from the same state -/
theorem unwrap_wrap (h : SqueezeLen dk) (s : St D) (ad p : List UInt8) :
    unwrap dk s ad (wrap dk s ad p).2.1 (wrap dk s ad p).2.2 = ((wrap dk s ad p).1, some p) := by
  by_cases hp : p = []
  · subst hp
    simp [wrap, unwrap]
  · have hcl := wrap_ct_length dk h s ad p
    have hc : (wrap dk s ad p).2.1 ≠ [] := by
      intro h0; rw [h0] at hcl; simp at hcl; exact hp (List.eq_nil_of_length_eq_zero hcl.symm)
    have hie : (wrap dk s ad p).2.1.isEmpty = p.isEmpty := isEmpty_eq_of_length_eq hcl
    unfold unwrap
    simp only [hc, ne_eq, not_false_eq_true, if_true, hie, hcl]
    unfold wrap
    simp only [hp, ne_eq, not_false_eq_true, if_true]
    have hks : (dk.squeeze (addToHistory dk (adStep dk s ad p.isEmpty) s.e
        (dk.squeeze (addToHistory dk (adStep dk s ad p.isEmpty) s.e p 2 2) tagSize false) 3 2) p.length true).length
        = p.length := ath_squeeze_len dk h ..
    rw [xorBytes_cancel _ _ hks]
    simp

/-- if `unwrap` accepts `(c, tag)` and returns `p`, then `wrap` of `p` from the same state gives
exactly `(c, tag)` -/
theorem wrap_of_unwrap (h : SqueezeLen dk) (s : St D) (ad c tag p : List UInt8)
    (hu : (unwrap dk s ad c tag).2 = some p) :
    (wrap dk s ad p).2.1 = c ∧ (wrap dk s ad p).2.2 = tag := by
  unfold unwrap at hu
  by_cases hc : c = []
  · subst hc
    simp only [ne_eq, not_true_eq_false, if_false, List.isEmpty_nil] at hu
    split at hu
    · rename_i ht
      have hp : p = [] := by simpa using hu.symm
      subst hp
      simp [wrap, ht]
    · simp at hu
  · simp only [hc, ne_eq, not_false_eq_true, if_true] at hu
    split at hu
    · rename_i ht
      have hks : (dk.squeeze (addToHistory dk (adStep dk s ad c.isEmpty) s.e tag 3 2) c.length true).length
          = c.length := ath_squeeze_len dk h ..
      have hp : xorBytes (dk.squeeze (addToHistory dk (adStep dk s ad c.isEmpty) s.e tag 3 2) c.length true) c
          = p := by simpa using hu
      have hpl : p.length = c.length := by rw [← hp]; exact xorBytes_length _ _ hks
      have hpne : p ≠ [] := by
        intro h0; rw [h0] at hpl; exact hc (List.eq_nil_of_length_eq_zero hpl.symm)
      have hie : p.isEmpty = c.isEmpty := isEmpty_eq_of_length_eq hpl
      rw [hp] at ht
      unfold wrap
      simp only [hpne, ne_eq, not_false_eq_true, if_true, hie, ht, hpl, and_true]
      rw [← hp]
      exact xorBytes_cancel _ _ hks
    · simp at hu

end Sanse
