import HopModel.Model.Certs
/-
Helper lemmas for C04: well-formed stores (every entry is keyed by its own fingerprint, keys are
distinct — what `AddCertificate` establishes from the empty store), lookup, `VerifyParent` on the two
pairings `VerifyLeaf` uses, and the choice of the intermediate.
-/
namespace Certs

/-- membership of a certificate in a store -/
def Store.has (s : Store) (c : Cert) : Prop := ∃ k, (k, c) ∈ s

/-- every entry is stored under its own fingerprint, and no fingerprint occurs twice -/
def StoreWF (s : Store) : Prop := (∀ e ∈ s, e.1 = e.2.fp) ∧ (s.map (·.1)).Nodup

theorem storeWF_nil : StoreWF [] := ⟨by simp, by simp⟩

theorem storeWF_add {s : Store} (h : StoreWF s) (c : Cert) : StoreWF (addCertificate s c) := by
  obtain ⟨h1, h2⟩ := h
  unfold addCertificate
  constructor
  · intro e he
    rcases List.mem_cons.mp he with rfl | he
    · rfl
    · exact h1 e (List.mem_filter.mp he).1
  · simp only [List.map_cons, List.nodup_cons]
    constructor
    · intro hm
      obtain ⟨e, he, hk⟩ := List.mem_map.mp hm
      have := (List.mem_filter.mp he).2
      simp only [bne_iff_ne, ne_eq] at this
      exact this hk
    · exact (h2.sublist (List.Sublist.map _ List.filter_sublist))

theorem storeWF_build (cs : List Cert) : StoreWF (cs.foldl addCertificate []) := by
  have : ∀ s, StoreWF s → StoreWF (cs.foldl addCertificate s) := by
    induction cs with
    | nil => intro s h; exact h
    | cons c t ih => intro s h; exact ih _ (storeWF_add h c)
  exact this [] storeWF_nil

theorem lookup_eq_some_of_mem {s : Store} (hn : (s.map (·.1)).Nodup) {k : Nat} {c : Cert} (hm : (k, c) ∈ s) :
    List.lookup k s = some c := by
  induction s with
  | nil => cases hm
  | cons e t ih =>
    obtain ⟨a, b⟩ := e
    simp only [List.map_cons, List.nodup_cons] at hn
    rcases List.mem_cons.mp hm with heq | hm'
    · cases heq
      simp [List.lookup]
    · have hne : k ≠ a := by
        intro hka
        subst hka
        exact hn.1 (List.mem_map.mpr ⟨(k, c), hm', rfl⟩)
      have : (k == a) = false := by simp [hne]
      simp only [List.lookup, this]
      exact ih hn.2 hm'

theorem mem_of_lookup_eq_some {s : Store} {k : Nat} {c : Cert} (h : List.lookup k s = some c) : (k, c) ∈ s := by
  induction s with
  | nil => simp [List.lookup] at h
  | cons e t ih =>
    obtain ⟨a, b⟩ := e
    simp only [List.lookup] at h
    split at h
    · rename_i hka
      have hka' : k = a := by simpa using hka
      cases h
      subst hka'
      exact List.mem_cons_self
    · exact List.mem_cons_of_mem _ (ih h)

theorem get_iff {s : Store} (h : StoreWF s) (fp : Nat) (c : Cert) :
    s.get fp = some c ↔ s.has c ∧ c.fp = fp := by
  unfold Store.get Store.has
  constructor
  · intro hl
    have hm := mem_of_lookup_eq_some hl
    exact ⟨⟨fp, hm⟩, (h.1 _ hm).symm⟩
  · rintro ⟨⟨k, hm⟩, rfl⟩
    have hk : k = c.fp := h.1 _ hm
    subst hk
    exact lookup_eq_some_of_mem h.2 hm

/-- `AddCertificate` then lookup: the new certificate is found under its fingerprint … -/
theorem get_add_self (s : Store) (c : Cert) : (addCertificate s c).get c.fp = some c := by
  simp [addCertificate, Store.get]

/-- … and every other fingerprint is unaffected -/
theorem get_add_other (s : Store) (c : Cert) (fp : Nat) (hne : fp ≠ c.fp) :
    (addCertificate s c).get fp = s.get fp := by
  have hb : (fp == c.fp) = false := by simp [hne]
  simp only [addCertificate, Store.get, List.lookup, hb]
  induction s with
  | nil => rfl
  | cons e t ih =>
    obtain ⟨a, b⟩ := e
    by_cases hac : a = c.fp
    · have h1 : (a != c.fp) = false := by simp [hac]
      have h2 : (fp == a) = false := by simp [hac, hne]
      simp only [List.filter, h1, List.lookup, h2]
      exact ih
    · have : (a != c.fp) = true := by simp [hac]
      simp only [List.filter, this, List.lookup]
      split
      · rfl
      · exact ih

/-! ### signatures -/

/-- `child` names `parent` by fingerprint, has at least a signature's worth of raw bytes, and its
signature verifies under `parent`'s public key -/
def SignedBy (sv : Nat → Nat → Bool) (child parent : Cert) : Prop :=
  child.parent = parent.fp ∧ 64 ≤ child.rawLen ∧ sv parent.pubKey child.tbs = true

theorem verifyParent_leaf (sv : Nat → Nat → Bool) {child parent : Cert}
    (hc : child.ctype = leafT) (hp : parent.ctype = intermediateT) :
    verifyParent sv child parent = true ↔ SignedBy sv child parent := by
  unfold verifyParent SignedBy
  simp only [hc, hp, leafT, intermediateT, rootT]
  by_cases h1 : child.parent = parent.fp
  · by_cases h2 : child.rawLen = 0
    · simp [h1, h2]
    · by_cases h3 : child.rawLen < 64
      · simp [h1, h2, h3]; omega
      · simp [h1, h2, h3]; omega
  · simp [h1]

theorem verifyParent_inter (sv : Nat → Nat → Bool) {child parent : Cert}
    (hc : child.ctype = intermediateT) (hp : parent.ctype = rootT) :
    verifyParent sv child parent = true ↔ SignedBy sv child parent := by
  unfold verifyParent SignedBy
  simp only [hc, hp, leafT, intermediateT, rootT]
  by_cases h1 : child.parent = parent.fp
  · by_cases h2 : child.rawLen = 0
    · simp [h1, h2]
    · by_cases h3 : child.rawLen < 64
      · simp [h1, h2, h3]; omega
      · simp [h1, h2, h3]; omega
  · simp [h1]

/-! ### the intermediate -/

/-- `inter` is the presented certificate and the leaf names it; or no presented certificate is named
by the leaf and `inter` is the stored certificate the leaf names -/
def IsIntermediateFor (store : Store) (opts : Options) (leaf inter : Cert) : Prop :=
  (opts.presented = some inter ∧ leaf.parent = inter.fp) ∨
  ((∀ p, opts.presented = some p → leaf.parent ≠ p.fp) ∧ store.has inter ∧ inter.fp = leaf.parent)

theorem choose_iff {store : Store} (h : StoreWF store) (opts : Options) (leaf inter : Cert) :
    (chooseIntermediate store opts leaf = some inter ∧ inter.fp = leaf.parent) ↔
      IsIntermediateFor store opts leaf inter := by
  unfold chooseIntermediate IsIntermediateFor
  cases hp : opts.presented with
  | none =>
    simp only [get_iff h]
    constructor
    · rintro ⟨⟨h1, h2⟩, _⟩
      exact Or.inr ⟨by simp, h1, h2⟩
    · rintro (⟨h1, _⟩ | ⟨_, h1, h2⟩)
      · cases h1
      · exact ⟨⟨h1, h2⟩, h2⟩
  | some p =>
    by_cases hlp : leaf.parent = p.fp
    · simp only [hlp, if_true]
      constructor
      · rintro ⟨h1, h2⟩
        cases h1
        exact Or.inl ⟨rfl, rfl⟩
      · rintro (⟨h1, h2⟩ | ⟨h1, _⟩)
        · cases h1
          exact ⟨rfl, rfl⟩
        · exact absurd rfl (h1 p rfl)
    · simp only [hlp, if_false, get_iff h]
      constructor
      · rintro ⟨⟨h1, h2⟩, _⟩
        refine Or.inr ⟨?_, h1, h2⟩
        intro p' hp'
        cases hp'
        exact hlp
      · rintro (⟨h1, h2⟩ | ⟨_, h1, h2⟩)
        · cases h1
          exact absurd h2 hlp
        · exact ⟨⟨h1, h2⟩, h2⟩

theorem matchesName_iff (c : Cert) (n : Name) (hc : c.ctype = leafT) :
    matchesName c n = true ↔ n ∈ c.names := by
  unfold matchesName
  simp only [hc, if_true, List.any_eq_true, Bool.and_eq_true, beq_iff_eq]
  constructor
  · rintro ⟨b, hb, h1, h2⟩
    have : b = n := by
      cases b; cases n
      simp_all
    exact this ▸ hb
  · intro h
    exact ⟨n, h, rfl, rfl⟩

/-- the requested name, when one is given, is one of the leaf's names — same label *and* same type -/
def NameOK (opts : Options) (leaf : Cert) : Prop := ∀ n, opts.name = some n → n ∈ leaf.names

theorem nameRefused_iff (opts : Options) (leaf : Cert) (hc : leaf.ctype = leafT) :
    nameRefused opts leaf = false ↔ NameOK opts leaf := by
  unfold nameRefused NameOK
  cases ho : opts.name with
  | none => simp
  | some n =>
    simp only [Bool.not_eq_false', matchesName_iff leaf n hc, Option.some.injEq]
    constructor
    · intro h n' hn'
      exact hn' ▸ h
    · intro h
      exact h n rfl

/-! ### time order (lexicographic on seconds, nanoseconds) -/

theorem Time.before_iff (t u : Time) :
    t.before u = true ↔ t.sec < u.sec ∨ (t.sec = u.sec ∧ t.nsec < u.nsec) := by
  simp [Time.before]

theorem Time.before_false_iff (t u : Time) :
    t.before u = false ↔ ¬ (t.sec < u.sec ∨ (t.sec = u.sec ∧ t.nsec < u.nsec)) := by
  rw [← Time.before_iff]; simp

theorem validAt_iff (now : Time) (c : Cert) :
    validAt now c = true ↔ now.before c.issuedAt = false ∧ now.before c.expiresAt = true := by
  simp [validAt]

/-- `a ≤ b`, `b ≤ c` ⊢ `a ≤ c` (as "not before") -/
theorem Time.before_trans_le {a b c : Time} (h1 : b.before a = false) (h2 : c.before b = false) : c.before a = false := by
  rw [Time.before_false_iff] at *
  omega

theorem Time.before_of_before_le {a b c : Time} (h1 : a.before b = true) (h2 : c.before b = false) : a.before c = true := by
  rw [Time.before_false_iff] at h2
  rw [Time.before_iff] at *
  omega

theorem Time.before_irrefl (a : Time) : a.before a = false := by
  rw [Time.before_false_iff]; omega

end Certs
