/-
Invariants of the lifecycle election model (`Model/Lifecycle.lean`).
-/
import HopModel.Model.Lifecycle
namespace Lifecycle

def OwnerPC : PC → Prop
  | .closeElected _ => True
  | .closeStored _ _ => True
  | _ => False

structure Inv (s : LS) : Prop where
  hs0 : s.state = .created → s.hsRuns = 0
  hs1 : s.hsRuns ≤ 1
  /-- only the elected thread is in the owner's part of Close -/
  own : ∀ t, OwnerPC (s.pc t) → s.owner = some t
  /-- nobody is elected before the state is closing -/
  noOwner : isClosing s.state = false → s.owner = none
  /-- closeErr is stored only after the election … -/
  errClosing : s.closeErr ≠ none → isClosing s.state = true
  /-- … by the elected thread, which then leaves `closeElected` -/
  stored : s.closeErr ≠ none → ∀ t prev, s.pc t ≠ .closeElected prev
  storedV : ∀ t prev v, s.pc t = .closeStored prev v → s.closeErr = some v
  done : s.closeDone = true → s.closeErr ≠ none
  ret : ∀ t v, s.pc t = .closeRet v → s.closeErr = some v

theorem upd_eq {f : Nat → PC} {t u : Nat} {p q : PC} (h : upd f t p u = q) :
    (u = t ∧ p = q) ∨ (u ≠ t ∧ f u = q) := by
  unfold upd at h
  by_cases hu : u = t
  · left; simp [hu] at h; exact ⟨hu, h⟩
  · right; simp [hu] at h; exact ⟨hu, h⟩

theorem ownerPC_upd {f : Nat → PC} {t u : Nat} {p : PC} (h : OwnerPC (upd f t p u)) :
    (u = t ∧ OwnerPC p) ∨ (u ≠ t ∧ OwnerPC (f u)) := by
  unfold upd at h
  by_cases hu : u = t
  · left; simp [hu] at h; exact ⟨hu, h⟩
  · right; simp [hu] at h; exact ⟨hu, h⟩

theorem inv_init : Inv init := by
  refine ⟨?_, ?_, ?_, ?_, ?_, ?_, ?_, ?_, ?_⟩ <;> simp [init, OwnerPC, isClosing]

/-- a step that moves only thread `t`, from a program counter that is not an owner's one to `p`,
where `p` is neither an owner's program counter nor a `closeRet` -/
theorem inv_move {s : LS} (h : Inv s) (t : Nat) (p : PC) (hp : ¬ OwnerPC p)
    (hr : ∀ v, p ≠ .closeRet v) (hne : ∀ prev, p ≠ .closeElected prev) (hns : ∀ prev v, p ≠ .closeStored prev v) :
    Inv { s with pc := upd s.pc t p } := by
  refine ⟨h.hs0, h.hs1, ?_, h.noOwner, h.errClosing, ?_, ?_, h.done, ?_⟩
  · intro u hu
    rcases ownerPC_upd hu with ⟨_, hu⟩ | ⟨_, hu⟩
    · exact absurd hu hp
    · exact h.own u hu
  · intro hc u prev hu
    rcases upd_eq hu with ⟨_, e⟩ | ⟨_, e⟩
    · exact hne prev e
    · exact h.stored hc u prev e
  · intro u prev v hu
    rcases upd_eq hu with ⟨_, e⟩ | ⟨_, e⟩
    · exact absurd e (hns prev v)
    · exact h.storedV u prev v e
  · intro u v hu
    rcases upd_eq hu with ⟨_, e⟩ | ⟨_, e⟩
    · exact absurd e (hr v)
    · exact h.ret u v e

theorem isClosing_finish (st : CSt) (b : Bool) : isClosing (finishState st b) = isClosing st := by
  unfold finishState
  cases st <;> cases b <;> simp [isClosing]

theorem inv_step {s s' : LS} {t : Nat} (h : Inv s) (hs : Step s t s') : Inv s' := by
  cases hs with
  | hsElect hp hst =>
    have hm := inv_move h t .hsRunning (by simp [OwnerPC]) (by simp) (by simp) (by simp)
    refine ⟨by simp, ?_, hm.own, ?_, ?_, hm.stored, hm.storedV, hm.done, hm.ret⟩
    · have := h.hs0 hst; simp only; omega
    · intro _; apply h.noOwner; simp [hst, isClosing]
    · intro hc; have := h.errClosing hc; simp [hst, isClosing] at this
  | hsWait hp hst => exact inv_move h t _ (by simp [OwnerPC]) (by simp) (by simp) (by simp)
  | hsFast hp h1 h2 => exact inv_move h t _ (by simp [OwnerPC]) (by simp) (by simp) (by simp)
  | hsFinish success hp =>
    have hm := inv_move h t (.hsRet (hsResult (finishState s.state success))) (by simp [OwnerPC]) (by simp) (by simp) (by simp)
    refine ⟨?_, hm.hs1, hm.own, ?_, ?_, hm.stored, hm.storedV, hm.done, hm.ret⟩
    · intro hc
      simp only at hc
      unfold finishState at hc
      by_cases hh : s.state = .handshaking
      · simp [hh] at hc; cases success <;> simp at hc
      · simp [hh] at hc; exact h.hs0 hc
    · intro hc; simp only at hc; rw [isClosing_finish] at hc; exact h.noOwner hc
    · intro hc; simp only; rw [isClosing_finish]; exact h.errClosing hc
  | hsWake hp hd => exact inv_move h t _ (by simp [OwnerPC]) (by simp) (by simp) (by simp)
  | closeElect hp hc =>
    have hno := h.noOwner hc
    have herr : s.closeErr = none := by
      cases he : s.closeErr with
      | none => rfl
      | some v => have := h.errClosing (by simp [he]); simp [hc] at this
    refine ⟨by simp, h.hs1, ?_, by simp [isClosing], by simp [isClosing], ?_, ?_, h.done, ?_⟩
    · intro u hu
      rcases ownerPC_upd hu with ⟨e, _⟩ | ⟨_, hu⟩
      · simp [e]
      · have := h.own u hu; simp [hno] at this
    · intro hc'; simp [herr] at hc'
    · intro u prev v hu
      rcases upd_eq hu with ⟨_, e⟩ | ⟨_, e⟩
      · cases e
      · exact h.storedV u prev v e
    · intro u v hu
      rcases upd_eq hu with ⟨_, e⟩ | ⟨_, e⟩
      · cases e
      · exact h.ret u v e
  | closeJoin hp hc => exact inv_move h t _ (by simp [OwnerPC]) (by simp) (by simp) (by simp)
  | closeStore prev v hp =>
    have hown := h.own t (by simp [hp, OwnerPC])
    have hcl : isClosing s.state = true := by
      cases hc : isClosing s.state with
      | true => rfl
      | false => have := h.noOwner hc; simp [hown] at this
    have hnone : s.closeErr = none := by
      cases he : s.closeErr with
      | none => rfl
      | some w => exact absurd hp (h.stored (by simp [he]) t prev)
    refine ⟨h.hs0, h.hs1, ?_, h.noOwner, fun _ => hcl, ?_, ?_, by simp, ?_⟩
    · intro u hu
      rcases ownerPC_upd hu with ⟨e, _⟩ | ⟨_, hu⟩
      · simp [e, hown]
      · exact h.own u hu
    · intro _ u prev' hu
      rcases upd_eq hu with ⟨_, e⟩ | ⟨hne, e⟩
      · cases e
      · have := h.own u (by simp [e, OwnerPC])
        rw [hown] at this
        exact hne (Option.some.inj this).symm
    · intro u prev' v' hu
      rcases upd_eq hu with ⟨_, e⟩ | ⟨hne, e⟩
      · cases e; rfl
      · have := h.storedV u prev' v' e; simp [hnone] at this
    · intro u v' hu
      rcases upd_eq hu with ⟨_, e⟩ | ⟨_, e⟩
      · cases e
      · have := h.ret u v' e; simp [hnone] at this
  | closePublish prev v hp hw =>
    have hv := h.storedV t prev v hp
    refine ⟨by simp, h.hs1, ?_, by simp [isClosing], by simp [isClosing], ?_, ?_, ?_, ?_⟩
    · intro u hu
      rcases ownerPC_upd hu with ⟨_, hu⟩ | ⟨_, hu⟩
      · simp [OwnerPC] at hu
      · exact h.own u hu
    · intro hc u prev' hu
      rcases upd_eq hu with ⟨_, e⟩ | ⟨_, e⟩
      · cases e
      · exact h.stored hc u prev' e
    · intro u prev' v' hu
      rcases upd_eq hu with ⟨_, e⟩ | ⟨_, e⟩
      · cases e
      · exact h.storedV u prev' v' e
    · intro _; simp [hv]
    · intro u v' hu
      rcases upd_eq hu with ⟨_, e⟩ | ⟨_, e⟩
      · cases e; exact hv
      · exact h.ret u v' e
  | closeWake v hp hd he =>
    refine ⟨h.hs0, h.hs1, ?_, h.noOwner, h.errClosing, ?_, ?_, h.done, ?_⟩
    · intro u hu
      rcases ownerPC_upd hu with ⟨_, hu⟩ | ⟨_, hu⟩
      · simp [OwnerPC] at hu
      · exact h.own u hu
    · intro hc u prev' hu
      rcases upd_eq hu with ⟨_, e⟩ | ⟨_, e⟩
      · cases e
      · exact h.stored hc u prev' e
    · intro u prev' v' hu
      rcases upd_eq hu with ⟨_, e⟩ | ⟨_, e⟩
      · cases e
      · exact h.storedV u prev' v' e
    · intro u v' hu
      rcases upd_eq hu with ⟨_, e⟩ | ⟨_, e⟩
      · cases e; exact he
      · exact h.ret u v' e
  | hsReturn r hp => exact inv_move h t _ (by simp [OwnerPC]) (by simp) (by simp) (by simp)

theorem inv_reach {s : LS} (h : Reach s) : Inv s := by
  induction h with
  | init => exact inv_init
  | step t _ hs ih => exact inv_step ih hs

end Lifecycle
