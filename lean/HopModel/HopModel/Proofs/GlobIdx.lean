/-
The index-level loop of `pkg/glob/glob.go` (`Model/GlobIdx.lean`) computes the segment/backtrack
matcher `Glob.glob`, hence the declarative relation `Matches`.
-/
import HopModel.Model.GlobIdx
import HopModel.Proofs.Glob
namespace Glob

def allStars (q : List B) : Bool := q.all (fun c => c == star)

/-! ### facts about `seg` -/

theorem seg_lit_prefix {u : List B} (hu : Lit u) (q r : List B) : seg (u ++ q) (u ++ r) = seg q r := by
  induction u with
  | nil => rfl
  | cons x u ih =>
    have hx : x ≠ star := hu x (by simp)
    have hu' : Lit u := fun y hy => hu y (by simp [hy])
    simp only [List.cons_append, seg, hx, if_false, if_true]
    exact ih hu'

theorem seg_star_cons (q r : List B) : seg (star :: q) r = .star q r := by simp [seg]

theorem seg_lit_mismatch {c d : B} (hc : c ≠ star) (hcd : c ≠ d) (q r : List B) :
    seg (c :: q) (d :: r) = .mismatch := by simp [seg, hc, hcd]

theorem seg_lit_nil {c : B} (hc : c ≠ star) (q : List B) : seg (c :: q) [] = .mismatch := by simp [seg, hc]

/-! ### unfolding `afterStar` once, by the value of `seg` -/

theorem afterStar_of_star {q ss q' ss' : List B} (h : seg q ss = .star q' ss') :
    afterStar q ss = afterStar q' ss' := by
  rw [afterStar]
  split
  · rename_i a b heq; rw [h] at heq; cases heq; rfl
  · rename_i a heq; rw [h] at heq; cases heq
  · rename_i heq; rw [h] at heq; cases heq

theorem afterStar_of_done {q ss ss' : List B} (h : seg q ss = .done ss') :
    afterStar q ss = (ss' == [] || (if ss = [] then false else afterStar q ss.tail)) := by
  rw [afterStar]
  split
  · rename_i a b heq; rw [h] at heq; cases heq
  · rename_i a heq; rw [h] at heq; cases heq
    by_cases hs : ss = [] <;> simp [hs]
  · rename_i heq; rw [h] at heq; cases heq

theorem afterStar_of_mismatch {q ss : List B} (h : seg q ss = .mismatch) :
    afterStar q ss = (if ss = [] then false else afterStar q ss.tail) := by
  rw [afterStar]
  split
  · rename_i a b heq; rw [h] at heq; cases heq
  · rename_i a heq; rw [h] at heq; cases heq
  · by_cases hs : ss = [] <;> simp [hs]

/-! ### empty input -/

theorem afterStar_nil (q : List B) : afterStar q [] = allStars q := by
  induction q with
  | nil => rw [afterStar_of_done (ss' := []) (by simp [seg])]; simp [allStars]
  | cons c q ih =>
    by_cases hc : c = star
    · subst hc
      rw [afterStar_of_star (seg_star_cons q []), ih]
      simp [allStars]
    · rw [afterStar_of_mismatch (seg_lit_nil hc q)]
      simp [allStars, hc]

theorem glob_nil_input (q : List B) : glob q [] = allStars q := by
  cases q with
  | nil => simp [glob, seg, allStars]
  | cons c q =>
    by_cases hc : c = star
    · subst hc
      simp only [glob, seg_star_cons, afterStar_nil]
      simp [allStars]
    · simp [glob, seg_lit_nil hc, allStars, hc]

/-! ### a match needs at least as many input bytes as the pattern has literals -/

def litCount : List B → Nat
  | [] => 0
  | c :: q => (if c = star then 0 else 1) + litCount q

theorem litCount_append (u q : List B) : litCount (u ++ q) = litCount u + litCount q := by
  induction u with
  | nil => simp [litCount]
  | cons c u ih => simp [litCount, ih]; omega

theorem litCount_lit {u : List B} (hu : Lit u) : litCount u = u.length := by
  induction u with
  | nil => rfl
  | cons c u ih =>
    have hc : c ≠ star := hu c (by simp)
    have hu' : Lit u := fun y hy => hu y (by simp [hy])
    simp [litCount, hc, ih hu']; omega

theorem matches_litCount {q r : List B} (h : Matches q r) : litCount q ≤ r.length := by
  induction h with
  | nil => simp [litCount]
  | lit hne _ ih => simp only [litCount, hne, if_false, List.length_cons]; omega
  | star w _ ih => simp only [litCount, if_true, List.length_append]; omega

/-- the segment consumed the whole input and the pattern goes on: stars only, or no match at any
later alignment either -/
theorem afterStar_exhausted {u : List B} (hu : Lit u) (q : List B) : afterStar (u ++ q) u = allStars q := by
  have hseg : seg (u ++ q) u = seg q [] := by
    have := seg_lit_prefix hu q []
    simpa using this
  cases q with
  | nil =>
    have : seg (u ++ []) u = .done [] := by rw [hseg]; simp [seg]
    rw [afterStar_of_done this]; simp [allStars]
  | cons c q =>
    by_cases hc : c = star
    · subst hc
      have : seg (u ++ star :: q) u = .star q [] := by rw [hseg, seg_star_cons]
      rw [afterStar_of_star this, afterStar_nil]
      simp [allStars]
    · have : seg (u ++ c :: q) u = .mismatch := by rw [hseg, seg_lit_nil hc]
      rw [afterStar_of_mismatch this]
      have hfalse : allStars (c :: q) = false := by simp [allStars, hc]
      rw [hfalse]
      by_cases hnil : u = []
      · simp [hnil]
      · simp only [hnil, if_false]
        -- a later alignment has even less input than the pattern has literals
        cases hres : afterStar (u ++ c :: q) u.tail with
        | false => rfl
        | true =>
          have hm := (afterStar_iff _ _).mp hres
          obtain ⟨w, r, hwr, hmr⟩ := matches_star_iff.mp hm
          have h1 := matches_litCount hmr
          have h2 : litCount (u ++ c :: q) ≥ u.length + 1 := by
            rw [litCount_append, litCount_lit hu]; simp [litCount, hc]
          have h3 : r.length ≤ u.tail.length := by
            have := congrArg List.length hwr; simp at this; omega
          have h4 : u.tail.length = u.length - 1 := by simp
          omega

/-! ### `skipStars` -/

theorem skipStars_eq (p : List B) (i : Nat) : skipStars p i = allStars (p.drop i) := by
  fun_induction skipStars p i with
  | case1 i h hs ih =>
    have hd : p.drop i = p[i] :: p.drop (i + 1) := List.drop_eq_getElem_cons h
    rw [ih, hd]
    simp [allStars, hs]
  | case2 i h hs =>
    have hd : p.drop i = p[i] :: p.drop (i + 1) := List.drop_eq_getElem_cons h
    have hmem : p[i] ∈ p.drop i := by rw [hd]; exact List.mem_cons_self
    have : allStars (p.drop i) = false := by
      simp only [allStars, List.all_eq_false]
      exact ⟨p[i], hmem, by simpa using hs⟩
    rw [this]
  | case3 i h =>
    rw [List.drop_eq_nil_of_le (by omega)]
    simp [allStars]

/-! ### the loop -/

/-- what a loop state means in terms of the list-level matcher -/
def sem (p s : List B) (i j : Nat) (st : Option Nat) (mark : Nat) : Bool :=
  match st with
  | none => glob (p.drop i) (s.drop j)
  | some t => afterStar (p.drop (t + 1)) (s.drop mark)

/-- progress invariant: since the last star, a literal stretch `u` of the pattern has been matched
against the input from `mark` on -/
def Progress (p s : List B) (i j : Nat) (st : Option Nat) (mark : Nat) : Prop :=
  match st with
  | none => True
  | some t => ∃ u, Lit u ∧ p.drop (t + 1) = u ++ p.drop i ∧ s.drop mark = u ++ s.drop j

theorem glob_star_cons (q r : List B) : glob (star :: q) r = afterStar q r := by
  simp [glob, seg_star_cons]

theorem glob_lit_cons {c : B} (hc : c ≠ star) (q r : List B) : glob (c :: q) (c :: r) = glob q r := by
  simp [glob, seg, hc]

theorem glob_lit_mismatch {c d : B} (hc : c ≠ star) (hcd : c ≠ d) (q r : List B) :
    glob (c :: q) (d :: r) = false := by
  simp [glob, seg_lit_mismatch hc hcd]

theorem glob_nil_cons (d : B) (r : List B) : glob [] (d :: r) = false := by simp [glob, seg]

theorem idxLoop_sem (p s : List B) (i j : Nat) (st : Option Nat) (mark : Nat)
    (hst : starRank st ≤ i) (hm : mark ≤ j) (hi : i ≤ p.length) (hp : Progress p s i j st mark) :
    idxLoop p s i j st mark hst hm hi = sem p s i j st mark := by
  fun_induction idxLoop p s i j st mark hst hm hi with
  | case1 i j st mark hst hm hi hj h1 hstar ih =>
    -- a new star at i
    have hpd : p.drop i = star :: p.drop (i + 1) := by rw [List.drop_eq_getElem_cons h1, hstar]
    rw [ih ⟨[], lit_nil, rfl, rfl⟩]
    cases st with
    | none => simp only [sem, hpd, glob_star_cons]
    | some t =>
      obtain ⟨u, hu, hpu, hsu⟩ := hp
      simp only [sem]
      rw [hpu, hsu, hpd]
      have := seg_lit_prefix hu (star :: p.drop (i + 1)) (s.drop j)
      rw [seg_star_cons] at this
      exact (afterStar_of_star this).symm
  | case2 i j st mark hst hm hi hj h1 hstar hlit ih =>
    -- a literal matched
    have hpd : p.drop i = p[i] :: p.drop (i + 1) := List.drop_eq_getElem_cons h1
    have hsd : s.drop j = s[j] :: s.drop (j + 1) := List.drop_eq_getElem_cons hj
    cases st with
    | none =>
      rw [ih trivial]
      simp only [sem]
      rw [hpd, hsd, hlit, glob_lit_cons (by rw [← hlit]; exact hstar)]
    | some t =>
      obtain ⟨u, hu, hpu, hsu⟩ := hp
      rw [ih ⟨u ++ [p[i]], ?_, ?_, ?_⟩]
      · rfl
      · intro y hy
        rcases List.mem_append.mp hy with hy | hy
        · exact hu y hy
        · simp at hy; rw [hy]; exact hstar
      · rw [hpu, hpd]; simp
      · rw [hsu, hsd, hlit]; simp
  | case3 i j mark hm hi hj h1 hstar hlit t hst _ ih =>
    -- mismatch after a star: the star absorbs one more byte
    have hpd : p.drop i = p[i] :: p.drop (i + 1) := List.drop_eq_getElem_cons h1
    have hsd : s.drop j = s[j] :: s.drop (j + 1) := List.drop_eq_getElem_cons hj
    obtain ⟨u, hu, hpu, hsu⟩ := hp
    rw [ih ⟨[], lit_nil, rfl, rfl⟩]
    simp only [sem]
    have hseg : seg (p.drop (t + 1)) (s.drop mark) = .mismatch := by
      rw [hpu, hsu, seg_lit_prefix hu, hpd, hsd]
      exact seg_lit_mismatch hstar hlit _ _
    rw [afterStar_of_mismatch hseg]
    have hne : s.drop mark ≠ [] := by
      rw [hsu, hsd]; exact List.append_ne_nil_of_right_ne_nil _ (List.cons_ne_nil _ _)
    simp only [hne, if_false]
    rw [List.tail_drop]
  | case4 i j mark hm hi hj h1 hstar hlit hst _ =>
    -- mismatch with no star to fall back on
    have hpd : p.drop i = p[i] :: p.drop (i + 1) := List.drop_eq_getElem_cons h1
    have hsd : s.drop j = s[j] :: s.drop (j + 1) := List.drop_eq_getElem_cons hj
    simp only [sem]
    rw [hpd, hsd, glob_lit_mismatch hstar hlit]
  | case5 i j mark hm hi hj h1 t hst _ ih =>
    -- pattern exhausted, input left, after a star
    obtain ⟨u, hu, hpu, hsu⟩ := hp
    have hpe : p.drop i = [] := List.drop_eq_nil_of_le (by omega)
    have hsd : s.drop j = s[j] :: s.drop (j + 1) := List.drop_eq_getElem_cons hj
    rw [ih ⟨[], lit_nil, rfl, rfl⟩]
    simp only [sem]
    have hseg : seg (p.drop (t + 1)) (s.drop mark) = .done (s[j] :: s.drop (j + 1)) := by
      rw [hpu, hsu, hpe, hsd]
      have := seg_lit_prefix hu [] (s[j] :: s.drop (j + 1))
      rw [this]; simp [seg]
    rw [afterStar_of_done hseg]
    have hne : s.drop mark ≠ [] := by
      rw [hsu, hsd]; exact List.append_ne_nil_of_right_ne_nil _ (List.cons_ne_nil _ _)
    have hb : ((s[j] :: s.drop (j + 1)) == ([] : List B)) = false := rfl
    simp only [hne, if_false, List.tail_drop, hb, Bool.false_or]
  | case6 i j mark hm hi hj h1 hst _ =>
    have hpe : p.drop i = [] := List.drop_eq_nil_of_le (by omega)
    have hsd : s.drop j = s[j] :: s.drop (j + 1) := List.drop_eq_getElem_cons hj
    simp only [sem]
    rw [hpe, hsd, glob_nil_cons]
  | case7 i j st mark hst hm hi hj =>
    -- input exhausted
    have hse : s.drop j = [] := List.drop_eq_nil_of_le (by omega)
    rw [skipStars_eq]
    cases st with
    | none => simp only [sem]; rw [hse, glob_nil_input]
    | some t =>
      obtain ⟨u, hu, hpu, hsu⟩ := hp
      simp only [sem]
      rw [hpu, hsu, hse, List.append_nil, afterStar_exhausted hu]

/-- the code's loop computes the segment/backtrack matcher -/
theorem globIdx_eq_glob (p s : List B) : globIdx p s = glob p s := by
  have := idxLoop_sem p s 0 0 none 0 (by simp [starRank]) (Nat.le_refl _) (Nat.zero_le _) trivial
  simpa [sem, globIdx] using this

end Glob
