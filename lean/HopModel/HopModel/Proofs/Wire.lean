/-
Helper lemmas for the wire-format theorems (C18, decoder half of C11).

Three small calculi over the reader combinators of `Model/Wire.lean`:
  `Reads m xs v`     reading `xs ++ rest` with `m` yields `v` and leaves `rest`        (round trips)
  `Post m P`         whatever `m` returns successfully satisfies `P`                   (re-encode stability)
  `Bnd m c kOk kErr` allocation counter ≤ c·consumed + kOk on success, + kErr on error (C11)
-/
import HopModel.Model.Wire
namespace Wire
open Bytes

/-! ### decoding without the counter commutes with the combinators -/

theorem dec_def (m : R α) (bs : Bytes) :
    m.dec bs = match m bs with | (.ok v, r, _) => .ok (v, r) | (.error e, _, _) => .error e := rfl

theorem bind_apply (m : R α) (f : α → R β) (bs : Bytes) :
    (m >>= f) bs = match m bs with
      | (.ok v, r, a) => match f v r with | (res, r', a') => (res, r', a + a')
      | (.error e, r, a) => (.error e, r, a) := rfl

theorem pure_apply (v : α) (bs : Bytes) : (pure v : R α) bs = (.ok v, bs, 0) := rfl

theorem dec_bind_apply (m : R α) (f : α → R β) (bs : Bytes) :
    (m >>= f).dec bs = match m.dec bs with
      | .ok (v, r) => (f v).dec r
      | .error e => .error e := by
  simp only [dec_def, bind_apply]
  rcases h : m bs with ⟨res, r, a⟩
  cases res with
  | error e => rfl
  | ok v =>
    simp only
    rcases h2 : f v r with ⟨res2, r2, a2⟩
    cases res2 <;> rfl

theorem dec_bind_of_ok {m : R α} {f : α → R β} {bs r : Bytes} {v : α} (h : m.dec bs = .ok (v, r)) :
    (m >>= f).dec bs = (f v).dec r := by
  rw [dec_bind_apply, h]

theorem dec_bind_ok {m : R α} {f : α → R β} {bs r : Bytes} {w : β} (h : (m >>= f).dec bs = .ok (w, r)) :
    ∃ v r', m.dec bs = .ok (v, r') ∧ (f v).dec r' = .ok (w, r) := by
  rw [dec_bind_apply] at h
  split at h
  · rename_i v r' hm; exact ⟨v, r', hm, h⟩
  · cases h

theorem dec_pure (v : α) (bs : Bytes) : (pure v : R α).dec bs = .ok (v, bs) := rfl
theorem dec_fail (e : Err) (bs : Bytes) : (R.fail e : R α).dec bs = .error e := rfl
theorem dec_allocate (n : Nat) (bs : Bytes) : (allocate n).dec bs = .ok ((), bs) := rfl
theorem dec_u8_cons (b : UInt8) (r : Bytes) : u8.dec (b :: r) = .ok (b, r) := rfl
theorem dec_u8_nil : u8.dec [] = .error .short := rfl

theorem dec_readN (n : Nat) (bs : Bytes) :
    (readN n).dec bs = if n ≤ bs.length then .ok (bs.take n, bs.drop n) else .error .short := by
  by_cases h : n ≤ bs.length <;> simp [dec_def, readN, h]

theorem toNat_ofNat_lt {n : Nat} (h : n < 256) : (UInt8.ofNat n).toNat = n := by
  simp; omega

/-! ### `Reads` -/

def Reads (m : R α) (xs : Bytes) (v : α) : Prop := ∀ rest, m.dec (xs ++ rest) = .ok (v, rest)

theorem Reads.congr {m : R α} {xs ys : Bytes} {v : α} (h : Reads m xs v) (e : xs = ys) : Reads m ys v := e ▸ h

theorem reads_pure (v : α) : Reads (pure v : R α) [] v := fun _ => rfl

theorem reads_bind {m : R α} {f : α → R β} {xs ys : Bytes} {v : α} {w : β}
    (h1 : Reads m xs v) (h2 : Reads (f v) ys w) : Reads (m >>= f) (xs ++ ys) w := by
  intro rest
  rw [List.append_assoc, dec_bind_of_ok (h1 (ys ++ rest))]
  exact h2 rest

theorem reads_pure_eq {v w : α} (h : v = w) : Reads (pure v : R α) [] w := h ▸ reads_pure v

theorem reads_bind_nil {m : R α} {f : α → R β} {ys : Bytes} {v : α} {w : β}
    (h1 : Reads m [] v) (h2 : Reads (f v) ys w) : Reads (m >>= f) ys w :=
  reads_bind h1 h2

theorem reads_map {m : R α} {xs : Bytes} {v : α} (g : α → β) (h : Reads m xs v) :
    Reads (m >>= fun x => pure (g x)) xs (g v) :=
  (reads_bind (f := fun x => pure (g x)) h (reads_pure (g v))).congr (List.append_nil _)

theorem reads_u8 (b : UInt8) : Reads u8 [b] b := fun _ => rfl
theorem reads_allocate (n : Nat) : Reads (allocate n) [] () := fun _ => rfl

theorem reads_readN {n : Nat} {xs : Bytes} (h : xs.length = n) : Reads (readN n) xs xs := by
  intro rest
  rw [dec_readN, if_pos (by simp; omega), List.take_left' h, List.drop_left' h]

theorem reads_uBE {k n : Nat} (h : n < 256 ^ k) : Reads (uBE k) (toBE k n) n := by
  have := reads_bind (f := fun b => (pure (fromBE b) : R Nat)) (reads_readN (toBE_length k n)) (reads_pure _)
  rw [fromBE_toBE k n h] at this
  exact this.congr (by simp)

/-! ### `Post` -/

def Post (m : R α) (P : α → Prop) : Prop := ∀ bs v r, m.dec bs = .ok (v, r) → P v

theorem post_bind {m : R α} {f : α → R β} {P : α → Prop} {Q : β → Prop}
    (h1 : Post m P) (h2 : ∀ v, P v → Post (f v) Q) : Post (m >>= f) Q := by
  intro bs w r h
  obtain ⟨v, r', hm, hf⟩ := dec_bind_ok h
  exact h2 v (h1 _ _ _ hm) _ _ _ hf

theorem post_pure {v : α} {P : α → Prop} (h : P v) : Post (pure v : R α) P := by
  intro bs w r hw
  cases hw; exact h

theorem post_fail {e : Err} {P : α → Prop} : Post (R.fail e : R α) P := by
  intro bs w r hw; cases hw

theorem post_true (m : R α) : Post m (fun _ => True) := fun _ _ _ _ => trivial

theorem post_ite {c : Prop} [Decidable c] {a b : R α} {P : α → Prop}
    (ha : c → Post a P) (hb : ¬ c → Post b P) : Post (if c then a else b) P := by
  split
  · exact ha ‹_›
  · exact hb ‹_›

theorem post_readN (n : Nat) : Post (readN n) (fun x => x.length = n) := by
  intro bs v r h
  rw [dec_readN] at h
  split at h
  · cases h; simp; omega
  · cases h

theorem post_uBE (k : Nat) : Post (uBE k) (fun n => n < 256 ^ k) := by
  refine post_bind (post_readN k) ?_
  intro b hb
  refine post_pure ?_
  have := fromBE_lt b
  rwa [hb] at this

theorem Post.mono {m : R α} {P Q : α → Prop} (h : Post m P) (hpq : ∀ v, P v → Q v) : Post m Q :=
  fun bs v r hv => hpq v (h bs v r hv)

/-! ### strings with a one-byte length -/

theorem reads_str {s : Bytes} (h : s.length ≤ 255) : Reads rdStr (UInt8.ofNat s.length :: s) s := by
  have hl : (UInt8.ofNat s.length).toNat = s.length := toNat_ofNat_lt (by omega)
  refine (reads_bind (reads_u8 _) (reads_bind_nil (reads_allocate _) ?_)).congr rfl
  exact reads_readN hl.symm

theorem post_str : Post rdStr (fun s => s.length ≤ 255) := by
  refine post_bind (post_true _) fun l _ => post_bind (post_true _) fun _ _ => ?_
  refine (post_readN _).mono fun v hv => ?_
  have := l.toNat_lt
  omega

/-! ### id blocks -/

theorem reads_name {n : Name} (h : n.label.length ≤ 252) :
    Reads rdName ([UInt8.ofNat (n.label.length + 3), n.type, UInt8.ofNat n.label.length] ++ n.label) n := by
  have h1 : (UInt8.ofNat (n.label.length + 3)).toNat = n.label.length + 3 := toNat_ofNat_lt (by omega)
  have h2 : (UInt8.ofNat n.label.length).toNat = n.label.length := toNat_ofNat_lt (by omega)
  unfold rdName
  refine (reads_bind (ys := [n.type, UInt8.ofNat n.label.length] ++ n.label) (reads_u8 _) ?_).congr rfl
  rw [if_neg (by omega)]
  refine (reads_bind (reads_u8 _) (reads_bind (ys := n.label) (reads_u8 _) ?_)).congr rfl
  rw [if_neg (by omega)]
  refine reads_bind_nil (reads_allocate _) ?_
  exact reads_map (fun lab => (⟨lab, n.type⟩ : Name)) (reads_readN h2.symm)

theorem post_name : Post rdName (fun n => n.label.length ≤ 252) := by
  unfold rdName
  refine post_bind (post_true _) fun bsz _ => post_ite (fun _ => post_fail) fun h1 => ?_
  refine post_bind (post_true _) fun t _ => post_bind (post_true _) fun l _ => ?_
  refine post_ite (fun _ => post_fail) fun h2 => ?_
  refine post_bind (post_true _) fun _ _ => post_bind (post_readN _) fun lab hlab => post_pure ?_
  have := bsz.toNat_lt
  simp only; omega

/-! ### id chunks -/

def NamesOK (ns : List Name) : Prop := ∀ n ∈ ns, n.label.length ≤ 252

def nameBytes (n : Name) : Bytes :=
  [UInt8.ofNat (n.label.length + 3), n.type, UInt8.ofNat n.label.length] ++ n.label

def namesBytes : List Name → Bytes
  | [] => []
  | n :: ns => nameBytes n ++ namesBytes ns

def blocksLen (ns : List Name) : Nat := (ns.map blockSize).sum

theorem encName_ok {n : Name} (h : n.label.length ≤ 252) : encName n = .ok (nameBytes n) := by
  simp [encName, nameBytes, h]

theorem encName_err {n : Name} (h : ¬ n.label.length ≤ 252) : encName n = .error .tooLong := by
  simp [encName, h]

theorem encNames_ok {ns : List Name} (h : NamesOK ns) : encNames ns = .ok (namesBytes ns) := by
  induction ns with
  | nil => rfl
  | cons n ns ih =>
    have h1 : n.label.length ≤ 252 := h n (by simp)
    have h2 : NamesOK ns := fun m hm => h m (by simp [hm])
    simp [encNames, encName_ok h1, ih h2, namesBytes, bind, Except.bind, pure, Except.pure]

theorem encNames_err {ns : List Name} (h : ¬ NamesOK ns) : ∃ e, encNames ns = .error e := by
  induction ns with
  | nil => exact absurd (fun _ hm => by cases hm) h
  | cons n ns ih =>
    by_cases h1 : n.label.length ≤ 252
    · have h2 : ¬ NamesOK ns := fun hns => h (fun m hm => by
        rcases List.mem_cons.mp hm with rfl | hm
        · exact h1
        · exact hns m hm)
      obtain ⟨e, he⟩ := ih h2
      exact ⟨e, by simp [encNames, encName_ok h1, he, bind, Except.bind]⟩
    · exact ⟨.tooLong, by simp [encNames, encName_err h1, bind, Except.bind]⟩

theorem reads_names {ns : List Name} (h : NamesOK ns) : Reads (rdNames (blocksLen ns)) (namesBytes ns) ns := by
  induction ns with
  | nil => rw [rdNames]; exact reads_pure _
  | cons n ns ih =>
    have h1 : n.label.length ≤ 252 := h n (by simp)
    have h2 : NamesOK ns := fun m hm => h m (by simp [hm])
    have hb : blocksLen (n :: ns) = (n.label.length + 3) + blocksLen ns := by
      simp [blocksLen, blockSize]
    rw [rdNames, dif_neg (by omega)]
    refine reads_bind (reads_name h1) ?_
    rw [if_neg (by omega)]
    have : blocksLen (n :: ns) - (n.label.length + 3) = blocksLen ns := by omega
    rw [this]
    exact reads_map (fun t => n :: t) (ih h2)

theorem post_names (rem : Nat) : Post (rdNames rem) (fun ns => NamesOK ns ∧ blocksLen ns = rem) := by
  induction rem using Nat.strongRecOn with
  | _ rem ih =>
    rw [rdNames]
    split
    · rename_i h0
      exact post_pure ⟨fun _ hm => (nomatch hm), by simp [blocksLen, h0]⟩
    · rename_i hrem
      refine post_bind post_name fun n hn => post_ite (fun _ => post_fail) fun hle => ?_
      refine post_bind (ih (rem - (n.label.length + 3)) (by omega)) fun t ht => post_pure ?_
      refine ⟨fun m hm => ?_, ?_⟩
      · rcases List.mem_cons.mp hm with rfl | hm
        · exact hn
        · exact ht.1 m hm
      · have := ht.2
        simp only [blocksLen, List.map_cons, List.sum_cons, blockSize] at this ⊢
        omega

/-- what `IDChunk.WriteTo` can write -/
def ChunkOK (ns : List Name) : Prop := NamesOK ns ∧ chunkLen ns ≤ 512

theorem chunkLen_eq (ns : List Name) : chunkLen ns = 2 + blocksLen ns := rfl

theorem encChunk_ok {ns : List Name} (h : ChunkOK ns) :
    encChunk ns = .ok (toBE 2 (chunkLen ns) ++ namesBytes ns) := by
  simp [encChunk, h.2, encNames_ok h.1, bind, Except.bind, pure, Except.pure]

theorem encChunk_err {ns : List Name} (h : ¬ ChunkOK ns) : ∃ e, encChunk ns = .error e := by
  by_cases h2 : chunkLen ns ≤ 512
  · have h1 : ¬ NamesOK ns := fun hn => h ⟨hn, h2⟩
    obtain ⟨e, he⟩ := encNames_err h1
    exact ⟨e, by simp [encChunk, h2, he, bind, Except.bind]⟩
  · exact ⟨.tooLong, by simp [encChunk, h2]⟩

theorem reads_chunk {ns : List Name} (h : ChunkOK ns) :
    Reads rdChunk (toBE 2 (chunkLen ns) ++ namesBytes ns) ns := by
  have hl := h.2
  have hge : 2 ≤ chunkLen ns := by rw [chunkLen_eq]; omega
  unfold rdChunk
  refine reads_bind (reads_uBE (by omega)) ?_
  rw [if_neg (by omega)]
  have : chunkLen ns - 2 = blocksLen ns := by rw [chunkLen_eq]; omega
  rw [this]
  exact reads_names h.1

theorem post_chunk : Post rdChunk ChunkOK := by
  unfold rdChunk
  refine post_bind (post_true _) fun l _ => post_ite (fun _ => post_fail) fun hl => ?_
  refine (post_names _).mono fun ns hns => ⟨hns.1, ?_⟩
  rw [chunkLen_eq, hns.2]; omega

/-! ### times -/

/-- the Unix times that survive the wire: the readers refuse anything above `math.MaxInt64`, i.e.
the two's complement of a time before 1970 -/
def TimeOK (t : Int) : Prop := 0 ≤ t ∧ t < 2 ^ 63

theorem reads_time {t : Int} (h : TimeOK t) : Reads rdTime (encTime t) t := by
  obtain ⟨h0, h1⟩ := h
  have hm : (t % 2 ^ 64).toNat = t.toNat := by
    rw [Int.emod_eq_of_lt h0 (by omega)]
  have hlt : t.toNat < 2 ^ 63 := by omega
  unfold rdTime encTime
  rw [hm]
  refine (reads_bind (reads_uBE (k := 8) (by omega)) ?_).congr (List.append_nil _)
  rw [if_neg (by omega)]
  have : Int.ofNat t.toNat = t := by simp [Int.toNat_of_nonneg h0]
  rw [this]
  exact reads_pure _

theorem post_time : Post rdTime TimeOK := by
  unfold rdTime
  refine post_bind (post_true _) fun t _ => post_ite (fun _ => post_fail) fun h => post_pure ?_
  constructor
  · exact Int.natCast_nonneg t
  · show (t : Int) < 2 ^ 63
    omega

/-- a time before 1970 is written (as its two's complement) but never read back -/
theorem time_negative_not_read {t : Int} (h0 : -(2 ^ 63) ≤ t) (h1 : t < 0) (rest : Bytes) :
    rdTime.dec (encTime t ++ rest) = .error .invalid := by
  have hm : (t % 2 ^ 64).toNat = (t + 2 ^ 64).toNat := by
    have : t % 2 ^ 64 = t + 2 ^ 64 := by
      rw [← Int.add_emod_right, Int.emod_eq_of_lt (by omega) (by omega)]
    rw [this]
  unfold rdTime encTime
  rw [hm]
  have hlt : (t + 2 ^ 64).toNat < 256 ^ 8 := by omega
  rw [dec_bind_of_ok (reads_uBE hlt rest), if_pos (by omega)]
  rfl

/-! ### certificates -/

/-- the fixed-size arrays of the Go struct -/
def CertTyped (c : Cert) : Prop := c.pub.length = 32 ∧ c.parent.length = 32 ∧ c.sig.length = 64

def CertOK (c : Cert) : Prop := CertTyped c ∧ ChunkOK c.chunk ∧ TimeOK c.issuedAt ∧ TimeOK c.expiresAt

def chunkBytes (ns : List Name) : Bytes := toBE 2 (chunkLen ns) ++ namesBytes ns

def certBytes (c : Cert) : Bytes :=
  [c.version, c.type, 0, 0] ++ (encTime c.issuedAt ++ (encTime c.expiresAt ++
    (c.pub ++ (c.parent ++ (chunkBytes c.chunk ++ c.sig)))))

theorem encCert_ok {c : Cert} (h : ChunkOK c.chunk) : encCert c = .ok (certBytes c) := by
  simp [encCert, encChunk_ok h, certBytes, chunkBytes, bind, Except.bind, pure, Except.pure]

theorem encCert_err {c : Cert} (h : ¬ ChunkOK c.chunk) : ∃ e, encCert c = .error e := by
  obtain ⟨e, he⟩ := encChunk_err h
  exact ⟨e, by simp [encCert, he, bind, Except.bind]⟩

theorem reads_u8_bind {f : UInt8 → R β} {b : UInt8} {ys : Bytes} {w : β} (h : Reads (f b) ys w) :
    Reads (u8 >>= f) (b :: ys) w :=
  reads_bind (reads_u8 b) h

theorem reads_cert {c : Cert} (h : CertOK c) : Reads rdCert (certBytes c) c := by
  obtain ⟨⟨hp, hpar, hs⟩, hch, hia, hea⟩ := h
  unfold rdCert certBytes
  simp only [List.cons_append, List.nil_append]
  refine reads_u8_bind (reads_u8_bind ?_)
  refine (reads_bind (xs := [0, 0]) (reads_readN rfl) ?_).congr rfl
  refine reads_bind (reads_time hia) (reads_bind (reads_time hea) (reads_bind_nil (reads_allocate _) ?_))
  refine reads_bind (reads_readN hp) (reads_bind (reads_readN hpar) (reads_bind (reads_chunk hch) ?_))
  exact reads_map (fun sg => (⟨c.version, c.type, c.issuedAt, c.expiresAt, c.pub, c.parent, c.chunk, sg⟩ : Cert))
      (reads_readN hs)

theorem post_cert : Post rdCert CertOK := by
  unfold rdCert
  refine post_bind (post_true _) fun v _ => post_bind (post_true _) fun t _ => post_bind (post_true _) fun _ _ => ?_
  refine post_bind post_time fun ia hia => post_bind post_time fun ea hea => post_bind (post_true _) fun _ _ => ?_
  refine post_bind (post_readN _) fun pk hpk => post_bind (post_readN _) fun par hpar => ?_
  refine post_bind post_chunk fun ch hch => post_bind (post_readN _) fun sg hsg => post_pure ?_
  exact ⟨⟨hpk, hpar, hsg⟩, hch, hia, hea⟩

/-! ### intents and grant messages -/

/-- what `Intent.WriteTo` checks: lengths that fit their length bytes and a grant type whose
associated data has a wire format -/
def IntentFits (i : Intent) : Prop :=
  i.sni.label.length ≤ 252 ∧ i.user.length ≤ 255 ∧ ChunkOK i.cert.chunk ∧
  (i.grantType = 2 → i.cmd.length ≤ 255) ∧ i.grantType ≠ 3 ∧ i.grantType ≠ 4

/-- representable intents: `IntentFits`, the ranges of the Go field types (`uint16` port, fixed
arrays), times from 1970 on, and no command where the grant type carries none -/
def IntentOK (i : Intent) : Prop :=
  IntentFits i ∧ i.port < 65536 ∧ TimeOK i.start ∧ TimeOK i.exp ∧ CertOK i.cert ∧
  (i.grantType ≠ 2 → i.cmd = [])

def strBytes (s : Bytes) : Bytes := UInt8.ofNat s.length :: s

def assocBytes (i : Intent) : Bytes := if i.grantType = 2 then strBytes i.cmd else []

def intentBytes (i : Intent) : Bytes :=
  [i.grantType, i.reserved] ++ (toBE 2 i.port ++ (encTime i.start ++ (encTime i.exp ++
    (nameBytes i.sni ++ (strBytes i.user ++ (certBytes i.cert ++ assocBytes i))))))

theorem encStr_ok {s : Bytes} (h : s.length ≤ 255) : encStr s = .ok (strBytes s) := by
  simp [encStr, strBytes, h]

theorem encStr_err {s : Bytes} (h : ¬ s.length ≤ 255) : encStr s = .error .tooLong := by
  simp [encStr, h]

theorem encIntent_ok {i : Intent} (h : IntentFits i) : encIntent i = .ok (intentBytes i) := by
  obtain ⟨h1, h2, h3, h4, h5, h6⟩ := h
  by_cases hg : i.grantType = 2
  · simp [encIntent, encName_ok h1, encStr_ok h2, encCert_ok h3, encStr_ok (h4 hg), hg, intentBytes, assocBytes,
      bind, Except.bind, pure, Except.pure]
  · simp [encIntent, encName_ok h1, encStr_ok h2, encCert_ok h3, hg, h5, h6, intentBytes, assocBytes,
      bind, Except.bind, pure, Except.pure]

theorem encIntent_err {i : Intent} (h : ¬ IntentFits i) : ∃ e, encIntent i = .error e := by
  by_cases h1 : i.sni.label.length ≤ 252
  · by_cases h2 : i.user.length ≤ 255
    · by_cases h3 : ChunkOK i.cert.chunk
      · by_cases hg : i.grantType = 2
        · have h4 : ¬ i.cmd.length ≤ 255 := fun h4 => h ⟨h1, h2, h3, fun _ => h4, by simp [hg], by simp [hg]⟩
          exact ⟨.tooLong, by simp [encIntent, encName_ok h1, encStr_ok h2, encCert_ok h3, encStr_err h4, hg,
            bind, Except.bind]⟩
        · have h5 : i.grantType = 3 ∨ i.grantType = 4 := by
            by_cases a : i.grantType = 3
            · exact .inl a
            · by_cases b : i.grantType = 4
              · exact .inr b
              · exact absurd ⟨h1, h2, h3, fun g => absurd g hg, a, b⟩ h
          exact ⟨.unimplemented, by simp [encIntent, encName_ok h1, encStr_ok h2, encCert_ok h3, hg, h5,
            bind, Except.bind]⟩
      · obtain ⟨e, he⟩ := encCert_err h3
        exact ⟨e, by simp [encIntent, encName_ok h1, encStr_ok h2, he, bind, Except.bind]⟩
    · exact ⟨.tooLong, by simp [encIntent, encName_ok h1, encStr_err h2, bind, Except.bind]⟩
  · exact ⟨.tooLong, by simp [encIntent, encName_err h1, bind, Except.bind]⟩

theorem reads_intent {i : Intent} (h : IntentOK i) : Reads rdIntent (intentBytes i) i := by
  obtain ⟨⟨h1, h2, _, h4, h5, h6⟩, hport, hst, hex, hcert, hcmd⟩ := h
  unfold rdIntent intentBytes
  simp only [List.cons_append, List.nil_append]
  refine reads_u8_bind (reads_u8_bind ?_)
  refine reads_bind (reads_uBE (by omega)) (reads_bind (reads_time hst) (reads_bind (reads_time hex) ?_))
  refine reads_bind (reads_name h1) (reads_bind (reads_str h2) (reads_bind (reads_cert hcert) ?_))
  by_cases hg : i.grantType = 2
  · rw [if_pos hg]
    have : assocBytes i = strBytes i.cmd := by simp [assocBytes, hg]
    rw [this]
    exact reads_map (fun cmd => (⟨i.grantType, i.reserved, i.port, i.start, i.exp, i.sni, i.user, i.cert, cmd⟩ : Intent))
      (reads_str (h4 hg))
  · rw [if_neg hg, if_neg (by simp [h5, h6])]
    have : assocBytes i = [] := by simp [assocBytes, hg]
    rw [this]
    have hc := hcmd hg
    have hi : (⟨i.grantType, i.reserved, i.port, i.start, i.exp, i.sni, i.user, i.cert, []⟩ : Intent) = i := by
      rw [← hc]
    exact reads_bind_nil (reads_pure _) (reads_pure_eq hi)

theorem post_intent : Post rdIntent IntentOK := by
  unfold rdIntent
  refine post_bind (post_true _) fun gt _ => post_bind (post_true _) fun rs _ => ?_
  refine post_bind (post_uBE 2) fun port hport => post_bind post_time fun st hst => post_bind post_time fun ex hex => ?_
  refine post_bind post_name fun sni hsni => post_bind post_str fun user huser => post_bind post_cert fun cert hcert => ?_
  by_cases hg : gt = 2
  · rw [if_pos hg]
    refine post_bind post_str fun cmd hcmd => post_pure ?_
    refine ⟨⟨hsni, huser, hcert.2.1, fun _ => hcmd, ?_, ?_⟩, hport, hst, hex, hcert, fun g => absurd hg g⟩ <;> simp [hg]
  · rw [if_neg hg]
    by_cases h34 : gt = 3 ∨ gt = 4
    · rw [if_pos h34]; exact post_bind (P := fun _ => False) post_fail fun _ h => h.elim
    · rw [if_neg h34]
      refine post_bind (P := fun c => c = []) (post_pure rfl) fun cmd hcmd => post_pure ?_
      refine ⟨⟨hsni, huser, hcert.2.1, fun g => absurd g hg, fun g => h34 (.inl g), fun g => h34 (.inr g)⟩,
        hport, hst, hex, hcert, fun _ => hcmd⟩

def AgFits : AgMsg → Prop
  | .request i | .communication i => IntentFits i
  | .denied s => s.length ≤ 255
  | _ => True

/-- representable grant messages (an `unknown` type byte must really be unknown) -/
def AgOK : AgMsg → Prop
  | .request i | .communication i => IntentOK i
  | .confirmation => True
  | .denied s => s.length ≤ 255
  | .unknown t => t ≠ 1 ∧ t ≠ 2 ∧ t ≠ 3 ∧ t ≠ 4

def agBytes : AgMsg → Bytes
  | .request i => 1 :: intentBytes i
  | .communication i => 2 :: intentBytes i
  | .confirmation => [3]
  | .denied s => 4 :: strBytes s
  | .unknown t => [t]

theorem encAg_ok {m : AgMsg} (h : AgFits m) : encAg m = .ok (agBytes m) := by
  cases m with
  | request i => simp [encAg, encIntent_ok (show IntentFits i from h), agBytes, bind, Except.bind, pure, Except.pure]
  | communication i => simp [encAg, encIntent_ok (show IntentFits i from h), agBytes, bind, Except.bind, pure, Except.pure]
  | confirmation => rfl
  | denied s => simp [encAg, encStr_ok (show s.length ≤ 255 from h), agBytes, bind, Except.bind, pure, Except.pure]
  | unknown t => rfl

theorem encAg_err {m : AgMsg} (h : ¬ AgFits m) : ∃ e, encAg m = .error e := by
  cases m with
  | request i =>
    obtain ⟨e, he⟩ := encIntent_err (show ¬ IntentFits i from h)
    exact ⟨e, by simp [encAg, he, bind, Except.bind]⟩
  | communication i =>
    obtain ⟨e, he⟩ := encIntent_err (show ¬ IntentFits i from h)
    exact ⟨e, by simp [encAg, he, bind, Except.bind]⟩
  | confirmation => exact absurd trivial h
  | denied s => exact ⟨.tooLong, by simp [encAg, encStr_err (show ¬ s.length ≤ 255 from h), bind, Except.bind]⟩
  | unknown t => exact absurd trivial h

theorem reads_ag {m : AgMsg} (h : AgOK m) : Reads rdAg (agBytes m) m := by
  unfold rdAg
  cases m with
  | request i => exact reads_u8_bind (by rw [if_pos rfl]; exact reads_map AgMsg.request (reads_intent h))
  | communication i =>
    exact reads_u8_bind (by rw [if_neg (by decide), if_pos rfl]; exact reads_map AgMsg.communication (reads_intent h))
  | confirmation =>
    exact reads_u8_bind (by rw [if_neg (by decide), if_neg (by decide), if_pos rfl]; exact reads_pure _)
  | denied s =>
    exact reads_u8_bind (by
      rw [if_neg (by decide), if_neg (by decide), if_neg (by decide), if_pos rfl]
      exact reads_map AgMsg.denied (reads_str h))
  | unknown t =>
    obtain ⟨h1, h2, h3, h4⟩ := h
    exact reads_u8_bind (by rw [if_neg h1, if_neg h2, if_neg h3, if_neg h4]; exact reads_pure _)

theorem post_ag : Post rdAg AgOK := by
  unfold rdAg
  refine post_bind (post_true _) fun t _ => ?_
  refine post_ite (fun _ => post_bind post_intent fun i hi => post_pure hi) fun h1 => ?_
  refine post_ite (fun _ => post_bind post_intent fun i hi => post_pure hi) fun h2 => ?_
  refine post_ite (fun _ => post_pure trivial) fun h3 => ?_
  refine post_ite (fun _ => post_bind post_str fun s hs => post_pure hs) fun h4 => ?_
  exact post_pure ⟨h1, h2, h3, h4⟩

/-! ### frames -/

theorem flags_rt (f : Flags) : flagsOf (metaOf f) = f := by
  rcases f with ⟨a, b, c, d, e, g⟩
  cases a <;> cases b <;> cases c <;> cases d <;> cases e <;> cases g <;> decide

/-- frames whose encoding is a datagram (≤ 65535 bytes) and whose length field says what the
data is; the other two conditions are the ranges of the `uint32` fields -/
def FrameOK (f : Frame) : Prop :=
  f.dataLength = f.data.length ∧ f.data.length + 12 ≤ 65535 ∧ f.ackNo < 2 ^ 32 ∧ f.frameNo < 2 ^ 32

theorem reads_frame {f : Frame} (h : FrameOK f) : Reads rdFrame (encFrame f) f := by
  obtain ⟨hd, hl, ha, hf⟩ := h
  unfold rdFrame encFrame
  simp only [List.cons_append, List.nil_append]
  refine reads_u8_bind (reads_u8_bind ?_)
  refine reads_bind (reads_uBE (by omega)) (reads_bind (reads_uBE (by omega)) (reads_bind (reads_uBE (by omega)) ?_))
  rw [if_neg (by omega)]
  rw [flags_rt]
  exact reads_map (fun data => (⟨f.tubeID, f.flags, f.dataLength, f.ackNo, f.frameNo, data⟩ : Frame))
    (reads_readN hd.symm)

theorem post_frame : Post rdFrame (fun f => FrameOK f ∧ ∃ m, f.flags = flagsOf m) := by
  unfold rdFrame
  refine post_bind (post_true _) fun tube _ => post_bind (post_true _) fun m _ => ?_
  refine post_bind (post_uBE 2) fun dl hdl => post_bind (post_uBE 4) fun ack hack => post_bind (post_uBE 4) fun fno hfno => ?_
  refine post_ite (fun _ => post_fail) fun hle => post_bind (post_readN _) fun data hdata => post_pure ?_
  exact ⟨⟨hdata.symm, by simp only; omega, hack, hfno⟩, m, rfl⟩

def InitFrameOK (f : InitFrame) : Prop :=
  f.dataLength = f.data.length ∧ f.data.length + 10 ≤ 65535 ∧ f.frameNo < 2 ^ 32

theorem reads_initFrame {f : InitFrame} (h : InitFrameOK f) : Reads rdInitFrame (encInitFrame f) f := by
  obtain ⟨hd, hl, hf⟩ := h
  unfold rdInitFrame encInitFrame
  simp only [List.cons_append, List.nil_append]
  refine reads_u8_bind (reads_u8_bind ?_)
  refine reads_bind (reads_uBE (by omega)) (reads_u8_bind (reads_u8_bind (reads_bind (reads_uBE (by omega)) ?_)))
  rw [if_neg (by omega)]
  rw [flags_rt]
  exact reads_map (fun data => (⟨f.tubeID, f.flags, f.dataLength, f.tubeType, f.frameNo, data⟩ : InitFrame))
    (reads_readN hd.symm)

theorem post_initFrame : Post rdInitFrame (fun f => InitFrameOK f ∧ ∃ m, f.flags = flagsOf m) := by
  unfold rdInitFrame
  refine post_bind (post_true _) fun tube _ => post_bind (post_true _) fun m _ => ?_
  refine post_bind (post_uBE 2) fun dl hdl => post_bind (post_true _) fun tt _ => post_bind (post_true _) fun _ _ => ?_
  refine post_bind (post_uBE 4) fun fno hfno => ?_
  refine post_ite (fun _ => post_fail) fun hle => post_bind (post_readN _) fun data hdata => post_pure ?_
  exact ⟨⟨hdata.symm, by simp only; omega, hfno⟩, m, rfl⟩

/-! ### exec requests -/

def SizeOK (s : WinSize) : Prop := s.rows < 65536 ∧ s.cols < 65536 ∧ s.x < 65536 ∧ s.y < 65536

/-- lengths that fit the 32-bit length fields, window dimensions in `uint16` -/
def ExecOK (m : ExecInit) : Prop :=
  m.cmd.length < 2 ^ 32 ∧ m.term.length < 2 ^ 32 ∧ ∀ s, m.size = some s → SizeOK s

theorem reads_len32 {s : Bytes} (h : s.length < 2 ^ 32) : Reads rdLen32 (toBE 4 s.length ++ s) s := by
  unfold rdLen32
  exact reads_bind (reads_uBE (by omega)) (reads_bind_nil (reads_allocate _) (reads_readN rfl))

theorem reads_len32_bind {f : Bytes → R β} {s ys : Bytes} {w : β} (h : s.length < 2 ^ 32)
    (h2 : Reads (f s) ys w) : Reads (rdLen32 >>= f) (toBE 4 s.length ++ (s ++ ys)) w :=
  (reads_bind (reads_len32 h) h2).congr (List.append_assoc ..)

theorem post_len32 : Post rdLen32 (fun s => s.length < 2 ^ 32) := by
  unfold rdLen32
  refine post_bind (post_uBE 4) fun l hl => post_bind (post_true _) fun _ _ => (post_readN _).mono fun v hv => ?_
  omega

theorem reads_size {s : WinSize} (h : SizeOK s) : Reads rdSize (encSize s) s := by
  obtain ⟨h1, h2, h3, h4⟩ := h
  unfold rdSize encSize
  refine reads_bind (reads_uBE (by omega)) (reads_bind (reads_uBE (by omega)) (reads_bind (reads_uBE (by omega)) ?_))
  exact reads_map (fun y => (⟨s.rows, s.cols, s.x, y⟩ : WinSize)) (reads_uBE (by omega))

theorem post_size : Post rdSize SizeOK := by
  unfold rdSize
  refine post_bind (post_uBE 2) fun r hr => post_bind (post_uBE 2) fun c hc => post_bind (post_uBE 2) fun x hx => ?_
  exact post_bind (post_uBE 2) fun y hy => post_pure ⟨hr, hc, hx, hy⟩

theorem reads_exec {m : ExecInit} (h : ExecOK m) : Reads rdExec (encExec m) m := by
  obtain ⟨h1, h2, h3⟩ := h
  rcases m with ⟨p, cmd, term, size⟩
  simp only at h1 h2 h3
  cases size with
  | none =>
    cases p
    · show Reads rdExec (0 :: (toBE 4 cmd.length ++ (cmd ++ (toBE 4 term.length ++ (term ++ []))))) _
      unfold rdExec
      refine reads_u8_bind (reads_len32_bind h1 (reads_len32_bind h2 ?_))
      rw [if_neg (by decide)]
      exact reads_bind_nil (reads_pure _) (reads_pure_eq rfl)
    · show Reads rdExec (1 :: (toBE 4 cmd.length ++ (cmd ++ (toBE 4 term.length ++ (term ++ []))))) _
      unfold rdExec
      refine reads_u8_bind (reads_len32_bind h1 (reads_len32_bind h2 ?_))
      rw [if_neg (by decide)]
      exact reads_bind_nil (reads_pure _) (reads_pure_eq rfl)
  | some s =>
    have hs := h3 s rfl
    cases p
    · show Reads rdExec (2 :: (toBE 4 cmd.length ++ (cmd ++ (toBE 4 term.length ++ (term ++ encSize s))))) _
      unfold rdExec
      refine reads_u8_bind (reads_len32_bind h1 (reads_len32_bind h2 ?_))
      rw [if_pos (by decide)]
      exact reads_map (fun size => (⟨false, cmd, term, size⟩ : ExecInit)) (reads_map some (reads_size hs))
    · show Reads rdExec (3 :: (toBE 4 cmd.length ++ (cmd ++ (toBE 4 term.length ++ (term ++ encSize s))))) _
      unfold rdExec
      refine reads_u8_bind (reads_len32_bind h1 (reads_len32_bind h2 ?_))
      rw [if_pos (by decide)]
      exact reads_map (fun size => (⟨true, cmd, term, size⟩ : ExecInit)) (reads_map some (reads_size hs))

theorem post_exec : Post rdExec ExecOK := by
  unfold rdExec
  refine post_bind (post_true _) fun t _ => post_bind post_len32 fun cmd hcmd => post_bind post_len32 fun term hterm => ?_
  split
  · refine post_bind (post_bind post_size fun s hs => post_pure (P := fun o => ∀ s', o = some s' → SizeOK s') ?_)
      fun o ho => post_pure ⟨hcmd, hterm, ho⟩
    intro s' h; cases h; exact hs
  · refine post_bind (post_pure (P := fun o => ∀ s', o = some s' → SizeOK s') ?_)
      fun o ho => post_pure ⟨hcmd, hterm, ho⟩
    intro s' h; cases h

/-! ### user-auth requests (`GetInitMsg` has no error result) -/

theorem dec_readPad (n : Nat) (bs : Bytes) :
    (readPad n).dec bs = .ok (bs.take n ++ List.replicate (n - bs.length) 0, bs.drop n) := rfl

theorem reads_readPad {n : Nat} {xs : Bytes} (h : xs.length = n) : Reads (readPad n) xs xs := by
  intro rest
  rw [dec_readPad, List.take_left' h, List.drop_left' h]
  have : n - (xs ++ rest).length = 0 := by simp; omega
  rw [this]; simp

theorem post_readPad (n : Nat) : Post (readPad n) (fun x => x.length = n) := by
  intro bs v r h
  rw [dec_readPad] at h
  cases h
  simp; omega

theorem reads_ua {u : Bytes} (h : u.length ≤ 65535) : Reads rdUA (toBE 2 u.length ++ u) u := by
  unfold rdUA
  refine reads_bind (reads_readPad (toBE_length 2 _)) ?_
  rw [fromBE_toBE 2 _ (by omega)]
  exact reads_bind_nil (reads_allocate _) (reads_readPad rfl)

theorem post_ua : Post rdUA (fun u => u.length ≤ 65535) := by
  unfold rdUA
  refine post_bind (post_readPad 2) fun l hl => post_bind (post_true _) fun _ _ => (post_readPad _).mono fun v hv => ?_
  have := fromBE_lt l
  rw [hl] at this
  omega

/-- `GetInitMsg` returns a name for every input -/
theorem ua_total (bs : Bytes) : ∃ u r, rdUA.dec bs = .ok (u, r) := by
  unfold rdUA
  rw [dec_bind_of_ok (dec_readPad 2 bs), dec_bind_of_ok (dec_allocate _ _)]
  exact ⟨_, _, dec_readPad _ _⟩

/-! ### exec status -/

theorem reads_xst_conf : Reads rdXst [1] XStatus.conf := by
  unfold rdXst
  have h := reads_bind (f := fun r => if r = [1] then (pure XStatus.conf : R XStatus) else do
      let l ← readPad 4
      allocate (fromBE (l.take 2))
      let m ← readPad (fromBE (l.take 2))
      pure (XStatus.fail m)) (reads_readPad (xs := [1]) rfl) (by simpa using reads_pure XStatus.conf)
  simpa using h

theorem reads_xst_fail {m : Bytes} (h : m.length ≤ 65535) :
    Reads rdXst ([2] ++ (toBE 2 m.length ++ [0, 0]) ++ m) (XStatus.fail m) := by
  unfold rdXst
  have hl : (toBE 2 m.length ++ [0, 0] : Bytes).length = 4 := by simp [toBE_length]
  have htake : (toBE 2 m.length ++ [0, 0] : Bytes).take 2 = toBE 2 m.length := by
    rw [List.take_left' (toBE_length 2 _)]
  have hfrom : fromBE ((toBE 2 m.length ++ [0, 0] : Bytes).take 2) = m.length := by
    rw [htake, fromBE_toBE 2 _ (by omega)]
  rw [List.append_assoc]
  refine reads_bind (reads_readPad (xs := [2]) rfl) ?_
  rw [if_neg (by decide)]
  refine reads_bind (reads_readPad hl) ?_
  rw [hfrom]
  refine reads_bind_nil (reads_allocate _) ?_
  exact reads_map XStatus.fail (reads_readPad rfl)

theorem post_xst : Post rdXst (fun s => match s with | .conf => True | .fail m => m.length ≤ 65535) := by
  unfold rdXst
  refine post_bind (post_true _) fun r _ => ?_
  split
  · intro bs v rr h
    rw [dec_pure] at h
    cases h
    trivial
  · refine post_bind (post_readPad 4) fun l hl => post_bind (post_true _) fun _ _ =>
      post_bind (post_readPad _) fun m hm => ?_
    intro bs v rr h
    rw [dec_pure] at h
    cases h
    show m.length ≤ 65535
    have := fromBE_lt (l.take 2)
    have h2 : (l.take 2).length = 2 := by simp [hl]
    rw [h2] at this
    omega

/-- `getStatus` returns for every input -/
theorem xst_total (bs : Bytes) : ∃ s r, rdXst.dec bs = .ok (s, r) := by
  unfold rdXst
  rw [dec_bind_of_ok (dec_readPad 1 bs)]
  split
  · exact ⟨_, _, dec_pure _ _⟩
  · rw [dec_bind_of_ok (dec_readPad 4 _), dec_bind_of_ok (dec_allocate _ _), dec_bind_of_ok (dec_readPad _ _)]
    exact ⟨_, _, dec_pure _ _⟩

/-! ### port-forward requests -/

def PFFits (p : PF) : Prop := (p.netType = 1 ∨ p.netType = 2 ∨ p.netType = 3) ∧ p.addr.length ≤ 65535

/-- representable requests: a known network type, an address that fits the 16-bit length and —
for TCP and UDP — has the host:port form `readPacket` insists on -/
def PFOK (p : PF) : Prop := p.addr.length ≤ 65535 ∧ addrOK p.netType p.addr = true

theorem addrOK_netType {nt : UInt8} {a : Bytes} (h : addrOK nt a = true) : nt = 1 ∨ nt = 2 ∨ nt = 3 := by
  unfold addrOK at h
  split at h
  · rename_i h12; rcases h12 with h1 | h2
    · exact .inl h1
    · exact .inr (.inl h2)
  · exact .inr (.inr (by simpa using h))

def pfBytes (p : PF) : Bytes := [p.netType, p.fwdType] ++ (toBE 2 p.addr.length ++ p.addr)

theorem encPF_ok {p : PF} (h : PFFits p) : encPF p = .ok (pfBytes p) := by
  simp [encPF, pfBytes, h.1, h.2]

theorem encPF_err {p : PF} (h : ¬ PFFits p) : ∃ e, encPF p = .error e := by
  unfold encPF
  by_cases h1 : p.netType = 1 ∨ p.netType = 2 ∨ p.netType = 3
  · have h2 : ¬ p.addr.length ≤ 65535 := fun h2 => h ⟨h1, h2⟩
    exact ⟨.tooLong, by rw [if_pos h1, if_neg h2]⟩
  · exact ⟨.invalid, by rw [if_neg h1]⟩

theorem reads_pf {p : PF} (h : PFOK p) : Reads rdPF (pfBytes p) p := by
  obtain ⟨hl, ha⟩ := h
  unfold rdPF pfBytes
  simp only [List.cons_append, List.nil_append]
  refine reads_u8_bind (reads_u8_bind (reads_bind (reads_uBE (by omega)) (reads_bind_nil (reads_allocate _) ?_)))
  refine (reads_bind (reads_readN rfl) ?_).congr (List.append_nil _)
  rw [if_pos ha]
  exact reads_pure _

theorem post_pf : Post rdPF PFOK := by
  unfold rdPF
  refine post_bind (post_true _) fun nt _ => post_bind (post_true _) fun ft _ => post_bind (post_uBE 2) fun l hl => ?_
  refine post_bind (post_true _) fun _ _ => post_bind (post_readN _) fun a ha => ?_
  refine post_ite (fun hok => post_pure ⟨?_, hok⟩) fun _ => post_fail
  simp only; omega

end Wire
