import HopModel.Model.Login
/-
Helper lemmas for C05: what `parseLines` accepts, and the history invariant
"the grant map holds exactly the grants added and not consumed since".
-/
namespace AuthKeys

theorem parseLines_mem {ls : List Bytes} {ks : List Key} (h : parseLines ls = some ks) (k : Key) :
    k ∈ ks ↔ ∃ l ∈ ls, trimSpace l ≠ [] ∧ parseKey (trimSpace l) = some k := by
  induction ls generalizing ks with
  | nil =>
    simp only [parseLines, Option.some.injEq] at h
    subst h
    simp
  | cons l rest ih =>
    unfold parseLines at h
    split at h
    · rename_i hb
      rw [ih h]
      constructor
      · rintro ⟨l', hl', h1, h2⟩
        exact ⟨l', List.mem_cons_of_mem _ hl', h1, h2⟩
      · rintro ⟨l', hl', h1, h2⟩
        rcases List.mem_cons.mp hl' with rfl | hm
        · exact absurd hb h1
        · exact ⟨l', hm, h1, h2⟩
    · rename_i hb
      split at h
      · cases h
      · rename_i k' hk'
        split at h
        · cases h
        · rename_i ks' hks'
          simp only [Option.some.injEq] at h
          subst h
          rw [List.mem_cons, ih hks']
          constructor
          · rintro (rfl | ⟨l', hl', h1, h2⟩)
            · exact ⟨l, List.mem_cons_self, hb, hk'⟩
            · exact ⟨l', List.mem_cons_of_mem _ hl', h1, h2⟩
          · rintro ⟨l', hl', h1, h2⟩
            rcases List.mem_cons.mp hl' with rfl | hm
            · left
              rw [hk'] at h2
              exact (Option.some.inj h2).symm
            · exact Or.inr ⟨l', hm, h1, h2⟩

/-- every non-blank line of a file that parses is a key -/
theorem parseLines_all {ls : List Bytes} {ks : List Key} (h : parseLines ls = some ks) :
    ∀ l ∈ ls, trimSpace l ≠ [] → ∃ k, parseKey (trimSpace l) = some k := by
  induction ls generalizing ks with
  | nil => simp
  | cons l rest ih =>
    unfold parseLines at h
    intro l' hl' hne
    split at h
    · rename_i hb
      rcases List.mem_cons.mp hl' with rfl | hm
      · exact absurd hb hne
      · exact ih h l' hm hne
    · split at h
      · cases h
      · rename_i k' hk'
        split at h
        · cases h
        · rename_i ks' hks'
          rcases List.mem_cons.mp hl' with rfl | hm
          · exact ⟨k', hk'⟩
          · exact ih hks' l' hm hne

theorem parseKey_length {l : Bytes} {k : Key} (h : parseKey l = some k) : k.length = 32 := by
  unfold parseKey at h
  split at h
  · split at h
    · cases h
    · split at h
      · cases h; assumption
      · cases h
  · cases h

theorem parseKey_prefix {l : Bytes} {k : Key} (h : parseKey l = some k) : hasPrefix keyPrefix l = true := by
  unfold parseKey at h
  split at h
  · assumption
  · cases h

theorem allowed_iff (ks : List Key) (k : Key) : allowed ks k = true ↔ k ∈ ks := by
  simp [allowed]

end AuthKeys

namespace Login
open AuthKeys

theorem snocInduction {α : Type} {motive : List α → Prop} (nil : motive [])
    (snoc : ∀ l a, motive l → motive (l ++ [a])) (l : List α) : motive l := by
  have h : ∀ r : List α, motive r.reverse := by
    intro r
    induction r with
    | nil => exact nil
    | cons a t ih => rw [List.reverse_cons]; exact snoc _ _ ih
  simpa using h l.reverse

theorem isFor_iff (u : User) (k : Key) (e : User × Key × Grant) :
    isFor u k e = true ↔ e.1 = u ∧ e.2.1 = k := by
  simp [isFor]

theorem mem_grantsFor (s : State) (u : User) (k : Key) (g : Grant) :
    g ∈ grantsFor s u k ↔ (u, k, g) ∈ s.grants := by
  unfold grantsFor
  simp only [List.mem_map, List.mem_filter, isFor_iff]
  constructor
  · rintro ⟨⟨u', k', g'⟩, ⟨hm, rfl, rfl⟩, rfl⟩
    exact hm
  · intro h
    exact ⟨(u, k, g), ⟨h, rfl, rfl⟩, rfl⟩

/-- the operation takes the grants of `(u, k)` away: a direct use, or a login of `u` with `k` that the
authorized-keys file does not admit -/
def Consumes (u : User) (k : Key) : Op → Prop
  | .useGrants u' k' => u' = u ∧ k' = k
  | .login fs u' k' => u' = u ∧ k' = k ∧ authorizeKey fs u k ≠ .ok
  | .addGrant _ _ _ => False

/-- grant `g` was added for exactly `(u, k)` at some point of the history and no later operation
consumed the grants of `(u, k)` -/
def Unconsumed (hist : List Op) (u : User) (k : Key) (g : Grant) : Prop :=
  ∃ pre post, hist = pre ++ Op.addGrant u k g :: post ∧ ∀ op ∈ post, ¬ Consumes u k op

theorem unconsumed_nil (u : User) (k : Key) (g : Grant) : ¬ Unconsumed [] u k g := by
  rintro ⟨pre, post, h, _⟩
  cases pre <;> simp at h

theorem unconsumed_snoc (h : List Op) (op : Op) (u : User) (k : Key) (g : Grant) :
    Unconsumed (h ++ [op]) u k g ↔
      op = Op.addGrant u k g ∨ (Unconsumed h u k g ∧ ¬ Consumes u k op) := by
  constructor
  · rintro ⟨pre, post, heq, hpost⟩
    rcases List.eq_nil_or_concat post with rfl | ⟨post', x, rfl⟩
    · left
      have : h ++ [op] = pre ++ [Op.addGrant u k g] := heq
      exact (List.append_inj' this rfl).2 |> fun h => by simpa using h
    · right
      have e : h ++ [op] = (pre ++ Op.addGrant u k g :: post') ++ [x] := by
        rw [heq]; simp
      have h1 := (List.append_inj' e rfl).1
      have h2 : op = x := by simpa using (List.append_inj' e rfl).2
      subst h2
      refine ⟨⟨pre, post', h1, fun o ho => hpost o ?_⟩, hpost op ?_⟩
      · simp [ho]
      · simp
  · rintro (rfl | ⟨⟨pre, post, rfl, hpost⟩, hc⟩)
    · exact ⟨h, [], rfl, by simp⟩
    · refine ⟨pre, post ++ [op], by simp, ?_⟩
      intro o ho
      rcases List.mem_append.mp ho with ho | ho
      · exact hpost o ho
      · simp only [List.mem_singleton] at ho
        subst ho
        exact hc

theorem run_snoc (s : State) (h : List Op) (op : Op) : run s (h ++ [op]) = step (run s h) op := by
  simp [run, List.foldl_append]

/-! effect of the three operations on the triples of the grant map -/

theorem addGrant_enabled (s : State) (u : User) (k : Key) (g : Grant) : (addGrant s u k g).2.agEnabled = s.agEnabled := by
  unfold addGrant; split <;> rfl

theorem useGrants_enabled (s : State) (u : User) (k : Key) : (useGrants s u k).2.agEnabled = s.agEnabled := by
  unfold useGrants; split
  · split <;> rfl
  · rfl

theorem login_enabled (s : State) (fs : User → FileState) (u : User) (k : Key) :
    (login s fs u k).2.agEnabled = s.agEnabled := by
  unfold login
  split
  · rfl
  · split
    · have := useGrants_enabled s u k
      split <;> simp_all
    · rfl

theorem step_enabled (s : State) (op : Op) : (step s op).agEnabled = s.agEnabled := by
  cases op <;> simp [step, addGrant_enabled, useGrants_enabled, login_enabled]

theorem run_enabled (s : State) (h : List Op) : (run s h).agEnabled = s.agEnabled := by
  induction h generalizing s with
  | nil => rfl
  | cons op t ih => simp only [run, List.foldl_cons] at *; rw [ih, step_enabled]

theorem mem_addGrant (s : State) (hs : s.agEnabled = true) (u' : User) (k' : Key) (g' : Grant) (e : User × Key × Grant) :
    e ∈ (addGrant s u' k' g').2.grants ↔ e ∈ s.grants ∨ e = (u', k', g') := by
  simp [addGrant, hs]

theorem mem_useGrants (s : State) (hs : s.agEnabled = true) (u' : User) (k' : Key) (u : User) (k : Key) (g : Grant) :
    (u, k, g) ∈ (useGrants s u' k').2.grants ↔ (u, k, g) ∈ s.grants ∧ ¬ (u' = u ∧ k' = k) := by
  unfold useGrants
  simp only [hs, if_true]
  split
  · rename_i hnil
    constructor
    · intro hm
      refine ⟨hm, ?_⟩
      rintro ⟨rfl, rfl⟩
      have : g ∈ grantsFor s u' k' := (mem_grantsFor s u' k' g).mpr hm
      rw [hnil] at this
      cases this
    · exact fun h => h.1
  · simp only [consume, List.mem_filter, Bool.not_eq_eq_eq_not, Bool.not_true]
    constructor
    · rintro ⟨hm, hf⟩
      refine ⟨hm, ?_⟩
      rintro ⟨rfl, rfl⟩
      have : isFor u' k' (u', k', g) = true := (isFor_iff _ _ _).mpr ⟨rfl, rfl⟩
      rw [this] at hf
      cases hf
    · rintro ⟨hm, hne⟩
      refine ⟨hm, ?_⟩
      cases hf : isFor u' k' (u, k, g)
      · rfl
      · exact absurd ((isFor_iff _ _ _).mp hf |> fun ⟨a, b⟩ => ⟨a.symm, b.symm⟩) hne

theorem login_state (s : State) (fs : User → FileState) (u : User) (k : Key) :
    (login s fs u k).2 =
      if authorizeKey fs u k = .ok then s else if s.agEnabled then (useGrants s u k).2 else s := by
  unfold login
  split
  · rfl
  · split
    · split <;> simp_all
    · rfl

/-- `login` in closed form -/
theorem login_eq (s : State) (fs : User → FileState) (u : User) (k : Key) :
    login s fs u k =
      if authorizeKey fs u k = .ok then (.listed, s)
      else if s.agEnabled = true ∧ grantsFor s u k ≠ [] then (.granted (grantsFor s u k), consume s u k)
      else (.rejected, s) := by
  unfold login useGrants
  by_cases h1 : authorizeKey fs u k = .ok
  · simp [h1]
  · by_cases h2 : s.agEnabled = true
    · by_cases h3 : grantsFor s u k = []
      · simp [h1, h2, h3]
      · simp [h1, h2, h3]
    · simp [h1, h2]

theorem grantsFor_consume (s : State) (u : User) (k : Key) : grantsFor (consume s u k) u k = [] := by
  simp [grantsFor, consume, List.filter_filter]

theorem not_mem_keySet_consume (s : State) (u : User) (k : Key) : k ∉ (consume s u k).keySet := by
  simp [consume]

/-- **History invariant.** With grants enabled, after any history the grant map holds for `(u, k)`
exactly the grants that were added for `(u, k)` and not consumed since. -/
theorem grants_invariant (h : List Op) (u : User) (k : Key) (g : Grant) :
    (u, k, g) ∈ (run (init true) h).grants ↔ Unconsumed h u k g := by
  induction h using snocInduction with
  | nil =>
    simp only [run, List.foldl_nil, init]
    constructor
    · intro hm; cases hm
    · intro hu; exact absurd hu (unconsumed_nil u k g)
  | snoc h op ih =>
    have hen : (run (init true) h).agEnabled = true := by rw [run_enabled]; rfl
    rw [run_snoc, unconsumed_snoc, ← ih]
    cases op with
    | addGrant u' k' g' =>
      simp only [step, mem_addGrant _ hen, Consumes, not_false_eq_true, and_true]
      constructor
      · rintro (hm | he)
        · exact Or.inr hm
        · left
          simp only [Prod.mk.injEq] at he
          obtain ⟨rfl, rfl, rfl⟩ := he
          rfl
      · rintro (he | hm)
        · right
          cases he
          rfl
        · exact Or.inl hm
    | useGrants u' k' =>
      simp only [step, mem_useGrants _ hen, Consumes]
      constructor
      · intro hm; exact Or.inr hm
      · rintro (he | hm)
        · cases he
        · exact hm
    | login fs u' k' =>
      simp only [step, login_state, hen, if_true, Consumes]
      split
      · rename_i hok
        constructor
        · intro hm
          refine Or.inr ⟨hm, ?_⟩
          rintro ⟨rfl, rfl, hno⟩
          exact hno hok
        · rintro (he | hm)
          · cases he
          · exact hm.1
      · rename_i hno
        rw [mem_useGrants _ hen]
        constructor
        · rintro ⟨hm, hne⟩
          refine Or.inr ⟨hm, ?_⟩
          rintro ⟨rfl, rfl, _⟩
          exact hne ⟨rfl, rfl⟩
        · rintro (he | ⟨hm, hc⟩)
          · cases he
          · refine ⟨hm, ?_⟩
            rintro ⟨rfl, rfl⟩
            exact hc ⟨rfl, rfl, hno⟩

/-- with grants disabled the grant map and the key set stay empty -/
theorem disabled_invariant (h : List Op) : (run (init false) h).grants = [] ∧ (run (init false) h).keySet = [] := by
  induction h using snocInduction with
  | nil => exact ⟨rfl, rfl⟩
  | snoc h op ih =>
    have hen : (run (init false) h).agEnabled = false := by rw [run_enabled]; rfl
    rw [run_snoc]
    cases op with
    | addGrant u' k' g' => simp [step, addGrant, hen, ih]
    | useGrants u' k' => simp [step, useGrants, hen, ih]
    | login fs u' k' =>
      simp only [step, login_state, hen]
      split <;> simp [ih]

end Login
