/-
Helper lemmas for C20: the backtracking matcher equals the declarative relation `Matches`.
-/
import HopModel.Model.Glob
namespace Glob

def Lit (u : List B) : Prop := ∀ x ∈ u, x ≠ star
theorem lit_nil : Lit [] := by intro x hx; cases hx
theorem lit_cons {x : B} {u : List B} (hx : x ≠ star) (hu : Lit u) : Lit (x :: u) := by
  intro y hy
  rcases List.mem_cons.mp hy with rfl | hy
  · exact hx
  · exact hu y hy

theorem matches_cons_inv {p : B} {ps s : List B} (h : Matches (p :: ps) s) :
    (p ≠ star ∧ ∃ t, s = p :: t ∧ Matches ps t) ∨ (p = star ∧ ∃ w r, s = w ++ r ∧ Matches ps r) := by
  generalize hpat : p :: ps = pat at h
  cases h with
  | nil => cases hpat
  | lit hne hm => cases hpat; exact Or.inl ⟨hne, _, rfl, hm⟩
  | star w hm => cases hpat; exact Or.inr ⟨rfl, w, _, rfl, hm⟩

theorem matches_nil_inv {s : List B} (h : Matches [] s) : s = [] := by
  generalize hpat : ([] : List B) = pat at h
  cases h with
  | nil => rfl
  | lit _ _ => cases hpat
  | star _ _ => cases hpat

theorem matches_star_iff {q s : List B} :
    Matches (star :: q) s ↔ ∃ w r, s = w ++ r ∧ Matches q r := by
  constructor
  · intro h
    rcases matches_cons_inv h with ⟨hne, _⟩ | ⟨_, w, r, hs, hm⟩
    · exact absurd rfl hne
    · exact ⟨w, r, hs, hm⟩
  · rintro ⟨w, r, rfl, hm⟩
    exact Matches.star w hm

theorem star_extend {q r : List B} (v : List B) (h : Matches (star :: q) r) :
    Matches (star :: q) (v ++ r) := by
  obtain ⟨w, r', rfl, hm⟩ := matches_star_iff.mp h
  rw [← List.append_assoc]
  exact Matches.star (v ++ w) hm

theorem matches_lit_prefix {u q r : List B} (hu : Lit u) :
    Matches (u ++ q) r ↔ ∃ r', r = u ++ r' ∧ Matches q r' := by
  induction u generalizing r with
  | nil => simp
  | cons x u ih =>
    have hx : x ≠ star := hu x (by simp)
    have hu' : Lit u := fun y hy => hu y (by simp [hy])
    constructor
    · intro h
      rcases matches_cons_inv h with ⟨_, t, rfl, hm⟩ | ⟨hs, _⟩
      · obtain ⟨r', rfl, hm'⟩ := (ih hu').mp hm
        exact ⟨r', rfl, hm'⟩
      · exact absurd hs hx
    · rintro ⟨r', rfl, hm⟩
      exact Matches.lit hx ((ih hu').mpr ⟨r', rfl, hm⟩)

theorem matches_lit {q r : List B} (hq : Lit q) : Matches q r ↔ r = q := by
  have := matches_lit_prefix (u := q) (q := []) (r := r) hq
  simp only [List.append_nil] at this
  rw [this]
  constructor
  · rintro ⟨r', rfl, hm⟩
    rw [matches_nil_inv hm]; simp
  · intro h; exact ⟨[], by simp [h], Matches.nil⟩

theorem seg_done {q ss ss' : List B} (h : seg q ss = .done ss') : Lit q ∧ ss = q ++ ss' := by
  induction q generalizing ss with
  | nil =>
    simp [seg] at h
    subst h
    exact ⟨lit_nil, rfl⟩
  | cons p ps ih =>
    unfold seg at h
    split at h
    · cases h
    · rename_i hp
      split at h
      · cases h
      · split at h
        · rename_i c t hpc
          obtain ⟨hl, rfl⟩ := ih h
          subst hpc
          exact ⟨lit_cons hp hl, rfl⟩
        · cases h

theorem seg_star {q ss q' ss' : List B} (h : seg q ss = .star q' ss') :
    ∃ u, Lit u ∧ q = u ++ star :: q' ∧ ss = u ++ ss' := by
  induction q generalizing ss with
  | nil => simp [seg] at h
  | cons p ps ih =>
    unfold seg at h
    split at h
    · rename_i hp
      cases h
      exact ⟨[], lit_nil, (by simp [hp]), rfl⟩
    · rename_i hp
      split at h
      · cases h
      · split at h
        · rename_i c t hpc
          obtain ⟨u, hl, rfl, rfl⟩ := ih h
          subst hpc
          exact ⟨p :: u, lit_cons hp hl, rfl, rfl⟩
        · cases h

theorem seg_mismatch {q ss : List B} (h : seg q ss = .mismatch) : ¬ Matches q ss := by
  induction q generalizing ss with
  | nil => simp [seg] at h
  | cons p ps ih =>
    unfold seg at h
    split at h
    · cases h
    · rename_i hp
      intro hm
      rcases matches_cons_inv hm with ⟨_, t, hs, hm'⟩ | ⟨hps, _⟩
      · subst hs
        simp at h
        exact ih h hm'
      · exact hp hps

theorem suffix_of_suffix {a b c d : List B} (h : a ++ b = c ++ d) (hl : d.length ≤ b.length) :
    ∃ v, b = v ++ d := by
  have hlen : (a ++ b).length = (c ++ d).length := by rw [h]
  simp only [List.length_append] at hlen
  have hac : a.length ≤ c.length := by omega
  refine ⟨c.drop a.length, ?_⟩
  have h1 : (a ++ b).drop a.length = (c ++ d).drop a.length := by rw [h]
  rw [List.drop_left] at h1
  rw [h1, List.drop_append_of_le_length hac]

theorem afterStar_iff (q ss : List B) : afterStar q ss = true ↔ Matches (star :: q) ss := by
  fun_induction afterStar q ss with
  | case1 q ss q' ss' h ih =>
    obtain ⟨u, hu, rfl, rfl⟩ := seg_star h
    rw [ih]
    constructor
    · intro hm
      have : Matches (u ++ star :: q') (u ++ ss') := (matches_lit_prefix hu).mpr ⟨ss', rfl, hm⟩
      exact Matches.star [] this
    · intro hm
      obtain ⟨w, r, hwr, hmr⟩ := matches_star_iff.mp hm
      obtain ⟨r', rfl, hm'⟩ := (matches_lit_prefix hu).mp hmr
      have hlen : (u ++ ss').length = (w ++ (u ++ r')).length := by rw [hwr]
      simp only [List.length_append] at hlen
      have hle : r'.length ≤ ss'.length := by omega
      have h2 : u ++ ss' = (w ++ u) ++ r' := by rw [hwr, List.append_assoc]
      obtain ⟨v, rfl⟩ := suffix_of_suffix h2 hle
      exact star_extend v hm'
  | case2 q ss ss' h ih =>
    obtain ⟨hq, hss⟩ := seg_done h
    constructor
    · intro hres
      simp only [Bool.or_eq_true, beq_iff_eq] at hres
      rcases hres with rfl | hres
      · rw [hss]; simp
        exact Matches.star [] ((matches_lit hq).mpr rfl)
      · split at hres
        · cases hres
        · rename_i hs
          obtain ⟨c, t, rfl⟩ := List.exists_cons_of_ne_nil hs
          have := (ih hs).mp hres
          exact star_extend [c] this
    · intro hm
      simp only [Bool.or_eq_true, beq_iff_eq]
      obtain ⟨w, r, hwr, hmr⟩ := matches_star_iff.mp hm
      have hr : r = q := (matches_lit hq).mp hmr
      subst hr
      cases w with
      | nil =>
        left
        simp at hwr
        rw [hwr] at hss
        have := congrArg List.length hss
        simp only [List.length_append] at this
        exact List.eq_nil_of_length_eq_zero (by omega)
      | cons x w' =>
        right
        have hs : ss ≠ [] := by rw [hwr]; simp
        simp only [hs, dite_false]
        rw [ih hs, hwr]
        exact Matches.star w' hmr
  | case3 q h =>
    constructor
    · intro hf; cases hf
    · intro hm
      obtain ⟨w, r, hwr, hmr⟩ := matches_star_iff.mp hm
      have : r = [] := by
        have := congrArg List.length hwr; simp at this; exact List.eq_nil_of_length_eq_zero (by omega)
      subst this
      exact absurd hmr (seg_mismatch h)
  | case4 q ss h hs ih =>
    rw [ih]
    obtain ⟨c, t, rfl⟩ := List.exists_cons_of_ne_nil hs
    constructor
    · intro hm; exact star_extend [c] hm
    · intro hm
      obtain ⟨w, r, hwr, hmr⟩ := matches_star_iff.mp hm
      cases w with
      | nil =>
        simp at hwr; subst hwr
        exact absurd hmr (seg_mismatch h)
      | cons x w' =>
        simp at hwr
        obtain ⟨rfl, rfl⟩ := hwr
        exact Matches.star w' hmr

theorem glob_iff (p s : List B) : glob p s = true ↔ Matches p s := by
  unfold glob
  split
  · rename_i q ss' h
    obtain ⟨u, hu, rfl, rfl⟩ := seg_star h
    rw [afterStar_iff, matches_lit_prefix hu]
    constructor
    · intro hm; exact ⟨ss', rfl, hm⟩
    · rintro ⟨r', hr, hm⟩
      have := List.append_cancel_left hr
      subst this; exact hm
  · rename_i ss' h
    obtain ⟨hp, rfl⟩ := seg_done h
    rw [matches_lit hp]
    simp
  · rename_i h
    simp
    exact seg_mismatch h
end Glob
