/-
Spec for C14: the reference replay filter remembers *every* accepted counter and accepts `q` iff
it is not among them and is not more than 448 below the largest of them.
(Core-only: imported by the property theorems and by the driver's `--spec` mode.)
-/
namespace Replay

def maxL : List Nat → Nat
  | [] => 0
  | x :: xs => max x (maxL xs)

/-- the reference decision -/
def specAccepts (acc : List Nat) (q : Nat) : Bool :=
  !acc.contains q && decide (maxL acc ≤ q + 448)

/-- the reference filter run over a history; returns the list of accepted counters -/
def specRun : List Nat → List Nat → List Nat
  | acc, [] => acc
  | acc, q :: qs => specRun (if specAccepts acc q then q :: acc else acc) qs

end Replay
