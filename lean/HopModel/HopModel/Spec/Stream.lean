import HopModel.Model.Sender
/-
Spec for C08: what a reliable tube must deliver, phrased over the receiver model.

A *stream* is the sequence of data chunks the peer's sender produced (frame `start + i` carries
`chunks[i]`) followed, if the peer closed, by a FIN numbered `start + chunks.length`.  The network
may deliver any of these frames in any order, any number of times, interleaved with reads — the
only things it cannot do (the channel is authenticated) are to change a frame or to invent one
(`Honest`), and the 32-bit wire number limits how stale a delivered frame can be (`Near`: less
than 2^31 frame numbers away from the receiver's acknowledgement number when it arrives).
-/
namespace Tubes

structure Stream where
  start : Nat
  chunks : List Bytes

def Stream.written (st : Stream) : Bytes := st.chunks.flatten
def Stream.finNo (st : Stream) : Nat := st.start + st.chunks.length

inductive RxEv where
  | arrive (n : Nat) (f : Frame)   -- `n`: the sender's 64-bit number of the frame (not on the wire)
  | read (k : Nat)

structure RxRun where
  r : Receiver
  delivered : Bytes := []
  eof : Bool := false

def rxStep (s : RxRun) : RxEv → RxRun
  | .arrive _ f => { s with r := (receive s.r f).1 }
  | .read k =>
    match read s.r k with
    | none => s
    | some (r', out, e) => ⟨r', s.delivered ++ out, s.eof || e⟩

def rxRun (s : RxRun) (evs : List RxEv) : RxRun := evs.foldl rxStep s

/-- frame `f`, whose true number is `n`, is one the peer's sender really produced -/
def Honest (st : Stream) (n : Nat) (f : Frame) : Prop :=
  f.frameNo = n % two32 ∧
  (f.fin = true → n = st.finNo ∧ f.data = []) ∧
  (f.fin = false → f.data ≠ [] → f.ack = false →
    st.start ≤ n ∧ st.chunks[n - st.start]? = some f.data)

def Near (ack n : Nat) : Prop := ack < n + two31 ∧ n < ack + two31

/-- every arrival of the schedule is honest and not staler than the wire number can express -/
def Admissible (st : Stream) : RxRun → List RxEv → Prop
  | _, [] => True
  | s, .arrive n f :: t => Honest st n f ∧ Near s.r.ackNo n ∧ Admissible st (rxStep s (.arrive n f)) t
  | s, .read k :: t => Admissible st (rxStep s (.read k)) t

/-- number of arrivals that deliver the frame the receiver is waiting for -/
def hits : RxRun → List RxEv → Nat
  | _, [] => 0
  | s, .arrive n f :: t =>
    (if n = s.r.windowStart ∧ s.r.closed = false ∧ admits f = true then 1 else 0) + hits (rxStep s (.arrive n f)) t
  | s, .read k :: t => hits (rxStep s (.read k)) t

/-! ### sender runs -/

inductive SOp where
  | write (b : Bytes)
  | ack (a w : Nat)      -- acknowledgement number on the wire, congestion window at that moment
  | fin

/-- a sender together with two ghost lists: every frame it ever put into its retransmission
buffer, and all bytes `write` accepted -/
structure SRun where
  s : Sender
  all : List SFrame := []
  written : Bytes := []

def sStep (x : SRun) : SOp → SRun
  | .write b =>
    match (x.s.write b).2 with
    | .ok _ => ⟨(x.s.write b).1, x.all ++ numberFrom x.s.frameNo (chunk b), x.written ++ b⟩
    | .eof => x
  | .ack a w => { x with s := (x.s.recvAck a w).1 }
  | .fin =>
    match x.s.sendFin.2 with
    | .ok _ => ⟨x.s.sendFin.1, x.all ++ [⟨x.s.frameNo, [], true, true⟩], x.written⟩
    | .eof => x

def sRun (x : SRun) (ops : List SOp) : SRun := ops.foldl sStep x

/-! ### trace monitor (suite C08sys): `written`/`read`/`eof` events of one direction of one tube -/

structure Mon where
  written : Bytes := []
  read : Bytes := []
  closedW : Bool := false   -- the writer closed
  eof : Bool := false

/-- prefix test -/
def isPrefix : Bytes → Bytes → Bool
  | [], _ => true
  | _ :: _, [] => false
  | a :: as, b :: bs => a == b && isPrefix as bs

end Tubes
