/-
What the handshake readers are *expected* to do, as state-changing actions in order (core-only;
shared by C01, C02 and C19).  `Props/C02.lean` proves that the programs regenerated from the
source have exactly these actions; the property theorems are then about these lists.
-/
import HopModel.Model.Handshake
namespace Handshake

def expClientHello : List Act := [.absorbField .hdr, .absorbField .kemKey, .mac true]
def expServerHello : List Act := [.absorbField .hdr, .decap, .absorbKem, .absorbField .cookie, .mac true]
def expClientAck : List Act :=
  [.cookie true, .absorbField .hdr, .absorbField .dhEph, .absorbField .kemKey, .absorbField .cookie,
   .decryptField .sni, .mac true]
def expServerAuth : List Act :=
  [.absorbField .hdr, .absorbField .sid, .absorbField .dhEph, .absorbEph, .decryptField .certs, .mac true,
   .verify true, .absorbStatic, .mac true]
def expClientAuth : List Act :=
  [.absorbField .hdr, .absorbField .sid, .decryptField .certs, .mac true, .verify true, .absorbStatic, .mac true]
def expRequestHidden : List Act :=
  [.absorbField .hdr, .absorbField .kemKey, .decap, .absorbKem, .decryptField .certs, .mac true, .verify true,
   .decryptField .ts, .time true, .mac true]
def expResponseHidden : List Act :=
  [.absorbField .hdr, .absorbField .sid, .decap, .absorbKem, .decryptField .certs, .mac true, .verify true,
   .absorbStatic, .mac true]

/-- (message name, expected reader actions, number of fields) -/
def expected : List (String × List Act × Nat) :=
  [ ("ClientHello", expClientHello, 3), ("ServerHello", expServerHello, 4), ("ClientAck", expClientAck, 6),
    ("ServerAuth", expServerAuth, 6), ("ClientAuth", expClientAuth, 5), ("ClientRequestHidden", expRequestHidden, 7),
    ("ServerResponseHidden", expResponseHidden, 6) ]

end Handshake
