import HopModel.Model.Muxer
/-
Spec vocabulary for C09: runs of the muxer model over application and network events, with the
observations the property speaks about (ids returned by Create*, tubes returned by Accept, bytes
and messages returned by Read).
-/
namespace Tubes

inductive MEv where
  | raw (b : Bytes)                 -- a datagram from the peer
  | create (rel : Bool) (ty : Nat)  -- Create*Tube
  | accept                          -- Accept
  | reap (k : Key)                  -- the tube finished its close handshake and was reaped
  | shut (k : Key)                  -- a locally opened reliable tube finished its close handshake;
                                    -- the identifier stays reserved until `reap`
  | read (k : Key) (n : Nat)        -- Read on a held tube

inductive MObs where
  | none
  | created (rel : Bool) (id : Nat)
  | offered (rel : Bool) (id : Nat) (ty : Nat)     -- returned by Accept
  | reaped (k : Key)
  | shut (k : Key)
  | bytes (k : Key) (b : Bytes)                    -- reliable Read
  | msg (k : Key) (b : Bytes) (truncated : Bool)   -- unreliable Read
  deriving Repr, DecidableEq

def mStep (m : Mux) : MEv → Mux × MObs
  | .raw b => match onRaw m b with
    | .ok m' => (m', .none)
    | _ => (m, .none)
  | .create rel ty => match create m rel ty with
    | (m', some id) => (m', .created rel id)
    | (m', Option.none) => (m', .none)
  | .accept => match accept m with
    | (m', some t) => (m', .offered t.rel t.id t.ttype)
    | (m', Option.none) => (m', .none)
  | .reap k => match reap m k with
    | (m', true) => (m', .reaped k)
    | (m', false) => (m', .none)
  | .shut k => match shut m k with
    | (m', true) => (m', .shut k)
    | (m', false) => (m', .none)
  | .read k n => match readTube m k n with
    | (m', .data b fl) => (m', if k.1 then .bytes k b else .msg k b fl)
    | (m', _) => (m', .none)

def mRun (m : Mux) : List MEv → Mux × List MObs
  | [] => (m, [])
  | e :: rest =>
    let (m1, o) := mStep m e
    let (m2, os) := mRun m1 rest
    (m2, o :: os)

/-- the key an event is addressed to (for `create`: the id that will be picked; for `accept`: the
tube at the head of the queue) -/
def target (m : Mux) : MEv → Option Key
  | .raw b => match fromBytes b recvBufSize with
    | .ok f => some (f.rel, f.tubeID)
    | _ => Option.none
  | .create rel _ => (pickTubeID m rel).map fun id => (rel, id)
  | .accept => m.queue.head?.map (·.key)
  | .reap k => some k
  | .shut k => some k
  | .read k _ => some k

end Tubes
