import HopModel.Model.Grants
import HopModel.Driver.Util
/-
Driver for C07.  The state is a `Grants.World`; every operation is `Grants.stepW` (the function the
theorems of Props/C07.lean are about), the output is read off the resulting world.

  new                                               -> ok
  grant <gtype> <start> <exp> <userHex> <key> <cmdHex>
                                                    -> ok            (HopServer.AddAuthGrant)
  login <userHex> <key>                             -> sess <id> <grants moved into the session> | refused
  loginkey <userHex> <key>                          -> sess <id> -   (session admitted by authorized_keys)
  exec <sess> <sec> <nsec> <cmdHex> <shell 0|1>     -> started <remaining grants> | refused <remaining> | nosess
  tube <sess> <ttype> <reliable 0|1>                -> served | closed | nosess   (end-to-end suites only)
  intent <sess> <gtype> <exp> <userHex> <leafOk>    -> ok | denied | nosess     (checkIntent, clock = 2e9 s)
  issue <sess> <gtype> <start> <exp> <userHex> <key> <cmdHex> <leafOk>
                                                    -> confirmed | denied | nosess   (intent communicated on an
                                                       authorization-grant tube of the session: checkIntent + AddAuthGrant)
  dump                                              -> grants=<g;g;…> keys=<k,k,…>   (server maps, sorted)
A grant is printed as  gtype,start,exp,userHex,key,cmdHex ; lists are `;`-joined, `-` when empty.

Suite `C07full` answers `tube` lines with what the *full* statement of C07 demands (every tube that
starts an action in a grant-admitted session needs a grant; none of the grant types covers them in
this code base, so they must be refused) — the code serves them: known finding F9.
-/
namespace Driver.C07
open Grants

def natLt (s : String) (bound : Nat) : Option Nat :=
  match s.toNat? with
  | some n => if n < bound ∧ s.length ≤ 20 then some n else none
  | none => none

def bytesLe (s : String) (maxLen : Nat) : Option (List UInt8) :=
  match fromHex s with
  | some b => if b.length ≤ maxLen then some b else none
  | none => none

def showGrant (g : Grant) : String :=
  ",".intercalate [toString g.gtype, toString g.start, toString g.exp, hexOrDash g.user, toString g.key,
    hexOrDash g.cmd]

def showGrants (gs : List Grant) : String :=
  if gs.isEmpty then "-" else ";".intercalate (gs.map showGrant)

def leKey (a b : String × Nat) : Bool := a.1 < b.1 || (a.1 == b.1 && a.2 ≤ b.2)

/-- the server's maps: groups `(user, key)` sorted by (hex of user, key), grants of a group in
insertion order; key set sorted -/
def dump (sv : Server) : String :=
  let pairs := (sv.grants.map fun g => (hexOrDash g.user, g.key)).eraseDups
  let sorted := pairs.mergeSort leKey
  let gs := sorted.flatMap fun p => sv.grants.filter fun g => hexOrDash g.user == p.1 && g.key == p.2
  let ks := sv.keys.mergeSort (· ≤ ·)
  "grants=" ++ showGrants gs ++ " keys=" ++ (if ks.isEmpty then "-" else ",".intercalate (ks.map toString))

def showHandler : Handler → String
  | .codex => "codex"
  | .acmeNoop => "acme-noop"
  | .agc => "agc"
  | .pfControl => "pfcontrol"
  | .pf => "pf"
  | .winSize => "winsize"
  | .close => "closed"

def parseBool01 : String → Option Bool
  | "0" => some false
  | "1" => some true
  | _ => none

def tMax : Nat := 2 ^ 40

inductive Mode | state | e2e | full
deriving DecidableEq

/-- the end-to-end suites use real home directories: user names are 1–16 lower-case letters -/
def okUser (m : Mode) (u : List UInt8) : Bool :=
  m = .state || (0 < u.length && u.length ≤ 16 && u.all fun c => 97 ≤ c.toNat && c.toNat ≤ 122)

def userLe (m : Mode) (s : String) : Option (List UInt8) :=
  match bytesLe s 255 with
  | some u => if okUser m u then some u else none
  | none => none

def step (m : Mode) (w : World) : List String → World × String
  | ["new"] => (World.empty, "ok")
  | ["grant", g, st, ex, u, k, cmd] =>
    -- `z`: the bound was never filled in (Go's zero time.Time, year 1): before every clock value, like 0
    let st := if st = "z" then "0" else st
    let ex := if ex = "z" then "0" else ex
    -- `<sec>.<nsec>`: a start with a sub-second part (a grant stored by code; the wire carries whole seconds)
    let (st, frac) := match st.splitOn "." with
      | [a, b] => (a, natLt b ns)
      | _ => (st, some 0)
    match natLt g 256, natLt st tMax, natLt ex tMax, userLe m u, natLt k 65536, bytesLe cmd 255, frac with
    | some g, some st, some ex, some u, some k, some cmd, some frac =>
      (stepW w (.grant ⟨g, cmd, st, ex, u, k, frac⟩), "ok")
    | _, _, _, _, _, _, _ => (w, "bad-op")
  | ["login", u, k] =>
    match userLe m u, natLt k 65536 with
    | some u, some k =>
      let w' := stepW w (.login u k)
      if w'.sessions.length = w.sessions.length then (w', "refused")
      else (w', "sess " ++ toString w.sessions.length ++ " " ++
              showGrants (match w'.sessions.getLast? with | some s => s.actions | none => []))
    | _, _ => (w, "bad-op")
  | ["loginkey", u, k] =>
    match userLe m u, natLt k 65536 with
    | some u, some k => (stepW w (.loginKey u k), "sess " ++ toString w.sessions.length ++ " -")
    | _, _ => (w, "bad-op")
  | ["exec", i, sec, nsec, cmd, sh] =>
    match natLt i 1000, natLt sec tMax, natLt nsec ns, bytesLe cmd 255, parseBool01 sh with
    | some i, some sec, some nsec, some cmd, some sh =>
      if i ≥ w.sessions.length then (w, "nosess") else
      let w' := stepW w (.exec i (sec * ns + nsec) cmd sh)
      let rem := showGrants (match w'.sessions[i]? with | some s => s.actions | none => [])
      (w', (if w'.served.length > w.served.length then "started " else "refused ") ++ rem)
    | _, _, _, _, _ => (w, "bad-op")
  | ["tube", i, t, r] =>
    if m = .state then (w, "bad-op") else   -- the dispatch is only reachable end to end
    match natLt i 1000, natLt t 256, parseBool01 r with
    | some i, some t, some r =>
      if t = tExec then (w, "bad-op") else    -- exec tubes go through `exec`
      match w.sessions[i]? with
      | none => (w, "nosess")
      | some s =>
        let h := dispatch s t r
        let w' := stepW w (.tube i t r)
        if h = .close then (w', "closed")
        -- `handlePF` closes a data tube when no forwarding was set up through a PF control tube;
        -- the suites never set one up, so the client sees this tube closed by its handler
        else if h = .pf then (w', "closed")
        else if m = .full ∧ s.usingGrant ∧ !h.consultsGrants then (w', "closed")
        else (w', "served")
    | _, _, _ => (w, "bad-op")
  | ["intent", i, g, ex, u, ok] =>
    if m ≠ .state then (w, "bad-op") else
    match natLt i 1000, natLt g 256, natLt ex tMax, bytesLe u 255, parseBool01 ok with
    | some i, some g, some ex, some u, some ok =>
      if 1500000000 < ex ∧ ex < 3000000000 then (w, "bad-op") else
      match w.sessions[i]? with
      | none => (w, "nosess")
      | some s => (w, if checkIntent s (2000000000 * ns) ⟨g, ex, u, ok⟩ then "ok" else "denied")
    | _, _, _, _, _ => (w, "bad-op")
  | ["issue", i, g, st, ex, u, k, cmd, ok] =>
    match natLt i 1000, natLt g 256, natLt st tMax, natLt ex tMax, userLe m u, natLt k 65536,
          bytesLe cmd 255, parseBool01 ok with
    | some i, some g, some st, some ex, some u, some k, some cmd, some ok =>
      -- no wire encoding for grant types 3/4; command text only travels with type 2; wall clock
      if g = 3 ∨ g = 4 ∨ (g ≠ 2 ∧ cmd ≠ []) ∨ (1500000000 < ex ∧ ex < 3000000000) then (w, "bad-op") else
      match w.sessions[i]? with
      | none => (w, "nosess")
      | some s =>
        if m = .full ∧ s.usingGrant then (w, "closed") else
        let w' := stepW w (.issue i (2000000000 * ns) ⟨g, cmd, st, ex, u, k, 0⟩ ok)
        (w', if w'.issued.length > w.issued.length then "confirmed" else "denied")
    | _, _, _, _, _, _, _, _ => (w, "bad-op")
  | ["dump"] => (w, dump w.server)
  | _ => (w, "bad-op")

def main (_ : List String) : IO Unit := loopLines (step .state) World.empty
def mainE2E (_ : List String) : IO Unit := loopLines (step .e2e) World.empty
def mainFull (_ : List String) : IO Unit := loopLines (step .full) World.empty

end Driver.C07
