import HopModel.Model.Replay
import HopModel.Model.ReplayU64
import HopModel.Spec.Replay
import HopModel.Driver.Util
/-
Driver for C14.  Operations (the Go harness performs the same on a real `SlidingWindow`):
  new            fresh window                                   -> ok
  acc <q>        Check(q); Mark(q) if it passed                 -> 1 | 0
  mark <q>       Mark(q) unconditionally                        -> ok
  chk <q>        Check(q)                                       -> 1 | 0
  probe <lo> <n> Check on lo, lo+1, …, lo+n-1                   -> string of n digits
`--spec` runs the reference filter (the Spec of Props/C14.lean) instead of the model.
-/
namespace Driver.C14
open Replay

def b2s (b : Bool) : String := if b then "1" else "0"

/-- the model the driver runs is the machine-level transcription (`Model/ReplayU64.lean`: `uint64`
words, shifts and masks as in the Go code), which `C14_machine_accept_iff` ties to the Spec -/
def toU (s : String) : Option UInt64 := s.toNat?.bind fun n => if n < 2 ^ 64 then some (UInt64.ofNat n) else none

def step (w : ReplayU64.WinU) : List String → ReplayU64.WinU × String
  | ["new"] => (ReplayU64.init, "ok")
  | ["acc", q] => match toU q with
    | some q => (ReplayU64.accept w q, b2s (ReplayU64.check w q))
    | none => (w, "bad-op")
  | ["mark", q] => match toU q with
    | some q => (ReplayU64.mark w q, "ok")
    | none => (w, "bad-op")
  | ["chk", q] => match toU q with
    | some q => (w, b2s (ReplayU64.check w q))
    | none => (w, "bad-op")
  | ["probe", lo, n] => match lo.toNat?, n.toNat? with
    | some lo, some n =>
      (w, String.ofList ((List.range n).map fun i => if ReplayU64.check w (UInt64.ofNat (lo + i)) then '1' else '0'))
    | _, _ => (w, "bad-op")
  | _ => (w, "bad-op")

/-! the reference filter of `Spec/Replay.lean` -/
def specAcc := Replay.specAccepts

def specStep (acc : List Nat) : List String → List Nat × String
  | ["new"] => ([], "ok")
  | ["acc", q] => match q.toNat? with
    | some q => (if specAcc acc q then q :: acc else acc, b2s (specAcc acc q))
    | none => (acc, "bad-op")
  | ["mark", q] => match q.toNat? with
    | some q => (if maxL acc ≤ q + 448 ∧ !acc.contains q then q :: acc else acc, "ok")
    | none => (acc, "bad-op")
  | ["chk", q] => match q.toNat? with
    | some q => (acc, b2s (specAcc acc q))
    | none => (acc, "bad-op")
  | ["probe", lo, n] => match lo.toNat?, n.toNat? with
    | some lo, some n => (acc, String.ofList ((List.range n).map fun i => if specAcc acc (lo + i) then '1' else '0'))
    | _, _ => (acc, "bad-op")
  | _ => (acc, "bad-op")

def main (args : List String) : IO Unit :=
  if args.contains "--spec" then loopLines specStep []
  else loopLines step ReplayU64.init

end Driver.C14
