import HopModel.Spec.Handshake
import HopModel.Driver.Util
/-
Driver for C19.  A case:
  new <hidden 0|1>
  hello <id> <addr>                          -> out=<n> hs=<n> ss=<n>
  ack <id> <from> <cookieOf> <rot> <flip>    -> out=<n> hs=<n> ss=<n>
  hreq <addr> <valid|wrongkem|stale|flip:<f>|replay>   -> out=<n> ss=<n>
  disc <hello|ack|auth>                      -> out=<n> hs=<n> ss=<n>
  junk <len> <type>                          -> out=<n> hs=<n> ss=<n>
Acceptance of a message is decided by running the expected reader actions (`Spec/Handshake.lean`)
on the environment the operation describes; the tables follow `Server.readPacket`.
-/
namespace Driver.C19
open Handshake

structure Cli where
  id : Nat
  addr : Nat
  epoch : Nat          -- cookie-key epoch at which its cookie was minted
  hasAck : Bool

structure W where
  hidden : Bool := false
  epoch : Nat := 0
  clis : List Cli := []
  hsAddrs : List Nat := []   -- addresses with a stored handshake
  ss : Nat := 0
  haveValidReq : Bool := false

def tables (w : W) (out : Nat) : String := s!"out={out} hs={w.hsAddrs.length} ss={w.ss}"

def env (mask : Nat) (cook time : Bool) : Env :=
  { honest := mask, possession := true, certOK := true, cookieOK := cook, timeOK := time, verifySet := true }

def clearBit (m i : Nat) : Nat := if m.testBit i then m - 2 ^ i else m

def step (w : W) : List String → W × String
  | ["new", h] => if h = "0" ∨ h = "1" then ({ hidden := h = "1" }, "ok") else (w, "bad-op")
  | ["hello", id, a] => match id.toNat?, a.toNat? with
    | some id, some a =>
      -- a well-formed hello is answered (statelessly) unless the server is hidden
      let answered := !w.hidden && runActs expClientHello (env (allHonest 3) true true)
      let c : Cli := { id := id, addr := a, epoch := w.epoch, hasAck := answered }
      ({ w with clis := c :: w.clis.filter (·.id ≠ id) }, tables w (if answered then 1 else 0))
    | _, _ => (w, "bad-op")
  | ["ack", id, from_, cookieOf, rot, flip] =>
    match id.toNat?, from_.toNat?, cookieOf.toNat? with
    | some id, some from_, some cookieOf =>
      match w.clis.find? (·.id = id), w.clis.find? (·.id = cookieOf) with
      | some c, some d =>
        if !c.hasAck || !d.hasAck then (w, "no-ack") else
        let w := if rot = "1" then { w with epoch := w.epoch + 1 } else w
        -- the cookie opens iff it was minted under the current key for this source address and
        -- for the KEM key this acknowledgement carries
        let cookieOK := d.id = c.id && d.addr = from_ && d.epoch = w.epoch
        let mask := match flip.toNat? with
          | some f => clearBit (allHonest 6) f
          | none => allHonest 6
        -- somebody else's cookie also differs from what the MAC covers
        let mask := if d.id = c.id then mask else clearBit mask 3
        if flip ≠ "x" ∧ flip.toNat?.isNone then (w, "bad-op") else
        if !w.hidden && runActs expClientAck (env mask cookieOK true) then
          -- state is stored once per address; a session is created with it; ServerAuth is sent
          if from_ ∈ w.hsAddrs then (w, tables w 1)
          else
            let w := { w with hsAddrs := from_ :: w.hsAddrs, ss := w.ss + 1 }
            (w, tables w 1)
        else (w, tables w 0)
      | _, _ => (w, "no-ack")
    | _, _, _ => (w, "bad-op")
  | ["xack", a] => match a.toNat? with
    -- a cookie minted under another server's key does not open under this server's current key
    | some _ =>
      if !w.hidden && runActs expClientAck (env (allHonest 6) false true) then (w, tables w 1) else (w, tables w 0)
    | none => (w, "bad-op")
  | ["hreq", a, kind] => match a.toNat? with
    | some _ =>
      let verdict : Option (Nat × Bool × Bool) :=   -- (mask, timeOK, counts as new valid request)
        match kind.splitOn ":" with
        | ["valid"] => some (allHonest 7, true, true)
        | ["wrongkem"] => some (clearBit (allHonest 7) 2, true, false)
        | ["stale"] => some (allHonest 7, false, false)
        | ["flip", f] => f.toNat?.map fun f => (clearBit (allHonest 7) f, true, false)
        | ["replay"] => if w.haveValidReq then some (allHonest 7, true, false) else some (0, true, false)
        | _ => none
      match verdict with
      | none => (w, "bad-op")
      | some (mask, timeOK, fresh) =>
        if w.hidden && runActs expRequestHidden (env mask true timeOK) then
          -- the hidden handshake finishes at once: the handshake entry is dropped again, the
          -- session stays
          let w := { w with ss := w.ss + 1, haveValidReq := w.haveValidReq || fresh }
          (w, s!"out=1 ss={w.ss}")
        else
          -- delivering a stale request took longer than the window: everything captured is stale now
          let have_ := if kind = "stale" then false else w.haveValidReq || (fresh && w.hidden)
          ({ w with haveValidReq := have_ }, s!"out=0 ss={w.ss}")
    | none => (w, "bad-op")
  | ["disc", k] =>
    if k ∈ ["hello", "ack", "auth"] then
      -- valid messages of a handshake with *another* server: the hello is answered by a
      -- discoverable server, the others carry a foreign cookie / belong to no stored handshake
      if !w.hidden && k = "hello" then (w, tables w 1) else (w, tables w 0)
    else (w, "bad-op")
  | ["junk", n, t] => match n.toNat?, t.toNat? with
    | some _, some _ => (w, tables w 0)
    | _, _ => (w, "bad-op")
  | _ => (w, "bad-op")

def main (_ : List String) : IO Unit := loopLines step {}

end Driver.C19
