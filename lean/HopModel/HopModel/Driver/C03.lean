import HopModel.Model.Session
import HopModel.Driver.Util
/-
Driver for C03 / C15: a world of `n` sessions between one server and `n` clients.
Endpoints: `S<i>` (server handle of session i) and `C<i>` (client i).  Addresses are indices;
client i starts at address i, the server is address 1000.

  new <n> <cap>                      n honest handshakes, receive queues of capacity cap   -> ok
  wr <ep> <len> <seed>               WriteMsg of PRG(seed)[0:len]                          -> ok | err
  write <ep> <len> <seed>            Write (stream) of PRG(seed)[0:len]                    -> n=<ret> k=<packets>
  ctl <ep> <b0,b1,…|->               genuine control message with that body                -> ok | err
  dlv <S|C<i>> <from> <pkt> <mut>    deliver packet `p<line>.<k>` (emitted by the operation on
                                     line <line> of this case, k-th packet), mutated, from address
                                     <from>                                      -> <ep> c=<0|1> r=<addr> | none
  junk <S|C<i>> <from> <len> <mt> <sess|x> <ctr>   made-up datagram               -> same as dlv
  rd <ep>                            drain the reader (past deadline)             -> id,id,… eof|to
  probe <ep>                         WriteMsg of 1 byte; destination of the datagram       -> dst=<addr> | err
  close <ep>                         local Close                                           -> ok
  setctr <ep> <n>                    set this end's send counter (as after that many packets)   -> ok
  cwr <ep> <writers> <each>          that many goroutines call WriteMsg concurrently        -> ok n=<packets>
  scan                               search every datagram emitted so far for application data,
                                     the server name, certificate keys/signatures  -> clean | leak

Mutations: none | flip:<t|r|s|c|b>:<off>:<mask> | trunc:<n> | ext:<n> | type:<t> | sid:<j> | ctr:<v>
-/
namespace Driver.C03
open Session

structure World where
  n : Nat
  srv : Array Ep          -- S i
  cli : Array Ep          -- C i
  pkts : List (String × Sealed)   -- "line.k" ↦ sealing
  line : Nat              -- line number within the case (the `new` line is 0)

def World.empty : World := { n := 0, srv := #[], cli := #[], pkts := [], line := 0 }

inductive EpRef | S (i : Nat) | C (i : Nat)

def parseEp (s : String) : Option EpRef :=
  if s.startsWith "S" then (s.drop 1).toNat?.map .S
  else if s.startsWith "C" then (s.drop 1).toNat?.map .C
  else none

def World.get (w : World) : EpRef → Option Ep
  | .S i => w.srv[i]?
  | .C i => w.cli[i]?

def World.set (w : World) : EpRef → Ep → World
  | .S i, e => { w with srv := w.srv.setIfInBounds i e }
  | .C i, e => { w with cli := w.cli.setIfInBounds i e }

def epName : EpRef → String
  | .S i => s!"S{i}"
  | .C i => s!"C{i}"

def payId : Pay → String
  | .data seed off len => if len < 8 then s!"d{len}" else s!"d{len}@{seed}+{off}"
  | .ctl b => s!"ctl{b}"

def b01 (b : Bool) : String := if b then "1" else "0"

/-- apply a mutation to the wire form of a sealing -/
def mutate (d : DG) (m : String) : Option DG :=
  match m.splitOn ":" with
  | ["none"] => some d
  | ["flip", reg, off, mask] =>
    match off.toNat?, mask.toNat? with
    | some off, some mask =>
      if mask = 0 ∨ mask > 255 then none else
      match reg with
      | "t" => if off = 0 then some { d with mt := d.mt ^^^ mask } else none
      | "r" => if off < 3 then some { d with rsvOk := false } else none
      | "s" => if off < 4 then some { d with sid := none } else none
      | "c" => if off < 8 then some { d with ctr := d.ctr ^^^ (mask <<< (8 * (7 - off))) } else none
      | "b" => if off + 16 < d.len then some { d with intact := false } else none
      | _ => none
    | _, _ => none
  | ["trunc", n] => match n.toNat? with
    | some n => if n < d.len then some { d with len := n, intact := false } else none
    | none => none
  | ["ext", n] => match n.toNat? with
    | some n => if n > 0 then some { d with len := d.len + n, intact := false } else none
    | none => none
  | ["type", t] => t.toNat?.map fun t => { d with mt := t }
  | ["sid", j] => j.toNat?.map fun j => { d with sid := some j }
  | ["ctr", v] => v.toNat?.map fun v => { d with ctr := v }
  | _ => none

/-- route a datagram: the server looks the session up by the identifier shown, a client only
listens for its own -/
def route (w : World) (to : String) (d : DG) : Option EpRef :=
  if to = "S" then
    if d.len < 8 then none else
    match d.sid with
    | some j => if j < w.n then some (.S j) else none
    | none => none
  else match parseEp to with
    | some (.C i) => if i < w.n then some (.C i) else none
    | _ => none

def deliver (why : Bool) (w : World) (to : String) (from_ : Nat) (d : DG) : World × String :=
  match route w to d with
  | none => (w, "none")
  | some r =>
    match w.get r with
    | none => (w, "none")
    | some e =>
      let (e', v) := recvV e from_ d
      (w.set r e', if why then s!"{epName r} c={b01 e'.closed} r={e'.remote} {reprStr v}"
                   else s!"{epName r} c={b01 e'.closed} r={e'.remote}")

def emit (w : World) (r : EpRef) (e : Ep) (mt : Nat) (pays : List Pay) : World :=
  let (e', ps, _) := pays.foldl (fun (acc : Ep × List (String × Sealed) × Nat) pay =>
      let (e, ps, k) := acc
      let (e', p) := sealPkt e mt pay
      (e', ps ++ [(s!"{w.line}.{k}", p)], k + 1)) (e, [], 0)
  { (w.set r e') with pkts := w.pkts ++ ps }

def step (why : Bool) (w0 : World) (ws : List String) : World × String :=
  let w := { w0 with line := w0.line + 1 }
  -- `new n cap t`: a timer world (short handshake timeout, clients dialled with a deadline): the same sessions
  let ws := match ws with
    | ["new", n, cap, "t"] => ["new", n, cap]
    | _ => ws
  match ws with
  | ["new", n, cap] => match n.toNat?, cap.toNat? with
    | some n, some cap =>
      if n = 0 ∨ n > 8 ∨ cap = 0 then (w0, "bad-op") else
      ({ n := n,
         srv := Array.ofFn (n := n) fun i => freshEp i .c2s cap i,
         cli := Array.ofFn (n := n) fun i => freshEp i .s2c cap 1000,
         pkts := [], line := 0 }, "ok")
    | _, _ => (w0, "bad-op")
  | ["wr", ep, len, seed] => match parseEp ep, len.toNat?, seed.toNat? with
    | some r, some len, some seed => match w.get r with
      | some e =>
        if len > maxPlaintext then (w, "err")
        else if e.closed then (w, "err")
        else (emit w r e mtTransport [.data seed 0 len], "ok")
      | none => (w, "bad-op")
    | _, _, _ => (w, "bad-op")
  | ["write", ep, len, seed] => match parseEp ep, len.toNat?, seed.toNat? with
    | some r, some len, some seed => match w.get r with
      | some e =>
        if e.closed then (w, "n=0 k=0")
        else
          let cs := chunks len
          (emit w r e mtTransport (cs.map fun (o, l) => .data seed o l), s!"n={len} k={cs.length}")
      | none => (w, "bad-op")
    | _, _, _ => (w, "bad-op")
  | ["ctl", ep, body] => match parseEp ep with
    | some r => match w.get r with
      | some e =>
        let b := if body = "-" then some [] else (body.splitOn ",").mapM String.toNat?
        match b with
        | some b => if e.closed then (w, "err") else (emit w r e mtControl [.ctl b], "ok")
        | none => (w, "bad-op")
      | none => (w, "bad-op")
    | none => (w, "bad-op")
  | ["dlv", to, from_, pkt, m] => match from_.toNat? with
    | some a => match w.pkts.lookup pkt with
      | none => (w, "no-such-packet")
      | some p => match mutate (wire p) m with
        | none => (w, "bad-op")
        | some d => deliver why w to a d
    | none => (w, "bad-op")
  | ["junk", to, from_, len, mt, sess, ctr] =>
    match from_.toNat?, len.toNat?, mt.toNat?, ctr.toNat? with
    | some a, some len, some mt, some ctr =>
      let sid := if sess = "x" then some none else sess.toNat?.map some
      match sid with
      | some sid =>
        let d : DG := { len := len, mt := mt, rsvOk := true, sid := sid, ctr := ctr, sealed := none, intact := false }
        deliver why w to a d
      | none => (w, "bad-op")
    | _, _, _, _ => (w, "bad-op")
  -- a duplicate of a completed handshake's ClientAck, and the handshake timers firing: the
  -- established sessions are not concerned (C03_forged_noop: not a transport datagram of theirs)
  | ["hsdup", i] => match i.toNat? with
    | some i => if i < w.n then (w, "ok") else (w, "bad-op")
    | none => (w, "bad-op")
  | ["hswait"] => (w, "ok")
  | ["rd", ep] => match parseEp ep with
    | some r => match w.get r with
      | some e =>
        let (e', ps, eof) := readAll e
        let ids := if ps.isEmpty then "-" else ",".intercalate (ps.map payId)
        (w.set r e', s!"{ids} {if eof then "eof" else "to"}")
      | none => (w, "bad-op")
    | none => (w, "bad-op")
  | ["probe", ep] => match parseEp ep with
    | some r => match w.get r with
      | some e =>
        if e.closed then (w, "err")
        else (emit w r e mtTransport [.data 0 0 1], s!"dst={e.remote}")
      | none => (w, "bad-op")
    | none => (w, "bad-op")
  | ["close", ep] => match parseEp ep with
    | some r => match w.get r with
      | some e => (w.set r { e with closed := true }, "ok")
      | none => (w, "bad-op")
    | none => (w, "bad-op")
  | ["setctr", ep, n] => match parseEp ep, n.toNat? with
    | some r, some n => match w.get r with
      | some e => (w.set r { e with txCtr := n }, "ok")
      | none => (w, "bad-op")
    | _, _ => (w, "bad-op")
  | ["cwr", ep, nw, each] => match parseEp ep, nw.toNat?, each.toNat? with
    -- concurrent writers: seals are serialised by the session lock, so the packets carry
    -- nw·each distinct consecutive counters (`C03_counters_strict`); their order is the scheduler's
    | some r, some nw, some each => match w.get r with
      | some e =>
        if nw = 0 ∨ nw > 16 ∨ each = 0 ∨ each > 64 then (w, "bad-op")
        else if e.closed then (w, "err")
        else (w.set r { e with txCtr := e.txCtr + nw * each }, s!"ok n={nw * each}")
      | none => (w, "bad-op")
    | _, _, _ => (w, "bad-op")
  | ["scan"] => (w, "clean")   -- no wire term of the model exposes a payload, name or certificate
  | _ => (w, "bad-op")

/-- `--why` appends the model's verdict (which check rejected) to every delivery line -/
def main (args : List String) : IO Unit := loopLines (step (args.contains "--why")) World.empty

end Driver.C03
