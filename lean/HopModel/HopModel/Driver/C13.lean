import HopModel.Model.Cyclist
import HopModel.Driver.Util
/-
Driver for C13.  Operations (the Go harness performs the same on a real `cyclist.Cyclist`; byte
strings in hex, `-` = empty):
  new                        NewCyclist()                            -> ok
  init <key> <id> <ctr>      Initialize(key, id, counter)            -> ok | panic
  empty                      InitializeEmpty()                       -> ok
  absorb <x>                 Absorb(x)                               -> ok
  enc <p>                    Encrypt(out, p)                         -> out | panic
  dec <c>                    Decrypt(out, c)                         -> out | panic
  sq <n>                     Squeeze(y), len(y) = n                  -> y
  sqk <n>                    SqueezeKey(y)                           -> y | panic
  ratchet                    Ratchet()                               -> ok | panic
  new ; op ; op ; …          a whole transcript as one case                   -> out;out;…
Vector replay: an operation may carry a last word `=<value>`, the value published in
`cyclist/testdata`; the model ignores it, the harness answers `<own output> !vector` when the real
code's output differs from it (so a deviation of either side from the vector shows in the diff).
The permutation is the Lean Keccak-p[1600, 12].
-/
namespace Driver.C13
open Cyclist

structure St where
  c : Cy

def render (o : Out) : String :=
  match o with
  | .done => "ok"
  | .bytes b => hexOrDash b
  | .panic => "panic"

def parse : List String → Option Op
  | ["init", k, i, n] => do
    let k ← fromHex k; let i ← fromHex i; let n ← fromHex n
    pure (.init k i n)
  | ["empty"] => some .initEmpty
  | ["absorb", x] => (fromHex x).map .absorb
  | ["enc", x] => (fromHex x).map .encrypt
  | ["dec", x] => (fromHex x).map .decrypt
  -- the same calls with output and input in one buffer (values cannot alias: the same operations)
  | ["enci", x] => (fromHex x).map .encrypt
  | ["deci", x] => (fromHex x).map .decrypt
  | ["sq", n] => n.toNat?.map .squeeze
  | ["sqk", n] => n.toNat?.map .squeezeKey
  | ["ratchet"] => some .ratchet
  | _ => none

def stepOne (st : St) (ws : List String) : St × String :=
  match stripExpect ws with
  | ["new"] => ({ c := Cyclist.empty }, "ok")
  | ws =>
    match parse ws with
    | some op =>
      let r := step Keccak.f12 st.c op
      ({ c := r.1 }, render r.2)
    | none => (st, "bad-op")

def stepLine (st : St) (ws : List String) : St × String :=
  match ws with
  | "new" :: ";" :: rest => runScript stepOne st rest
  | _ => stepOne st ws

def main (_ : List String) : IO Unit := loopLines stepLine { c := Cyclist.empty }

end Driver.C13
