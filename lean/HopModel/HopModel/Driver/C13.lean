import HopModel.Model.Cyclist
import HopModel.Driver.Util
/-
Driver for C13.  Operations (the Go harness performs the same on a real `cyclist.Cyclist`; byte
strings in hex, `-` = empty):
  new                        NewCyclist()                            -> ok
  init <key> <id> <ctr>      Initialize(key, id, counter)            -> ok | panic
  empty                      InitializeEmpty()                       -> ok
  absorb <x>                 Absorb(x)                               -> ok
  enc <p>                    Encrypt(out, p)                         -> out | panic
  dec <c>                    Decrypt(out, c)                         -> out | panic
  sq <n>                     Squeeze(y), len(y) = n                  -> y
  sqk <n>                    SqueezeKey(y)                           -> y | panic
  ratchet                    Ratchet()                               -> ok | panic
  want <hex>                 (vector replay) the model prints its previous output again; the
                             harness prints <hex>, the value in the published transcript
The permutation is the Lean Keccak-p[1600, 12].
-/
namespace Driver.C13
open Cyclist

structure St where
  c : Cy
  last : String

def render (o : Out) : String :=
  match o with
  | .done => "ok"
  | .bytes b => hexOrDash b
  | .panic => "panic"

def parse : List String → Option Op
  | ["init", k, i, n] => do
    let k ← fromHex k; let i ← fromHex i; let n ← fromHex n
    pure (.init k i n)
  | ["empty"] => some .initEmpty
  | ["absorb", x] => (fromHex x).map .absorb
  | ["enc", x] => (fromHex x).map .encrypt
  | ["dec", x] => (fromHex x).map .decrypt
  | ["sq", n] => n.toNat?.map .squeeze
  | ["sqk", n] => n.toNat?.map .squeezeKey
  | ["ratchet"] => some .ratchet
  | _ => none

def stepLine (st : St) (ws : List String) : St × String :=
  match ws with
  | ["new"] => ({ c := Cyclist.empty, last := "ok" }, "ok")
  | ["want", _] => (st, st.last)
  | _ =>
    match parse ws with
    | some op =>
      let r := step Keccak.f12 st.c op
      let o := render r.2
      ({ c := r.1, last := o }, o)
    | none => (st, "bad-op")

def main (_ : List String) : IO Unit := loopLines stepLine { c := Cyclist.empty, last := "" }

end Driver.C13
