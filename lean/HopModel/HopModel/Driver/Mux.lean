import HopModel.Model.Muxer
import HopModel.Driver.Util
/-
Driver for the muxer-level suites C09 and C11 (the Go harness runs a real `tubes.Muxer` on a
scripted `MsgConn`, see harness/muxh).  Keys are `r|u <id>`.

  new <parity>                 new muxer, 0 = server (even ids), 1 = client      -> ok
  raw <hex>                    one datagram for the muxer's receiver             -> ok   (impl: ok | blocked | panic)
  accept                       Accept without blocking                           -> none | r|u <id> <type>
  create r|u <type>            Create*Tube                                       -> <id> | err
  ccreate r|u <type> <n>       n concurrent Create*Tube calls, ids sorted        -> id,id,…(,err…)
  read r|u <id> <n>            Read on a held tube into n bytes                  -> no-tube | block | eof | <hex> <flag>
  wr r|u <id> <hex>            Write on a held tube and watch the frame leave    -> ok | no
  reap r|u <id>                close handshake (harness plays the peer), reaper  -> ok | no
  shut r <id>                  close handshake of a locally opened reliable tube, NOT waiting for the
                               reaper: the identifier is reserved until `reap`   -> ok | no
  has r|u <id>                 is there a tube under that key                    -> 0 | 1
  stop                         Muxer.Stop                                        -> ok
-/
namespace Driver.Mux
open Tubes

def parseKey (r id : String) : Option Key :=
  match id.toNat? with
  | some n => if n < 256 then (if r = "r" then some (true, n) else if r = "u" then some (false, n) else none) else none
  | none => none

def relLetter (b : Bool) : String := if b then "r" else "u"

structure St where
  m : Option Mux := none

def createN (m : Mux) (rel : Bool) (ty : Nat) : Nat → Mux × List (Option Nat)
  | 0 => (m, [])
  | n + 1 =>
    let (m1, r) := create m rel ty
    let (m2, rs) := createN m1 rel ty n
    (m2, r :: rs)

def insertSorted (x : Nat) : List Nat → List Nat
  | [] => [x]
  | y :: t => if x ≤ y then x :: y :: t else y :: insertSorted x t

def step (st : St) (ws0 : List String) : St × String :=
  -- `rawnw`: a datagram delivered without waiting for the goroutine a previous initiation frame
  -- started (harness/muxh): the same event for the model
  let ws := match ws0 with
    | ["rawnw", h] => ["raw", h]
    | _ => ws0
  match ws with
  | ["new", p] =>
    if p = "0" then ({ m := some { parity := 0 } }, "ok")
    else if p = "1" then ({ m := some { parity := 1 } }, "ok")
    else (st, "bad-op")
  | _ =>
  match st.m with
  | none => (st, "bad-op")
  | some m =>
  match ws with
  | ["raw", hex] => match fromHex hex with
    | some b =>
      if b.length ≤ 65535 then
        match onRaw m b with
        | .ok m' => ({ m := some m' }, "ok")
        | .err => (st, "err")
        | .panic => ({ m := none }, "panic")
      else (st, "bad-op")
    | none => (st, "bad-op")
  | ["accept"] =>
    match accept m with
    | (m', some t) => ({ m := some m' }, s!"{relLetter t.rel} {t.id} {t.ttype}")
    | (_, none) => (st, "none")
  | ["create", r, ty] => match ty.toNat? with
    | some ty =>
      if ty < 256 ∧ (r = "r" ∨ r = "u") then
        match create m (r = "r") ty with
        | (m', some id) => ({ m := some m' }, toString id)
        | (_, none) => (st, "err")
      else (st, "bad-op")
    | none => (st, "bad-op")
  | ["ccreate", r, ty, n] => match ty.toNat?, n.toNat? with
    | some ty, some n =>
      if ty < 256 ∧ (r = "r" ∨ r = "u") ∧ 1 ≤ n ∧ n ≤ 300 then
        let (m', rs) := createN m (r = "r") ty n
        let ids := (rs.filterMap id).foldl (fun acc x => insertSorted x acc) []
        let errs := (rs.filter (·.isNone)).map fun _ => "err"
        ({ m := some m' }, ",".intercalate (ids.map toString ++ errs))
      else (st, "bad-op")
    | _, _ => (st, "bad-op")
  | ["read", r, id, n] => match parseKey r id, n.toNat? with
    | some k, some n =>
      if n ≤ 70000 then
        match readTube m k n with
        | (_, .noTube) => (st, "no-tube")
        | (_, .block) => (st, "block")
        | (_, .eof) => (st, "eof")
        | (m', .data b fl) => ({ m := some m' }, hexOrDash b ++ (if fl then " 1" else " 0"))
      else (st, "bad-op")
    | _, _ => (st, "bad-op")
  | ["wr", r, id, hex] => match parseKey r id, fromHex hex with
    | some k, some d =>
      if 0 < d.length ∧ d.length ≤ 1000 then (st, if canWrite m k then "ok" else "no") else (st, "bad-op")
    | _, _ => (st, "bad-op")
  | ["reap", r, id] => match parseKey r id with
    | some k => match reap m k with
      | (m', true) => ({ m := some m' }, "ok")
      | (_, false) => (st, "no")
    | none => (st, "bad-op")
  | ["shut", r, id] => match parseKey r id with
    | some k => match shut m k with
      | (m', true) => ({ m := some m' }, "ok")
      | (_, false) => (st, "no")
    | none => (st, "bad-op")
  | ["has", r, id] => match parseKey r id with
    | some k => (st, if (lookup m.tubes k).isSome then "1" else "0")
    | none => (st, "bad-op")
  | ["stop"] => ({ m := none }, "ok")
  -- Stop while one more datagram arrives after the send queues were closed: Stop returns all the same
  | ["stopfeed", h] => match fromHex h with
    | some b => if b.length ≤ 65535 then ({ m := none }, "ok") else (st, "bad-op")
    | none => (st, "bad-op")
  -- … and one more while Stop is still waiting for the tubes (the muxer is stopping)
  | ["stopfeed2", h1, h2] => match fromHex h1, fromHex h2 with
    | some b1, some b2 => if b1.length ≤ 65535 ∧ b2.length ≤ 65535 then ({ m := none }, "ok") else (st, "bad-op")
    | _, _ => (st, "bad-op")
  | _ => (st, "bad-op")

def main (_ : List String) : IO Unit := loopLines step {}

/-! ### monitor for suite C09late: trace lines `[late] <op> => <result>`.  The Spec (C09_full):
datagrams marked `late` must be unobservable, i.e. every result must be what the model answers
when the late datagrams are left out. -/

def splitArrow : List String → List String → List String × List String
  | acc, [] => (acc.reverse, [])
  | acc, "=>" :: rest => (acc.reverse, rest)
  | acc, w :: rest => splitArrow (w :: acc) rest

def lateStep (st : St × Bool) (ws : List String) : (St × Bool) × String :=
  let (op, res) := splitArrow [] ws
  match op with
  | "late" :: _ => ((st.1, true), "ok")
  | _ =>
    let (st', out) := step st.1 op
    let expect := " ".intercalate res
    let late := if op.head? = some "new" then false else st.2
    ((st', late), if out = expect then "ok" else if late then "late-frame-observable" else "mismatch")

def mainLate (_ : List String) : IO Unit := loopLines lateStep ({}, false)

end Driver.Mux
