import HopModel.Driver.Util
import HopModel.Model.Dgram
/-
Driver for C10.  The model's answer to every junk datagram is "the endpoint is still there and
nothing it had established changed" (`C10_*`, `C03_forged_noop`, `C19_*`); it keeps count of the
sessions the case established so that probes can be predicted.
  new <hidden> <ncerts> <literal|star>  -> ok
  est <cert>                            -> ok
  t … | m … | hdr … | sni … | r … | cj … | half …   -> ok
  probe                                 -> hs=1 est=k/k
-/
namespace Driver.C10

structure W where
  ncerts : Nat := 0
  est : Nat := 0

def isNat (s : String) : Bool := s.toNat?.isSome

def step (w : W) : List String → W × String
  | ["new", h, n, pat] =>
    match n.toNat? with
    | some n => if (h = "0" ∨ h = "1") ∧ 1 ≤ n ∧ n ≤ 4 ∧ (pat = "literal" ∨ pat = "star") then ({ ncerts := n }, "ok") else (w, "bad-op")
    | none => (w, "bad-op")
  | ["est", c] => match c.toNat? with
    | some c => if c < w.ncerts then ({ w with est := w.est + 1 }, "ok") else (w, "bad-op")
    | none => (w, "bad-op")
  | ["t", _, c, n] => if isNat c ∧ isNat n then (w, "ok") else (w, "bad-op")
  | ["m", _, c, f, _] => if isNat c ∧ isNat f then (w, "ok") else (w, "bad-op")
  | ["hdr", e, t, n] => if isNat e ∧ isNat t ∧ isNat n then (w, "ok") else (w, "bad-op")
  | ["sni", _] => (w, "ok")
  | ["r", n, t, s] => if isNat n ∧ isNat t ∧ isNat s then (w, "ok") else (w, "bad-op")
  | ["cj", st, n, t] => if (st = "s0" ∨ st = "s1" ∨ st = "est") ∧ isNat n ∧ isNat t then (w, "ok") else (w, "bad-op")
  | ["half", k, n] =>
    -- a session without keys rejects everything that names it (`Session.recvV`: `noKey`)
    if (k = "zerokey" ∨ k = "randkey" ∨ k = "junk" ∨ k = "control-zerokey") ∧ isNat n then (w, "ok") else (w, "bad-op")
  | ["probe"] => (w, s!"hs=1 est={w.est}/{w.est}")
  | _ => (w, "bad-op")

def main (_ : List String) : IO Unit := loopLines step {}

/-- suite C10vec: `vec <hex>` - the slice-level transcription of `DecryptCertificates` on the decrypted bytes -/
def stepVec (_ : Unit) : List String → Unit × String
  | ["vec", h] => match fromHex h with
    | some b => match Dgram.decryptCertificates b with
      | .ok (l, i) => ((), s!"ok {l} {i}")
      | .err => ((), "err")
      | .panic => ((), "panic")
    | none => ((), "bad-op")
  | _ => ((), "bad-op")

def mainVec (_ : List String) : IO Unit := loopLines stepVec ()

end Driver.C10
