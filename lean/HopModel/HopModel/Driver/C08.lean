import HopModel.Model.Receiver
import HopModel.Model.Sender
import HopModel.Spec.Stream
import HopModel.Driver.Util
/-
Driver for C08 (suite `C08`, deterministic core; the Go harness steps a bare `receiver` /
`sender` through the `verif` hooks).  Flags are a subset of the letters Q(REQ) P(RESP) L(REL)
A(ACK) F(FIN) T(RTR), `-` for none; byte strings in hex, `-` = empty.

  new rx <ackNo> <windowStart>   fresh receiver placed there                     -> ok
  rcv <frameNo> <flags> <hex>    receiver.receive                                -> ok0|ok1|eof|oob a=.. w=.. f=.. b=..
  read <n>                       receiver.read into n bytes                      -> block | <hex> <eof 0|1>
  new tx <ackNo> <frameNo>       fresh sender placed there                       -> ok
  write <hex> | writep <len> <a> <b>   sender.write (pattern: byte i = (a+i*b)%256) -> ok <n> | eof
  ack <ack32> <window>           set congestion window, sender.recvAck           -> ok | dup
  fin                            sender.sendFin                                  -> ok | eof
  st                             sender state                                    -> a=.. n=.. fs=no:len:flags:sum,…
  new fn                         pure functions                                  -> ok
  unwrap <ackNo> <frameNo>       unwrapFrameNo                                   -> <n>
  inb <wS> <wE> <f>              frameInBounds                                   -> 0|1

Suite `C08sys` (monitor): reads an observed trace of two real muxers over a faulty network
  new <label> | written <dir> <hex> | read <dir> <hex> | closed <dir> | eof <dir> | note …
and answers `ok` unless the prefix / EOF-after-all-data Spec is violated on that line; the final
line `end <dir> complete|incomplete` checks completeness where the run claims the network recovered.
-/
namespace Driver.C08
open Tubes

inductive St where
  | none
  | rx (r : Receiver)
  | tx (s : Sender)
  | fn

def parseFlags (s : String) : Option Frame :=
  if s = "-" then some {} else
  s.toList.foldlM (fun (f : Frame) c =>
    match c with
    | 'Q' => some { f with req := true }
    | 'P' => some { f with resp := true }
    | 'L' => some { f with rel := true }
    | 'A' => some { f with ack := true }
    | 'F' => some { f with fin := true }
    | 'T' => some { f with rtr := true }
    | _ => Option.none) {}

def rxState (r : Receiver) : String :=
  s!" a={r.ackNo} w={r.windowStart} f={r.frags.length} b={r.buffer.length}"

def checksum (b : Bytes) : Nat := b.foldl (fun h x => (h * 31 + x.toNat) % 4294967296) 7

def sframe (f : SFrame) : String :=
  let fl := (if f.ack then "A" else "") ++ (if f.fin then "F" else "")
  s!"{f.frameNo}:{f.data.length}:{if fl = "" then "-" else fl}:{checksum f.data}"

def txState (s : Sender) : String :=
  s!"a={s.ackNo} n={s.frameNo} fs={",".intercalate (s.frames.map sframe)}"

def pattern (len a b : Nat) : Bytes := (List.range len).map fun i => UInt8.ofNat ((a + i * b) % 256)

def doWrite (s : Sender) (b : Bytes) : St × String :=
  let (s', o) := s.write b
  (.tx s', match o with | .ok n => s!"ok {n}" | .eof => "eof")

def step (st : St) : List String → St × String
  | ["new", "rx", a, w] => match a.toNat?, w.toNat? with
    | some a, some w => (.rx (Receiver.at a w), "ok")
    | _, _ => (st, "bad-op")
  | ["new", "tx", a, n] => match a.toNat?, n.toNat? with
    | some a, some n => if n < two32 then (.tx (Sender.at a n), "ok") else (st, "bad-op")
    | _, _ => (st, "bad-op")
  | ["new", "fn"] => (.fn, "ok")
  | ["rcv", no, fl, hex] => match st, no.toNat?, parseFlags fl, fromHex hex with
    | .rx r, some no, some f, some d =>
      if no < two32 ∧ d.length < 65536 then
        let (r', o) := receive r { f with frameNo := no, data := d }
        (.rx r', (match o with | .ok false => "ok0" | .ok true => "ok1" | .eof => "eof" | .outOfBounds => "oob") ++ rxState r')
      else (st, "bad-op")
    | _, _, _, _ => (st, "bad-op")
  | ["read", n] => match st, n.toNat? with
    | .rx r, some n => match read r n with
      | Option.none => (st, "block")
      | some (r', out, e) => (.rx r', hexOrDash out ++ (if e then " 1" else " 0"))
    | _, _ => (st, "bad-op")
  | ["write", hex] => match st, fromHex hex with
    | .tx s, some b => doWrite s b
    | _, _ => (st, "bad-op")
  | ["writep", len, a, b] => match st, len.toNat?, a.toNat?, b.toNat? with
    | .tx s, some len, some a, some b => if len ≤ 1000000 then doWrite s (pattern len a b) else (st, "bad-op")
    | _, _, _, _ => (st, "bad-op")
  | ["ack", a, w] => match st, a.toNat?, w.toNat? with
    | .tx s, some a, some w =>
      if a < two32 ∧ w < 65536 then
        let (s', o) := s.recvAck a w
        (.tx s', match o with | .ok => "ok" | .tooManyDup => "dup")
      else (st, "bad-op")
    | _, _, _ => (st, "bad-op")
  | ["fin"] => match st with
    | .tx s => let (s', o) := s.sendFin; (.tx s', match o with | .ok _ => "ok" | .eof => "eof")
    | _ => (st, "bad-op")
  | ["st"] => match st with
    | .tx s => (st, txState s)
    | _ => (st, "bad-op")
  | ["unwrap", a, n] => match st, a.toNat?, n.toNat? with
    | .fn, some a, some n => if a < two64 ∧ n < two32 then (st, toString (unwrapFrameNo a n)) else (st, "bad-op")
    | _, _, _ => (st, "bad-op")
  | ["fts", w, u, c, n, rto, start] => match st, w.toNat?, u.toNat?, c.toInt?, n.toNat?, rto.toNat?, start.toInt? with
    | .fn, some w, some u, some c, some n, some rto, some start =>
      if w < 65536 ∧ u < 65536 ∧ n ≤ 1000000 ∧ rto ≤ 1 ∧ c.natAbs ≤ 1000000000 ∧ start.natAbs ≤ 1000000000 then
        (st, toString (framesToSend w u c n (rto == 1) start))
      else (st, "bad-op")
    | _, _, _, _, _, _, _ => (st, "bad-op")
  | ["inb", a, b, c] => match st, a.toNat?, b.toNat?, c.toNat? with
    | .fn, some a, some b, some c =>
      if a < two64 ∧ b < two64 ∧ c < two64 then (st, if frameInBounds a b c then "1" else "0") else (st, "bad-op")
    | _, _, _, _ => (st, "bad-op")
  | _ => (st, "bad-op")

def main (_ : List String) : IO Unit := loopLines step .none

/-! ### monitor for C08sys -/

structure Dir where
  name : String
  m : Mon

def upd (ds : List Dir) (d : String) (f : Mon → Mon × String) : List Dir × String :=
  match ds.find? (·.name = d) with
  | some x =>
    let (m', out) := f x.m
    (ds.map fun y => if y.name = d then { y with m := m' } else y, out)
  | Option.none =>
    let (m', out) := f {}
    (⟨d, m'⟩ :: ds, out)

def monStep (ds : List Dir) : List String → List Dir × String
  | "new" :: _ => ([], "ok")
  | "note" :: _ => (ds, "ok")
  -- a reader of a shadow unreliable tube (same id as a reliable one, never written on) got a message
  | "stray" :: _ => (ds, "message-on-a-tube-nobody-wrote-on")
  | ["written", d, hex] => match fromHex hex with
    | some b => upd ds d fun m =>
      if m.closedW then (m, "write-after-close") else ({ m with written := m.written ++ b }, "ok")
    | Option.none => (ds, "bad-op")
  | ["closed", d] => upd ds d fun m => ({ m with closedW := true }, "ok")
  | ["read", d, hex] => match fromHex hex with
    | some b => upd ds d fun m =>
      let m' := { m with read := m.read ++ b }
      if m.eof then (m', "read-after-eof")
      else if isPrefix m'.read m'.written then (m', "ok") else (m', "not-a-prefix")
    | Option.none => (ds, "bad-op")
  | ["eof", d] => upd ds d fun m =>
      let m' := { m with eof := true }
      if !m.closedW then (m', "eof-before-close")
      else if m.read = m.written then (m', "ok") else (m', s!"eof-after-{m.read.length}-of-{m.written.length}")
  | ["end", d, claim] => upd ds d fun m =>
      if claim = "complete" then
        (m, if m.read = m.written then "ok" else s!"incomplete-{m.read.length}-of-{m.written.length}")
      else if claim = "any" then (m, "ok") else (m, "bad-op")
  | _ => (ds, "bad-op")

def mainSys (_ : List String) : IO Unit := loopLines monStep []

end Driver.C08
