import HopModel.Model.Principal
import HopModel.Driver.Util
/-
Driver for C06.  Two suites.

`C06` — principal side.  A case is one delegate connection:
  new                                                        -> ok
  req <intent> <setup> <A|D> <answer>                        -> the request's trace segment | unserved
  junk <conf|denied|comm|trunc|badtype> <n>                  -> quit | unserved
where <intent> is ten words  gtype reserved port start exp sniType sniHex userHex certToken cmdHex,
<setup> is  early | skip | v:<cert>:<0|1>,  <answer> is  confirm | deny | close | garbage | wfail.
A segment is the `;`-joined list of events
  cb:<intent,comma-joined>:<cert|nil>:<A|D>   approval callback invoked, its arguments and result
  tt:<intent>                                  intent communication written on the target connection
  td:<C|D>                                     confirmation / denial written on the delegate connection

`C06t` — target side (`handleIntentCommunication`):
  new                                                        -> ok
  comm <intent> <checkOk 0|1> <addOk 0|1>                    -> ck:<intent>[;add:<intent>];re:<C|D> | unserved
  junk <conf|denied|req|trunc|badtype> <n>                   -> quit | unserved
-/
namespace Driver.C06
open Principal

def natLt (s : String) (bound : Nat) : Option Nat :=
  match s.toNat? with
  | some n => if n < bound ∧ s.length ≤ 20 then some n else none
  | none => none

def bytesLe (s : String) (maxLen : Nat) : Option (List UInt8) :=
  match fromHex s with
  | some b => if b.length ≤ maxLen then some b else none
  | none => none

/-- the ten intent words; grant types 3 and 4 (port forwarding) have no wire encoding in hop-go
(their grant-data codecs are `panic("unimplemented")`), a command only exists for type 2 -/
def parseIntent : List String → Option Intent
  | [g, r, p, st, ex, sty, sni, u, c, cmd] => do
    let g ← natLt g 256
    if g = 3 ∨ g = 4 then none
    let r ← natLt r 256
    let p ← natLt p 65536
    let st ← natLt st (2 ^ 63)
    let ex ← natLt ex (2 ^ 63)
    let sty ← natLt sty 256
    let sni ← bytesLe sni 200
    let u ← bytesLe u 255
    let c ← natLt c 65536
    let cmd ← bytesLe cmd 255
    if g ≠ 2 ∧ cmd ≠ [] then none
    some { gtype := g, reserved := r, port := p, start := st, exp := ex, sniType := sty, sni := sni,
           user := u, cert := c, cmd := cmd }
  | _ => none

def parseSetup (s : String) : Option Setup :=
  if s = "early" then some .failEarly
  else if s = "skip" then some .skipVerify
  else match s.splitOn ":" with
    | ["v", c, "0"] => (natLt c 65536).map fun c => .verify c false
    | ["v", c, "1"] => (natLt c 65536).map fun c => .verify c true
    | _ => none

def parseAnswer : String → Option Answer
  | "confirm" => some .confirm
  | "deny" => some .deny
  | "close" => some .readFail
  | "garbage" => some .readFail
  | "wfail" => some .writeFail
  | _ => none

def parseBool01 : String → Option Bool
  | "0" => some false
  | "1" => some true
  | _ => none

def showIntent (i : Intent) : String :=
  ",".intercalate [toString i.gtype, toString i.reserved, toString i.port, toString i.start,
    toString i.exp, toString i.sniType, hexOrDash i.sni, hexOrDash i.user, toString i.cert,
    hexOrDash i.cmd]

def showEv : Ev → String
  | .callback i c d => "cb:" ++ showIntent i ++ ":" ++ (match c with | some c => toString c | none => "nil")
      ++ ":" ++ (if d then "A" else "D")
  | .toTarget i => "tt:" ++ showIntent i
  | .toDelegate b => "td:" ++ (if b then "C" else "D")

def showTEv : TEv → String
  | .check i => "ck:" ++ showIntent i
  | .add i => "add:" ++ showIntent i
  | .reply b => "re:" ++ (if b then "C" else "D")

/-- driver state: `none` once the instance has quit -/
abbrev PSt := Option St

-- pf3 / pf4: a complete message of the expected type with a port-forwarding grant type (no encoding
-- of its grant data exists: the reader refuses it)
def junkKinds : List String := ["conf", "denied", "comm", "trunc", "badtype", "pf3", "pf4"]
def junkKindsT : List String := ["conf", "denied", "req", "trunc", "badtype", "pf3", "pf4"]

def step (st : PSt) : List String → PSt × String
  | ["new"] => (some Principal.init, "ok")
  | "req" :: rest =>
    if rest.length ≠ 13 then (st, "bad-op") else
    match parseIntent (rest.take 10), rest.drop 10 with
    | some i, [su, d, an] =>
      match parseSetup su, (if d = "A" then some true else if d = "D" then some false else none),
            parseAnswer an with
      | some su, some d, some an =>
        match st with
        | none => (none, "unserved")
        | some s =>
          let (s', evs) := handle s ⟨i, su, d, an⟩
          (some s', ";".intercalate (evs.map showEv))
      | _, _, _ => (st, "bad-op")
    | _, _ => (st, "bad-op")
  | ["junk", k, n] =>
    if junkKinds.contains k ∧ (natLt n 100000).isSome then
      match st with
      | none => (none, "unserved")
      | some _ => (none, "quit")
    else (st, "bad-op")
  | _ => (st, "bad-op")

/-- target side: `true` while the instance is running -/
def stepT (alive : Bool) : List String → Bool × String
  | ["new"] => (true, "ok")
  | "comm" :: rest =>
    if rest.length ≠ 12 then (alive, "bad-op") else
    match parseIntent (rest.take 10), rest.drop 10 with
    | some i, [c, a] =>
      match parseBool01 c, parseBool01 a with
      | some c, some a =>
        if alive then (true, ";".intercalate ((targetStep ⟨i, c, a⟩).map showTEv))
        else (false, "unserved")
      | _, _ => (alive, "bad-op")
    | _, _ => (alive, "bad-op")
  | ["junk", k, n] =>
    if junkKindsT.contains k ∧ (natLt n 100000).isSome then
      (false, if alive then "quit" else "unserved")
    else (alive, "bad-op")
  | _ => (alive, "bad-op")

def main (_ : List String) : IO Unit := loopLines step none
def mainT (_ : List String) : IO Unit := loopLines stepT false

end Driver.C06
