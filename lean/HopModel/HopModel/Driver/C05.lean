import HopModel.Model.Login
import HopModel.Driver.Util
/-
Driver for C05 (byte strings in hex, `-` = empty; keys must be 32 bytes).

suite C05 (a case starts with `new`):
  new <ak> <ag>                   fresh server, EnableAuthorizedKeys / EnableAuthgrants (0|1)     -> ok
  file <user> nouser|missing|dir  what the server finds for <user>                              -> ok
  file <user> data <content>
  authkey <user> <key>            HopServer.AuthorizeKey                                        -> ok | err
  addgrant <user> <key> <id>      HopServer.AddAuthGrant (intent for user, delegate key, tag id) -> ok | err
  usegrant <user> <key>           HopServer.AuthorizeKeyAuthGrant                               -> ok id,id,… | err
  login <user> <key>              decision of checkAuthorization                 -> listed | grant id,… | reject
  inset <key>                     key in the transport key set                                  -> 1 | 0

suite C05parse (every line is a case):
  parse <content>                 core.ParseAuthorizedKeys                                      -> ok k1,k2,… | err
  key <line>                      keys.ParseDHPublicKey                                         -> ok k | err
  trim <bytes>                    strings.TrimSpace                                             -> bytes
  lines <content>                 bufio.Scanner tokens                                          -> l1,l2,…
-/
namespace Driver.C05
open AuthKeys Login

structure St where
  s : State
  fs : List (User × FileState)

def St.lookup (st : St) (u : User) : FileState :=
  match st.fs.find? (fun e => e.1 == u) with
  | some e => e.2
  | none => .noUser

def St.setFile (st : St) (u : User) (f : FileState) : St :=
  { st with fs := (u, f) :: st.fs.filter (fun e => !(e.1 == u)) }

def init : St := { s := Login.init false, fs := [] }

def key? (s : String) : Option Key :=
  match fromHex s with
  | some k => if k.length = 32 then some k else none
  | none => none

def flag? (s : String) : Option Bool :=
  if s = "1" then some true else if s = "0" then some false else none

def ids (gs : List Grant) : String := ",".intercalate (gs.map toString)

def hexList (l : List Bytes) : String :=
  if l.isEmpty then "." else ",".intercalate (l.map hexOrDash)

def step (st : St) : List String → St × String
  | ["new", ak, ag] => match flag? ak, flag? ag with
    | some _, some ag => ({ s := Login.init ag, fs := [] }, "ok")
    | _, _ => (st, "bad-op")
  | ["file", u, kind] => match fromHex u with
    | some u =>
      if kind = "nouser" then (st.setFile u .noUser, "ok")
      else if kind = "missing" then (st.setFile u .missing, "ok")
      else if kind = "dir" then (st.setFile u .unreadable, "ok")
      else (st, "bad-op")
    | none => (st, "bad-op")
  | ["file", u, "data", d] => match fromHex u, fromHex d with
    | some u, some d => (st.setFile u (.content d), "ok")
    | _, _ => (st, "bad-op")
  -- the authorized_keys file of the account the server runs as: no user's file, it authorizes nobody here
  -- the session's first tube is not a reliable user-authorization tube: refused, nothing changes
  | ["badlogin", k] => if k = "unrel" ∨ k = "othertype" then (st, "reject") else (st, "bad-op")
  | ["srvfile", d] => match fromHex d with
    | some _ => (st, "ok")
    | none => (st, "bad-op")
  | ["authkey", u, k] => match fromHex u, key? k with
    | some u, some k => (st, if authorizeKey st.lookup u k = .ok then "ok" else "err")
    | _, _ => (st, "bad-op")
  | ["addgrant", u, k, g] => match fromHex u, key? k, g.toNat? with
    | some u, some k, some g =>
      let (ok, s') := addGrant st.s u k g
      ({ st with s := s' }, if ok then "ok" else "err")
    | _, _, _ => (st, "bad-op")
  | ["usegrant", u, k] => match fromHex u, key? k with
    | some u, some k =>
      match useGrants st.s u k with
      | (some gs, s') => ({ st with s := s' }, "ok " ++ ids gs)
      | (none, s') => ({ st with s := s' }, "err")
    | _, _ => (st, "bad-op")
  | ["raceuse", u, k, n] => match fromHex u, key? k, n.toNat? with
    -- n concurrent calls of AuthorizeKeyAuthGrant are n calls in some order: the first gets the
    -- stored grants, the others find none (C05_grant_consumed)
    | some u, some k, some n =>
      if 2 ≤ n ∧ n ≤ 64 then
        match useGrants st.s u k with
        | (some gs, s') => ({ st with s := s' }, "wins=1 " ++ ids gs)
        | (none, s') => ({ st with s := s' }, "wins=0 -")
      else (st, "bad-op")
    | _, _, _ => (st, "bad-op")
  | ["login", u, k] => match fromHex u, key? k with
    | some u, some k =>
      match login st.s st.lookup u k with
      | (.listed, s') => ({ st with s := s' }, "listed")
      | (.granted gs, s') => ({ st with s := s' }, "grant " ++ ids gs)
      | (.rejected, s') => ({ st with s := s' }, "reject")
    | _, _ => (st, "bad-op")
  | ["inset", k] => match key? k with
    | some k => (st, if st.s.keySet.contains k then "1" else "0")
    | none => (st, "bad-op")
  | _ => (st, "bad-op")

def stepParse (_ : Unit) : List String → Unit × String
  | ["parse", d] => match fromHex d with
    | some d => ((), match parseAuthorizedKeys d with
      | some ks => "ok " ++ hexList ks
      | none => "err")
    | none => ((), "bad-op")
  | ["key", l] => match fromHex l with
    | some l => ((), match parseKey l with
      | some k => "ok " ++ hexOrDash k
      | none => "err")
    | none => ((), "bad-op")
  | ["trim", b] => match fromHex b with
    | some b => ((), hexOrDash (trimSpace b))
    | none => ((), "bad-op")
  | ["lines", d] => match fromHex d with
    | some d => ((), hexList (scanLines d))
    | none => ((), "bad-op")
  | _ => ((), "bad-op")

def main (_ : List String) : IO Unit := loopLines step init
def mainParse (_ : List String) : IO Unit := loopLines stepParse ()

end Driver.C05
