import HopModel.Model.Certs
import HopModel.Driver.Util
/-
Driver for C04 (a case starts with `new`).  Everything after a `::` token is information for the
model only (the abstract view of what the implementation side builds from the concrete part);
a trailing token starting with `#` is a label for the evidence histogram and is ignored.

record  = <type> <names> <issued sec> <nsec> <expires sec> <nsec> <pk> <parent> <fp> <rawlen> <tbs> <haskey> <signers>
signers = `.` | pk,pk,…   the candidate public keys under which the harness' own Ed25519 check of this
                          certificate's signature succeeds (this is the signature table `sv`)
names   = `.` | t:hex,t:hex,…        name = none | t:hex       (hex label, `-` empty)

  new                                                                              -> ok
  reset                                          empty trust store                  -> ok
  cert <i> <bytes> <seed|-> <candidate keys> :: <record>   parse bytes into object i  -> <record>
  set <i> type <n> | parentof <j> | fpof <j> | issued <s> <ns> | expires <s> <ns>   -> ok
  add <i>                                        Store.AddCertificate               -> ok
  verify <i> <j|-> <name> <now s> <ns> <clock s> <ns>   Store.VerifyLeaf (`zero 0`: zero CurrentTime) -> accept | reject
  why                                            reason of the last verify (informational)
  vparent <i> <j>                                VerifyParent(i, j)                 -> ok | err
  match <i> <name>                               MatchesName                        -> 1 | 0
  issue <i> <j> <type> <names> <seed> <s> <ns> <dur> :: <pk> <fp> <tbs> <signers>   issue(j, …) into object i -> <record> | err
  issueleaf <i> <j> <names> <seed> <s> <ns> <dur> :: <pk> <fp> <tbs> <signers>      IssueLeafAt  -> <record> | err
-/
namespace Driver.C04
open Certs

structure Obj where
  cert : Cert
  hasKey : Bool
  signers : List Nat
  /-- the certificate as it was parsed from its bytes (`set` operations change `cert` only); `none`
  for objects that were not made from bytes -/
  orig : Option Cert := none

structure St where
  objs : List (Nat × Obj) := []
  store : Store := []
  sigs : List (Nat × Nat) := []
  last : Option Result := none

def St.obj (st : St) (i : Nat) : Option Obj := List.lookup i st.objs
def St.setObj (st : St) (i : Nat) (o : Obj) : St :=
  { st with objs := (i, o) :: st.objs.filter (fun e => e.1 != i),
            sigs := o.signers.map (fun pk => (pk, o.cert.tbs)) ++ st.sigs }
def St.sv (st : St) (pk tbs : Nat) : Bool := st.sigs.contains (pk, tbs)

def name? (s : String) : Option Name :=
  match s.splitOn ":" with
  | [t, l] => match t.toNat?, fromHex l with
    | some t, some l => if t < 256 then some ⟨t, l⟩ else none
    | _, _ => none
  | _ => none

def names? (s : String) : Option (List Name) :=
  if s = "." then some [] else (s.splitOn ",").mapM name?

def optName? (s : String) : Option (Option Name) :=
  if s = "none" then some none else (name? s).map some

def time? (s ns : String) : Option Time :=
  if s = "zero" then (if ns = "0" then some zeroTime else none)
  else match s.toInt?, ns.toNat? with
    | some s, some ns => if ns < 1000000000 then some ⟨s, ns⟩ else none
    | _, _ => none

def showName (n : Name) : String := toString n.ntype ++ ":" ++ hexOrDash n.label
def showNames (l : List Name) : String := if l.isEmpty then "." else ",".intercalate (l.map showName)

def showRecord (o : Obj) : String :=
  let c := o.cert
  " ".intercalate [toString c.ctype, showNames c.names, toString c.issuedAt.sec, toString c.issuedAt.nsec,
    toString c.expiresAt.sec, toString c.expiresAt.nsec, toString c.pubKey, toString c.parent, toString c.fp,
    toString c.rawLen, toString c.tbs, if o.hasKey then "1" else "0",
    if o.signers.isEmpty then "." else ",".intercalate (o.signers.map toString)]

def signers? (s : String) : Option (List Nat) :=
  if s = "." then some [] else (s.splitOn ",").mapM (·.toNat?)

def record? : List String → Option Obj
  | [t, ns, is, ins, es, ens, pk, par, fp, rl, tbs, hk, sg] => do
    let sg ← signers? sg
    let t ← t.toNat?
    let ns ← names? ns
    let i ← time? is ins
    let e ← time? es ens
    let pk ← pk.toNat?
    let par ← par.toNat?
    let fp ← fp.toNat?
    let rl ← rl.toNat?
    let tbs ← tbs.toNat?
    let hk ← if hk = "1" then some true else if hk = "0" then some false else none
    if is = "zero" ∨ es = "zero" then none
    else
      let c : Cert := { ctype := t, names := ns, issuedAt := i, expiresAt := e, pubKey := pk, parent := par, fp := fp,
                        rawLen := rl, tbs := tbs }
      some ⟨c, hk, sg, some c⟩
  | _ => none

def splitOracle (ws : List String) : List String × List String :=
  let ws := match ws.getLast? with
    | some l => if l.startsWith "#" then ws.dropLast else ws
    | none => ws
  match ws.span (· ≠ "::") with
  | (a, _ :: b) => (a, b)
  | (a, []) => (a, [])

def seed? (s : String) : Option Bool :=
  if s = "-" then some false else match fromHex s with
    | some b => if b.length = 32 then some true else none
    | none => none

def cands? (s : String) : Option Unit :=
  if s = "." then some () else
  ((s.splitOn ",").mapM fun h => match fromHex h with
    | some b => if b.length = 32 then some () else none
    | none => none).map fun _ => ()

def issued (st : St) (i : Nat) (sg : List Nat) (r : Option Cert) : St × String :=
  match r with
  | none => ({ st with objs := st.objs.filter (fun e => e.1 != i) }, "err")
  | some c => (st.setObj i ⟨c, true, sg, none⟩, showRecord ⟨c, true, sg, none⟩)

def step (st : St) (ws : List String) : St × String :=
  match splitOracle ws with
  | (["new"], []) => ({}, "ok")
  | (["reset"], []) => ({ st with store := [] }, "ok")
  | (["cert", i, bytes, seed, cands], rec) =>
    match i.toNat?, fromHex bytes, seed? seed, cands? cands, record? rec with
    | some i, some _, some _, some _, some o => (st.setObj i o, showRecord o)
    | _, _, _, _, _ => (st, "bad-op")
  | (["set", i, "type", n], []) =>
    match i.toNat?, n.toNat? with
    | some i, some n => match st.obj i with
      | some o => if n < 256 then (st.setObj i { o with cert := { o.cert with ctype := n } }, "ok") else (st, "bad-op")
      | none => (st, "bad-op")
    | _, _ => (st, "bad-op")
  | (["set", i, "parentof", j], []) =>
    match i.toNat?, j.toNat? with
    | some i, some j => match st.obj i, st.obj j with
      | some o, some p => (st.setObj i { o with cert := { o.cert with parent := p.cert.fp } }, "ok")
      | _, _ => (st, "bad-op")
    | _, _ => (st, "bad-op")
  | (["set", i, "fpof", j], []) =>
    match i.toNat?, j.toNat? with
    | some i, some j => match st.obj i, st.obj j with
      | some o, some p => (st.setObj i { o with cert := { o.cert with fp := p.cert.fp } }, "ok")
      | _, _ => (st, "bad-op")
    | _, _ => (st, "bad-op")
  | (["set", i, "issued", s, ns], []) =>
    match i.toNat?, time? s ns with
    | some i, some t => match st.obj i with
      | some o => if s = "zero" then (st, "bad-op") else (st.setObj i { o with cert := { o.cert with issuedAt := t } }, "ok")
      | none => (st, "bad-op")
    | _, _ => (st, "bad-op")
  | (["set", i, "expires", s, ns], []) =>
    match i.toNat?, time? s ns with
    | some i, some t => match st.obj i with
      | some o => if s = "zero" then (st, "bad-op") else (st.setObj i { o with cert := { o.cert with expiresAt := t } }, "ok")
      | none => (st, "bad-op")
    | _, _ => (st, "bad-op")
  | (["add", i], []) =>
    match i.toNat? with
    | some i => match st.obj i with
      | some o => ({ st with store := addCertificate st.store o.cert }, "ok")
      | none => (st, "bad-op")
    | none => (st, "bad-op")
  | ("addbundle" :: ids, []) =>
    -- a PEM bundle of the objects' bytes read with ReadManyCertificatesPEM and added one by one, as
    -- LoadRootStoreFromPEMFile does: each certificate as parsed from its own bytes
    match ids.mapM (fun i => i.toNat?.bind st.obj) with
    | some os =>
      if os.isEmpty then (st, "bad-op") else
      match os.mapM (·.orig) with
      | some cs => ({ st with store := cs.foldl addCertificate st.store }, s!"ok {cs.length}")
      | none => (st, "bad-op")
    | none => (st, "bad-op")
  | (["verify", i, p, n, s, ns, cs, cns], []) =>
    match i.toNat?, optName? n, time? s ns, time? cs cns with
    | some i, some n, some now, some clock =>
      let pres : Option (Option Obj) := if p = "-" then some none else match p.toNat? with
        | some j => (st.obj j).map some
        | none => none
      match st.obj i, pres with
      | some leaf, some pres =>
        if cs = "zero" then (st, "bad-op") else
        let r := verifyLeaf st.sv clock st.store ⟨pres.map (·.cert), n, now⟩ leaf.cert
        ({ st with last := some r }, if r = .ok then "accept" else "reject")
      | _, _ => (st, "bad-op")
    | _, _, _, _ => (st, "bad-op")
  | (["why"], []) =>
    (st, match st.last with
      | none => "none"
      | some .ok => "-"
      | some (.rejected c) => toString c.reason)
  | (["vparent", i, j], []) =>
    match i.toNat?, j.toNat? with
    | some i, some j => match st.obj i, st.obj j with
      | some c, some p => (st, if verifyParent st.sv c.cert p.cert then "ok" else "err")
      | _, _ => (st, "bad-op")
    | _, _ => (st, "bad-op")
  | (["match", i, n], []) =>
    match i.toNat?, name? n with
    | some i, some n => match st.obj i with
      | some c => (st, if matchesName c.cert n then "1" else "0")
      | none => (st, "bad-op")
    | _, _ => (st, "bad-op")
  | (["issue", i, j, t, names, seed, s, ns, dur], [pk, fp, tbs, sg]) =>
    match i.toNat?, j.toNat?, t.toNat?, names? names, seed? seed, time? s ns, dur.toInt? with
    | some i, some j, some t, some names, some true, some iat, some dur =>
      match st.obj j, pk.toNat?, fp.toNat?, tbs.toNat?, signers? sg with
      | some p, some pk, some fp, some tbs, some sg =>
        if s = "zero" ∨ t = 0 ∨ t > 3 then (st, "bad-op")
        else issued st i sg (issue p.cert p.hasKey pk names t iat dur fp tbs)
      | _, _, _, _, _ => (st, "bad-op")
    | _, _, _, _, _, _, _ => (st, "bad-op")
  | (["issueleaf", i, j, names, seed, s, ns, dur], [pk, fp, tbs, sg]) =>
    match i.toNat?, j.toNat?, names? names, seed? seed, time? s ns, dur.toInt? with
    | some i, some j, some names, some true, some iat, some dur =>
      match st.obj j, pk.toNat?, fp.toNat?, tbs.toNat?, signers? sg with
      | some p, some pk, some fp, some tbs, some sg =>
        if s = "zero" then (st, "bad-op")
        else issued st i sg (issueLeafAt p.cert p.hasKey pk names iat dur fp tbs)
      | _, _, _, _, _ => (st, "bad-op")
    | _, _, _, _, _, _ => (st, "bad-op")
  | _ => (st, "bad-op")

def main (_ : List String) : IO Unit := loopLines step {}

end Driver.C04
