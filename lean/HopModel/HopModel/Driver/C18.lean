import HopModel.Model.Wire
import HopModel.Model.TargetInfo
import HopModel.Driver.Util
/-
Driver for C18 / C18junk (every line is its own case; byte strings in hex, `-` = empty).

values
  name    <type>:<labelhex>
  chunk   name,name,…   or `.` for no blocks
  cert    <ver> <type> <issued> <expires> <pub32> <parent32> <chunk> <sig64>            (8 tokens)
  intent  <gt> <rsv> <port> <start> <exp> <sni:name> <user> <cert: 8 tokens> <cmd>       (16 tokens)
  ag      req <intent> | comm <intent> | conf | den <reason> | unk <type byte ∉ 1..4>
  frame   <tube> <flags: 6 of 0/1 = REQ RESP REL ACK FIN RTR> <dataLength> <ackNo> <frameNo> <data>
  iframe  <tube> <flags> <dataLength> <tubeType> <frameNo> <data>
  exec    <pty 0/1> <cmd> <term> <size: r,c,x,y or ->
  pf      <netType> <fwdType> <addr>

operations
  X-enc <value>   -> <hex> | err
  X-dec <hex>     -> <value> <unread remainder> | err
  junk X <hex>    -> ok|err  small|big        (suite C18junk; allocation class of the reader)
-/
namespace Driver.C18
open Wire

def byte? (s : String) : Option UInt8 := do
  let n ← s.toNat?
  if n < 256 then some (UInt8.ofNat n) else none

def natLt? (b : Nat) (s : String) : Option Nat := do
  let n ← s.toNat?
  if n < b then some n else none

def time? (s : String) : Option Int := do
  let t ← s.toInt?
  if -(2 ^ 63 : Int) ≤ t ∧ t < 2 ^ 63 then some t else none

def bytesLen? (n : Nat) (s : String) : Option Bytes := do
  let b ← fromHex s
  if b.length = n then some b else none

def name? (s : String) : Option Name :=
  match s.splitOn ":" with
  | [t, l] => do some ⟨← fromHex l, ← byte? t⟩
  | _ => none

def chunk? (s : String) : Option (List Name) :=
  if s = "." then some [] else (s.splitOn ",").mapM name?

def cert? : List String → Option Cert
  | [v, t, ia, ea, pk, par, ch, sg] => do
    some ⟨← byte? v, ← byte? t, ← time? ia, ← time? ea, ← bytesLen? 32 pk, ← bytesLen? 32 par,
      ← chunk? ch, ← bytesLen? 64 sg⟩
  | _ => none

def intent? : List String → Option Intent
  | [gt, rs, port, st, ex, sni, user, v, t, ia, ea, pk, par, ch, sg, cmd] => do
    some ⟨← byte? gt, ← byte? rs, ← natLt? 65536 port, ← time? st, ← time? ex, ← name? sni,
      ← fromHex user, ← cert? [v, t, ia, ea, pk, par, ch, sg], ← fromHex cmd⟩
  | _ => none

def ag? : List String → Option AgMsg
  | "req" :: r => do some (.request (← intent? r))
  | "comm" :: r => do some (.communication (← intent? r))
  | ["conf"] => some .confirmation
  | ["den", s] => do some (.denied (← fromHex s))
  | ["unk", t] => do
    let b ← byte? t
    if 1 ≤ b.toNat ∧ b.toNat ≤ 4 then none else some (.unknown b)
  | _ => none

def flags? (s : String) : Option Flags :=
  match s.toList with
  | [a, b, c, d, e, f] =>
    if [a, b, c, d, e, f].all (fun x => x = '0' ∨ x = '1') then
      some ⟨a = '1', b = '1', c = '1', d = '1', e = '1', f = '1'⟩
    else none
  | _ => none

def frame? : List String → Option Frame
  | [tube, fl, dl, ack, fno, data] => do
    some ⟨← byte? tube, ← flags? fl, ← natLt? 65536 dl, ← natLt? (2 ^ 32) ack, ← natLt? (2 ^ 32) fno,
      ← fromHex data⟩
  | _ => none

def iframe? : List String → Option InitFrame
  | [tube, fl, dl, tt, fno, data] => do
    some ⟨← byte? tube, ← flags? fl, ← natLt? 65536 dl, ← byte? tt, ← natLt? (2 ^ 32) fno, ← fromHex data⟩
  | _ => none

def size? (s : String) : Option (Option WinSize) :=
  if s = "-" then some none else
  match s.splitOn "," with
  | [r, c, x, y] => do some (some ⟨← natLt? 65536 r, ← natLt? 65536 c, ← natLt? 65536 x, ← natLt? 65536 y⟩)
  | _ => none

def exec? : List String → Option ExecInit
  | [p, cmd, term, sz] => do
    let p ← (if p = "1" then some true else if p = "0" then some false else none)
    some ⟨p, ← fromHex cmd, ← fromHex term, ← size? sz⟩
  | _ => none

def pf? : List String → Option PF
  | [nt, ft, a] => do some ⟨← byte? nt, ← byte? ft, ← fromHex a⟩
  | _ => none

/-! printing -/

def b01 (b : Bool) : String := if b then "1" else "0"
def showName (n : Name) : String := s!"{n.type.toNat}:{hexOrDash n.label}"
def showChunk (ns : List Name) : String := if ns.isEmpty then "." else ",".intercalate (ns.map showName)
def showCert (c : Cert) : String :=
  s!"{c.version.toNat} {c.type.toNat} {c.issuedAt} {c.expiresAt} {hexOrDash c.pub} {hexOrDash c.parent} {showChunk c.chunk} {hexOrDash c.sig}"
def showIntent (i : Intent) : String :=
  s!"{i.grantType.toNat} {i.reserved.toNat} {i.port} {i.start} {i.exp} {showName i.sni} {hexOrDash i.user} {showCert i.cert} {hexOrDash i.cmd}"
def showAg : AgMsg → String
  | .request i => "req " ++ showIntent i
  | .communication i => "comm " ++ showIntent i
  | .confirmation => "conf"
  | .denied s => "den " ++ hexOrDash s
  | .unknown t => s!"unk {t.toNat}"
def showFlags (f : Flags) : String := b01 f.req ++ b01 f.resp ++ b01 f.rel ++ b01 f.ack ++ b01 f.fin ++ b01 f.rtr
def showFrame (f : Frame) : String :=
  s!"{f.tubeID.toNat} {showFlags f.flags} {f.dataLength} {f.ackNo} {f.frameNo} {hexOrDash f.data}"
def showIFrame (f : InitFrame) : String :=
  s!"{f.tubeID.toNat} {showFlags f.flags} {f.dataLength} {f.tubeType.toNat} {f.frameNo} {hexOrDash f.data}"
def showSize : Option WinSize → String
  | none => "-"
  | some s => s!"{s.rows},{s.cols},{s.x},{s.y}"
def showExec (m : ExecInit) : String := s!"{b01 m.usePty} {hexOrDash m.cmd} {hexOrDash m.term} {showSize m.size}"
def showPF (p : PF) : String := s!"{p.netType.toNat} {p.fwdType.toNat} {hexOrDash p.addr}"

def encOut : Except Err Bytes → String
  | .ok b => hexOrDash b
  | .error _ => "err"

def decOut {α : Type} (sh : α → String) : Except Err (α × Bytes) → String
  | .ok (v, r) => sh v ++ " " ++ hexOrDash r
  | .error _ => "err"

def enc? {α : Type} (p : Option α) (e : α → Except Err Bytes) : String :=
  match p with
  | some v => encOut (e v)
  | none => "bad-op"

def dec? {α : Type} (h : String) (d : Bytes → Except Err (α × Bytes)) (sh : α → String) : String :=
  match fromHex h with
  | some b => decOut sh (d b)
  | none => "bad-op"

/-- allocation class printed by the junk suite: the reader's counter against 128 KiB -/
def junkOut {α : Type} (m : R α) (b : Bytes) : String :=
  let r := m b
  (match r.1 with | .ok _ => "ok" | .error _ => "err") ++ " " ++ (if r.2.2 ≤ 131072 then "small" else "big")

def junk? {α : Type} (h : String) (m : R α) : String :=
  match fromHex h with
  | some b => junkOut m b
  | none => "bad-op"

def step (_ : Unit) (ws : List String) : Unit × String :=
  ((), match ws with
  | ["str-enc", s] => enc? (fromHex s) encStr
  | ["str-dec", h] => dec? h decStr hexOrDash
  | ["name-enc", n] => enc? (name? n) encName
  | ["name-dec", h] => dec? h decName showName
  | ["chunk-enc", c] => enc? (chunk? c) encChunk
  | ["chunk-dec", h] => dec? h decChunk showChunk
  | "cert-enc" :: r => enc? (cert? r) encCert
  | ["cert-dec", h] => dec? h decCert showCert
  -- a PEM bundle: every block is a certificate of its own and must be consumed entirely
  | ["certs-dec", hs] =>
    (match (hs.splitOn ",").mapM fromHex with
     | none => "bad-op"
     | some bs =>
       match bs.mapM (fun b => match decCert b with
                               | .ok (c, []) => some (showCert c)
                               | _ => none) with
       | some outs => ";".intercalate outs
       | none => "err")
  | "intent-enc" :: r => enc? (intent? r) encIntent
  | ["intent-dec", h] => dec? h decIntent showIntent
  | "ag-enc" :: r => enc? (ag? r) encAg
  | ["ag-dec", h] => dec? h decAg showAg
  | "frame-enc" :: r => enc? (frame? r) (fun f => .ok (encFrame f))
  | ["frame-dec", h] => dec? h decFrame showFrame
  | "iframe-enc" :: r => enc? (iframe? r) (fun f => .ok (encInitFrame f))
  | ["iframe-dec", h] => dec? h decInitFrame showIFrame
  | "exec-enc" :: r => enc? (exec? r) (fun m => .ok (encExec m))
  | ["exec-dec", h] => dec? h decExec showExec
  | ["ua-enc", u] => enc? (fromHex u) encUA
  | ["ua-dec", h] => dec? h decUA hexOrDash
  | "pf-enc" :: r => enc? (pf? r) encPF
  | ["pf-dec", h] => dec? h decPF showPF
  -- target info: ti-enc <userhex> <hosthex> <porthex>; ti-dec <hex>.  Outside the model: `unmodelled`
  | ["ti-enc", u, h, p] => match fromHex u, fromHex h, fromHex p with
    | some u, some h, some p =>
      if h ≠ [] ∧ h.all hostChar ∧ p.all isDigit ∧ p.length ≤ 5 then encOut (encTI ⟨u, h, p⟩) else "unmodelled"
    | _, _, _ => "bad-op"
  | ["ti-dec", hx] => match fromHex hx with
    | some b =>
      match rdStr b with
      | (.ok s, rest, _) =>
        (match parseTI s with
         | some t => s!"{hexOrDash t.user} {hexOrDash t.host} {hexOrDash t.port} {hexOrDash rest}"
         | none => "unmodelled")
      | (.error _, _, _) => "err"
    | none => "bad-op"
  | ["xst-enc", "conf"] => encOut (.ok (encXst .conf))
  | ["xst-enc", "fail", m] => enc? (fromHex m) (fun m => .ok (encXst (.fail m)))
  | ["xst-dec", h] => dec? h decXst (fun s => match s with | .conf => "conf" | .fail m => "fail:" ++ hexOrDash m)
  | ["junk", "xst", h] => junk? h rdXst
  | ["junk", "str", h] => junk? h rdStr
  | ["junk", "intent", h] => junk? h rdIntent
  | ["junk", "ag", h] => junk? h rdAg
  | ["junk", "cert", h] => junk? h rdCert
  | ["junk", "exec", h] => junk? h rdExec
  | ["junk", "ua", h] => junk? h rdUA
  | ["junk", "pf", h] => junk? h rdPF
  | _ => "bad-op")

def main (_ : List String) : IO Unit := loopLines step ()

end Driver.C18
