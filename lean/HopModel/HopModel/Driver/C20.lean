import HopModel.Model.Glob
import HopModel.Model.GlobIdx
import HopModel.Driver.Util
/-
Driver for C20 (every line is its own case; byte strings in hex, `-` = empty):
  glob <pat> <in>                 glob.Glob(pat, in)                         -> 1 | 0
  hosts <host> <b1;b2;…>          blocks of comma-separated patterns;
                                  ClientConfig.MatchHost -> applied blocks   -> i,j,… | none
  vhost <name> <p1,p2,…>          VirtualHosts.Match -> index of the match   -> i | none
-/
namespace Driver.C20
open Glob

def parseList (sep : String) (s : String) : Option (List (List UInt8)) :=
  if s = "." then some [] else
  (s.splitOn sep).mapM fromHex

def parseBlocks (s : String) : Option (List (List (List UInt8))) :=
  if s = "." then some [] else
  (s.splitOn ";").mapM (parseList ",")

def step (_ : Unit) : List String → Unit × String
  | ["glob", p, s] => match fromHex p, fromHex s with
    -- the index-level transcription of the code's loop (proved equal to `glob`)
    | some p, some s => ((), if globIdx p s then "1" else "0")
    | _, _ => ((), "bad-op")
  | ["hosts", h, bl] => match fromHex h, parseBlocks bl with
    | some h, some bl =>
      let r := matchHost bl h
      ((), if r.isEmpty then "none" else ",".intercalate (r.map toString))
    | _, _ => ((), "bad-op")
  | ["hostseq", hs, bl] => match (hs.splitOn ",").mapM fromHex, parseBlocks bl with
    -- several lookups on one configuration: each is the lookup on the configuration as parsed
    | some hs, some bl =>
      ((), "/".intercalate (hs.map fun h =>
        let r := matchHost bl h
        if r.isEmpty then "none" else ",".intercalate (r.map toString)))
    | _, _ => ((), "bad-op")
  | ["vhost", n, ps] => match fromHex n, parseList "," ps with
    | some n, some ps => ((), match vhostMatch ps n with | some i => toString i | none => "none")
    | _, _ => ((), "bad-op")
  | _ => ((), "bad-op")

def main (_ : List String) : IO Unit := loopLines step ()

end Driver.C20
