import HopModel.Model.Sanse
import HopModel.Driver.Util
/-
Driver for C12 (byte strings in hex, `-` = empty; the permutation is the Lean Keccak-p[1600, 6]).
SANSE sessions — two objects `a`, `b` made from the same key:
  new sanse <key>                   NewSANSE(key) twice                  -> ok | err
  seal <a|b> <ad> <p>               Seal(nil, nil, p, ad)                -> C‖T
  open <a|b> <ad> <ct>              Open(nil, nil, ct, ad)               -> p | err
  openl <a|b> <ad> <bit|->          Open of the most recently sealed C‖T, bit number <bit>
                                    (mod its bit length) flipped first   -> p | err
  keydiff <k1> <k2> <ad> <p>        do fresh objects with keys k1, k2 seal (ad, p) to different
                                    outputs?                             -> differ | same | err
Raw deck function — one `Kravatte` object:
  new kv <key>                      RefMaskInitialize(key)               -> ok | err
  kra <bits> <flags> <in>           Kra(in, bits, flags), |in| = ⌈bits/8⌉ -> 0 | 1
  vatte <bits> <flags>              Vatte(out, bits, flags)              -> out | err
  kravatte <flags> <outlen> <in>    Kravatte(in, out, flags)             -> out | err
  dump <k|r|x|y|q|o>                (hook) internal state                -> bytes
  new ; op ; op ; …                 a whole transcript as one case      -> out;out;…
Vector replay: an operation may carry a last word `=<value>`, the value published in
`kravatte/testdata`; the model ignores it, the harness answers `<own output> !vector` when the real
code's output differs from it (so a deviation of either side from the vector shows in the diff).
-/
namespace Driver.C12
open Sanse Kravatte

structure DS where
  a : Option (Sanse.St Kv) := none
  b : Option (Sanse.St Kv) := none
  kv : Option Kv := none
  lastCt : List UInt8 := []

def f6 := Keccak.f6

def dk : Deck Kv := kravatteDeck f6

def flipBit (bs : List UInt8) (bit : Nat) : List UInt8 :=
  if bs.isEmpty then bs else
  let bit := bit % (8 * bs.length)
  bs.mapIdx fun i b => if i = bit / 8 then b ^^^ ((1 : UInt8) <<< UInt8.ofNat (bit % 8)) else b

def getObj (s : DS) (n : String) : Option (Option (Sanse.St Kv)) :=
  if n = "a" then some s.a else if n = "b" then some s.b else none

def setObj (s : DS) (n : String) (o : Sanse.St Kv) : DS :=
  if n = "a" then { s with a := some o } else { s with b := some o }

def doOpen (s : DS) (n : String) (ad ct : List UInt8) : DS × String :=
  match getObj s n with
  | none => (s, "bad-op")
  | some none => (s, "none")
  | some (some o) =>
    let r := Sanse.openMsg dk o ad ct
    (setObj s n r.1, match r.2 with | some p => hexOrDash p | none => "err")

def stepOp (s : DS) : List String → DS × String
  | ["new", "sanse", key] => match fromHex key with
    | some key =>
      let o := newSanse f6 key
      ({ a := o, b := o }, if o.isSome then "ok" else "err")
    | none => (s, "bad-op")
  | ["seal", n, ad, p] => match getObj s n, fromHex ad, fromHex p with
    | some none, some _, some _ => (s, "none")
    | some (some o), some ad, some p =>
      let r := Sanse.sealMsg dk o ad p
      ({ setObj s n r.1 with lastCt := r.2 }, hexOrDash r.2)
    | _, _, _ => (s, "bad-op")
  | ["open", n, ad, ct] => match fromHex ad, fromHex ct with
    | some ad, some ct => doOpen s n ad ct
    | _, _ => (s, "bad-op")
  | ["openl", n, ad, bit] => match fromHex ad with
    | some ad =>
      if bit = "-" then doOpen s n ad s.lastCt
      else match bit.toNat? with
        | some k => doOpen s n ad (flipBit s.lastCt k)
        | none => (s, "bad-op")
    | none => (s, "bad-op")
  | ["keydiff", k1, k2, ad, p] => match fromHex k1, fromHex k2, fromHex ad, fromHex p with
    | some k1, some k2, some ad, some p =>
      match newSanse f6 k1, newSanse f6 k2 with
      | some o1, some o2 =>
        (s, if (Sanse.sealMsg dk o1 ad p).2 = (Sanse.sealMsg dk o2 ad p).2 then "same" else "differ")
      | _, _ => (s, "err")
    | _, _, _, _ => (s, "bad-op")
  | ["new", "kv", key] => match fromHex key with
    | some key =>
      let r := refMaskInit f6 Kravatte.fresh key
      ({ kv := some r.1 }, if r.2 = 0 then "ok" else "err")
    | none => (s, "bad-op")
  | ["kra", bits, flags, inp] => match s.kv, bits.toNat?, flags.toNat?, fromHex inp with
    | some kv, some bits, some flags, some inp =>
      if inp.length ≠ (bits + 7) / 8 ∨ flags ≥ 8 then (s, "bad-op") else
      let r := kra f6 kv inp bits flags
      ({ s with kv := some r.1 }, toString r.2)
    | _, _, _, _ => (s, "bad-op")
  | ["vatte", bits, flags] => match s.kv, bits.toNat?, flags.toNat? with
    | some kv, some bits, some flags =>
      if flags ≥ 8 ∨ bits > 8000000 then (s, "bad-op") else
      let r := vatte f6 kv bits flags
      ({ s with kv := some r.1 }, if r.2.2 = 0 then hexOrDash r.2.1 else "err")
    | _, _, _ => (s, "bad-op")
  | ["kravatte", flags, outLen, inp] => match s.kv, flags.toNat?, outLen.toNat?, fromHex inp with
    | some kv, some flags, some outLen, some inp =>
      if flags ≥ 8 ∨ outLen > 1000000 then (s, "bad-op") else
      let r := kravatte f6 kv inp outLen flags
      ({ s with kv := some r.1 }, if r.2.2 = 0 then hexOrDash r.2.1 else "err")
    | _, _, _, _ => (s, "bad-op")
  | ["dump", w] => match s.kv with
    | some kv =>
      if w = "k" then (s, toHex (Keccak.extract kv.k 200))
      else if w = "r" then (s, toHex (Keccak.extract kv.kr 200))
      else if w = "x" then (s, toHex (Keccak.extract kv.x 200))
      else if w = "y" then (s, toHex (Keccak.extract kv.y 200))
      else if w = "q" then (s, toHex kv.q)
      else if w = "o" then (s, toString kv.qbits)
      else (s, "bad-op")
    | none => (s, "bad-op")
  | _ => (s, "bad-op")

def stepOne (s : DS) (ws : List String) : DS × String := stepOp s (stripExpect ws)

def stepLine (s : DS) (ws : List String) : DS × String :=
  match ws with
  | "new" :: ";" :: rest => runScript stepOne s rest
  | _ => stepOne s ws

def main (_ : List String) : IO Unit := loopLines stepLine {}

end Driver.C12
