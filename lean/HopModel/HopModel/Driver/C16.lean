import HopModel.Model.Fin
import HopModel.Driver.Util
/-
Monitor for C16.  Input: the observed trace of one generated concurrent program per case, printed
by the harness from real muxers (see harness/cmd/c16).  One verdict per line, `ok` or a reason.

  new …                                   case header                       -> ok (state reset)
  info …                                  informational                     -> ok
  tr <tube> <site> <state>                a logged tube-state (global order).  Sites init close close.eof
                                          close.bad ack fin log the state AFTER the assignment: ok iff
                                          `Fin.step` from the tube's model state with the site's event
                                          gives exactly <state> (and the call result the site implies).
                                          Sites cause.ack cause.fin cause.ackerr cause.timer cause.force
                                          log the state just BEFORE a call of enterClosedState (must equal
                                          the model state); site `closed` is logged inside
                                          enterClosedState when the state is set: the pending cause's
                                          event must lead to closed in the model.
  ret <g> <op> <tube> <start> <end> <res> a returned call, lines sorted by <end>; op ∈ c w r wc stop
                                          (tube `a.r1` = side a, reliable, id 1; `a` for stop)
  hang <g> <op> <tube> <start>            a call that did not return within the watchdog -> hang
  fstop <side> ok|hang                    the harness' final Stop on that muxer
  final <tube> <state>                    state read from the tube at the end
  leak <n>                                goroutines left after all muxers stopped -> goroutine-leak
  bad-program                             the harness rejected a malformed program  -> ok
  end                                                                      -> ok
Rules on `ret` (what the theorems of Props/C16.lean say about call results):
  * at most one Close per tube reports success                     (C16_close_once)
  * a Write that starts after a Close/Stop returned never succeeds (C16_after_close_write)
  * (reliable) after a Read reported end-of-stream every later Read does; a Read that starts after
    WaitForClose/Stop returned yields data or end-of-stream, nothing else   (C16_after_close_io)
-/
namespace Driver.C16
open Fin

structure MS where
  tubes : List (String × T) := []
  closedAt : List (String × Nat) := []     -- tube/side ↦ end of the first Close / Stop that returned
  closeOk : List String := []
  waitedAt : List (String × Nat) := []     -- tube/side ↦ end of the first WaitForClose / Stop
  eofAt : List (String × Nat) := []
  pending : List (String × Ev) := []       -- tube ↦ logged cause of an imminent enterClosedState

def parseSt : String → Option St
  | "created" => some .created | "initiated" => some .initiated | "closeWait" => some .closeWait
  | "lastAck" => some .lastAck | "finWait1" => some .finWait1 | "finWait2" => some .finWait2
  | "closing" => some .closing | "closed" => some .closed | _ => none

def stStr : St → String
  | .created => "created" | .initiated => "initiated" | .closeWait => "closeWait"
  | .lastAck => "lastAck" | .finWait1 => "finWait1" | .finWait2 => "finWait2"
  | .closing => "closing" | .closed => "closed"

/-- site ↦ (event, the call result the site implies, if any) -/
def siteEv : String → Option (Ev × Option Ret)
  | "init" => some (.initRecv, none)
  | "close" => some (.localClose, some .ok)
  | "close.eof" => some (.localClose, some .eof)
  | "close.bad" => some (.localClose, some .bad)
  | "ack" => some (.ack, some .none)
  | "fin" => some (.fin, some .none)
  | _ => none

/-- the event behind a `cause.*` line -/
def causeEv : String → Option Ev
  | "cause.ack" => some .ack
  | "cause.fin" => some .fin
  | "cause.ackerr" => some .ackErr
  | "cause.timer" => some .lastAckTimer
  | "cause.force" => some .forceClose
  | _ => none

def lookup {α : Type} (k : String) : List (String × α) → Option α
  | [] => none
  | (k', v) :: t => if k = k' then some v else lookup k t

def insertMin (k : String) (v : Nat) (m : List (String × Nat)) : List (String × Nat) :=
  match lookup k m with
  | some v' => if v' ≤ v then m else (k, v) :: m.filter (·.1 ≠ k)
  | none => (k, v) :: m

def setTube (k : String) (t : T) (m : List (String × T)) : List (String × T) :=
  (k, t) :: m.filter (·.1 ≠ k)

/-- `a.r1` ↦ side `a`; is it a reliable tube? -/
def sideOf (tube : String) : String := (tube.splitOn ".").headD ""
def isRel (tube : String) : Bool := match tube.splitOn "." with
  | [_, k] => k.startsWith "r"
  | _ => false

def before (m : List (String × Nat)) (k : String) (start : Nat) : Bool :=
  match lookup k m with
  | some e => e < start
  | none => false

def step (ms : MS) (ws : List String) : MS × String :=
  match ws with
  | "new" :: _ => ({}, "ok")
  | "info" :: _ => (ms, "ok")
  | ["end"] => (ms, "ok")
  | ["tr", tube, "closed", "closed"] =>
    -- logged inside enterClosedState right after the state is set; the cause was logged just before
    match lookup tube ms.pending with
    | none => (ms, "closed-without-cause")
    | some ev =>
      let t := (lookup tube ms.tubes).getD T.init
      let t' := (Fin.step t ev).1
      let ms := { ms with pending := ms.pending.filter (·.1 ≠ tube) }
      if t'.st ≠ .closed then (ms, s!"bad-transition {stStr t.st} -> closed (model: {stStr t'.st})")
      else ({ ms with tubes := setTube tube t' ms.tubes }, "ok")
  | ["tr", tube, site, st] =>
    if site.startsWith "cause." then
      -- logged immediately before a call of enterClosedState, with the state at that moment
      match causeEv site, parseSt st with
      | some ev, some st =>
        let t := (lookup tube ms.tubes).getD T.init
        if t.st ≠ st then (ms, s!"state {stStr st} at {site} but the log so far gives {stStr t.st}")
        else ({ ms with pending := (tube, ev) :: ms.pending.filter (·.1 ≠ tube) }, "ok")
      | _, _ => (ms, "bad-op")
    else
    match siteEv site, parseSt st with
    | some (ev, ret), some st =>
      let t := (lookup tube ms.tubes).getD T.init
      let (t', r) := Fin.step t ev
      if t'.st ≠ st then (ms, s!"bad-transition {stStr t.st} -{site}-> {stStr st} (model: {stStr t'.st})")
      else if ret.isSome ∧ ret ≠ some r then (ms, s!"bad-result at {site} in {stStr t.st}")
      else ({ ms with tubes := setTube tube t' ms.tubes }, "ok")
    | _, _ => (ms, "bad-op")
  | "ret" :: _g :: op :: tube :: s :: e :: res =>
    match s.toNat?, e.toNat? with
    | some s, some e =>
      let res0 := res.headD ""
      let side := sideOf tube
      match op with
      | "c" =>
        let ms' := { ms with closedAt := insertMin tube e ms.closedAt }
        if res0 = "ok" then
          if ms.closeOk.contains tube then (ms', "second-close-reported-success")
          else ({ ms' with closeOk := tube :: ms'.closeOk }, "ok")
        else (ms', "ok")
      | "wc" => ({ ms with waitedAt := insertMin tube e ms.waitedAt }, "ok")
      | "stop" =>
        ({ ms with waitedAt := insertMin side e ms.waitedAt, closedAt := insertMin side e ms.closedAt }, "ok")
      | "w" =>
        if res0 = "ok" ∧ (before ms.closedAt tube s ∨ before ms.closedAt side s) then
          (ms, "write-succeeded-after-close")
        else (ms, "ok")
      | "r" =>
        let ms' := if res0 = "eof" then { ms with eofAt := insertMin tube e ms.eofAt } else ms
        if isRel tube ∧ before ms.eofAt tube s ∧ res0 ≠ "eof" then (ms', "read-after-eof-not-eof")
        else if isRel tube ∧ (before ms.waitedAt tube s ∨ before ms.waitedAt side s) ∧ res0 ≠ "eof" ∧ res0 ≠ "data" then
          (ms', "read-after-closed-neither-data-nor-eof")
        else (ms', "ok")
      | _ => (ms, "bad-op")
    | _, _ => (ms, "bad-op")
  | "hang" :: _ => (ms, "hang")
  | ["fstop", _, r] => (ms, if r = "ok" then "ok" else "hang")
  | ["final", tube, st] =>
    match parseSt st with
    | some st =>
      let t := (lookup tube ms.tubes).getD T.init
      if t.st ≠ st then (ms, s!"final-state {stStr st} but the log ends in {stStr t.st}")
      else if st ≠ .closed then (ms, s!"not-closed-after-stop {stStr st}")
      else (ms, "ok")
    | none => (ms, "bad-op")
  | ["leak", _] => (ms, "goroutine-leak")
  | ["bad-program"] => (ms, "ok")
  | _ => (ms, "bad-op")

def main (_ : List String) : IO Unit := loopLines step {}

end Driver.C16
