import HopModel.Model.ClientCfg
import HopModel.Spec.Handshake
import HopModel.Driver.Util
/-
Driver for C01 (every line is its own case):
  hs <xx|ik> <policy> <serverAdv> <clientAdv> <listed 0|1> <name|noname>
      -> c=<client ok> h=<handle offered> d=<data flows both ways>
The verdicts come from the expected reader actions (`Spec/Handshake.lean`, proved to be what the
code's readers do) run on the environment the scenario describes.
-/
namespace Driver.C01
open Handshake

/-- what the *client's* policy (trust store, expected name) says about the server's certificate -/
def serverCertOK (adv : String) (named : Bool) : Option Bool :=
  match adv with
  | "ok" => some true
  | "wrongkey" => some true            -- a perfectly valid certificate — of somebody else's key
  | "othername" => some (!named)       -- only wrong when a name was asked for
  | "othertype" => some (!named)       -- the expected label under another name type is another name
  | "expired" => some false
  | "notyet" => some false
  | "wrongtype" => some false
  | "otherroot" => some false
  | "selfsigned" => some false
  | _ => none

/-- abstract facts about the client's certificate as the server's verifier sees it -/
def clientFacts (adv : String) (listed : Bool) : Option CertFacts :=
  let mk (format chain : Bool) : CertFacts :=
    { parses := true, formatOK := format, keyListed := listed, chainOK := chain, callbackOK := true }
  match adv with
  | "ok" => some (mk true true)
  | "wrongkey" => some (mk true true)
  | "expired" => some (mk true false)      -- VerifyLeafFormat does not look at validity
  | "notyet" => some (mk true false)
  | "lapsed" => some (mk true false)       -- valid when issued, run out by the time it is presented
  | "otherroot" => some (mk true false)
  | "selfsigned" => some (mk true false)
  | "wrongtype" => some (mk false false)
  | _ => none

def policyOf (p : String) : Option Policy :=
  match p with
  | "nil" => some ⟨false, false, false, false⟩
  | "skip" => some ⟨true, true, false, false⟩
  | "store" => some ⟨true, false, false, false⟩
  | "authkeys" => some ⟨true, false, true, false⟩   -- authorized keys allowed, empty trust store
  | "both" => some ⟨true, false, true, false⟩
  | _ => none

def env (k : Nat) (poss cert : Bool) (vs : Bool) : Env :=
  { honest := allHonest k, possession := poss, certOK := cert, cookieOK := true, timeOK := true, verifySet := vs }

def b01 (b : Bool) : String := if b then "1" else "0"

def predict (hidden : Bool) (pol : Policy) (sCert sPoss : Bool) (cf : CertFacts) (cPoss : Bool) : String :=
  let cAccepted := policyAccepts pol cf
  if !hidden then
    -- the client judges the server at ServerAuth; the server judges the client at ClientAuth
    let c := runActs expServerAuth (env 6 sPoss sCert true)
    let h := c && runActs expClientAuth (env 5 cPoss cAccepted pol.configured)
    s!"c={b01 c} h={b01 h} d={b01 h}"
  else
    -- the server judges the client's certificate at the request, the client judges the server at
    -- the response; the client's own DH(ss) enters its transcript, so a client without the
    -- certified key cannot verify the response either
    let h := runActs expRequestHidden (env 7 true cAccepted true)
    let c := h && runActs expResponseHidden (env 6 (sPoss && cPoss) sCert true)
    s!"c={b01 c} h={b01 h} d={b01 c}"

/-- `word+opt+opt` -/
def optsOf (s : String) : String × List String :=
  match s.splitOn "+" with
  | w :: opts => (w, opts)
  | [] => (s, [])

/-- the callback options: installed?, accepts? -/
def cbOf (opts : List String) : Option (Bool × Bool) :=
  if opts.all (· ∈ ["skip", "cbok", "cbdeny"]) then
    some (opts.contains "cbok" || opts.contains "cbdeny", !opts.contains "cbdeny" || opts.contains "cbok")
  else none

def step (_ : Unit) : List String → Unit × String
  | ["hs", mode, pol0, sAdv, cAdv, listed, name0] =>
    let (pol, polOpts) := optsOf pol0
    let (name, nameOpts) := optsOf name0
    if polOpts.contains "skip" then ((), "bad-op") else
    match cbOf polOpts, cbOf nameOpts with
    | none, _ => ((), "bad-op")
    | _, none => ((), "bad-op")
    | some (sCbOn, sCbOK), some (cCbOn, cCbOK) =>
    if name ≠ "name" ∧ name ≠ "noname" then ((), "bad-op") else
    -- ik2, ik3: hidden mode, the addressed certificate is the 2nd / 3rd of the server's list
    let hidden := mode != "xx"
    if mode ∉ ["xx", "ik", "ik2", "ik3"] then ((), "bad-op") else
    if listed ≠ "0" ∧ listed ≠ "1" ∧ listed ≠ "2" then ((), "bad-op") else
    -- "2": the key was authorized and has been revoked again: not listed
    match policyOf pol, serverCertOK sAdv (name == "name"), clientFacts cAdv (listed == "1") with
    | some p, some sCert, some cf =>
      -- the "authkeys" policy has an empty trust store: no chain verifies
      let cf := if pol == "authkeys" then { cf with chainOK := false } else cf
      -- the server's policy with its additional callback
      let p := { p with callback := sCbOn }
      let cf := { cf with callbackOK := sCbOK }
      -- the client's policy over the server's certificate: trust store (+ name), or skipped; its callback
      let cPol : Policy := ⟨true, nameOpts.contains "skip", false, cCbOn⟩
      let sFacts : CertFacts := { parses := true, formatOK := sCert, keyListed := false, chainOK := sCert, callbackOK := cCbOK }
      -- afterwards an honest, listed client is served (C10: whatever the first counterpart did); the
      -- probe says nothing about a server without its certified key or with a callback refusing all
      let alive := if sAdv == "wrongkey" || (sCbOn && !sCbOK && p.configured) then "-" else "1"
      ((), predict hidden p (policyAccepts cPol sFacts) (sAdv != "wrongkey") cf (cAdv != "wrongkey") ++ " a=" ++ alive)
    | _, _, _ => ((), "bad-op")
  | _ => ((), "bad-op")

def main (_ : List String) : IO Unit := loopLines step ()

/-! ### suite C01cfg: server configuration -> client policy

`config.LoadServerConfigFromFile` copies each option that is present (absent = false), and
`hopserver.NewHopServer` turns the four options into the transport server's `VerifyConfig`:
`InsecureSkipVerify` overrides everything; otherwise certificate validation against the CA files
unless `DisableCertificateValidation`, and an authorized-key set when `EnableAuthorizedKeys` or
`EnableAuthgrants` (a grant adds the delegate's key to it, only when grants are enabled). -/

def triOpt (s : String) : Option Bool :=
  if s = "a" then some false else if s = "t" then some true else if s = "f" then some false else none

/-- a(bsent) | t | f as an option that may be unset -/
def triSet (s : String) : Option (Option Bool) :=
  if s = "a" then some none else if s = "t" then some (some true) else if s = "f" then some (some false) else none

def cliSN : String := "srv.example"

/-- which expected-name options the Global and the host block set -/
def cliBlocks (name : String) : Option (ClientCfg.Block × ClientCfg.Block) :=
  if name = "sn" then some ({}, { sn := some cliSN })
  else if name = "sn-other" then some ({}, { sn := some "other.example" })
  else if name = "sn-g" then some ({ sn := some cliSN }, {})
  else if name = "sn-gh" then some ({ sn := some "other.example" }, { sn := some cliSN })
  else if name = "ip4" then some ({}, { ip4 := some "127.0.0.1" })
  else if name = "ip4-other" then some ({}, { ip4 := some "127.0.0.9" })
  else if name = "ip4-g" then some ({ ip4 := some "127.0.0.1" }, {})
  else if name = "ip6" then some ({}, { ip6 := some "::1" })
  else if name = "sn+ip4" then some ({}, { sn := some "other.example", ip4 := some "127.0.0.1" })
  else if name = "snok+ip4" then some ({}, { sn := some cliSN, ip4 := some "127.0.0.9" })
  else if name = "host" then some ({}, {})
  else none

def cliCas (ca : String) : Option (List String × List String) :=
  if ca = "own" then some ([], ["own"]) else if ca = "other" then some ([], ["other"])
  else if ca = "none" then some ([], []) else if ca = "split" then some (["other"], ["own"]) else none

def cliNamesA : List ClientCfg.Name := [⟨.dns, cliSN⟩, ⟨.ip4, "127.0.0.1"⟩, ⟨.ip6, "::1"⟩]

def cliSrv (k : String) : Option ClientCfg.Presented :=
  if k = "A" then some ⟨cliNamesA, some "own"⟩
  else if k = "B" then some ⟨[⟨.dns, "127.0.0.1"⟩, ⟨.raw, cliSN⟩], some "own"⟩
  else if k = "otherroot" then some ⟨cliNamesA, some "other"⟩
  else if k = "selfsigned" then some ⟨cliNamesA, none⟩
  else none

def stepCfg (_ : Unit) : List String → Unit × String
  | ["cfg", mode, skip, dcv, ak, ag, ca, client, granted] =>
    if mode ≠ "toml" ∧ mode ≠ "struct" then ((), "bad-op") else
    if ca ≠ "0" ∧ ca ≠ "1" then ((), "bad-op") else
    if granted ≠ "0" ∧ granted ≠ "1" then ((), "bad-op") else
    if client ∉ ["ok", "selfsigned", "otherroot"] then ((), "bad-op") else
    match triOpt skip, triOpt dcv, triOpt ak, triOpt ag with
    | some skip, some dcv, some ak, some ag =>
      let pol : Policy := ⟨true, skip, ak || ag, false⟩
      -- the chain verifies iff the client's certificate is issued under the CA, the CA is listed and
      -- validation is not disabled (a disabled validation leaves an empty store: nothing verifies)
      let chain := client == "ok" && ca == "1" && !dcv
      let facts : CertFacts :=
        { parses := true, formatOK := true, keyListed := ag && granted == "1", chainOK := chain, callbackOK := true }
      ((), "h=" ++ b01 (policyAccepts pol facts))
    | _, _, _, _ => ((), "bad-op")
  -- a hidden-mode server, wherever its KEM key is configured: silent towards ClientHello
  -- (C19_hidden_silent_dispatch), serving the client that proves knowledge of the KEM key
  | ["hid", k] => if k = "top" ∨ k = "names" ∨ k = "both" then ((), "d=0 k=1") else ((), "bad-op")
  | ["sni", k] =>
    -- virtual hosts `srv.example` (0), `10.0.0.*` and `\xff*` (1), no fallback.  The server matches the LABEL
    -- of the requested name against the patterns (glob, C20) whatever its type byte; a name that matches no
    -- pattern is refused; the client then checks the presented certificate against the name it asked for,
    -- type included (C01's name clause); and the server goes on serving.
    if k = "match" then ((), "h=1 p=0 a=1")
    else if k = "type7f-match" then ((), "h=0 p=0 a=1")
    else if k = "nomatch" ∨ k = "type7f-nomatch" ∨ k = "empty" ∨ k = "ipv4-other" then ((), "h=0 p=none a=1")
    else if k = "ipv4" ∨ k = "binary" then ((), "h=1 p=1 a=1")
    else ((), "bad-op")
  -- the client side: a Global block and one applied host block (another, not matching, block that would switch
  -- verification off is in the file too: C20_matchHost_mem), a server presenting certificate A / B under the
  -- trusted root, A's names under another root, or self-signed.  Both handshake modes give the same verdict.
  | ["cli", mode, hid, name, gskip, hskip, ca, srv] =>
    if mode ≠ "toml" ∧ mode ≠ "struct" then ((), "bad-op") else
    if hid ≠ "disc" ∧ hid ≠ "hid" then ((), "bad-op") else
    match cliBlocks name, triSet gskip, triSet hskip, cliCas ca, cliSrv srv with
    | some (g, h), some gs, some hs, some (gc, hc), some p =>
      let g : ClientCfg.Block := { g with skip := gs, cas := gc }
      let h : ClientCfg.Block := { h with skip := hs, cas := hc }
      ((), "h=" ++ b01 (ClientCfg.accepts (ClientCfg.effective g [h]) "127.0.0.1" p))
    | _, _, _, _, _ => ((), "bad-op")
  | _ => ((), "bad-op")

def mainCfg (_ : List String) : IO Unit := loopLines stepCfg ()

end Driver.C01
