import HopModel.Spec.Handshake
import HopModel.Driver.Util
/-
Driver for C02 (every line is its own case):
  tam <xx|ik> <msg> <kind>    -> c=<client ok> h=<handle offered> k=<equal keys> d=<directions differ>
  sweep <xx|ik> <msg> <mask> <stride> <phase>   -> bad=<handshakes in which the receiver completed>
  distinct <n>                -> ok
Whether the receiver of an altered message rejects it is computed by running the expected reader
actions on the honesty mask the alteration produces; the rest is who is waiting for whom.
-/
namespace Driver.C02
open Handshake

/-- expected reader actions and number of fields of a message -/
def readerOf (mode msg : String) : Option (List Act × Nat) :=
  match mode, msg with
  | "xx", "c2s0" => some (expClientHello, 3)
  | "xx", "s2c0" => some (expServerHello, 4)
  | "xx", "c2s1" => some (expClientAck, 6)
  | "xx", "s2c1" => some (expServerAuth, 6)
  | "xx", "c2s2" => some (expClientAuth, 5)
  | "ik", "c2s0" => some (expRequestHidden, 7)
  | "ik", "s2c0" => some (expResponseHidden, 6)
  | _, _ => none

def clearBit (m i : Nat) : Nat := if m.testBit i then m - 2 ^ i else m

/-- honesty mask after an alteration; `none` for a malformed kind -/
def maskOf (k : Nat) (kind : String) : Option Nat :=
  match kind.splitOn ":" with
  | ["none"] => some (allHonest k)
  | ["flip", f, pm, m] => match f.toNat?, pm.toNat?, m.toNat? with
    | some f, some pm, some m => if f < k ∧ pm < 1000 ∧ 0 < m ∧ m < 256 then some (clearBit (allHonest k) f) else none
    | _, _, _ => none
  | ["trunc", f, pm] => match f.toNat?, pm.toNat? with
    -- everything from the cut on is missing: the fields from `f` on are not what the sender sent
    | some f, some pm => if f < k ∧ pm < 1000 then some (allHonest f) else none
    | _, _ => none
  | ["prime", n] => n.toNat?.map fun _ => allHonest (k - 1)   -- the tail is not in the datagram
  | ["zerocut", n] => n.toNat?.map fun _ => allHonest (k - 1) -- zero bytes cut off the final MAC
  | ["splice"] => some 0
  | _ => none

def b01 (b : Bool) : String := if b then "1" else "0"

def outcome (c h : Bool) : String := s!"c={b01 c} h={b01 h} k={b01 (c && h)} d={b01 c}"

/-- who ends up completed when the receiver of message `msg` accepts (`acc`) or rejects it -/
def result (mode msg : String) (acc : Bool) (spliced : Bool) : String :=
  if acc then outcome true true else
  match mode, msg with
  | "xx", "c2s2" => outcome true false      -- the client finished when it sent ClientAuth
  | "ik", "s2c0" => outcome false true      -- the hidden server finished when it answered
  | "ik", "c2s0" => outcome false spliced   -- a spliced request is another client's genuine request
  | _, _ => outcome false false

def envOf (mask : Nat) : Env :=
  { honest := mask, possession := true, certOK := true, cookieOK := true, timeOK := true, verifySet := true }

def step (_ : Unit) : List String → Unit × String
  | ["tam", mode, msg, kind] =>
    match readerOf mode msg with
    | none => ((), "bad-op")
    | some (acts, k) =>
      match kind.splitOn ":" with
      | ["ext", n] => match n.toNat? with
        -- appended bytes: every caller but the ClientAuth path compares the consumed length with
        -- the datagram length (`C02_extension_rejected`)
        | some _ => ((), result mode msg (mode == "xx" && msg == "c2s2") false)
        | none => ((), "bad-op")
      | _ =>
        match maskOf k kind with
        | none => ((), "bad-op")
        | some mask =>
          -- a spliced ClientAck also carries a cookie minted for another address and key
          let env := if kind == "splice" then { envOf mask with cookieOK := false } else envOf mask
          ((), result mode msg (runActs acts env) (kind == "splice"))
  | ["sweep", mode, msg, m, st, ph] =>
    match readerOf mode msg, m.toNat?, st.toNat?, ph.toNat? with
    | some (acts, k), some m, some st, some _ =>
      if st = 0 ∨ m = 0 ∨ m > 255 then ((), "bad-op") else
      -- every offset lies in some field (`C02_offset_to_field`); count the fields whose alteration
      -- the reader would accept
      let bad := (List.range k).filter fun f => runActs acts (envOf (clearBit (allHonest k) f))
      ((), s!"bad={bad.length}")
    | _, _, _, _ => ((), "bad-op")
  | ["distinct", n] => match n.toNat? with
    | some n => if 0 < n ∧ n ≤ 200 then ((), "ok") else ((), "bad-op")
    | none => ((), "bad-op")
  | _ => ((), "bad-op")

def main (_ : List String) : IO Unit := loopLines step ()

end Driver.C02
