import HopModel.Model.Queue
import HopModel.Driver.Util
/-
Drivers for C17.

Suite `C17q` (kind diff): single-goroutine operation sequences on a real `common.DeadlineChan[int]`
and on `QSpec`.
  new <cap>                       fresh queue of capacity cap                 -> ok
  send <v>                        Send(v)                                     -> ok | eof | timeout | other | block
  recv                            Recv()                                      -> val <v> | eof | timeout | other | block
  close                           Close()                                     -> ok | eof
  set past|future|zero            SetDeadline(now-1h | now+1h | time.Time{})  -> ok | eof
  cancel timeout|other|eof        Cancel(os.ErrDeadlineExceeded | errOther | io.EOF) -> ok | eof
  fire                            SetDeadline(now+1ms) and wait until the timer has fired
                                  (= setDeadline future; timerFire)           -> ok | eof
A call that blocks is observed as `block` and then released by `Cancel(errOther)`; both sides apply
that cancel after a `block` answer (harness convention, not part of the Spec).
-/
namespace Driver.C17
open Queue

def resStr : Res → String
  | .ok => "ok"
  | .val v => s!"val {v}"
  | .err .eof => "eof"
  | .err .timeout => "timeout"
  | .err .other => "other"
  | .nilErr => "nilerr"
  | .block => "block"
  | .noop => "noop"

def parseErr : String → Option DErr
  | "timeout" => some .timeout
  | "other" => some .other
  | "eof" => some .eof
  | _ => none

def parseDl : String → Option Dl
  | "past" => some .past
  | "future" => some .future
  | "zero" => some .zero
  | _ => none

/-- apply one Spec operation; a blocking call is released by `cancel other` -/
def apply (q : Q) (o : Op) : Q × String :=
  let (q', r) := step q o
  if r = .block then ((step q' (.cancel .other)).1, "block") else (q', resStr r)

def stepQ (st : Option Q) (ws : List String) : Option Q × String :=
  match ws with
  | ["new", c] => match c.toNat? with
    | some c => (some (Q.init c), "ok")
    | none => (st, "bad-op")
  | _ =>
    match st with
    | none => (st, "bad-op")
    | some q =>
      let ans (r : Q × String) : Option Q × String := (some r.1, r.2)
      match ws with
      | ["send", v] => match v.toNat? with
        | some v => ans (apply q (.send v))
        | none => (st, "bad-op")
      | ["recv"] => ans (apply q .recv)
      | ["close"] => ans (apply q .close)
      | ["set", d] => match parseDl d with
        | some d => ans (apply q (.setDeadline d))
        | none => (st, "bad-op")
      | ["cancel", e] => match parseErr e with
        | some e => ans (apply q (.cancel e))
        | none => (st, "bad-op")
      | ["fire"] =>
        let (q1, r) := step q (.setDeadline .future)
        if r = .ok then (some (step q1 .timerFire).1, "ok") else (some q1, resStr r)
      | _ => (st, "bad-op")

def mainQ (_ : List String) : IO Unit := loopLines stepQ none

end Driver.C17

/-!
Suite `C17lin` (kind monitor): recorded call/return histories of small concurrent programs.
  new <id> obj=q cap=<c> …            bare DeadlineChan: linearizability against QSpec
  new <id> obj=t …                    transport client/server/handle: necessary conditions
  ret <g> <op> <start> <end> <res…>   a returned call (start/end: positions in the global event order)
  hang <g> <op> <start>               a call that did not return within the watchdog   -> hang
  info …                                                                               -> ok
  end                                 -> the verdict on the whole history
-/
namespace Driver.C17
open Queue

structure HOp where
  id : Nat
  g : Nat
  name : String
  op : Op
  soon : Bool      -- SetDeadline a few ms ahead: its timer may fire at any later point
  res : Option Res
  s : Nat
  e : Nat

inductive SR where
  | found | notFound | budget
  deriving DecidableEq

/-- brute-force linearizability search: depth-first over the operations that are minimal in the
real-time order, running QSpec (through `Queue.admits`, the concurrent contract); the timer of a near deadline may fire as an internal step.
`d` bounds the depth (3·n+3 suffices: every operation, and per operation at most one drain and one timer step), `b` the number of visited nodes. -/
def dfs : Nat → Nat → LQ → Bool → List HOp → SR × Nat
  | 0, b, _, _, _ => (.budget, b)
  | d + 1, b, q, soon, rem =>
    if rem.isEmpty then (.found, b)
    else if b = 0 then (.budget, 0)
    else
      let cands := rem.filter fun o => rem.all fun o' => !(o'.e < o.s)
      let r := cands.foldl (fun (acc : SR × Nat) o =>
        if acc.1 ≠ .notFound then acc
        else
          match o.res.bind fun r => (q.admits o.op r).map fun q' => (q', r) with
          | some (q', res) =>
            let soon' := match o.op, res with
              | .setDeadline _, .ok => o.soon
              | _, _ => soon
            dfs d (acc.2 - 1) q' soon' (rem.filter (·.id ≠ o.id))
          | none => acc) (.notFound, b - 1)
      if r.1 ≠ .notFound then r
      else
        -- internal steps: the end of Close's wait; the timer of a near deadline
        let r := if q.closing then dfs d (r.2 - 1) q.drain soon rem else r
        if r.1 ≠ .notFound then r
        else if q.q.armed ∧ soon then
          dfs d (r.2 - 1) { q with q := (step q.q .timerFire).1 } false rem
        else r

def parseRes : List String → Option Res
  | ["ok"] => some .ok
  | ["val", v] => v.toNat?.map .val
  | ["eof"] => some (.err .eof)
  | ["timeout"] => some (.err .timeout)
  | ["other"] => some (.err .other)
  | _ => none

def parseQOp (s : String) : Option (Op × Bool) :=
  match s with
  | "r" => some (.recv, false)
  | "c" => some (.close, false)
  | "dp" => some (.setDeadline .past, false)
  | "dz" => some (.setDeadline .zero, false)
  | "df" => some (.setDeadline .future, false)
  | "ds" => some (.setDeadline .future, true)
  | "x" => some (.cancel .other, false)
  | "xt" => some (.cancel .timeout, false)
  | _ =>
    if s.startsWith "s" then (s.drop 1).toString.toNat?.map fun v => (.send v, false) else none

structure LS where
  obj : String := ""
  cap : Nat := 0
  ops : List HOp := []        -- reversed
  hung : Bool := false
  bad : Bool := false
  traw : List (Nat × String × Nat × Nat × List String) := []   -- transport: g, op, start, end, result (reversed)

def kvOf (ws : List String) (k : String) : Option String :=
  ws.findSome? fun w => match w.splitOn "=" with
    | [k', v] => if k' = k then some v else none
    | _ => none

/-! #### necessary conditions for transport histories -/

def allEq (l : List String) : Bool := match l with
  | [] => true
  | x :: t => t.all (· = x)

/-- value ids are `writerGoroutine*1000 + k`, k increasing per writer -/
def increasingPerWriter (ids : List Nat) : Bool :=
  let rec go : List Nat → List (Nat × Nat) → Bool
    | [], _ => true
    | v :: t, last =>
      let w := v / 1000
      match last.find? (·.1 = w) with
      | some (_, p) => if p < v then go t ((w, v) :: last.filter (·.1 ≠ w)) else false
      | none => go t ((w, v) :: last)
  go ids []

def transportVerdict (calls : List (Nat × String × Nat × Nat × List String)) : String :=
  -- calls are sorted by end
  let resOf (c : Nat × String × Nat × Nat × List String) := " ".intercalate c.2.2.2.2
  let closeOK := ["c.c", "h.c", "s.c"].all fun o => allEq ((calls.filter (·.2.1 = o)).map resOf)
  -- Handshake: never both a success and a failure other than end-of-stream
  let hs := (calls.filter (·.2.1 = "c.hs")).map resOf
  let hsOK := !(hs.contains "ok" ∧ hs.any (fun r => r ≠ "ok" ∧ r ≠ "eof")) ∧ allEq (hs.filter (fun r => r ≠ "ok" ∧ r ≠ "eof"))
  -- values: reads on the handle return what the client wrote and vice versa
  let isRead (o : String) := o = "r" ∨ o = "rm"
  let isWrite (o : String) := o.startsWith "w"
  let side (who : String) (p : String → Bool) := calls.filter fun c =>
    match c.2.1.splitOn "." with
    | [w, o] => w = who ∧ p ((o.splitOn ":").headD "")
    | _ => false
  let valsOf (cs : List (Nat × String × Nat × Nat × List String)) := cs.filterMap fun c =>
    match c.2.2.2.2 with
    | ["val", v] => v.toNat?
    | _ => none
  let wroteBy (who : String) := (side who isWrite).filterMap fun c =>
    match c.2.1.splitOn ":" with
    | [_, v] => v.toNat?
    | _ => none
  let dirOK (reader writer : String) :=
    let got := valsOf (side reader isRead)
    let sentIds := wroteBy writer
    got.all (sentIds.contains ·) ∧ got.eraseDups.length = got.length ∧
      -- per consumer goroutine: in the order written by each writer goroutine
      ((side reader isRead).map (·.1)).eraseDups.all fun g =>
        increasingPerWriter (valsOf ((side reader isRead).filter (·.1 = g)))
  -- no value after end-of-stream: a read that starts after a read on the same object returned eof
  let eofOK (who : String) :=
    let rs := side who isRead
    rs.all fun c => rs.all fun c' =>
      !(resOf c = "eof" ∧ c.2.2.2.1 < c'.2.2.1 ∧ resOf c' ≠ "eof")
  if !closeOK then "close-results-differ"
  else if !hsOK then "handshake-results-inconsistent"
  else if !(dirOK "h" "c" ∧ dirOK "c" "h") then "received-not-sent-once-in-order"
  else if !(eofOK "c" ∧ eofOK "h") then "value-after-eof"
  else "ok"

def stepL (st : LS) (ws : List String) : LS × String :=
  match ws with
  | "new" :: rest =>
    match kvOf rest "obj" with
    | some "q" => ({ obj := "q", cap := ((kvOf rest "cap").bind (·.toNat?)).getD 0 }, "ok")
    | some "t" => ({ obj := "t" }, "ok")
    | _ => ({ bad := true }, "ok")
  | "info" :: _ => (st, "ok")
  | ["bad-program"] => (st, "ok")
  | "hang" :: _ => ({ st with hung := true }, "hang")
  | "ret" :: g :: op :: s :: e :: res =>
    match g.toNat?, s.toNat?, e.toNat? with
    | some g, some s, some e =>
      if st.obj = "q" then
        match parseQOp op with
        | some (o, soon) =>
          ({ st with ops := ⟨st.ops.length, g, op, o, soon, parseRes res, s, e⟩ :: st.ops }, "ok")
        | none => (st, "bad-op")
      else if st.obj = "t" then ({ st with traw := (g, op, s, e, res) :: st.traw }, "ok")
      else (st, "bad-op")
    | _, _, _ => (st, "bad-op")
  | ["end"] =>
    if st.bad then ({}, "ok")
    else if st.hung then ({}, "not-every-call-returned")
    else if st.obj = "q" then
      let ops := st.ops.reverse
      -- budget exhaustion is reported as ok (inconclusive, never a false alarm)
      match (dfs (3 * ops.length + 3) 20000000 ⟨Q.init st.cap, false⟩ false ops).1 with
      | .notFound => ({}, "not-linearizable")
      | _ => ({}, "ok")
    else ({}, transportVerdict st.traw.reverse)
  | _ => (st, "bad-op")

def mainLin (_ : List String) : IO Unit := loopLines stepL {}


/-! ### suite C17dial: a dialer's Timeout / Deadline bound the handshake with a silent peer -/

def stepDial (_ : Unit) : List String → Unit × String
  | ["dial", t, d] => match t.toNat?, d.toNat? with
    | some t, some d =>
      if (t = 0 ∧ d = 0) ∨ t > 10000 ∨ d > 10000 then ((), "bad-op") else ((), "timeout")
    | _, _ => ((), "bad-op")
  | _ => ((), "bad-op")

def mainDial (_ : List String) : IO Unit := loopLines stepDial ()

end Driver.C17
