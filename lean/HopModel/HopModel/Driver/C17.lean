import HopModel.Model.Queue
import HopModel.Driver.Util
/-
Drivers for C17.

Suite `C17q` (kind diff): single-goroutine operation sequences on a real `common.DeadlineChan[int]`
and on `QSpec`.
  new <cap>                       fresh queue of capacity cap                 -> ok
  send <v>                        Send(v)                                     -> ok | eof | timeout | other | block
  recv                            Recv()                                      -> val <v> | eof | timeout | other | block
  close                           Close()                                     -> ok | eof
  set past|future|zero            SetDeadline(now-1h | now+1h | time.Time{})  -> ok | eof
  cancel timeout|other|eof        Cancel(os.ErrDeadlineExceeded | errOther | io.EOF) -> ok | eof
  fire                            SetDeadline(now+1ms) and wait until the timer has fired
                                  (= setDeadline future; timerFire)           -> ok | eof
A call that blocks is observed as `block` and then released by `Cancel(errOther)`; both sides apply
that cancel after a `block` answer (harness convention, not part of the Spec).
-/
namespace Driver.C17
open Queue

def resStr : Res → String
  | .ok => "ok"
  | .val v => s!"val {v}"
  | .err .eof => "eof"
  | .err .timeout => "timeout"
  | .err .other => "other"
  | .nilErr => "nilerr"
  | .block => "block"
  | .noop => "noop"

def parseErr : String → Option DErr
  | "timeout" => some .timeout
  | "other" => some .other
  | "eof" => some .eof
  | _ => none

def parseDl : String → Option Dl
  | "past" => some .past
  | "future" => some .future
  | "zero" => some .zero
  | _ => none

/-- apply one Spec operation; a blocking call is released by `cancel other` -/
def apply (q : Q) (o : Op) : Q × String :=
  let (q', r) := step q o
  if r = .block then ((step q' (.cancel .other)).1, "block") else (q', resStr r)

def stepQ (st : Option Q) (ws : List String) : Option Q × String :=
  match ws with
  | ["new", c] => match c.toNat? with
    | some c => (some (Q.init c), "ok")
    | none => (st, "bad-op")
  | _ =>
    match st with
    | none => (st, "bad-op")
    | some q =>
      let ans (r : Q × String) : Option Q × String := (some r.1, r.2)
      match ws with
      | ["send", v] => match v.toNat? with
        | some v => ans (apply q (.send v))
        | none => (st, "bad-op")
      | ["recv"] => ans (apply q .recv)
      | ["close"] => ans (apply q .close)
      | ["set", d] => match parseDl d with
        | some d => ans (apply q (.setDeadline d))
        | none => (st, "bad-op")
      | ["cancel", e] => match parseErr e with
        | some e => ans (apply q (.cancel e))
        | none => (st, "bad-op")
      | ["fire"] =>
        let (q1, r) := step q (.setDeadline .future)
        if r = .ok then (some (step q1 .timerFire).1, "ok") else (some q1, resStr r)
      | _ => (st, "bad-op")

def mainQ (_ : List String) : IO Unit := loopLines stepQ none

end Driver.C17
