/-
Line-protocol plumbing shared by all drivers: one operation per input line, one output line per
operation; malformed lines answer `bad-op` (never a default).
-/
namespace Driver

def words (line : String) : List String :=
  (line.splitOn " ").filter (· ≠ "")

def stripNL (s : String) : String :=
  let s := if s.endsWith "\n" then (s.dropEnd 1).toString else s
  if s.endsWith "\r" then (s.dropEnd 1).toString else s

/-- run `step` over every line of stdin -/
partial def loopLines {σ : Type} (step : σ → List String → σ × String) (st : σ) : IO Unit := do
  let stdin ← IO.getStdin
  let stdout ← IO.getStdout
  let rec go (st : σ) (n : Nat) : IO Unit := do
    let line ← stdin.getLine
    if line.isEmpty then
      stdout.flush
      return ()
    let (st', out) := step st (words (stripNL line))
    stdout.putStrLn out
    if n % 512 == 0 then stdout.flush
    go st' (n + 1)
  go st 0

def hexDigit (n : Nat) : Char :=
  if n < 10 then Char.ofNat (48 + n) else Char.ofNat (87 + n)

def toHex (bs : List UInt8) : String :=
  String.ofList (bs.flatMap fun b => [hexDigit (b.toNat / 16), hexDigit (b.toNat % 16)])

def hexVal (c : Char) : Option Nat :=
  if '0' ≤ c ∧ c ≤ '9' then some (c.toNat - 48)
  else if 'a' ≤ c ∧ c ≤ 'f' then some (c.toNat - 87)
  else if 'A' ≤ c ∧ c ≤ 'F' then some (c.toNat - 55)
  else none

/-- `-` encodes the empty byte string -/
def fromHex (s : String) : Option (List UInt8) :=
  if s = "-" then some [] else
  let rec go : List Char → List UInt8 → Option (List UInt8)
    | [], acc => some acc.reverse
    | [_], _ => none
    | a :: b :: t, acc =>
      match hexVal a, hexVal b with
      | some x, some y => go t (UInt8.ofNat (x * 16 + y) :: acc)
      | _, _ => none
  go s.toList []

/-- drop a trailing `=<published value>` word (vector replay; only the harness uses it) -/
def stripExpect (ws : List String) : List String :=
  match ws.getLast? with
  | some w => if w.startsWith "=" ∧ ws.length > 1 then ws.dropLast else ws
  | none => ws

/-- split a word list at the separator word `;` -/
def splitSemi (ws : List String) : List (List String) :=
  let r := ws.foldl (fun (acc : List (List String) × List String) w =>
    if w = ";" then (acc.2.reverse :: acc.1, []) else (acc.1, w :: acc.2)) ([], [])
  (r.2.reverse :: r.1).reverse

/-- a whole transcript on one line: `new ; op ; op ; …` runs the operations in order and answers
their outputs joined by `;` (used for vector replay, so that a published transcript is one
indivisible case) -/
def runScript {σ : Type} (step : σ → List String → σ × String) (st : σ) (ws : List String) : σ × String :=
  let r := (splitSemi ws).foldl (fun (acc : σ × List String) op =>
    let x := step acc.1 op
    (x.1, x.2 :: acc.2)) (st, [])
  (r.1, ";".intercalate r.2.reverse)

def hexOrDash (bs : List UInt8) : String := if bs.isEmpty then "-" else toHex bs

end Driver
