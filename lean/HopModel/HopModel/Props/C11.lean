/-
C11 (frame half) — whatever frames an authenticated peer sends, the tube multiplexer does not
panic, keeps serving its other tubes and can still be stopped.

Model: `Model/Muxer.lean` — `fromBytes` on the datagram actually received (Go slice semantics:
`b[lo:hi]` panics iff `lo > hi ∨ hi > cap`), the dispatch of `Muxer.receiver`, the reliable and
unreliable receive paths, the acknowledgement loop with `frames[0]` as a panicking index, the
bounded accept queue.  The model is the repaired behaviour (F14: the loop stops when the
retransmission buffer is empty; F15: the datagram length bounds the decoder and malformed frames
are dropped; F18: a REQ is refused while the accept queue is full instead of blocking the receiver
under the muxer lock).

* `C11_decode_total`, `C11_decode_within_datagram` — for every byte string up to the receive
  buffer size the decoder returns a frame or an error, and the payload it returns lies inside the
  datagram that was received (never bytes of an earlier datagram);
* `C11_no_panic` — for every muxer state and every sequence of datagrams the receiver loop runs to
  the end without a panic;
* `C11_other_tubes_unaffected` — a datagram changes at most the tube its (reliability, id) names;
* `C11_never_blocked` — the accept queue never exceeds its capacity, so the offer in the receiver
  never has to wait for an acceptor (the receiver cannot be wedged by REQ frames, and `Stop` can
  always take the muxer lock);
* `C11_ack_loop` — the acknowledgement loop with explicit indexing is the cumulative
  acknowledgement of the sender model of C08.

The decoder half of C11 (application protocol readers) is in `Props/C11Decoders.lean`.
-/
import HopModel.Proofs.Muxer
import HopModel.Generated.Consts
namespace Tubes

example : Generated.tubes_REQIdx = 0 ∧ Generated.tubes_RESPIdx = 1 ∧ Generated.tubes_RELIdx = 2 ∧
    Generated.tubes_ACKIdx = 3 ∧ Generated.tubes_FINIdx = 4 ∧ Generated.tubes_RTRIdx = 5 := by decide
example : Generated.tubes_maxBufferedPackets = maxBufferedPackets := by decide
example : Generated.tubes_defaultWindowSize = defaultWindow := by decide

/-- the frame a datagram decodes to, if any -/
def frameOf (b : Bytes) : Option Frame :=
  match fromBytes b recvBufSize with
  | .ok f => some f
  | _ => none

theorem C11_decode_total (b : Bytes) (h : b.length ≤ recvBufSize) :
    fromBytes b recvBufSize = .err ∨ ∃ f, fromBytes b recvBufSize = .ok f :=
  fromBytes_total b recvBufSize h

theorem C11_decode_within_datagram (b : Bytes) (f : Frame) (h : b.length ≤ recvBufSize)
    (hf : fromBytes b recvBufSize = .ok f) :
    f.data = (b.drop 12).take f.data.length ∧ (f.data ≠ [] → f.data.length + 12 ≤ b.length) :=
  fromBytes_data h hf

theorem onRaw_total (m : Mux) (b : Bytes) (h : b.length ≤ recvBufSize) :
    ∃ m', onRaw m b = .ok m' ∧
      (∀ k, (∀ f, frameOf b = some f → k ≠ (f.rel, f.tubeID)) → lookup m'.tubes k = lookup m.tubes k) ∧
      (m.queue.length ≤ acceptQueueSize → m'.queue.length ≤ acceptQueueSize) := by
  unfold onRaw frameOf
  rcases fromBytes_total b recvBufSize h with he | ⟨f, hf⟩
  · rw [he]; exact ⟨m, rfl, fun _ _ => rfl, fun h => h⟩
  · rw [hf]
    obtain ⟨m', h1, h2, _, _, h5⟩ := onFrame_total m f
    exact ⟨m', h1, fun k hk => h2 k (hk f rfl), h5⟩

/-- No sequence of datagrams makes the receiver loop panic. -/
theorem C11_no_panic (m : Mux) (bs : List Bytes) (h : ∀ b ∈ bs, b.length ≤ recvBufSize) :
    ∃ m', runRaw m bs = .ok m' := by
  induction bs generalizing m with
  | nil => exact ⟨m, rfl⟩
  | cons b rest ih =>
    obtain ⟨m1, h1, _⟩ := onRaw_total m b (h b (by simp))
    unfold runRaw
    rw [h1]
    exact ih m1 (fun x hx => h x (by simp [hx]))

/-- A datagram leaves every tube other than the one it names exactly as it was. -/
theorem C11_other_tubes_unaffected (m m' : Mux) (b : Bytes) (h : b.length ≤ recvBufSize)
    (hr : onRaw m b = .ok m') (k : Key) (hk : ∀ f, frameOf b = some f → k ≠ (f.rel, f.tubeID)) :
    lookup m'.tubes k = lookup m.tubes k := by
  obtain ⟨m1, h1, h2, _⟩ := onRaw_total m b h
  rw [h1] at hr
  cases hr
  exact h2 k hk

/-- The accept queue stays within its capacity: offering a tube never blocks the receiver. -/
theorem C11_never_blocked (m : Mux) (bs : List Bytes) (h : ∀ b ∈ bs, b.length ≤ recvBufSize)
    (hq : m.queue.length ≤ acceptQueueSize) :
    ∃ m', runRaw m bs = .ok m' ∧ m'.queue.length ≤ acceptQueueSize := by
  induction bs generalizing m with
  | nil => exact ⟨m, rfl, hq⟩
  | cons b rest ih =>
    obtain ⟨m1, h1, _, h3⟩ := onRaw_total m b (h b (by simp))
    unfold runRaw
    rw [h1]
    exact ih m1 (fun x hx => h x (by simp [hx])) (h3 hq)

theorem C11_ack_loop (s : Sender) (ack32 w : Nat) : recvAckO s ack32 w = .ok (s.recvAck ack32 w) :=
  recvAckO_eq s ack32 w

/-! ### non-vacuity: a REQ creates tube 3, an ACK far beyond anything sent and a length field
pointing past the datagram are survived, tube 3 still has its data -/

def exReq : Bytes := [3, 5, 0, 0, 7, 0, 0, 0, 0, 0]                             -- REQ|REL, type 7 (10 bytes)
def exData : Bytes := [3, 4, 0, 2, 0, 0, 0, 1, 0, 0, 0, 1, 0xAA, 0xBB]           -- REL, frame 1, 2 bytes
def exWildAck : Bytes := [3, 12, 0, 0, 0xFF, 0xFF, 0xFF, 0xFF, 0, 0, 0, 9]      -- REL|ACK, ackNo 2^32-1
def exLong : Bytes := [3, 4, 0xFF, 0xF4, 0, 0, 0, 0, 0, 0, 0, 2]                -- length 65524
def exOther : Bytes := [4, 1, 0, 0, 9, 0, 0, 0, 0, 0, 0, 0]                     -- REQ, unreliable tube 4

example : (match runRaw { parity := 0 } [exReq, exData, exWildAck, exLong, exOther] with
    | .ok m => (m.tubes.map fun t => (t.id, t.ttype, t.rx.buffer, t.state == .initiated), m.queue.length)
    | _ => ([], 0)) = ([(4, 9, [], true), (3, 7, [0xAA, 0xBB], true)], 2) := by decide

/-- **C11 (regenerated from tubes/muxer.go and transport/common.go).** The muxer's receive buffer holds the
largest message the transport below can deliver — `Handle.ReadMsg` answers a message that does not fit with
`ErrBufOverflow`, which the receiver loop treats as fatal, so one legal but long message from the peer would
end the whole session — and a datagram it holds never exceeds the 65535 bytes the receive path is modelled
for (`C11_no_panic`'s assumption). -/
theorem C11_receive_buffer_holds_any_message :
    Generated.transport_MaxPlaintextSize ≤ Generated.tubes_readBuf_size ∧
      Generated.tubes_readBuf_size ≤ 65535 := by decide

end Tubes
