/-
C07 — A delegate session can do only what its grants allow, once, and in time.

Histories are arbitrary lists of operations on one target server (`Grants.Op`): grants being
stored, logins by grant or by authorized key, exec/shell requests at arbitrary clock values in
arbitrary sessions, other tubes being opened.  `runW World.empty ops` is the model of
`HopServer.AddAuthGrant`, `AuthorizeKeyAuthGrant`/`checkAuthorization`, `checkCmd`/`startCodex`
and the tube dispatch of `hopSession.start`; `served` lists what sessions got served.

The statement is proved for command and shell actions (`C07_exec_matches_grant`,
`C07_single_use`, `C07_key_bound`, …).  The **full** statement — every action of a
grant-admitted session is covered by a grant — is `C07_full`; the code serves port-forwarding,
grant-issuing and window-size tubes to such sessions without consulting any grant, the model is
faithful to that, and `C07_full_false` refutes the full statement with a three-step witness
(known finding F9).
-/
import HopModel.Proofs.Grants
import HopModel.Generated.Consts
import HopModel.Generated.Shapes
namespace Grants

/-- what an exec/shell request must match in a grant -/
def Matches (x : Served) (g : Grant) : Prop :=
  (x.shell = false ∧ g.gtype = gCommand ∧ g.cmd = x.cmd) ∨ (x.shell = true ∧ g.gtype = gShell)

theorem admits_iff (now : Nat) (cmd : List UInt8) (shell : Bool) (g : Grant) :
    admits now cmd shell g = true ↔
      g.start * ns + g.startNs ≤ now ∧ now < g.exp * ns ∧
        ((shell = false ∧ g.gtype = gCommand ∧ g.cmd = cmd) ∨ (shell = true ∧ g.gtype = gShell)) := by
  unfold admits
  cases shell <;> simp <;> constructor <;> intro h <;> simp_all

/-- **C07 (exec).** Every command or shell action started in a grant-admitted session, in any
history, consumed a grant that was issued (stored on the server through `AddAuthGrant`) for
exactly that session's user and key, that was effective and not yet expired at the time of the
request, and whose kind — and for command grants the identical command text — matches the
request. -/
theorem C07_exec_matches_grant (ops : List Op) (x : Served)
    (hx : x ∈ (runW World.empty ops).served) (hu : x.usingGrant = true) (hh : x.handler = .codex) :
    ∃ g, x.grant = some g ∧ g ∈ (runW World.empty ops).issued ∧ g.user = x.user ∧ g.key = x.key ∧
      g.start * ns + g.startNs ≤ x.now ∧ x.now < g.exp * ns ∧ Matches x g := by
  have hinv := run_inv World.empty ops inv_empty
  obtain ⟨g, hg⟩ := hinv.codexGranted x hx hu hh
  obtain ⟨_, _, h3, h4, h5⟩ := hinv.servedOk x hx g hg
  have hmem : g ∈ held (runW World.empty ops) := by
    simp only [held, consumed, List.mem_append, List.mem_filterMap]
    exact .inr ⟨x, hx, hg⟩
  obtain ⟨t1, t2, t3⟩ := (admits_iff _ _ _ _).mp h5
  exact ⟨g, hg, hinv.perm.mem_iff.mp hmem, h3, h4, t1, t2, t3⟩

/-- grants are issued only by `grant` operations (a principal's intent accepted by the server) or
by an intent communicated from within a session that passed `checkIntent` -/
theorem C07_issued_sources (ops : List Op) (g : Grant) (h : g ∈ (runW World.empty ops).issued) :
    Op.grant g ∈ ops ∨ ∃ i now ok, Op.issue i now g ok ∈ ops := by
  rcases issued_sources World.empty ops g h with h | h
  · simp [World.empty] at h
  · exact h

/-- **C07 (conservation).** In every reachable state each issued grant is in exactly one place:
still in the server map, held by one session, or consumed by one started action. -/
theorem C07_conservation (ops : List Op) :
    (held (runW World.empty ops)).Perm (runW World.empty ops).issued :=
  (run_inv World.empty ops inv_empty).perm

/-- **C07 (single use).** Over any history, the multiset of grants consumed by started actions is
contained in the multiset of grants issued: each grant authorizes a single action. -/
theorem C07_single_use (ops : List Op) (g : Grant) :
    (consumed (runW World.empty ops)).count g ≤ (runW World.empty ops).issued.count g := by
  have := (C07_conservation ops).count_eq g
  simp only [held, List.count_append] at this
  omega

/-- a consumed grant is gone from the server map and from every session (no copy survives) -/
theorem C07_consumed_disappear (ops : List Op) (g : Grant) :
    (runW World.empty ops).server.grants.count g + (allActions (runW World.empty ops).sessions).count g
      = (runW World.empty ops).issued.count g - (consumed (runW World.empty ops)).count g := by
  have := (C07_conservation ops).count_eq g
  simp only [held, List.count_append] at this
  omega

/-- **C07 (key bound).** Grants reach only sessions authenticated as the user and with the key
they name. -/
theorem C07_key_bound (ops : List Op) (s : Session) (hs : s ∈ (runW World.empty ops).sessions)
    (g : Grant) (hg : g ∈ s.actions) : g.user = s.user ∧ g.key = s.key :=
  (run_inv World.empty ops inv_empty).keyBound s hs g hg

/-- login moves *all* grants of (user, key) out of the server map and takes the key out of the
transport key set's list position it had -/
theorem C07_login_removes (sv : Server) (u : List UInt8) (k : Nat) (s : Session)
    (h : (login sv u k).2 = some s) :
    (∀ g ∈ (login sv u k).1.grants, mine u k g = false) ∧
      s.actions = sv.grants.filter (mine u k) ∧ s.actions ≠ [] ∧ s.usingGrant = true := by
  unfold login at h ⊢
  by_cases he : (sv.grants.filter (mine u k)).isEmpty = true
  · simp [he] at h
  · simp only [he, Bool.false_eq_true, if_false, Option.some.injEq] at h ⊢
    subst h
    refine ⟨?_, rfl, ?_, rfl⟩
    · intro g hg
      simp only [List.mem_filter, Bool.not_eq_true'] at hg
      exact hg.2
    · intro hnil
      have hnil' : sv.grants.filter (mine u k) = [] := hnil
      rw [hnil'] at he
      exact he rfl

/-- without a stored grant for (user, key) the grant branch of the login fails (closed) -/
theorem C07_login_needs_grant (sv : Server) (u : List UInt8) (k : Nat)
    (h : ∀ g ∈ sv.grants, mine u k g = false) : (login sv u k).2 = none := by
  unfold login
  have : sv.grants.filter (mine u k) = [] := by
    rw [List.filter_eq_nil_iff]; intro g hg; simp [h g hg]
  simp [this]

/-- `checkCmd` takes the *first* admitting grant and refuses only if none admits -/
theorem C07_checkCmd_first_match (now : Nat) (cmd : List UInt8) (shell : Bool) (l : List Grant) :
    (∀ m r, checkCmd now cmd shell l = some (m, r) →
        admits now cmd shell m = true ∧
          ∃ pre post, l = pre ++ m :: post ∧ r = pre ++ post ∧ ∀ g ∈ pre, admits now cmd shell g = false) ∧
      (checkCmd now cmd shell l = none → ∀ g ∈ l, admits now cmd shell g = false) :=
  ⟨fun _ _ h => ⟨(checkCmd_some h).2.1, checkCmd_first h⟩, checkCmd_none⟩

/-- target-side policy for issuing a grant from within a session -/
theorem C07_issue_policy (s : Session) (now : Nat) (i : IntentReq) (h : checkIntent s now i = true) :
    i.user = s.user ∧ ¬ i.exp * ns < now ∧ i.leafFormatOk = true ∧
      (i.gtype = gShell ∨ i.gtype = gCommand ∨ i.gtype = gLocalPF ∨ i.gtype = gRemotePF) := by
  unfold checkIntent at h
  simp only [Bool.and_eq_true, Bool.not_eq_true', decide_eq_false_iff_not, beq_iff_eq,
    Bool.or_eq_true] at h
  obtain ⟨⟨⟨h1, h2⟩, h3⟩, h4⟩ := h
  refine ⟨h2, h1, h3, ?_⟩
  rcases h4 with ((h4 | h4) | h4) | h4 <;> simp [h4]

/-! ### the full statement, and why it is false of this code -/

/-- the full statement: *whatever* a grant-admitted session gets served consumed a grant -/
def C07_full : Prop :=
  ∀ ops : List Op, ∀ x ∈ (runW World.empty ops).served, x.usingGrant = true → ∃ g, x.grant = some g

/-- the partial statement that holds: it does for everything that goes through `startCodex` -/
theorem C07_partial (ops : List Op) (x : Served) (hx : x ∈ (runW World.empty ops).served)
    (hu : x.usingGrant = true) (hh : x.handler = .codex) : ∃ g, x.grant = some g :=
  (run_inv World.empty ops inv_empty).codexGranted x hx hu hh

/-- the tube dispatch hands port-forwarding, grant-issuing and window-size tubes to their
handlers whatever the session's grants are -/
theorem C07_dispatch_ignores_grants (s : Session) :
    dispatch s tPFControl true = .pfControl ∧ dispatch s tPF true = .pf ∧ dispatch s tPF false = .pf ∧
      dispatch s tAuthGrant true = .agc ∧ dispatch s tWinSize true = .winSize := by
  simp [dispatch, tPFControl, tPF, tAuthGrant, tWinSize, tExec]

def witnessGrant : Grant := ⟨gCommand, [108, 115], 1000, 2000, [117], 1, 0⟩

/-- a session admitted through one *command* grant opens a port-forwarding control tube -/
def witness : List Op := [.grant witnessGrant, .login [117] 1, .tube 0 tPFControl true]

theorem C07_full_false : ¬ C07_full := by
  intro h
  have := h witness ⟨[117], 1, true, .pfControl, 0, [], false, none⟩ (by decide) rfl
  obtain ⟨g, hg⟩ := this
  cases hg

/-- the same session communicates an intent for a *shell* grant for itself; the target-side policy
`checkIntent` has no objection, the grant is stored, and after a new login the shell runs -/
def witness2 : List Op :=
  [.grant witnessGrant, .login [117] 1,
   .issue 0 (1500 * ns) ⟨gShell, [], 1000, 2000, [117], 1, 0⟩ true,
   .login [117] 1, .exec 1 (1600 * ns) [] true]

theorem C07_escalation_witness :
    (runW World.empty witness2).served =
      [⟨[117], 1, true, .agc, 1500 * ns, [], false, none⟩,
       ⟨[117], 1, true, .codex, 1600 * ns, [], true, some ⟨gShell, [], 1000, 2000, [117], 1, 0⟩⟩] := by
  decide

/-! ### non-vacuity -/

/-- a history in which a granted command runs once, in time, and only once -/
def exHist : List Op :=
  [.grant witnessGrant, .login [117] 1,
   .exec 0 (999 * ns) [108, 115] false,        -- too early: refused
   .exec 0 (1000 * ns) [108, 115, 32] false,   -- other text: refused
   .exec 0 (1500 * ns) [108, 115] false,       -- started
   .exec 0 (1500 * ns) [108, 115] false]       -- used: refused

example : (runW World.empty exHist).served =
    [⟨[117], 1, true, .codex, 1500 * ns, [108, 115], false, some witnessGrant⟩] := by decide
example : (runW World.empty exHist).sessions = [⟨true, [], [117], 1⟩] := by decide
example : (runW World.empty exHist).server = ⟨[], []⟩ := by decide
example : (runW World.empty exHist).issued = [witnessGrant] := by decide
example : (runW World.empty witness).served = [⟨[117], 1, true, .pfControl, 0, [], false, none⟩] := by
  decide
example : admits (1000 * ns) [108, 115] false witnessGrant = true := by decide
example : admits (1000 * ns - 1) [108, 115] false witnessGrant = false := by decide
example : admits (2000 * ns) [108, 115] false witnessGrant = false := by decide

/-! ### constants (G-tie) -/
example : Generated.authgrants_Shell = gShell := by decide
example : Generated.authgrants_Command = gCommand := by decide
example : Generated.authgrants_LocalPF = gLocalPF := by decide
example : Generated.authgrants_RemotePF = gRemotePF := by decide
example : Generated.authgrants_Acme = gAcme := by decide
example : Generated.common_ExecTube = tExec := by decide
example : Generated.common_AuthGrantTube = tAuthGrant := by decide
example : Generated.common_PrincipalProxyTube = tPrincipalProxy := by decide
example : Generated.common_UserAuthTube = tUserAuth := by decide
example : Generated.common_PFControlTube = tPFControl := by decide
example : Generated.common_PFTube = tPF := by decide
example : Generated.common_WinSizeTube = tWinSize := by decide


/-! ### the tie behind "calls are serialised": the grant map's operations are single critical sections

The models treat `AddAuthGrant` and `RemoveAuthgrants` (look-up *and* removal) as atomic steps.
That is a fact about authgrants/authgrants.go which the translator regenerates on every run as
statement shapes; the race suite `C05race` observes the same thing on the running code. -/
example : Shape.oneCriticalSection "m.agLock" Generated.shape_authgrants_AuthgrantMapSync_RemoveAuthgrants = true := by decide
example : Shape.oneCriticalSection "m.agLock" Generated.shape_authgrants_AuthgrantMapSync_AddAuthGrant = true := by decide
/-- the look-up and the removal are both inside it -/
example : (Generated.shape_authgrants_AuthgrantMapSync_RemoveAuthgrants.filter
    (fun it => it.text == "val, ok := ags[key]" || it.text == "delete(ags, key)")).length = 2 := by decide

end Grants
