import HopModel.Model.Wire
namespace Wire
end Wire
