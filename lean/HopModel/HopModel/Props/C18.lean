/-
C18 — Wire encodings round-trip, and re-encoding preserves what was parsed.

For every codec `X` of `Model/Wire.lean` (writer `encX`, reader `decX = rdX.dec`):

  `C18_X_roundtrip`  a representable value is written, and reading what was written — followed by
                     any further bytes `rest` — yields the value and leaves exactly `rest`
  `C18_X_reject`     a value that does not fit its length fields (or whose grant / network type
                     has no wire form) is refused by the writer (only for writers that have an
                     error path: `frame.toBytes`, `initiateFrame.toBytes`, `execInitMsg.ToBytes`
                     have none)
  `C18_X_stable`     whatever byte string the reader accepts, the value it returns is written
                     again to bytes that read back as the same value (what a principal shows and
                     approves is what the target receives)

"Value" means the value fields of the Go types: `Certificate.Fingerprint`, `.raw`, `.privateKey`
and `frame.queued` are derived / bookkeeping fields and are not part of the encodings; the inactive
arm of a union (an `Intent`'s `Cmd` when the grant type is not Command, an `AgMessage`'s `Intent` or
`Denial` when the message type carries none) is not written and must be empty to be representable.
Times are Unix seconds.  A time before 1970 is written by the Go code as a two's-complement
`uint64` and refused by every reader: `C18_time_pre1970`; it is outside `TimeOK`.

The `C18_dec_…` theorems are the decoder half of C11 (restated as `C11_dec_…` in
`Props/C11Decoders.lean`).
-/
import HopModel.Proofs.WireAlloc
import HopModel.Proofs.TargetInfo
import HopModel.Generated.Consts
namespace Wire
open Bytes

/-- the three statements for one codec, derived from the reader/writer lemmas of `Proofs/Wire` -/
private theorem stable_of {α : Type} {enc : α → Except Err Bytes} {m : R α} {OK : α → Prop} {bytesOf : α → Bytes}
    (hpost : Post m OK) (henc : ∀ v, OK v → enc v = .ok (bytesOf v)) (hreads : ∀ v, OK v → Reads m (bytesOf v) v)
    {b r : Bytes} {v : α} (h : m.dec b = .ok (v, r)) :
    ∃ b', enc v = .ok b' ∧ ∀ r', m.dec (b' ++ r') = .ok (v, r') :=
  have hv := hpost b v r h
  ⟨bytesOf v, henc v hv, hreads v hv⟩

/-! ## strings with a one-byte length (`common.WriteString` / `ReadString`): commands, user names,
denial reasons, target URLs -/

theorem C18_str_roundtrip (s rest : Bytes) (h : s.length ≤ 255) :
    ∃ b, encStr s = .ok b ∧ decStr (b ++ rest) = .ok (s, rest) :=
  ⟨_, encStr_ok h, reads_str h rest⟩

theorem C18_str_reject (s : Bytes) (h : ¬ s.length ≤ 255) : encStr s = .error .tooLong := encStr_err h

theorem C18_str_stable (b r s : Bytes) (h : decStr b = .ok (s, r)) :
    ∃ b', encStr s = .ok b' ∧ ∀ r', decStr (b' ++ r') = .ok (s, r') :=
  stable_of post_str (fun _ => encStr_ok) (fun _ => reads_str) h

/-! ## id blocks (`certs.Name`) -/

theorem C18_name_roundtrip (n : Name) (rest : Bytes) (h : n.label.length ≤ 252) :
    ∃ b, encName n = .ok b ∧ decName (b ++ rest) = .ok (n, rest) :=
  ⟨_, encName_ok h, reads_name h rest⟩

theorem C18_name_reject (n : Name) (h : ¬ n.label.length ≤ 252) : encName n = .error .tooLong := encName_err h

theorem C18_name_stable (b r : Bytes) (n : Name) (h : decName b = .ok (n, r)) :
    ∃ b', encName n = .ok b' ∧ ∀ r', decName (b' ++ r') = .ok (n, r') :=
  stable_of post_name (fun _ => encName_ok) (fun _ => reads_name) h

/-! ## id chunks (`certs.IDChunk`): every label ≤ 252 bytes and 2 + Σ(label+3) ≤ 512 -/

theorem C18_chunk_roundtrip (ns : List Name) (rest : Bytes) (h : ChunkOK ns) :
    ∃ b, encChunk ns = .ok b ∧ decChunk (b ++ rest) = .ok (ns, rest) :=
  ⟨_, encChunk_ok h, reads_chunk h rest⟩

theorem C18_chunk_reject (ns : List Name) (h : ¬ ChunkOK ns) : ∃ e, encChunk ns = .error e := encChunk_err h

theorem C18_chunk_stable (b r : Bytes) (ns : List Name) (h : decChunk b = .ok (ns, r)) :
    ∃ b', encChunk ns = .ok b' ∧ ∀ r', decChunk (b' ++ r') = .ok (ns, r') :=
  stable_of post_chunk (fun _ => encChunk_ok) (fun _ => reads_chunk) h

/-! ## certificates (value fields; `CertTyped` = the fixed array sizes of the Go struct) -/

theorem C18_cert_roundtrip (c : Cert) (rest : Bytes) (h : CertOK c) :
    ∃ b, encCert c = .ok b ∧ decCert (b ++ rest) = .ok (c, rest) :=
  ⟨_, encCert_ok h.2.1, reads_cert h rest⟩

theorem C18_cert_reject (c : Cert) (h : ¬ ChunkOK c.chunk) : ∃ e, encCert c = .error e := encCert_err h

theorem C18_cert_stable (b r : Bytes) (c : Cert) (h : decCert b = .ok (c, r)) :
    ∃ b', encCert c = .ok b' ∧ ∀ r', decCert (b' ++ r') = .ok (c, r') :=
  stable_of post_cert (fun _ hc => encCert_ok hc.2.1) (fun _ => reads_cert) h

/-- certificates and intents with a time before 1970 are written but not read back -/
theorem C18_time_pre1970 (t : Int) (h0 : -(2 ^ 63) ≤ t) (h1 : t < 0) (rest : Bytes) :
    rdTime.dec (encTime t ++ rest) = .error .invalid := time_negative_not_read h0 h1 rest

/-! ## intents and grant messages -/

theorem C18_intent_roundtrip (i : Intent) (rest : Bytes) (h : IntentOK i) :
    ∃ b, encIntent i = .ok b ∧ decIntent (b ++ rest) = .ok (i, rest) :=
  ⟨_, encIntent_ok h.1, reads_intent h rest⟩

/-- over-long target name, user name, command or delegate id chunk, and the grant types without
a wire format (LocalPF, RemotePF), are refused — no panic, no truncation -/
theorem C18_intent_reject (i : Intent) (h : ¬ IntentFits i) : ∃ e, encIntent i = .error e := encIntent_err h

theorem C18_intent_stable (b r : Bytes) (i : Intent) (h : decIntent b = .ok (i, r)) :
    ∃ b', encIntent i = .ok b' ∧ ∀ r', decIntent (b' ++ r') = .ok (i, r') :=
  stable_of post_intent (fun _ hi => encIntent_ok hi.1) (fun _ => reads_intent) h

theorem C18_ag_roundtrip (m : AgMsg) (rest : Bytes) (h : AgOK m) :
    ∃ b, encAg m = .ok b ∧ decAg (b ++ rest) = .ok (m, rest) := by
  refine ⟨_, encAg_ok ?_, reads_ag h rest⟩
  cases m <;> first | exact h.1 | exact h | trivial

theorem C18_ag_reject (m : AgMsg) (h : ¬ AgFits m) : ∃ e, encAg m = .error e := encAg_err h

theorem C18_ag_stable (b r : Bytes) (m : AgMsg) (h : decAg b = .ok (m, r)) :
    ∃ b', encAg m = .ok b' ∧ ∀ r', decAg (b' ++ r') = .ok (m, r') := by
  refine stable_of post_ag (fun m hm => encAg_ok ?_) (fun _ => reads_ag) h
  cases m <;> first | exact hm.1 | exact hm | trivial

/-! ## tube frames (writers without an error path) -/

theorem C18_frame_roundtrip (f : Frame) (rest : Bytes) (h : FrameOK f) :
    decFrame (encFrame f ++ rest) = .ok (f, rest) := reads_frame h rest

theorem C18_frame_stable (b r : Bytes) (f : Frame) (h : decFrame b = .ok (f, r)) :
    ∀ r', decFrame (encFrame f ++ r') = .ok (f, r') :=
  reads_frame (post_frame b f r h).1

/-- `toBytes` writes the `dataLength` field as it is: a frame whose field disagrees with its data
does not read back as itself (there is no error path; the callers set the field from the data) -/
theorem C18_frame_length_field (f : Frame) (rest : Bytes) (h : f.dataLength ≠ f.data.length) :
    decFrame (encFrame f ++ rest) ≠ .ok (f, rest) := fun hd =>
  h (post_frame _ f rest hd).1.1

theorem C18_initFrame_roundtrip (f : InitFrame) (rest : Bytes) (h : InitFrameOK f) :
    decInitFrame (encInitFrame f ++ rest) = .ok (f, rest) := reads_initFrame h rest

theorem C18_initFrame_stable (b r : Bytes) (f : InitFrame) (h : decInitFrame b = .ok (f, r)) :
    ∀ r', decInitFrame (encInitFrame f ++ r') = .ok (f, r') :=
  reads_initFrame (post_initFrame b f r h).1

/-! ## exec requests (`execInitMsg.ToBytes` has no error path; its length fields are 32 bits wide) -/

theorem C18_exec_roundtrip (m : ExecInit) (rest : Bytes) (h : ExecOK m) :
    decExec (encExec m ++ rest) = .ok (m, rest) := reads_exec h rest

theorem C18_exec_stable (b r : Bytes) (m : ExecInit) (h : decExec b = .ok (m, r)) :
    ∀ r', decExec (encExec m ++ r') = .ok (m, r') :=
  reads_exec (post_exec b m r h)

/-! ## user-auth requests: the writer appends two zero bytes that `GetInitMsg` leaves unread -/

theorem C18_ua_roundtrip (u rest : Bytes) (h : u.length ≤ 65535) :
    ∃ b, encUA u = .ok b ∧ decUA (b ++ rest) = .ok (u, [0, 0] ++ rest) := by
  refine ⟨toBE 2 u.length ++ (u ++ [0, 0]), by simp [encUA, h], ?_⟩
  have := reads_ua h ([0, 0] ++ rest)
  simpa [decUA, List.append_assoc] using this

theorem C18_ua_reject (u : Bytes) (h : ¬ u.length ≤ 65535) : encUA u = .error .tooLong := by
  simp [encUA, h]

theorem C18_ua_stable (b r u : Bytes) (h : decUA b = .ok (u, r)) :
    ∃ b', encUA u = .ok b' ∧ ∀ r', decUA (b' ++ r') = .ok (u, [0, 0] ++ r') := by
  have hu : u.length ≤ 65535 := post_ua b u r h
  refine ⟨toBE 2 u.length ++ (u ++ [0, 0]), by simp [encUA, hu], fun r' => ?_⟩
  have := reads_ua hu ([0, 0] ++ r')
  simpa [decUA, List.append_assoc] using this

/-! ## port-forward requests -/

theorem C18_pf_roundtrip (p : PF) (rest : Bytes) (h : PFOK p) :
    ∃ b, encPF p = .ok b ∧ decPF (b ++ rest) = .ok (p, rest) :=
  ⟨_, encPF_ok ⟨addrOK_netType h.2, h.1⟩, reads_pf h rest⟩

theorem C18_pf_reject (p : PF) (h : ¬ PFFits p) : ∃ e, encPF p = .error e := encPF_err h

theorem C18_pf_stable (b r : Bytes) (p : PF) (h : decPF b = .ok (p, r)) :
    ∃ b', encPF p = .ok b' ∧ ∀ r', decPF (b' ++ r') = .ok (p, r') :=
  stable_of post_pf (fun _ hp => encPF_ok ⟨addrOK_netType hp.2, hp.1⟩) (fun _ => reads_pf) h

/-! ## decoder half of C11: no panic outcome, allocation in proportion to the bytes consumed

The readers are total functions into `Except Err _ × remainder × counter`: they have no panic
outcome, so "returns a value or an error" is their type; that the Go readers behave like them —
in particular never panic — is what the correspondence suites observe (`panic` is an observable
there).  `R.alloc` is the sum of the buffer sizes the Go reader allocates *before* the bytes that
fill them have arrived; `R.consumed` is the number of bytes taken from the tube, also when the
reader fails. -/

theorem C18_dec_str_alloc (bs : Bytes) : rdStr.alloc bs ≤ rdStr.consumed bs + 255 := by
  simpa using bnd_alloc rdStr bnd_str bs
theorem C18_dec_cert_alloc (bs : Bytes) : rdCert.alloc bs ≤ rdCert.consumed bs + 287 := by
  simpa using bnd_alloc rdCert bnd_cert bs
theorem C18_dec_intent_alloc (bs : Bytes) : rdIntent.alloc bs ≤ rdIntent.consumed bs + 287 := by
  simpa using bnd_alloc rdIntent bnd_intent bs
theorem C18_dec_ag_alloc (bs : Bytes) : rdAg.alloc bs ≤ rdAg.consumed bs + 287 := by
  simpa using bnd_alloc rdAg bnd_ag bs
/-- `GetCmd` (after the repair of F17): whatever lengths the request announces -/
theorem C18_dec_exec_alloc (bs : Bytes) : rdExec.alloc bs ≤ rdExec.consumed bs + 32768 := by
  simpa using bnd_alloc rdExec bnd_exec bs
theorem C18_dec_ua_alloc (bs : Bytes) : rdUA.alloc bs ≤ rdUA.consumed bs + 65535 := by
  simpa using bnd_alloc rdUA bnd_ua bs
theorem C18_dec_pf_alloc (bs : Bytes) : rdPF.alloc bs ≤ rdPF.consumed bs + 65535 := by
  simpa using bnd_alloc rdPF bnd_pf bs

/-- `getStatus`: the length is read as 16 bits of the 4-byte field -/
theorem C18_dec_xst_alloc (bs : Bytes) : rdXst.alloc bs ≤ rdXst.consumed bs + 65535 := by
  simpa using bnd_alloc rdXst bnd_xst bs

/-- the window-size tube carries bare 8-byte records: nothing is allocated ahead of the data -/
theorem C18_dec_size_alloc (bs : Bytes) : rdSize.alloc bs ≤ rdSize.consumed bs := by
  simpa using bnd_alloc rdSize bnd_size bs

/-- what a reader consumed is what is missing from the remainder it returns -/
theorem C18_dec_consumed (m : R α) {c k e : Nat} (h : Bnd m c k e) (bs : Bytes) :
    (m bs).2.1.length + m.consumed bs = bs.length := by
  have := (h bs).1
  unfold R.consumed; omega

/-- `GetInitMsg` cannot fail at all (it has no error result): short input is zero-padded -/
theorem C18_dec_ua_total (bs : Bytes) : ∃ u r, decUA bs = .ok (u, r) := ua_total bs

/-! ## exec status: `SendSuccess` / `SendFailure` against `getStatus` -/

/-- every status whose text fits the 16-bit length comes back as it was sent, nothing left over -/
theorem C18_xst_roundtrip (s : XStatus) (rest : Bytes)
    (h : match s with | .conf => True | .fail m => m.length ≤ 65535) :
    decXst (encXst s ++ rest) = .ok (s, rest) := by
  cases s with
  | conf => exact reads_xst_conf rest
  | fail m =>
    have hm : m.length ≤ 65535 := h
    have : m.length % 65536 = m.length := Nat.mod_eq_of_lt (by omega)
    simp only [encXst, this]
    exact reads_xst_fail hm rest

/-- `SendFailure` has no error path: a text of 65536 bytes or more is sent with a wrapped length,
and the reader returns another text (the one case in which the pair does not round-trip) -/
example : decXst (encXst (.fail (List.replicate 65536 0x41))) ≠ .ok (.fail (List.replicate 65536 0x41), []) := by
  intro h
  have hp : (List.replicate 65536 (0x41 : UInt8)).length ≤ 65535 := post_xst _ _ _ h
  rw [List.length_replicate] at hp
  omega

/-- whatever `getStatus` returns is a status that `Send*` encodes to something it reads back -/
theorem C18_xst_stable (b r : Bytes) (s : XStatus) (h : decXst b = .ok (s, r)) (r' : Bytes) :
    decXst (encXst s ++ r') = .ok (s, r') :=
  C18_xst_roundtrip s r' (post_xst b s r h)

/-- `getStatus` has no error result: short input is zero-padded -/
theorem C18_dec_xst_total (bs : Bytes) : ∃ s r, decXst bs = .ok (s, r) := xst_total bs

example : decXst [1, 9] = .ok (.conf, [9]) := rfl
example : decXst [2, 0, 2, 0, 0, 0x6e, 0x6f, 7] = .ok (.fail [0x6e, 0x6f], [7]) := rfl
example : decXst [2, 0, 2] = .ok (.fail [0, 0], []) := rfl

/-! ## target info: a `core.URL` as the text `hop://<user>@<host>[:<port>]` (`net/url` escaping of the user name) -/

/-- the escaping of user names loses nothing, whatever bytes the name is made of -/
theorem C18_ti_user_escaping (u : Bytes) : unescUser (escUser u) = some u := unesc_esc u

/-- every target (any user name; host and port of the modelled form) whose text fits the one-byte
length comes back as it was sent -/
theorem C18_ti_roundtrip (t : TURL) (rest : Bytes) (h : TIFits t) (hl : (tiText t).length ≤ 255) :
    ∃ b, encTI t = .ok b ∧ decTI (b ++ rest) = .ok (t, rest) :=
  ⟨_, encStr_ok hl, reads_ti t h hl rest⟩

theorem C18_ti_reject (t : TURL) (h : ¬ (tiText t).length ≤ 255) : encTI t = .error .tooLong := encStr_err h

/-- what the reader accepts is a target of the modelled form, and if its text can be written at all
(re-escaping may lengthen it) it reads back as the same target -/
theorem C18_ti_stable (b r : Bytes) (t : TURL) (h : decTI b = .ok (t, r)) :
    TIFits t ∧ ∀ b', encTI t = .ok b' → ∀ r', decTI (b' ++ r') = .ok (t, r') := by
  have hf : TIFits t := post_ti b t r h
  refine ⟨hf, fun b' hb' r' => ?_⟩
  by_cases hl : (tiText t).length ≤ 255
  · have e := encStr_ok hl
    unfold encTI at hb'
    rw [e] at hb'
    cases hb'
    exact reads_ti t hf hl r'
  · unfold encTI at hb'
    rw [encStr_err hl] at hb'
    cases hb'

/-- `a@b` as a user name (the seeded change C18-r4-1 escaped such a name twice): the text is
`hop://a%40b@h:22` and it parses back to the same target -/
def tiWitness : TURL := ⟨[97, 64, 98], [104], [50, 50]⟩
example : tiText tiWitness = [104, 111, 112, 58, 47, 47, 97, 37, 52, 48, 98, 64, 104, 58, 50, 50] := by decide
example : TIFits tiWitness := by refine ⟨by decide, by decide, by decide, by decide⟩
example : parseTI (tiText tiWitness) = some tiWitness :=
  parse_text _ (by refine ⟨by decide, by decide, by decide, by decide⟩)
example : escUser [97, 64, 98, 32, 0xc3] = [97, 37, 52, 48, 98, 37, 50, 48, 37, 67, 51] := by decide

/-! ## constants of the Go source the models rely on (regenerated on every run) -/

example : Generated.authgrants_IntentRequest = 1 ∧ Generated.authgrants_IntentCommunication = 2 ∧
    Generated.authgrants_IntentConfirmation = 3 ∧ Generated.authgrants_IntentDenied = 4 := by decide
example : Generated.authgrants_Command = 2 ∧ Generated.authgrants_LocalPF = 3 ∧ Generated.authgrants_RemotePF = 4 := by decide
example : Generated.certs_KeyLen = 32 ∧ Generated.certs_SHA3Len = 32 ∧ Generated.certs_SignatureLen = 64 := by decide
example : [Generated.tubes_REQIdx, Generated.tubes_RESPIdx, Generated.tubes_RELIdx, Generated.tubes_ACKIdx,
    Generated.tubes_FINIdx, Generated.tubes_RTRIdx] = [0, 1, 2, 3, 4, 5] := by decide
example : Generated.codex_usePtyFlag = 1 ∧ Generated.codex_hasSizeFlag = 2 := by decide
example : Generated.userauth_headerLen = 4 ∧ Generated.userauth_usernameOffset = 2 := by decide
example : Generated.portforwarding_PfTCP = 1 ∧ Generated.portforwarding_PfUDP = 2 ∧ Generated.portforwarding_PfUNIX = 3 := by decide

/-! ## non-vacuity: concrete values meeting the hypotheses, and the boundary cases -/

def exName : Name := ⟨[104, 111, 112], 1⟩                     -- DNS name "hop"
def exCert : Cert := ⟨1, 1, 1700000000, 1800000000, List.replicate 32 7, List.replicate 32 0, [exName], List.replicate 64 9⟩
def exIntent : Intent := ⟨2, 0, 77, 1700000000, 1700003600, exName, [117], exCert, [108, 115]⟩   -- Command "ls" as "u"

example : ChunkOK [exName] := ⟨fun n hn => by simp [exName] at hn; subst hn; decide, by decide⟩
example : CertOK exCert :=
  ⟨⟨by decide, by decide, by decide⟩, ⟨fun n hn => by simp [exCert, exName] at hn; subst hn; decide, by decide⟩,
    ⟨by decide, by decide⟩, ⟨by decide, by decide⟩⟩
example : IntentOK exIntent := by
  refine ⟨⟨by decide, by decide, ⟨fun n hn => by simp [exIntent, exCert, exName] at hn; subst hn; decide, by decide⟩,
    fun _ => by decide, by decide, by decide⟩, by decide, ⟨by decide, by decide⟩, ⟨by decide, by decide⟩, ?_, fun h => absurd rfl h⟩
  exact ⟨⟨by decide, by decide, by decide⟩, ⟨fun n hn => by simp [exIntent, exCert, exName] at hn; subst hn; decide, by decide⟩,
    ⟨by decide, by decide⟩, ⟨by decide, by decide⟩⟩
example : AgOK (.denied [110, 111]) := by show ([110, 111] : Bytes).length ≤ 255; decide
example : AgOK (.unknown 9) := by show (9 : UInt8) ≠ 1 ∧ (9 : UInt8) ≠ 2 ∧ (9 : UInt8) ≠ 3 ∧ (9 : UInt8) ≠ 4; decide
/-- a 255-byte string is representable, a 256-byte one is refused (F20) -/
example : encStr (List.replicate 256 97) = .error .tooLong :=
  C18_str_reject _ (by rw [List.length_replicate]; decide)
example : (List.replicate 255 (97 : UInt8)).length ≤ 255 := by rw [List.length_replicate]; decide
/-- a 253-byte label is refused (its block size 256 does not fit a byte) -/
example : encName ⟨List.replicate 253 97, 1⟩ = .error .tooLong :=
  C18_name_reject _ (by show ¬ (List.replicate 253 (97 : UInt8)).length ≤ 252; rw [List.length_replicate]; decide)
/-- LocalPF / RemotePF intents are refused in both directions (F16) -/
example : encIntent { exIntent with grantType := 3 } = .error .unimplemented := by
  simp [encIntent, exIntent, exName, exCert, encName, encStr, encCert, encChunk, chunkLen, blockSize, encNames, bind,
    Except.bind, pure, Except.pure]
example : decStr [2, 97, 98, 99] = .ok ([97, 98], [99]) := rfl
example : decStr [3, 97, 98] = .error .short := rfl
example : decName [5, 1, 2, 97, 98, 255] = .ok (⟨[97, 98], 1⟩, [255]) := rfl
/-- a block that runs past the announced chunk length is refused -/
example : decChunk [0, 5, 4, 1, 1, 97] = .error .invalid := by
  unfold decChunk rdChunk
  rw [dec_bind_of_ok (show (uBE 2).dec [0, 5, 4, 1, 1, 97] = .ok (5, [4, 1, 1, 97]) from rfl), if_neg (by decide),
    rdNames, dif_neg (by decide), dec_bind_of_ok (show rdName.dec [4, 1, 1, 97] = .ok (⟨[97], 1⟩, []) from rfl)]
  rfl
example : FrameOK ⟨3, ⟨true, false, true, false, false, false⟩, 2, 7, 9, [170, 187]⟩ := by unfold FrameOK; decide
example : ExecOK ⟨true, [108, 115], [], some ⟨24, 80, 0, 0⟩⟩ :=
  ⟨by decide, by decide, fun s h => by cases h; unfold SizeOK; decide⟩
/-- an exec request announcing 4 GiB with nothing behind it: error, 32 KiB counted (F17) -/
example : rdExec.dec [0, 255, 255, 255, 255] = .error .short ∧ rdExec.alloc [0, 255, 255, 255, 255] = 32768 := by
  simp [R.dec, R.alloc, rdExec, rdLen32, uBE, readN, u8, bind_apply, pure_apply, allocate, fromBE]
example : PFOK ⟨1, 4, [49, 46, 50, 46, 51, 46, 52, 58, 56, 48]⟩ := by unfold PFOK; decide    -- TCP "1.2.3.4:80"
example : PFOK ⟨3, 5, [47, 116, 109, 112, 47, 115]⟩ := by unfold PFOK; decide                  -- Unix "/tmp/s"
example : ¬ PFOK ⟨1, 4, [49, 46, 50, 46, 51, 46, 52]⟩ := by unfold PFOK; decide                -- TCP without a port
example : decUA [0, 3, 97] = .ok ([97, 0, 0], []) := rfl

end Wire
