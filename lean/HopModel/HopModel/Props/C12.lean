/-
C12 — Kravatte-SANSE AEAD is correct, tamper-evident and sensitive to the whole key.

The theorems are about the SANSE *mode* (`Model/Sanse.lean`, the transcription of
`kravatte/sanse.go`) over an **arbitrary deck function** `dk` — nothing about Kravatte or Keccak is
used except that a squeeze of `n` bytes returns `n` bytes (`SqueezeLen`, proved for the Kravatte
model in `C12_kravatte_squeeze_len`).  They hold for every key state, history, associated data,
plaintext and session length.  That the Go code computes the bytes of this model instantiated with
Kravatte over Keccak-p[1600,6] and the key block `k ‖ 1 ‖ 0*` is the correspondence run
(validation, anchored to the XKCP vector files), not a theorem.  Unforgeability is not claimed:
`C12_open_iff_seal` is the structural half of it.
-/
import HopModel.Proofs.Sanse
import HopModel.Proofs.Kravatte
import HopModel.Proofs.Keccak
import HopModel.Generated.Consts
namespace Sanse

/-! ### obligations on the constants extracted from the source -/
example : Generated.kravatte_TagSize = tagSize := rfl
example : Generated.kravatte_widthBytes = Kravatte.widthBytes := rfl
example : Generated.kravatte_widthBits = Kravatte.widthBits := rfl
example : Generated.kravatte_FlagInit = Kravatte.flagInit := rfl
example : Generated.kravatte_FlagLastPart = Kravatte.flagLastPart := rfl
example : Generated.kravatte_FlagShort = Kravatte.flagShort := rfl
example : Generated.transport_TagLen = tagSize := rfl

variable {D : Type} (dk : Deck D)

/-! ### round trip -/

/-- **C12.** Opening what `Seal` produced, from the same state (same key, same history, same
parity) and with the same associated data, returns the plaintext and leaves the opener in exactly
the sealer's new state. -/
theorem C12_open_seal (h : SqueezeLen dk) (s : St D) (ad p : List UInt8) :
    openMsg dk s ad (sealMsg dk s ad p).2 = ((sealMsg dk s ad p).1, some p) := by
  have hc := wrap_ct_length dk h s ad p
  have ht := wrap_tag_length dk h s ad p
  unfold openMsg sealMsg
  simp only [List.length_append, ht]
  rw [if_neg (by omega)]
  have hn : (wrap dk s ad p).2.1.length + tagSize - tagSize = (wrap dk s ad p).2.1.length := by omega
  simp only [hn, List.take_left', List.drop_left']
  exact unwrap_wrap dk h s ad p

/-- the sealed message is the ciphertext (as long as the plaintext) followed by a 32-byte tag -/
theorem C12_seal_length (h : SqueezeLen dk) (s : St D) (ad p : List UInt8) :
    (sealMsg dk s ad p).2.length = p.length + 32 := by
  simp [sealMsg, wrap_ct_length dk h, wrap_tag_length dk h, tagSize]

/-! ### acceptance is exact -/

/-- **C12 (tamper evidence, logical form).** `Open` accepts `ct` and returns `p` **iff** `ct` is
exactly the sealing of `p` under the same key state, associated data and history.  Any other byte
string — one bit of ciphertext, tag or (through the history) associated data changed — is accepted
only if it happens to be the sealing of some other plaintext, which is the unforgeability
assumption on the deck function and not claimed here. -/
theorem C12_open_iff_seal (h : SqueezeLen dk) (s : St D) (ad ct p : List UInt8) :
    (openMsg dk s ad ct).2 = some p ↔ ct = (sealMsg dk s ad p).2 := by
  constructor
  · intro ho
    unfold openMsg at ho
    by_cases hl : ct.length < tagSize
    · simp [hl] at ho
    · simp only [hl, if_false] at ho
      obtain ⟨h1, h2⟩ := wrap_of_unwrap dk h s ad _ _ p ho
      unfold sealMsg
      simp only [h1, h2, List.take_append_drop]
  · intro hc
    rw [hc, C12_open_seal dk h]

/-- the whole 32-byte tag is compared: an accepted message ends with the full tag that sealing
the returned plaintext produces -/
theorem C12_tag_full_width (h : SqueezeLen dk) (s : St D) (ad ct p : List UInt8)
    (ho : (openMsg dk s ad ct).2 = some p) :
    ct.drop (ct.length - 32) = (wrap dk s ad p).2.2 ∧ (wrap dk s ad p).2.2.length = 32 := by
  have hc := (C12_open_iff_seal dk h s ad ct p).mp ho
  have hcl := wrap_ct_length dk h s ad p
  have htl := wrap_tag_length dk h s ad p
  refine ⟨?_, htl⟩
  rw [hc]
  unfold sealMsg
  simp only [List.length_append, htl, tagSize]
  rw [List.drop_left' (by omega)]

/-- anything that is not a sealing under this state and associated data is rejected -/
theorem C12_tamper_rejected (h : SqueezeLen dk) (s : St D) (ad ct : List UInt8)
    (hne : ∀ p, ct ≠ (sealMsg dk s ad p).2) : (openMsg dk s ad ct).2 = none := by
  cases ho : (openMsg dk s ad ct).2 with
  | none => rfl
  | some p => exact absurd ((C12_open_iff_seal dk h s ad ct p).mp ho) (hne p)

/-- with the assumption spelled out (`Unforgeable`: for this state and associated data, a byte
string differing from the sealed message is not a sealing of anything — what an adversary without
the key cannot achieve), every modification of the sealed message is rejected -/
def Unforgeable (s : St D) (ad c : List UInt8) : Prop :=
  ∀ c' p', c' ≠ c → c' ≠ (sealMsg dk s ad p').2

theorem C12_tamper (h : SqueezeLen dk) (s : St D) (ad p c' : List UInt8)
    (hid : Unforgeable dk s ad (sealMsg dk s ad p).2) (hne : c' ≠ (sealMsg dk s ad p).2) :
    (openMsg dk s ad c').2 = none :=
  C12_tamper_rejected dk h s ad c' (fun p' => hid c' p' hne)

/-- too short to hold a tag: refused, state untouched -/
theorem C12_open_short (s : St D) (ad ct : List UInt8) (hl : ct.length < 32) :
    openMsg dk s ad ct = (s, none) := by
  simp [openMsg, tagSize, hl]

/-! ### sessions -/

/-- a two-way session: both ends start in `sa`, `sb`; every message `(dir, ad, p)` is sealed by
one end (`dir = true`: the first) and opened by the other -/
def exchange (sa sb : St D) : List (Bool × List UInt8 × List UInt8) → St D × St D × List (Option (List UInt8))
  | [] => (sa, sb, [])
  | (dir, ad, p) :: rest =>
    if dir then
      let r := sealMsg dk sa ad p
      let o := openMsg dk sb ad r.2
      let t := exchange r.1 o.1 rest
      (t.1, t.2.1, o.2 :: t.2.2)
    else
      let r := sealMsg dk sb ad p
      let o := openMsg dk sa ad r.2
      let t := exchange o.1 r.1 rest
      (t.1, t.2.1, o.2 :: t.2.2)

/-- **C12.** Sessions of any length, in both directions: two objects made from the same key stay
in the same state and every message is opened to its plaintext.  By induction over the message
list. -/
theorem C12_session_sync (h : SqueezeLen dk) (msgs : List (Bool × List UInt8 × List UInt8)) (s : St D) :
    (exchange dk s s msgs).1 = (exchange dk s s msgs).2.1 ∧
    (exchange dk s s msgs).2.2 = msgs.map (fun m => some m.2.2) := by
  induction msgs generalizing s with
  | nil => simp [exchange]
  | cons m rest ih =>
    obtain ⟨dir, ad, p⟩ := m
    cases dir <;>
    · simp only [exchange, C12_open_seal dk h, List.map_cons, if_true, Bool.false_eq_true, if_false]
      exact ⟨(ih _).1, by rw [(ih _).2]⟩

/-- the parity bit alternates with every message, accepted or not -/
theorem C12_parity (s : St D) (ad x : List UInt8) :
    (sealMsg dk s ad x).1.e = !s.e ∧ (32 ≤ x.length → (openMsg dk s ad x).1.e = !s.e) := by
  constructor
  · unfold sealMsg wrap; simp only; split <;> rfl
  · intro hl
    unfold openMsg
    rw [if_neg (by simp only [tagSize]; omega)]
    unfold unwrap; simp only; split <;> rfl

/-! ### the specification's view of the history -/

/-- one absorbed string: whole bytes, then the low `n` bits of a last byte -/
abbrev HString := List UInt8 × UInt8 × Nat

/-- SANSE as in the Farfalle paper: the state is the *history*, a list of strings (newest first),
and the deck function is any function `F` of the history -/
def historyDeck (F : List HString → Nat → List UInt8) : Deck (List HString) where
  absorb d x l k := (x, l, k) :: d
  squeeze d n _ := F d n

/-- for every deck function that returns as many bytes as asked for, in the paper's formulation:
`open` returns `p` iff the input is `C ‖ T` with `T = F(P‖01‖e ∘ A‖0‖e ∘ history)` and
`C = P + F(T‖11‖e ∘ A‖0‖e ∘ history)` -/
theorem C12_spec_open_iff_seal (F : List HString → Nat → List UInt8) (hF : ∀ h n, (F h n).length = n)
    (s : St (List HString)) (ad ct p : List UInt8) :
    (openMsg (historyDeck F) s ad ct).2 = some p ↔ ct = (sealMsg (historyDeck F) s ad p).2 :=
  C12_open_iff_seal _ (fun _ _ _ _ _ _ => hF _ _) s ad ct p

/-- what sealing a non-empty plaintext with non-empty associated data is, spelled out over the
history (the framing bytes: `0‖e` = `e<<1`, `01‖e` = `2|e<<2`, `11‖e` = `3|e<<2`) -/
theorem C12_spec_seal_shape (F : List HString → Nat → List UInt8) (s : St (List HString))
    (ad p : List UInt8) (had : ad ≠ []) (hp : p ≠ []) :
    let e : UInt8 := eBit s.e
    let h1 : List HString := (ad, (0 : UInt8) ||| (e <<< 1), 2) :: s.d
    let t := F ((p, (2 : UInt8) ||| (e <<< 2), 3) :: h1) 32
    sealMsg (historyDeck F) s ad p =
      ({ d := (p, (2 : UInt8) ||| (e <<< 2), 3) :: h1, e := !s.e },
       xorBytes (F ((t, (3 : UInt8) ||| (e <<< 2), 3) :: h1) p.length) p ++ t) := by
  simp [sealMsg, wrap, adStep, addToHistory, historyDeck, had, hp, tagSize]

/-! ### the key block -/

open Kravatte in
/-- **C12 (every key byte reaches the mask).** The key block `k ‖ 1 ‖ 0*` of the mask derivation
determines the key: two different keys shorter than 200 bytes — also keys that differ only in
length, or only in their last `len mod 8` bytes — give different blocks. -/
theorem C12_key_pad_injective (k₁ k₂ : List UInt8) (h₁ : k₁.length < 200) (h₂ : k₂.length < 200)
    (h : pad k₁ = pad k₂) : k₁ = k₂ := pad_injective k₁ k₂ h₁ h₂ h

open Kravatte in
theorem C12_key_pad_length (k : List UInt8) (h : k.length < 200) : (pad k).length = 200 :=
  pad_length k h

open Kravatte in
/-- hence, for an injective permutation `f` (hypothesis, visible; Keccak-p is a bijection, which is
not proved here), different keys have different masks `f (lanes (k ‖ 1 ‖ 0*))` — the lane packing
is proved injective (`Keccak.ofBytes_injective`).  This is what failed in the Go code before the
repair of `snp.StateSetByte` (F19): there the block was not `k ‖ 1 ‖ 0*`. -/
theorem C12_key_sensitivity (f : Keccak.State → Keccak.State) (hf : ∀ s t, f s = f t → s = t)
    (k₁ k₂ : List UInt8) (h₁ : k₁.length < 200) (h₂ : k₂.length < 200)
    (h : maskOf f k₁ = maskOf f k₂) : k₁ = k₂ := by
  have hp := hf _ _ h
  have hl₁ := pad_length k₁ h₁
  have hl₂ := pad_length k₂ h₂
  exact pad_injective k₁ k₂ h₁ h₂ (Keccak.ofBytes_injective _ _ (by rw [hl₁, hl₂]) (by omega) hp)

/-! ### the Kravatte instance meets the hypothesis -/

/-- for every permutation `f`, the Kravatte model satisfies `SqueezeLen`: after absorbing a string
(the last `Kra` has `FlagLastPart`) `Vatte` succeeds and writes exactly the requested bytes -/
theorem C12_kravatte_squeeze_len (f : Keccak.State → Keccak.State) : SqueezeLen (kravatteDeck f) :=
  Kravatte.kravatteDeck_squeezeLen f

/-- so the round trip and the exact-acceptance theorem hold unconditionally for the deck function
the driver runs (the model of `kravatte.go`), whatever the permutation and from every object state -/
theorem C12_kravatte_open_seal (f : Keccak.State → Keccak.State) (s : St Kravatte.Kv) (ad p : List UInt8) :
    openMsg (kravatteDeck f) s ad (sealMsg (kravatteDeck f) s ad p).2 =
      ((sealMsg (kravatteDeck f) s ad p).1, some p) :=
  C12_open_seal _ (C12_kravatte_squeeze_len f) s ad p

theorem C12_kravatte_open_iff_seal (f : Keccak.State → Keccak.State) (s : St Kravatte.Kv)
    (ad ct p : List UInt8) :
    (openMsg (kravatteDeck f) s ad ct).2 = some p ↔ ct = (sealMsg (kravatteDeck f) s ad p).2 :=
  C12_open_iff_seal _ (C12_kravatte_squeeze_len f) s ad ct p

/-- `NewSANSE` accepts exactly the keys shorter than 200 bytes -/
theorem C12_new_sanse (f : Keccak.State → Keccak.State) (key : List UInt8) :
    (newSanse f key).isSome = decide (key.length < 200) := by
  unfold newSanse Kravatte.refMaskInit
  by_cases h : key.length ≥ Kravatte.widthBytes
  · have : ¬ key.length < 200 := by simp only [Kravatte.widthBytes] at h; omega
    simp [h, this]
  · have : key.length < 200 := by simp only [Kravatte.widthBytes] at h; omega
    simp [h, this]

/-! ### non-vacuity -/

/-- a toy deck function: the state is the list of absorbed bytes, squeezing repeats a digest -/
private def toy : Deck (List UInt8) where
  absorb d x l k := UInt8.ofNat k :: l :: x ++ d
  squeeze d n _ := List.replicate n (d.foldl (· + ·) 7)

private theorem toy_len : SqueezeLen toy := by
  intro d x l k n lp; simp [toy]

private def s0 : St (List UInt8) := { d := [], e := false }

example : (sealMsg toy s0 [9] [1, 2, 3]).2.length = 35 := C12_seal_length toy toy_len ..
example : (openMsg toy s0 [9] (sealMsg toy s0 [9] [1, 2, 3]).2).2 = some [1, 2, 3] := by
  rw [C12_open_seal toy toy_len]
/-- a flipped ciphertext bit is really rejected by the toy instance (the `none` branch is inhabited) -/
example : (openMsg toy s0 [9] ((sealMsg toy s0 [9] [1, 2, 3]).2.set 0 0xff)).2 = none := by decide
example : (openMsg toy s0 [8] (sealMsg toy s0 [9] [1, 2, 3]).2).2 = none := by decide
example : (exchange toy s0 s0 [(true, [1], [2, 3]), (false, [], [4]), (true, [5], [])]).2.2 =
    [some [2, 3], some [4], some []] := (C12_session_sync toy toy_len _ s0).2
example : Kravatte.pad [1, 2, 3] ≠ Kravatte.pad [1, 2, 3, 0] := by decide

end Sanse
