import HopModel.Model.Sanse
import HopModel.Generated.Consts
namespace Sanse

example : Generated.kravatte_TagSize = tagSize := rfl

end Sanse
