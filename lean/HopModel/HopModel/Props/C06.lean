/-
C06 — Nothing is delegated without the principal approving that exact intent.

The theorems range over **every** list of requests on one delegate connection, each request
carrying its own oracle answers (approval decision, set-up behaviour, target behaviour) — i.e.
over all request sequences × all (stateful) callbacks, set-up functions and targets — and over
every starting state of the instance.  `run s rs` yields one trace segment per request.

The only hypothesis, `Verifying`, is the contract of the set-up function that
`hopclient.setupTargetClient` fulfils (the approval callback is the transport handshake's
`AddVerifyCallback`): it never returns a connection without having invoked the callback.  A
set-up function that skips it (the package's unit tests use one) makes the *first* request of a
connection unverifiable by construction; `C06_skipping_setup_forwards_unapproved` shows that the
hypothesis is needed, and the correspondence run exercises that case too.
-/
import HopModel.Proofs.Principal
import HopModel.Generated.Consts
namespace Principal

def Verifying (rs : List Req) : Prop := ∀ r ∈ rs, r.setup ≠ .skipVerify

def Ev.isAnswer : Ev → Bool
  | .toDelegate _ => true
  | _ => false

@[simp] theorem Ev.isAnswer_toDelegate (b : Bool) : Ev.isAnswer (.toDelegate b) = true := rfl
@[simp] theorem Ev.isAnswer_toTarget (i : Intent) : Ev.isAnswer (.toTarget i) = false := rfl
@[simp] theorem Ev.isAnswer_callback (i : Intent) (c : Option Cert) (d : Bool) :
    Ev.isAnswer (.callback i c d) = false := rfl

/-- **C06 (a).** Whenever an intent is written on the target connection, it is the intent of the
request being served, the approval callback was invoked *on that same intent* earlier in the same
request's segment and accepted it, and no refusal occurs anywhere in that segment.  For every
request of the connection, from every state. -/
theorem C06_forward_only_approved (s : St) (rs : List Req) (hv : Verifying rs)
    (r : Req) (seg : List Ev) (hseg : (r, seg) ∈ run s rs)
    (pre post : List Ev) (i : Intent) (h : seg = pre ++ .toTarget i :: post) :
    i = r.intent ∧ (∃ c, .callback i c true ∈ pre) ∧ (∀ j c, .callback j c false ∉ seg) := by
  obtain ⟨hr, s', rfl⟩ := mem_run hseg
  have hsh := handle_shape s' r
  generalize (handle s' r).2 = seg at h hsh
  cases hsh with
  | refused =>
    have := congrArg (fun l => decide (Ev.toTarget i ∈ l)) h
    simp at this
  | denied c =>
    have := congrArg (fun l => decide (Ev.toTarget i ∈ l)) h
    simp at this
  | approvedNotSent c =>
    have := congrArg (fun l => decide (Ev.toTarget i ∈ l)) h
    simp at this
  | forwarded c =>
    match pre, h with
    | [], h => simp at h
    | [a], h =>
      simp only [List.cons_append, List.nil_append, List.cons.injEq, Ev.toTarget.injEq] at h
      obtain ⟨rfl, rfl, _⟩ := h
      exact ⟨rfl, ⟨c, by simp⟩, by simp⟩
    | a :: b :: [], h => simp at h
    | a :: b :: c' :: t, h => simp at h
  | unverified hs => exact absurd hs (hv r hr)

/-- every invocation of the callback in a request's segment is on that request's intent -/
theorem C06_callback_on_request_intent (s : St) (rs : List Req) (r : Req) (seg : List Ev)
    (hseg : (r, seg) ∈ run s rs) (j : Intent) (c : Option Cert) (d : Bool)
    (h : .callback j c d ∈ seg) : j = r.intent ∧ d = r.approve := by
  obtain ⟨_, s', rfl⟩ := mem_run hseg
  revert h
  rcases s' with ⟨conn, cert⟩
  cases conn with
  | some t =>
    by_cases ht : t = r.intent.target <;> cases ha : r.approve <;> cases hans : r.answer <;>
      simp [handle, ht, ha, hans, forward] <;> (intro h; simp [h])
  | none =>
    cases hs : r.setup with
    | failEarly => simp [handle, hs]
    | verify c' thenOk =>
      cases ha : r.approve <;> cases thenOk <;> cases hans : r.answer <;>
        simp [handle, hs, ha, hans, forward] <;> (intro h; simp [h])
    | skipVerify => cases hans : r.answer <;> simp [handle, hs, hans, forward]

/-- **C06 (b).** The delegate receives exactly one answer per request served, and it is the last
event of the request's segment. -/
theorem C06_one_answer (s : St) (rs : List Req) (r : Req) (seg : List Ev)
    (hseg : (r, seg) ∈ run s rs) :
    (seg.filter Ev.isAnswer).length = 1 ∧ ∃ b, seg.getLast? = some (.toDelegate b) := by
  obtain ⟨_, s', rfl⟩ := mem_run hseg
  have hsh := handle_shape s' r
  generalize (handle s' r).2 = seg at hsh
  cases hsh with
  | refused => exact ⟨rfl, false, rfl⟩
  | denied c => exact ⟨rfl, false, rfl⟩
  | approvedNotSent c => exact ⟨rfl, false, rfl⟩
  | forwarded c => exact ⟨rfl, _, rfl⟩
  | unverified hs =>
    cases r.answer
    · exact ⟨rfl, true, rfl⟩
    · exact ⟨rfl, false, rfl⟩
    · exact ⟨rfl, false, rfl⟩
    · exact ⟨rfl, false, rfl⟩

/-- … hence as many answers in the whole trace as requests served, and one segment per request -/
theorem C06_answers_count (s : St) (rs : List Req) :
    ((trace s rs).filter Ev.isAnswer).length = rs.length ∧ (run s rs).map (·.1) = rs := by
  refine ⟨?_, run_map_fst s rs⟩
  induction rs generalizing s with
  | nil => rfl
  | cons a as ih =>
    have h1 := (C06_one_answer s (a :: as) a (handle s a).2 (by simp [run])).1
    have := ih (handle s a).1
    simp only [trace] at this ⊢
    simp only [run, List.flatMap_cons, List.filter_append, List.length_append, h1, this,
      List.length_cons]
    omega

/-- what is not a request ends the instance: only the requests before it are served -/
theorem C06_served_prefix (ms : List Msg) :
    ∃ rest, ms = (served ms).map Msg.req ++ rest ∧ (rest = [] ∨ rest.head? = some Msg.junk) := by
  induction ms with
  | nil => exact ⟨[], rfl, .inl rfl⟩
  | cons m ms ih =>
    cases m with
    | junk => exact ⟨.junk :: ms, by simp [served], .inr rfl⟩
    | req r =>
      obtain ⟨rest, h1, h2⟩ := ih
      exact ⟨rest, by simp only [served, List.map_cons, List.cons_append]; rw [← h1], h2⟩

/-- **C06 (c), principal side.** A confirmation reaches the delegate only if the intent of that
request was forwarded and the target confirmed. -/
theorem C06_confirm_only_if_stored (s : St) (rs : List Req) (r : Req) (seg : List Ev)
    (hseg : (r, seg) ∈ run s rs) (h : .toDelegate true ∈ seg) :
    r.answer = .confirm ∧ .toTarget r.intent ∈ seg := by
  obtain ⟨_, s', rfl⟩ := mem_run hseg
  have hsh := handle_shape s' r
  generalize (handle s' r).2 = seg at h hsh
  cases hsh with
  | refused => simp at h
  | denied c => simp at h
  | approvedNotSent c => simp at h
  | forwarded c => simp at h; exact ⟨h, by simp⟩
  | unverified hs =>
    revert h
    cases r.answer <;> simp [forward]

/-- **C06 (c), target side.** `handleIntentCommunication` confirms only after its policy check
and the storing of the grant (for exactly the communicated intent) both succeeded. -/
theorem C06_target_confirm_only_if_stored (r : TReq) (h : .reply true ∈ targetStep r) :
    r.checkOk = true ∧ r.addOk = true ∧
      targetStep r = [.check r.intent, .add r.intent, .reply true] := by
  revert h
  unfold targetStep
  cases r.checkOk <;> cases r.addOk <;> simp

/-- the target answers every communication exactly once, and never stores without checking -/
theorem C06_target_one_answer (r : TReq) :
    ((targetStep r).filter (fun e => match e with | .reply _ => true | _ => false)).length = 1 ∧
      (.add r.intent ∈ targetStep r → r.checkOk = true) := by
  unfold targetStep
  cases r.checkOk <;> cases r.addOk <;> simp

/-- **C06, end to end.** With the target side being `targetStep`, a confirmation to the delegate
means: the principal approved this very intent, and the target checked and stored it. -/
theorem C06_end_to_end (s : St) (rs : List Req) (hv : Verifying rs) (r : Req) (seg : List Ev)
    (hseg : (r, seg) ∈ run s rs) (t : TReq) (ht : t.intent = r.intent)
    (hans : r.answer = answerOf t) (h : .toDelegate true ∈ seg) :
    (∃ c, .callback r.intent c true ∈ seg) ∧ TEv.add r.intent ∈ targetStep t ∧
      TEv.reply true ∈ targetStep t := by
  obtain ⟨hc, hm⟩ := C06_confirm_only_if_stored s rs r seg hseg h
  obtain ⟨pre, post, hsplit⟩ := List.append_of_mem hm
  obtain ⟨_, ⟨c, hcb⟩, _⟩ := C06_forward_only_approved s rs hv r seg hseg pre post r.intent hsplit
  refine ⟨⟨c, by rw [hsplit]; simp [hcb]⟩, ?_⟩
  rw [hans] at hc
  unfold answerOf at hc
  unfold targetStep
  rw [← ht]
  cases h1 : t.checkOk <;> cases h2 : t.addOk <;> simp [h1, h2] at hc ⊢

/-! ### non-vacuity, and the two shapes on which the pinned tree failed -/

def ex (cmd : List UInt8) : Intent :=
  { gtype := 2, reserved := 0, port := 7777, start := 100, exp := 200, sniType := 1,
    sni := [116], user := [117], cert := 3, cmd := cmd }

/-- approve the first request, refuse the second (same target): only the first is forwarded -/
example :
    trace init [⟨ex [97], .verify 7 true, true, .confirm⟩, ⟨ex [98], .failEarly, false, .confirm⟩]
      = [.callback (ex [97]) (some 7) true, .toTarget (ex [97]), .toDelegate true,
         .callback (ex [98]) (some 7) false, .toDelegate false] := by decide

/-- refusing the first request yields exactly one denial -/
example : trace init [⟨ex [97], .verify 7 true, false, .confirm⟩]
      = [.callback (ex [97]) (some 7) false, .toDelegate false] := by decide

example : Verifying [⟨ex [97], .verify 7 true, true, .confirm⟩, ⟨ex [98], .failEarly, false, .deny⟩] := by
  intro r hr; simp at hr; rcases hr with rfl | rfl <;> simp

/-- the hypothesis `Verifying` is needed: a set-up function that skips the callback forwards the
first intent without any approval -/
theorem C06_skipping_setup_forwards_unapproved :
    ∃ r : Req, Ev.toTarget r.intent ∈ trace init [r] ∧ ∀ c d, Ev.callback r.intent c d ∉ trace init [r] :=
  ⟨⟨ex [97], .skipVerify, false, .confirm⟩, by decide, by intro c d; simp [trace, run, handle, init, forward]⟩

example : targetStep ⟨ex [97], true, true⟩ = [.check (ex [97]), .add (ex [97]), .reply true] := by decide
example : targetStep ⟨ex [97], true, false⟩ = [.check (ex [97]), .add (ex [97]), .reply false] := by decide

/-! ### constants of the wire protocol used by the harness (G-tie) -/
example : Generated.authgrants_IntentRequest = 1 := by decide
example : Generated.authgrants_IntentCommunication = 2 := by decide
example : Generated.authgrants_IntentConfirmation = 3 := by decide
example : Generated.authgrants_IntentDenied = 4 := by decide

end Principal
