/-
C08 — Reliable tubes deliver the written byte stream in order, intact and complete.

Model: `Model/Receiver.lean` (transcription of tubes/receiver.go) and `Model/Sender.lean`
(stream side of tubes/sender.go).  Spec: `Spec/Stream.lean`.

What is proved, for *every* schedule of arrivals (any order, duplicates, stale and out-of-window
frames, FIN early or late) interleaved with reads, of any length, across the 32-bit wrap of the
wire frame number:

* `C08_prefix`            the bytes read so far are a prefix of the written stream;
* `C08_eof_after_data`    a read reports end-of-stream only when everything written was read;
* `C08_unwrap`            the 64-bit number is recovered from the 32-bit wire number;
* `C08_progress`          every arrival of the frame the receiver waits for moves the window, the
                          window never moves back, and (`C08_complete`) after enough such arrivals
                          every written byte is readable and the stream is closed;
* `C08_sender_*`          the sender cuts the written bytes into non-empty chunks of at most
                          `MaxFrameDataLength`, numbers them consecutively modulo 2^32, numbers the
                          FIN after all data, and keeps every frame that is not yet cumulatively
                          acknowledged (the proviso of the liveness clause).

Hypotheses, explicit in the statements: arriving frames are `Honest` (the channel is
authenticated: a frame numbered n carries chunk n — it can be lost, repeated, reordered, delayed
but not altered) and `Near` (less than 2^31 frame numbers away from the receiver's
acknowledgement number when they arrive — what a 32-bit wire number can express); the stream has
fewer than 2^62 frames (no `uint64` overflow).
-/
import HopModel.Proofs.Stream
import HopModel.Proofs.Sender
import HopModel.Generated.Consts
namespace Tubes

/-! constants extracted from the source -/
example : Generated.tubes_MaxFrameDataLength = maxFrameDataLength := by decide
example : Generated.tubes_maxWindowSize = maxWindowSize := by decide

/-- a fresh receiver whose next expected frame is `ack + d`; `d = 1` is `newReceiver`
(`ackNo = 0`, `windowStart = 1`), `d = 0` is a receiver after `Reliable.receiveInitiatePkt` set
`ackNo = 1` -/
def rxStart (ack d : Nat) : RxRun := ⟨Receiver.at ack (ack + d), [], false⟩

theorem rxStart_inv (st : Stream) (ack d : Nat) (hs : st.start = ack + d) : RxInv st d (rxStart ack d) := by
  refine ⟨⟨rfl, ?_, ?_, ?_, ?_, ?_⟩, ?_, ?_, ?_, ?_⟩
  · show st.start ≤ ack + d; omega
  · show ack + d ≤ st.finNo + 1; unfold Stream.finNo; omega
  · show [] ++ [] = (st.chunks.take (ack + d - st.start)).flatten
    rw [hs]; simp
  · intro h; cases h
  · show ack + d = st.finNo + 1 → _
    unfold Stream.finNo; intro h; omega
  · intro g hg; cases hg
  · exact List.Pairwise.nil
  · intro g hg; cases hg
  · intro h; cases h

theorem C08_unwrap (ack n : Nat) (ha : ack < 2 ^ 63) (h : Near ack n) :
    unwrapFrameNo ack (n % two32) = n :=
  unwrap_near ack n ha h.1 h.2

/-- Safety: whatever the network does with honest frames, what has been read is a prefix of what
was written. -/
theorem C08_prefix (st : Stream) (ack d : Nat) (hd : d ≤ 1) (hs : st.start = ack + d)
    (hb : st.finNo + 2 < 2 ^ 62) (evs : List RxEv) (adm : Admissible st (rxStart ack d) evs) :
    (rxRun (rxStart ack d) evs).delivered <+: st.written := by
  have inv := (rxRun_inv hb hd evs _ (rxStart_inv st ack d hs) adm).1
  have hdata := inv.core.data
  refine ⟨(rxRun (rxStart ack d) evs).r.buffer ++
    (st.chunks.drop ((rxRun (rxStart ack d) evs).r.windowStart - st.start)).flatten, ?_⟩
  rw [← List.append_assoc, hdata, ← List.flatten_append, List.take_append_drop]
  rfl

/-- End of stream is reported only after all data. -/
theorem C08_eof_after_data (st : Stream) (ack d : Nat) (hd : d ≤ 1) (hs : st.start = ack + d)
    (hb : st.finNo + 2 < 2 ^ 62) (evs : List RxEv) (adm : Admissible st (rxStart ack d) evs)
    (heof : (rxRun (rxStart ack d) evs).eof = true) :
    (rxRun (rxStart ack d) evs).delivered = st.written := by
  have inv := (rxRun_inv hb hd evs _ (rxStart_inv st ack d hs) adm).1
  obtain ⟨hc, hbuf⟩ := inv.eof heof
  have hws := inv.core.closed hc
  have hdata := inv.core.data
  rw [hbuf, List.append_nil, hws] at hdata
  rw [hdata]
  unfold Stream.written Stream.finNo
  rw [List.take_of_length_le (by omega)]

/-- Progress: the window never moves back, and every arrival of the awaited frame advances it. -/
theorem C08_progress (st : Stream) (ack d : Nat) (hd : d ≤ 1) (hs : st.start = ack + d)
    (hb : st.finNo + 2 < 2 ^ 62) (evs : List RxEv) (adm : Admissible st (rxStart ack d) evs) :
    st.start + hits (rxStart ack d) evs ≤ (rxRun (rxStart ack d) evs).r.windowStart := by
  have := (rxRun_inv hb hd evs _ (rxStart_inv st ack d hs) adm).2
  rw [hs]; exact this

/-- Completeness of the model: once the awaited frame has arrived often enough (one arrival per
frame of the stream including the FIN suffices) everything written is readable and the receiver
has seen the end of the stream — for every schedule, whatever else was lost, repeated or
reordered in between.  That the awaited frame *can* arrive again rests on the sender keeping
it: `C08_sender_retains`. -/
theorem C08_complete (st : Stream) (ack d : Nat) (hd : d ≤ 1) (hs : st.start = ack + d)
    (hb : st.finNo + 2 < 2 ^ 62) (evs : List RxEv) (adm : Admissible st (rxStart ack d) evs)
    (hh : st.chunks.length + 1 ≤ hits (rxStart ack d) evs) :
    (rxRun (rxStart ack d) evs).delivered ++ (rxRun (rxStart ack d) evs).r.buffer = st.written ∧
    (rxRun (rxStart ack d) evs).r.closed = true := by
  have inv := (rxRun_inv hb hd evs _ (rxStart_inv st ack d hs) adm).1
  have hp := C08_progress st ack d hd hs hb evs adm
  have hhi := inv.core.hi
  have hws : (rxRun (rxStart ack d) evs).r.windowStart = st.finNo + 1 := by
    unfold Stream.finNo at *; omega
  refine ⟨?_, inv.core.finClosed hws⟩
  rw [inv.core.data, hws]
  unfold Stream.written Stream.finNo
  rw [List.take_of_length_le (by omega)]

/-! ### sender -/

def sStart (a0 f0 : Nat) : SRun := ⟨Sender.at a0 f0, [], []⟩

/-- The frames ever queued, concatenated, are exactly the bytes `write` accepted; every data
frame is non-empty and at most `MaxFrameDataLength` long. -/
theorem C08_sender_chunks (a0 f0 : Nat) (hf : f0 < two32) (ops : List SOp) :
    ((sRun (sStart a0 f0) ops).all.map (·.data)).flatten = (sRun (sStart a0 f0) ops).written ∧
    ∀ fr ∈ (sRun (sStart a0 f0) ops).all, fr.fin = false →
      fr.data ≠ [] ∧ fr.data.length ≤ maxFrameDataLength := by
  have inv := sRun_inv ops _ (sinv_init a0 f0 hf)
  exact ⟨inv.data, inv.pieces⟩

/-- Frame numbers are consecutive modulo 2^32, in the order the bytes were written. -/
theorem C08_sender_numbering (a0 f0 : Nat) (hf : f0 < two32) (ops : List SOp) (i : Nat) (fr : SFrame)
    (h : (sRun (sStart a0 f0) ops).all[i]? = some fr) : fr.frameNo = (f0 + i) % two32 :=
  (sRun_inv ops _ (sinv_init a0 f0 hf)).numbering i fr h

/-- The FIN is numbered after all data: it is the last frame ever queued. -/
theorem C08_sender_fin_last (a0 f0 : Nat) (hf : f0 < two32) (ops : List SOp) (i : Nat) (fr : SFrame)
    (h : (sRun (sStart a0 f0) ops).all[i]? = some fr) (hfin : fr.fin = true) :
    i + 1 = (sRun (sStart a0 f0) ops).all.length :=
  (sRun_inv ops _ (sinv_init a0 f0 hf)).finLast i fr h hfin

/-- The retransmission buffer is exactly the frames not yet cumulatively acknowledged: the model
sender never discards an unacknowledged frame (whatever acknowledgement numbers arrive). -/
theorem C08_sender_retains (a0 f0 : Nat) (hf : f0 < two32) (ops : List SOp) :
    (sRun (sStart a0 f0) ops).s.frames =
      (sRun (sStart a0 f0) ops).all.drop ((sRun (sStart a0 f0) ops).s.ackNo - a0) :=
  (sRun_inv ops _ (sinv_init a0 f0 hf)).retains

/-! ### non-vacuity -/

def exStream : Stream := ⟨1, [[1, 2], [3]]⟩
def exF (no : Nat) (d : Bytes) (fin : Bool) : Frame := { rel := true, frameNo := no, data := d, fin := fin, ack := fin }
/-- frame 2 first, a duplicate, then frame 1, the FIN (number 3), a stale duplicate of frame 1 -/
def exEvs : List RxEv :=
  [.arrive 2 (exF 2 [3] false), .read 4, .arrive 2 (exF 2 [3] false), .arrive 1 (exF 1 [1, 2] false),
   .read 2, .arrive 3 (exF 3 [] true), .arrive 1 (exF 1 [1, 2] false), .read 4]

example : Admissible exStream (rxStart 1 0) exEvs := by
  simp [Admissible, exEvs, exStream, Honest, Near, exF, Stream.finNo, two31, two32]
  decide
example : (rxRun (rxStart 1 0) exEvs).delivered = [1, 2, 3] ∧ (rxRun (rxStart 1 0) exEvs).eof = true := by
  decide
example : hits (rxStart 1 0) exEvs = 2 := by decide
example : ((sRun (sStart 1 1) [.write [1, 2, 3], .ack 2 10, .write [4], .fin, .write [5]]).all.map (·.frameNo)) = [1, 2, 3] ∧
    (sRun (sStart 1 1) [.write [1, 2, 3], .ack 2 10, .write [4], .fin, .write [5]]).s.frames.length = 2 := by
  decide

/-! ### the send loop's frame budget (`sender.framesToSend`)

`Reliable.send` touches `r.sender.frames[i]` for every `i <` the budget (timeout branch) and queues at
most that many frames (window-open branch); `sender.write` asks for the budget past `startIndex`. -/

/-- the budget is never negative -/
theorem C08_budget_nonneg (w u : Nat) (c : Int) (n : Nat) (rto : Bool) (st : Int) :
    0 ≤ framesToSend w u c n rto st := by
  unfold framesToSend; simp only []; split <;> omega

/-- the budget never reaches past the retransmission buffer: indexing `frames[start + i]`, `i <` budget,
is in range (for `start = 0` this is the loop of the timeout branch) -/
theorem C08_budget_in_bounds (w u : Nat) (c : Int) (n : Nat) (rto : Bool) (st : Int) :
    framesToSend w u c n rto st = 0 ∨ st + framesToSend w u c n rto st ≤ n := by
  unfold framesToSend; simp only []
  repeat' split
  all_goals omega

/-- window-open and write: frames in flight plus the budget stay within the window (unless the window
is already exceeded, in which case nothing more is sent) -/
theorem C08_budget_window (w u : Nat) (c : Int) (n : Nat) (st : Int) :
    framesToSend w u c n false st = 0 ∨ (u : Int) + st + framesToSend w u c n false st ≤ w := by
  unfold framesToSend; simp only [Bool.false_eq_true, if_false]
  repeat' split
  all_goals omega

/-- a retransmission timeout always reaches the oldest unacknowledged frame: with a non-empty buffer and
a window of at least one frame the budget is at least one (the completeness of C08 rests on this: an
unacknowledged frame is retransmitted at every tick until it is acknowledged) -/
theorem C08_budget_rto_progress (w u : Nat) (c : Int) (n : Nat) (hc : 0 ≤ c) (hn : 0 < n) (hw : 0 < w) :
    1 ≤ framesToSend w u c n true 0 := by
  unfold framesToSend; simp only [if_true]
  repeat' split
  all_goals omega

/-- … and retransmits at most a window, growing by one frame per consecutive timeout -/
theorem C08_budget_rto_bound (w u : Nat) (c : Int) (n : Nat) (hc : 0 ≤ c) :
    framesToSend w u c n true 0 ≤ w ∧ framesToSend w u c n true 0 ≤ c + 1 ∧ framesToSend w u c n true 0 ≤ n := by
  unfold framesToSend; simp only [if_true]
  repeat' split
  all_goals omega

example : framesToSend 10 3 0 20 false 0 = 7 ∧ framesToSend 10 3 0 5 false 2 = 3 ∧ framesToSend 10 12 0 5 false 0 = 0 ∧
    framesToSend 10 0 0 20 true 0 = 1 ∧ framesToSend 10 0 4 20 true 0 = 5 ∧ framesToSend 10 0 40 20 true 0 = 10 ∧
    framesToSend 10 0 40 3 true 0 = 3 := by decide
example : Generated.tubes_minWindowSize = 10 ∧ Generated.tubes_defaultWindowSize = 10 := by decide

end Tubes
