/-
C20, second sentence ("a client applies exactly the host blocks whose patterns match the requested host"),
connected to what applying a block means (`ClientCfg.merge`, Props/C01ClientCfg.lean): the configuration a client
ends up with for a host is the Global block with exactly the matching blocks merged in file order, and a block
none of whose patterns matches has no influence on it whatever it says.
-/
import HopModel.Props.C20
import HopModel.Props.C01ClientCfg
namespace ClientCfg
open Glob

structure HostBlock where
  pats : List (List B)
  opts : Block

def applies (host : List B) (hb : HostBlock) : Bool := hb.pats.any fun p => glob p host

/-- `ClientConfig.MatchHost`: the options of the blocks that apply, in file order -/
def applied (hosts : List HostBlock) (host : List B) : List Block :=
  (hosts.filter (applies host)).map (·.opts)

def effectiveFor (g : Block) (hosts : List HostBlock) (host : List B) : Block :=
  effective g (applied hosts host)

theorem applies_iff (host : List B) (hb : HostBlock) :
    applies host hb = true ↔ ∃ p ∈ hb.pats, Matches p host := by
  unfold applies
  simp only [List.any_eq_true, C20_glob_iff]

/-- **C20 (client).** The options merged onto the Global block are exactly those of the blocks one of whose
patterns matches the host … -/
theorem C20_applied_mem (hosts : List HostBlock) (host : List B) (b : Block) :
    b ∈ applied hosts host ↔ ∃ hb ∈ hosts, (∃ p ∈ hb.pats, Matches p host) ∧ hb.opts = b := by
  unfold applied
  simp only [List.mem_map, List.mem_filter, applies_iff]
  constructor
  · rintro ⟨hb, ⟨h1, h2⟩, h3⟩; exact ⟨hb, h1, h2, h3⟩
  · rintro ⟨hb, h1, h2, h3⟩; exact ⟨hb, ⟨h1, h2⟩, h3⟩

/-- … in file order … -/
theorem C20_applied_order (hosts : List HostBlock) (host : List B) :
    (applied hosts host).Sublist (hosts.map (·.opts)) := by
  unfold applied
  exact List.Sublist.map _ List.filter_sublist

/-- … and a block none of whose patterns matches has no influence on the client's configuration, whatever it
says and wherever it stands in the file. -/
theorem C20_unmatched_block_irrelevant (g : Block) (pre post : List HostBlock) (hb : HostBlock) (host : List B)
    (hno : ∀ p ∈ hb.pats, ¬ Matches p host) :
    effectiveFor g (pre ++ hb :: post) host = effectiveFor g (pre ++ post) host := by
  have hf : applies host hb = false := by
    cases h : applies host hb with
    | false => rfl
    | true => obtain ⟨p, hp, hm⟩ := (applies_iff host hb).mp h; exact absurd hm (hno p hp)
  unfold effectiveFor applied
  simp [List.filter_append, hf]

/-- **C01 + C20.** If the last matching block that mentions InsecureSkipVerify says `false`, the client accepts a
server only on a chain under a root listed in the Global block or a matching block, for the expected name —
whatever the Global block and the blocks that do not match say. -/
theorem C01_matching_block_demands (g : Block) (hosts : List HostBlock) (host : List B) (dial : String)
    (p : Presented)
    (hd : (applied hosts host).reverse.findSome? (·.skip) = some false)
    (ha : accepts (effectiveFor g hosts host) dial p = true) :
    (∃ r, p.anchor = some r ∧ (r ∈ g.cas ∨ ∃ hb ∈ hosts, (∃ q ∈ hb.pats, Matches q host) ∧ r ∈ hb.opts.cas)) ∧
      expected (effectiveFor g hosts host) dial ∈ p.names := by
  obtain ⟨⟨r, hr, hm⟩, hn⟩ := C01_verification_demanded g (applied hosts host) dial p hd ha
  refine ⟨⟨r, hr, ?_⟩, hn⟩
  rcases hm with h | ⟨b, hb, hrb⟩
  · exact Or.inl h
  · obtain ⟨hb', h1, h2, h3⟩ := (C20_applied_mem hosts host b).mp hb
    exact Or.inr ⟨hb', h1, h2, h3 ▸ hrb⟩

-- non-vacuity: `elsewhere*` switches verification off but does not match `target`; `tar*` matches
example :
    let off : HostBlock := ⟨[[101, 108, 115, 101, 42]], { skip := some true }⟩        -- "else*"
    let mine : HostBlock := ⟨[[116, 97, 114, 42]], { skip := some false, cas := ["own"] }⟩   -- "tar*"
    applied [off, mine] [116, 97, 114, 103, 101, 116] = [mine.opts] := by
  have h0 : glob [101, 108, 115, 101, 42] [116, 97, 114, 103, 101, 116] = false := by simp [glob, seg, star]
  have h1 : glob [116, 97, 114, 42] [116, 97, 114, 103, 101, 116] = true := by simp [glob, seg, star, afterStar]
  simp [applied, applies, h0, h1]

end ClientCfg
