/-
C20 — Host and virtual-host pattern matching is total and is glob matching.

Spec: `Glob.Matches p s` — `s` is `p` with each `*` replaced by some (possibly empty) string.
The model `Glob.glob` is a total Lean function (termination proved in `Model/Glob.lean`), so
"terminates" is part of its definition being accepted; "without panicking" for the Go code is
observed by the correspondence run under `recover`.
-/
import HopModel.Proofs.Glob
import HopModel.Proofs.GlobIdx
namespace Glob

/-- **C20.** The matcher returns true exactly when the input is an instance of the pattern. -/
theorem C20_glob_iff (p s : List B) : glob p s = true ↔ Matches p s := glob_iff p s

/-- **C20 — the code's own loop.** The index-level transcription of the loop in `pkg/glob/glob.go`
(two cursors, last star, retry position; every index under its bound check; termination by the
measure in `Model/GlobIdx.lean`) computes exactly that matcher … -/
theorem C20_idx_refines (p s : List B) : globIdx p s = glob p s := globIdx_eq_glob p s

/-- … so the loop as written returns true exactly for the instances of the pattern, for all
patterns and inputs of any length, and it is total (no index out of range, always terminates:
that is what it takes for `globIdx` to be a Lean function at all). -/
theorem C20_code_is_glob (p s : List B) : globIdx p s = true ↔ Matches p s := by
  rw [C20_idx_refines]; exact C20_glob_iff p s

/-- A client applies exactly the host blocks one of whose patterns matches the host … -/
theorem C20_matchHost_mem (blocks : List (List (List B))) (host : List B) (i : Nat) :
    i ∈ matchHost blocks host ↔
      i < blocks.length ∧ ∃ pat ∈ blocks.getD i [], Matches pat host := by
  unfold matchHost
  simp only [List.mem_filter, List.mem_range, List.any_eq_true, C20_glob_iff]

/-- … in configuration order, each at most once. -/
theorem C20_matchHost_sorted (blocks : List (List (List B))) (host : List B) :
    (matchHost blocks host).Pairwise (· < ·) := by
  unfold matchHost
  exact List.Pairwise.filter _ List.pairwise_lt_range

/-- A server presents the first virtual host whose pattern matches the requested name … -/
theorem C20_vhost_first (pats : List (List B)) (name : List B) (i : Nat)
    (h : vhostMatch pats name = some i) :
    ∃ hi : i < pats.length, Matches pats[i] name ∧ ∀ j (hj : j < i), ¬ Matches (pats[j]'(by omega)) name := by
  unfold vhostMatch at h
  rw [List.findIdx?_eq_some_iff_getElem] at h
  obtain ⟨hi, hm, hlt⟩ := h
  refine ⟨hi, (C20_glob_iff _ _).mp hm, ?_⟩
  intro j hj hmj
  have := hlt j hj
  rw [(C20_glob_iff _ _).mpr hmj] at this
  simp at this

/-- … and none only if no pattern matches. -/
theorem C20_vhost_none (pats : List (List B)) (name : List B)
    (h : vhostMatch pats name = none) : ∀ pat ∈ pats, ¬ Matches pat name := by
  unfold vhostMatch at h
  rw [List.findIdx?_eq_none_iff] at h
  intro pat hp hm
  have := h pat hp
  rw [(C20_glob_iff _ _).mpr hm] at this
  simp at this

/-! ### non-vacuity and the four inputs on which the pinned matcher was wrong
(`a`=97 `b`=98 `d`=100 `e`=101 `v`=118 `*`=42) -/

/-- ("a", "") — the pinned code indexed out of range here -/
example : glob [97] [] = false := by simp [glob, seg, star]
/-- ("a*", "a") -/
example : glob [97, 42] [97] = true := by simp [glob, seg, star, afterStar]
/-- ("*ab", "aab") -/
example : glob [42, 97, 98] [97, 97, 98] = true := by simp [glob, seg, star, afterStar]
/-- ("d*d", "dadd") -/
example : glob [100, 42, 100] [100, 97, 100, 100] = true := by simp [glob, seg, star, afterStar]
/-- ("d*v*d", "dave") -/
example : glob [100, 42, 118, 42, 100] [100, 97, 118, 101] = false := by simp [glob, seg, star, afterStar]
example : Matches [42, 97, 98] [97, 97, 98] :=
  (C20_glob_iff _ _).mp (by simp [glob, seg, star, afterStar])
example : matchHost [[[97], [42]], [[97]], [[98, 42]]] [98] = [0, 2] := by
  have h0 : glob [42] [98] = true := by simp [glob, seg, star, afterStar]
  have h1 : glob [97] [98] = false := by simp [glob, seg, star]
  have h2 : glob [98, 42] [98] = true := by simp [glob, seg, star, afterStar]
  simp [matchHost, List.range, List.range.loop, h0, h1, h2]
example : vhostMatch [[97], [98, 42], [42]] [98] = some 1 := by
  have h0 : glob [98, 42] [98] = true := by simp [glob, seg, star, afterStar]
  have h1 : glob [97] [98] = false := by simp [glob, seg, star]
  simp [vhostMatch, List.findIdx?, List.findIdx?.go, h0, h1]

end Glob
