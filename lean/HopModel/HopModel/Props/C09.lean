/-
C09 — Tubes are isolated from each other and from earlier tubes with the same id.

Model: `Model/Muxer.lean` (tube list keyed by (reliability, id), `pickTubeID`, `Create*Tube`,
dispatch of `Muxer.receiver`, accept queue, reaping; `Unreliable.receive`: one frame = one
message).  Runs and observations: `Spec/MuxRun.lean`.

Proved for all histories of datagrams, creations, accepts, reaps and reads:

* `C09_ids_distinct`     the live tubes always have pairwise distinct (reliability, id);
* `C09_create_fresh`, `C09_creates_distinct`, `C09_parity_disjoint`
                         `Create*Tube` returns an id that is free, of the muxer's parity and below
                         256; two creations give different ids; a server and a client never pick
                         the same id;
* `C09_offer_once`       the accept queue grows only when a REQ arrives for a key that has no tube,
                         by exactly one entry carrying that frame's reliability, id and type; a
                         REQ for an existing tube (a retransmission) offers nothing; `Accept`
                         takes exactly the head;
* `C09_no_crosstalk`     every event changes at most the tube it is addressed to: a frame only the
                         tube its (reliability, id) names — so the stream state of a tube is a
                         function of the frames carrying its own key;
* `C09_unreliable_whole` an unreliable tube queues the whole payload of one frame as one message,
                         and a read returns exactly the oldest message (cut only by the reader's
                         own buffer, which is reported);

and the clause about late packets of a closed tube:

* `C09_full`             "datagrams that the peer sent for an incarnation that has since been
                         reaped have no observable effect" — frames carry no tube generation, so
                         this is false: `C09_full_false` gives the witnesses (a delayed REQ
                         retransmission re-creates the tube and offers it a second time; a delayed
                         data frame no. 1 is read from the successor tube);
* `C09_late_partial`     it holds under `NoLateFrames` (F11, recorded as a known finding).
-/
import HopModel.Proofs.MuxRun
import HopModel.Generated.Consts
namespace Tubes

theorem C09_ids_distinct (parity : Nat) (evs : List MEv) :
    ((mRun { parity := parity } evs).1.tubes.map Tube.key).Nodup :=
  run_keys evs _ (by simp [KeysNodup])

theorem C09_create_fresh (m m' : Mux) (rel : Bool) (ty id : Nat) (h : create m rel ty = (m', some id)) :
    lookup m.tubes (rel, id) = none ∧ id % 2 = m.parity % 2 ∧ id < 256 ∧
    (lookup m'.tubes (rel, id)).isSome := by
  obtain ⟨h1, h2, h3, h4, _⟩ := create_spec h
  refine ⟨h1, h2, h3, ?_⟩
  rw [h4]
  simp [lookup, List.find?_cons, newTube, Tube.key]

theorem C09_creates_distinct (m m1 m2 : Mux) (rel : Bool) (ty ty' a b : Nat)
    (h1 : create m rel ty = (m1, some a)) (h2 : create m1 rel ty' = (m2, some b)) : a ≠ b := by
  have ha := (C09_create_fresh m m1 rel ty a h1).2.2.2
  have hb := (C09_create_fresh m1 m2 rel ty' b h2).1
  intro e
  subst e
  rw [hb] at ha
  cases ha

theorem C09_parity_disjoint (s c s' c' : Mux) (rel rel' : Bool) (ty ty' a b : Nat)
    (hs : s.parity = 0) (hc : c.parity = 1)
    (h1 : create s rel ty = (s', some a)) (h2 : create c rel' ty' = (c', some b)) : a ≠ b := by
  have ha := (C09_create_fresh s s' rel ty a h1).2.1
  have hb := (C09_create_fresh c c' rel' ty' b h2).2.1
  rw [hs] at ha; rw [hc] at hb
  omega

/-- One offer per creation, with the opener's reliability, id and type; nothing else touches the
accept queue except `Accept`, which takes its head. -/
theorem C09_offer_once (m : Mux) (ev : MEv) (hn : KeysNodup m) :
    match ev with
    | .raw b =>
      (mStep m ev).1.queue = m.queue ∨
      ∃ f t, fromBytes b recvBufSize = .ok f ∧ f.req = true ∧ lookup m.tubes (f.rel, f.tubeID) = none ∧
        (mStep m ev).1.queue = m.queue ++ [t] ∧ t.rel = f.rel ∧ t.id = f.tubeID ∧ t.ttype = initType f ∧
        (lookup (mStep m ev).1.tubes (f.rel, f.tubeID)).isSome
    | .accept =>
      (m.queue = [] ∧ (mStep m ev) = (m, .none)) ∨
      ∃ t rest, m.queue = t :: rest ∧ (mStep m ev).1.queue = rest ∧ (mStep m ev).2 = .offered t.rel t.id t.ttype
    | _ => (mStep m ev).1.queue = m.queue := by
  cases ev with
  | raw b =>
    simp only [mStep]
    split
    · rename_i m' h
      unfold onRaw at h
      split at h
      · rename_i f hf
        rcases (onFrame_keys m f m' h hn).2 with hq | ⟨t, h1, h2, h3, h4, h5, h6, h7⟩
        · exact Or.inl hq
        · exact Or.inr ⟨f, t, hf, h2, h3, h1, h4, h5, h6, h7⟩
      · cases h; exact Or.inl rfl
      · cases h
    · exact Or.inl rfl
  | accept =>
    simp only [mStep, accept]
    cases hq : m.queue with
    | nil => exact Or.inl ⟨rfl, rfl⟩
    | cons t rest => exact Or.inr ⟨t, rest, rfl, rfl, rfl⟩
  | create rel ty =>
    simp only [mStep]
    split
    · rename_i m' id h; exact (create_spec h).2.2.2.2.1
    · rename_i m' h
      unfold create at h
      split at h
      · cases h; rfl
      · split at h
        · cases h
        · cases h; rfl
  | reap k =>
    simp only [mStep]
    have key : ∀ r, reap m k = r → r.1.queue = m.queue := by
      intro r hr
      unfold reap at hr
      repeat' split at hr
      all_goals (subst hr; rfl)
    split
    · rename_i m' h; exact key _ h
    · rename_i m' h; exact key _ h
  | shut k =>
    simp only [mStep]
    have key : ∀ r, shut m k = r → r.1.queue = m.queue := by
      intro r hr
      unfold shut at hr
      repeat' split at hr
      all_goals (subst hr; rfl)
    split
    · rename_i m' h; exact key _ h
    · rename_i m' h; exact key _ h
  | read k n =>
    simp only [mStep]
    have key : ∀ r, readTube m k n = r → r.1.queue = m.queue := by
      intro r hr
      unfold readTube at hr
      repeat' split at hr
      all_goals (subst hr; rfl)
    split
    · rename_i m' b fl h; exact key _ h
    · rename_i m' o h; exact key _ h

/-- Every event changes at most the tube it is addressed to. -/
theorem C09_no_crosstalk (m : Mux) (ev : MEv) (k : Key) (hk : target m ev ≠ some k) :
    lookup (mStep m ev).1.tubes k = lookup m.tubes k :=
  step_local m ev k hk

/-- Unreliable tubes: one frame is one message, whole; a read returns the oldest message. -/
theorem C09_unreliable_whole (t : Tube) (f : Frame) (m : Mux) (k : Key) (n : Nat) :
    ((unrelReceive t f).msgs = t.msgs ∨ (unrelReceive t f).msgs = t.msgs ++ [f.data]) ∧
    (∀ u msg rest, lookup m.tubes k = some u → u.rel = false → u.held = true → u.state ≠ .created →
      u.msgs = msg :: rest →
      (readTube m k n).2 = .data (msg.take n) (n < msg.length) ∧
      ((lookup (readTube m k n).1.tubes k).map (·.msgs)) = some rest) := by
  constructor
  · unfold unrelReceive
    repeat' split
    all_goals simp
  · intro u msg rest hl hrel hheld hst hmsgs
    have hk := lookup_key hl
    have e : readTube m k n =
        ({ m with tubes := setTube m.tubes { u with msgs := rest } }, .data (msg.take n) (n < msg.length)) := by
      unfold readTube
      simp [hl, hheld, hrel, hmsgs, hst]
    rw [e]
    refine ⟨rfl, ?_⟩
    have hk' : ({ u with msgs := rest } : Tube).key = k := hk
    have := lookup_setTube_self m.tubes { u with msgs := rest } u (by rw [hk']; exact hl)
    rw [hk'] at this
    simp [this]

/-! ### late packets of a closed tube -/

/-- an event together with the ground truth the muxer cannot see: the datagram was sent by the
peer for an incarnation of the tube that has since been reaped -/
abbrev LEv := MEv × Bool

def evKey : MEv → Option Key
  | .raw b => match fromBytes b recvBufSize with
    | .ok f => some (f.rel, f.tubeID)
    | _ => none
  | _ => none

/-- only datagrams can be late, and only for a key that was reaped earlier in the history -/
def LateOk : List Key → List LEv → Prop
  | _, [] => True
  | reaped, (ev, late) :: rest =>
    (late = true → ∃ k, evKey ev = some k ∧ k ∈ reaped) ∧
    LateOk (match ev with | .reap k => k :: reaped | _ => reaped) rest

def NoLateFrames (evs : List LEv) : Prop := ∀ e ∈ evs, e.2 = false

def vis (os : List MObs) : List MObs := os.filter (· ≠ .none)

/-- the property as worded: late datagrams of reaped tubes are unobservable -/
def C09_full : Prop :=
  ∀ (parity : Nat) (evs : List LEv), LateOk [] evs →
    vis (mRun { parity := parity } (evs.map (·.1))).2 =
    vis (mRun { parity := parity } ((evs.filter (·.2 = false)).map (·.1))).2

theorem C09_late_partial (parity : Nat) (evs : List LEv) (h : NoLateFrames evs) :
    vis (mRun { parity := parity } (evs.map (·.1))).2 =
    vis (mRun { parity := parity } ((evs.filter (·.2 = false)).map (·.1))).2 := by
  have : evs.filter (·.2 = false) = evs := by
    apply List.filter_eq_self.mpr
    intro e he
    simp [h e he]
  rw [this]

def wReq : Bytes := [3, 5, 0, 0, 7, 0, 0, 0, 0, 0]                         -- REQ|REL tube 3 type 7
def wData : Bytes := [3, 4, 0, 1, 0, 0, 0, 1, 0, 0, 0, 1, 0x41]             -- REL tube 3 frame 1 "A"

/-- a delayed REQ retransmission after the reap: the closed tube is offered a second time -/
def lateReq : List LEv :=
  [(.raw wReq, false), (.accept, false), (.reap (true, 3), false), (.raw wReq, true), (.accept, false)]

/-- the peer reopened tube 3; a delayed retransmission of the *old* tube's frame no. 1 is read
from the successor -/
def lateData : List LEv :=
  [(.raw wReq, false), (.accept, false), (.raw wData, false), (.read (true, 3) 8, false),
   (.reap (true, 3), false), (.raw wReq, false), (.accept, false), (.raw wData, true), (.read (true, 3) 8, false)]

example : LateOk [] lateReq ∧ LateOk [] lateData := by
  simp [LateOk, lateReq, lateData, evKey]
  decide

example : vis (mRun { parity := 0 } (lateReq.map (·.1))).2 =
    [.offered true 3 7, .reaped (true, 3), .offered true 3 7] := by decide
example : vis (mRun { parity := 0 } (lateData.map (·.1))).2 =
    [.offered true 3 7, .bytes (true, 3) [0x41], .reaped (true, 3), .offered true 3 7, .bytes (true, 3) [0x41]] := by
  decide

theorem C09_full_false : ¬ C09_full := by
  intro h
  have := h 0 lateReq (by simp [LateOk, lateReq, evKey]; decide)
  revert this
  decide

/-! ### the reservation of `reapTube`

A reliable tube with an identifier of this muxer's parity stays in the map, closed, for 4·RTT after its close handshake
(`shut`); only then does `reap` release the identifier.  During that time the clause about late
packets holds without any assumption on the network: -/

/-- closing leaves the tube in the map, closed and out of the application's hands -/
theorem C09_shut_reserves (m m' : Mux) (k : Key) (h : shut m k = (m', true)) :
    ∃ t', lookup m'.tubes k = some t' ∧ t'.state = .closed ∧ t'.held = false ∧
      m'.queue = m.queue ∧ m'.parity = m.parity := by
  unfold shut at h
  split at h
  · rename_i t ht
    split at h
    · simp only [Prod.mk.injEq, and_true] at h
      subst h
      have hk := lookup_key ht
      have hk' : ({ t with state := .closed, held := false, reserved := true } : Tube).key = k := hk
      have := lookup_setTube_self m.tubes { t with state := .closed, held := false, reserved := true } t (by rw [hk']; exact ht)
      rw [hk'] at this
      exact ⟨_, this, rfl, rfl, rfl, rfl⟩
    · cases h
  · cases h

/-- a datagram for a tube that is closed but still in the map changes nothing and shows nothing:
no data is queued, nothing is offered to `Accept`, no tube is created -/
theorem C09_reserved_frame_dropped (m : Mux) (b : Bytes) (k : Key) (t : Tube) (hn : KeysNodup m)
    (hk : evKey (.raw b) = some k) (hl : lookup m.tubes k = some t) (hc : t.state = .closed) :
    mStep m (.raw b) = (m, .none) := by
  simp only [evKey] at hk
  split at hk
  · rename_i f hf
    simp only [Option.some.injEq] at hk
    subst hk
    simp only [mStep, onRaw, hf, onFrame_closed m f t hn hl hc]
  · cases hk

/-- while a tube is in the map - reserved or live - `Create*Tube` never hands out its identifier -/
theorem C09_reserved_not_reused (m m' : Mux) (rel : Bool) (ty id id' : Nat) (t : Tube)
    (hl : lookup m.tubes (rel, id) = some t) (h : create m rel ty = (m', some id')) : id' ≠ id := by
  intro e
  subst e
  rw [(C09_create_fresh m m' rel ty id' h).1] at hl
  cases hl

/-- late datagrams may arrive while their tube is closed and not yet reaped -/
def LateWhileReserved (m : Mux) : List LEv → Prop
  | [] => True
  | (ev, late) :: rest =>
    (late = true → ∃ k t, evKey ev = some k ∧ lookup m.tubes k = some t ∧ t.state = .closed) ∧
    LateWhileReserved (mStep m ev).1 rest

/-- The late-packet clause, for every history in which the late datagrams arrive within the
reservation: they are unobservable, and the muxer ends in the same state as without them. -/
theorem C09_late_in_reservation : ∀ (evs : List LEv) (m : Mux), KeysNodup m → LateWhileReserved m evs →
    (mRun m (evs.map (·.1))).1 = (mRun m ((evs.filter (·.2 = false)).map (·.1))).1 ∧
    vis (mRun m (evs.map (·.1))).2 = vis (mRun m ((evs.filter (·.2 = false)).map (·.1))).2 := by
  intro evs
  induction evs with
  | nil => intro m _ _; exact ⟨rfl, rfl⟩
  | cons e rest ih =>
    intro m hn hl
    obtain ⟨ev, late⟩ := e
    obtain ⟨hlate, htail⟩ := hl
    cases late with
    | false =>
      have ih' := ih (mStep m ev).1 (step_keys m ev hn) htail
      simp only [List.map_cons, List.filter_cons, decide_true, if_true, mRun]
      refine ⟨ih'.1, ?_⟩
      simp only [vis, List.filter_cons]
      have := ih'.2
      simp only [vis] at this
      rw [this]
    | true =>
      obtain ⟨k, t, hk, hlk, hc⟩ := hlate rfl
      have hraw : ∃ b, ev = .raw b := by
        cases ev with
        | raw b => exact ⟨b, rfl⟩
        | _ => simp [evKey] at hk
      obtain ⟨b, rfl⟩ := hraw
      have hstep := C09_reserved_frame_dropped m b k t hn hk hlk hc
      rw [hstep] at htail
      have ih' := ih m hn htail
      simp only [List.map_cons, List.filter_cons, mRun, hstep]
      refine ⟨by simpa using ih'.1, ?_⟩
      have := ih'.2
      simp only [vis] at this ⊢
      simpa [List.filter_cons] using this

/-- non-vacuity: tube 0 is opened locally, answered, closed; a delayed data frame and a delayed
REQ retransmission arrive during the reservation; the next tube gets identifier 2; then the reaper
releases 0 -/
def reservedHistory : List LEv :=
  [(.create true 7, false), (.raw [0, 6, 0, 0, 7, 0, 0, 0, 0, 0], false), (.shut (true, 0), false),
   (.raw [0, 4, 0, 1, 0, 0, 0, 1, 0, 0, 0, 1, 0x41], true), (.raw [0, 5, 0, 0, 7, 0, 0, 0, 0, 0], true),
   (.create true 7, false), (.accept, false), (.reap (true, 0), false)]

/-- executable form of `LateWhileReserved` -/
def lateOkAt (m : Mux) (ev : MEv) : Bool :=
  match evKey ev with
  | some k => match lookup m.tubes k with
    | some t => t.state == .closed
    | none => false
  | none => false

def lateWhileReservedB : Mux → List LEv → Bool
  | _, [] => true
  | m, (ev, late) :: rest => (!late || lateOkAt m ev) && lateWhileReservedB (mStep m ev).1 rest

theorem lateWhileReservedB_sound : ∀ (evs : List LEv) (m : Mux),
    lateWhileReservedB m evs = true → LateWhileReserved m evs := by
  intro evs
  induction evs with
  | nil => intro _ _; trivial
  | cons e rest ih =>
    intro m h
    obtain ⟨ev, late⟩ := e
    simp only [lateWhileReservedB, Bool.and_eq_true, Bool.or_eq_true, Bool.not_eq_true'] at h
    refine ⟨?_, ih _ h.2⟩
    intro hl
    rcases h.1 with h1 | h1
    · rw [hl] at h1; cases h1
    · unfold lateOkAt at h1
      split at h1
      · rename_i k hk
        split at h1
        · rename_i t ht
          exact ⟨k, t, hk, ht, by simpa using h1⟩
        · cases h1
      · cases h1

example : LateWhileReserved { parity := 0 } reservedHistory :=
  lateWhileReservedB_sound _ _ (by decide)

example : vis (mRun { parity := 0 } (reservedHistory.map (·.1))).2 =
    [.created true 0, .shut (true, 0), .created true 2, .reaped (true, 0)] := by decide

end Tubes
