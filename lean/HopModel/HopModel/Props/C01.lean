/-
C01 — Handshake completes only with a peer that proved its certified key.

Statements are about the operation programs regenerated from the source (`Generated.prog_*`),
through `C02_readers_as_expected` (the code's readers perform exactly the expected actions) and the
order facts of the dispatch programs.  "Proved possession" is, in the model, `Env.possession`: the
only way the MAC after `absorbStatic` can match is that the peer computed the static DH, i.e. holds
the private key of the certificate it presented — that implication is the security of the Noise
pattern under IdealHash + DH (DESIGN.md §3) and is built into `stepAct`, not proved.
-/
import HopModel.Props.C02
namespace Handshake
open Generated

/-- every environment for a message with `k` fields -/
def envOf (mask : Nat) (poss cert cook time vs : Bool) : Env :=
  { honest := mask, possession := poss, certOK := cert, cookieOK := cook, timeOK := time, verifySet := vs }

/-- **C01 (client, discoverable).** Whatever the counterpart sends: if the client's ServerAuth
reader succeeds with a verification policy attached, the policy accepted the presented certificates
for the expected name *and* the sender proved possession of the certified key. -/
theorem C01_client_success_discoverable :
    ∀ mask, mask < 2 ^ 6 → ∀ poss cert cook time,
      runActs expServerAuth (envOf mask poss cert cook time true) = true → cert = true ∧ poss = true := by
  decide +kernel

/-- **C01 (client, hidden).** -/
theorem C01_client_success_hidden :
    ∀ mask, mask < 2 ^ 6 → ∀ poss cert cook time,
      runActs expResponseHidden (envOf mask poss cert cook time true) = true → cert = true ∧ poss = true := by
  decide +kernel

/-- the client attaches its verification configuration before either handshake begins -/
theorem C01_client_policy_attached :
    onlyAfterEnforced prog_clientHandshakeLocked "set certVerify = &c.config.Verify" "beginPQDiscoverableHandshake" = true ∧
    onlyAfterEnforced prog_clientHandshakeLocked "set certVerify = &c.config.Verify" "beginPQHiddenHandshake" = true ∧
    computes prog_clientHandshakeLocked "beginPQDiscoverableHandshake" = true ∧
    computes prog_clientHandshakeLocked "beginPQHiddenHandshake" = true := by decide +kernel

/-- the client's `Handshake` succeeds only after the ServerAuth / ServerResponseHidden reader
succeeded and the datagram had exactly the length the reader consumed -/
theorem C01_client_success_needs_reader :
    onlyAfterEnforced prog_beginPQDiscoverableHandshake "readPQServerAuth" "writePQClientAuth" = true ∧
    onlyAfterEnforced prog_beginPQDiscoverableHandshake "readPQServerHello" "writePQClientAck" = true ∧
    onlyAfterEnforced prog_clientHandshakeLocked "beginPQDiscoverableHandshake" "deriveFinalKeys" = true ∧
    onlyAfterEnforced prog_clientHandshakeLocked "beginPQHiddenHandshake" "deriveFinalKeys" = true ∧
    computes prog_beginPQHiddenHandshake "readPQServerResponseHidden" = true := by decide +kernel

/-- **C01 (server, discoverable).** If the ClientAuth reader succeeds, the sender proved possession
of the key in its certificate, and — when a policy is attached — the policy accepted it. -/
theorem C01_server_clientauth :
    ∀ mask, mask < 2 ^ 5 → ∀ poss cert cook time vs,
      runActs expClientAuth (envOf mask poss cert cook time vs) = true →
        (vs = true → cert = true) ∧ poss = true := by
  decide +kernel

/-- … the configured client-verification policy is attached when the ClientAck is accepted, before
the handshake state is stored; the connection is offered to `Accept` (`finishHandshake`) only after
the ClientAuth reader succeeded; and nothing in the ClientHello path stores or offers anything. -/
theorem C01_server_publish_discoverable :
    onlyAfterEnforced prog_readPacket_MessageTypeClientAck "set certVerify = s.config.ClientVerify" "setHandshakeState" = true ∧
    onlyAfterEnforced prog_readPacket_MessageTypeClientAck "readPQClientAck" "setHandshakeState" = true ∧
    onlyAfterEnforced prog_readPacket_MessageTypeClientAuth "readPQClientAuth" "finishHandshake" = true ∧
    computes prog_readPacket_MessageTypeClientAuth "finishHandshake" = true ∧
    computes prog_readPacket_MessageTypeClientAck "finishHandshake" = false ∧
    computes prog_readPacket_MessageTypeClientHello "finishHandshake" = false ∧
    computes prog_readPacket_MessageTypeClientHello "setHandshakeState" = false := by decide +kernel

/-- **C01 (server, hidden).** If the hidden request reader succeeds with a policy attached, the
policy accepted the client certificate (and the timestamp is fresh). -/
theorem C01_server_request_hidden :
    ∀ mask, mask < 2 ^ 7 → ∀ poss cert cook time,
      runActs expRequestHidden (envOf mask poss cert cook time true) = true → cert = true ∧ time = true := by
  decide +kernel

/-- … the policy *is* attached on the hidden path before the request is read, the response is sent
only after the reader succeeded, and the session keys are derived after the response writer
absorbed DH(server static, client static): data can be exchanged on the session only by a client
holding the private key of the certificate it presented. -/
theorem C01_server_publish_hidden :
    onlyAfterEnforced prog_handlePQClientRequestHidden "set certVerify = s.config.ClientVerify" "readPQClientRequestHidden" = true ∧
    computes prog_handlePQClientRequestHidden "readPQClientRequestHidden" = true ∧
    onlyAfterEnforced prog_readPacket_MessageTypeClientRequestHidden "handlePQClientRequestHidden" "writePQServerResponseHidden" = true ∧
    onlyAfterEnforced prog_readPacket_MessageTypeClientRequestHidden "writePQServerResponseHidden" "finishHandshake" = true ∧
    Act.absorbStatic ∈ prog_writePQServerResponseHidden.map classify := by decide +kernel

/-- **C01 — the policy, stated outright** (`certificateParserAndVerifier`): acceptance is exactly
"parses, and (no policy or skip, or an authorized key with a well-formed leaf when authorized keys
are allowed, or a chain that verifies), and the additional callback agrees". -/
theorem C01_policy_cases (p : Policy) (f : CertFacts) :
    policyAccepts p f = true ↔
      f.parses = true ∧
      (p.configured = false ∨ p.skip = true ∨ (p.authKeys = true ∧ f.formatOK = true ∧ f.keyListed = true) ∨
        f.chainOK = true) ∧
      (p.configured = true → p.callback = true → f.callbackOK = true) := by
  obtain ⟨c, s, a, cb⟩ := p
  obtain ⟨pa, fo, kl, ch, co⟩ := f
  cases c <;> cases s <;> cases a <;> cases cb <;> cases pa <;> cases fo <;> cases kl <;> cases ch <;> cases co <;>
    simp [policyAccepts]

/-- an authorized key never helps a certificate of the wrong type or name, and a listed key is not
needed when the chain verifies -/
theorem C01_policy_corollaries (p : Policy) (f : CertFacts) (hc : p.configured = true) (hs : p.skip = false) :
    (policyAccepts p f = true → f.chainOK = true ∨ (p.authKeys = true ∧ f.formatOK = true ∧ f.keyListed = true)) := by
  intro h
  have := (C01_policy_cases p f).mp h
  rcases this.2.1 with h1 | h1 | h1 | h1
  · rw [hc] at h1; cases h1
  · rw [hs] at h1; cases h1
  · exact Or.inr h1
  · exact Or.inl h1

/-! ### non-vacuity -/

example : runActs expServerAuth (envOf (allHonest 6) true true true true true) = true := by decide +kernel
example : runActs expServerAuth (envOf (allHonest 6) false true true true true) = false := by decide +kernel
example : policyAccepts ⟨true, false, true, false⟩ ⟨true, true, true, false, true⟩ = true := by decide
example : policyAccepts ⟨true, false, false, false⟩ ⟨true, true, true, false, true⟩ = false := by decide

end Handshake
