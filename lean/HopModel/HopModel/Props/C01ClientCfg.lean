/-
C01, the client's trust configuration: the decision of `ClientCfg.accepts` stated outright, and what the merged
configuration is for every Global block and every list of applied host blocks.
-/
import HopModel.Model.ClientCfg
namespace ClientCfg

/-- **C01 (client configuration).** The client accepts a server only if verification was switched off in the
effective configuration, or the presented chain ends in a root listed in an applied CAFiles option and the leaf
carries the expected name with its type. -/
theorem C01_client_cfg_accepts_iff (b : Block) (host : String) (p : Presented) :
    accepts b host p = true ↔
      b.skip = some true ∨ ((∃ r, p.anchor = some r ∧ r ∈ b.cas) ∧ expected b host ∈ p.names) := by
  unfold accepts skips anchored
  cases hs : b.skip with
  | none => cases ha : p.anchor <;> simp
  | some v => cases v <;> cases ha : p.anchor <;> simp

theorem over_none {α : Type} (e : Option α) : over none e = e := rfl
theorem over_some {α : Type} (x : α) (e : Option α) : over (some x) e = some x := rfl

/-- the last applied block that sets an option decides it; if none sets it, the Global block does -/
def lastSet {α : Type} (f : Block → Option α) (global : Block) (applied : List Block) : Option α :=
  over (applied.reverse.findSome? f) (f global)

theorem over_or {α : Type} (a b c : Option α) : over (a.or b) c = over a (over b c) := by
  cases a <;> cases b <;> rfl

/-- for every option that MergeWith treats as "set overrides unset" -/
theorem effective_field {α : Type} (f : Block → Option α) (hf : ∀ g h, f (merge g h) = over (f h) (f g))
    (g : Block) (bs : List Block) : f (effective g bs) = lastSet f g bs := by
  induction bs generalizing g with
  | nil => simp [effective, lastSet, over]
  | cons h bs ih =>
    have : effective g (h :: bs) = effective (merge g h) bs := rfl
    rw [this, ih]
    unfold lastSet
    rw [hf]
    simp only [List.reverse_cons, List.findSome?_append, List.findSome?_cons, List.findSome?_nil]
    rw [over_or]
    cases f h <;> rfl

/-- **C01 (host block overrides Global, set overrides unset)** for the option that switches verification off … -/
theorem C01_effective_skip (g : Block) (bs : List Block) :
    (effective g bs).skip = lastSet (·.skip) g bs :=
  effective_field (·.skip) (fun _ _ => rfl) g bs

/-- … and for the expected-name options -/
theorem C01_effective_names (g : Block) (bs : List Block) :
    (effective g bs).sn = lastSet (·.sn) g bs ∧ (effective g bs).ip4 = lastSet (·.ip4) g bs ∧
      (effective g bs).ip6 = lastSet (·.ip6) g bs :=
  ⟨effective_field (·.sn) (fun _ _ => rfl) g bs, effective_field (·.ip4) (fun _ _ => rfl) g bs,
   effective_field (·.ip6) (fun _ _ => rfl) g bs⟩

/-- the trusted roots are those listed in the Global block or in an applied block, and no others -/
theorem C01_effective_cas (g : Block) (bs : List Block) (r : String) :
    r ∈ (effective g bs).cas ↔ r ∈ g.cas ∨ ∃ b ∈ bs, r ∈ b.cas := by
  induction bs generalizing g with
  | nil => simp [effective]
  | cons h bs ih =>
    have : effective g (h :: bs) = effective (merge g h) bs := rfl
    rw [this, ih]
    simp only [merge, List.mem_append, List.mem_cons]
    constructor
    · rintro ((h1 | h2) | ⟨b, hb, hr⟩)
      · exact Or.inl h1
      · exact Or.inr ⟨h, Or.inl rfl, h2⟩
      · exact Or.inr ⟨b, Or.inr hb, hr⟩
    · rintro (h1 | ⟨b, hb | hb, hr⟩)
      · exact Or.inl (Or.inl h1)
      · exact Or.inl (Or.inr (hb ▸ hr))
      · exact Or.inr ⟨b, hb, hr⟩

/-- **C01 (a host block that demands verification gets it).** If the last applied block that mentions
InsecureSkipVerify says `false` — whatever the Global block and earlier blocks say — the client accepts only a
chain under a listed root for the expected name. -/
theorem C01_verification_demanded (g : Block) (bs : List Block) (host : String) (p : Presented)
    (hd : bs.reverse.findSome? (·.skip) = some false)
    (ha : accepts (effective g bs) host p = true) :
    (∃ r, p.anchor = some r ∧ (r ∈ g.cas ∨ ∃ b ∈ bs, r ∈ b.cas)) ∧ expected (effective g bs) host ∈ p.names := by
  have hs : (effective g bs).skip = some false := by
    rw [C01_effective_skip]; unfold lastSet; rw [hd]; rfl
  rcases (C01_client_cfg_accepts_iff _ _ _).mp ha with h | ⟨⟨r, hr, hm⟩, hn⟩
  · rw [hs] at h; cases h
  · exact ⟨⟨r, hr, (C01_effective_cas g bs r).mp hm⟩, hn⟩

/-- ServerName takes precedence over the address options, and the expected name is typed -/
theorem C01_expected_name (b : Block) (host : String) :
    (∀ s, b.sn = some s → s ≠ "" → expected b host = ⟨.dns, s⟩) ∧
    (∀ s, str b.sn = "" → b.ip4 = some s → s ≠ "" → expected b host = ⟨.ip4, s⟩) ∧
    (str b.sn = "" → str b.ip4 = "" → str b.ip6 = "" → expected b host = ⟨.dns, host⟩) := by
  refine ⟨?_, ?_, ?_⟩
  · intro s hs hne; simp [expected, str, hs, hne]
  · intro s h1 hs hne
    have h2 : str b.ip4 = s := by simp [str, hs]
    simp [expected, h1, h2, hne]
  · intro h1 h2 h3; simp [expected, h1, h2, h3]

-- non-vacuity: Global switches verification off, the host block switches it back on
example :
    let g : Block := { skip := some true }
    let h : Block := { skip := some false, sn := some "srv.example", cas := ["own"] }
    accepts (effective g [h]) "127.0.0.1" ⟨[⟨.dns, "srv.example"⟩], none⟩ = false ∧
    accepts (effective g [h]) "127.0.0.1" ⟨[⟨.dns, "srv.example"⟩], some "own"⟩ = true ∧
    accepts (effective g [h]) "127.0.0.1" ⟨[⟨.raw, "srv.example"⟩], some "own"⟩ = false ∧
    accepts (effective g []) "127.0.0.1" ⟨[], none⟩ = true := by decide

end ClientCfg
