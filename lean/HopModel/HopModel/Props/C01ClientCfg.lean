/-
C01, the client's trust configuration: the decision of `ClientCfg.accepts` stated outright, and what the merged
configuration is for every Global block and every list of applied host blocks.
-/
import HopModel.Model.ClientCfg
namespace ClientCfg

/-- **C01 (client configuration).** The client accepts a server only if verification was switched off in the
effective configuration, or the presented chain ends in a root listed in an applied CAFiles option and the leaf
carries the expected name with its type. -/
theorem C01_client_cfg_accepts_iff (b : Block) (host : String) (p : Presented) :
    accepts b host p = true ↔
      b.skip = some true ∨ ((∃ r, p.anchor = some r ∧ r ∈ b.cas) ∧ expected b host ∈ p.names) := by
  unfold accepts skips anchored
  cases hs : b.skip with
  | none => cases ha : p.anchor <;> simp
  | some v => cases v <;> cases ha : p.anchor <;> simp

theorem over_none {α : Type} (e : Option α) : over none e = e := rfl
theorem over_some {α : Type} (x : α) (e : Option α) : over (some x) e = some x := rfl

/-- the last applied block that sets an option decides it; if none sets it, the Global block does -/
def lastSet {α : Type} (f : Block → Option α) (global : Block) (applied : List Block) : Option α :=
  over (applied.reverse.findSome? f) (f global)

theorem effective_append (g : Block) (bs : List Block) (h : Block) :
    effective g (bs ++ [h]) = merge (effective g bs) h := by
  unfold effective; simp [List.foldl_append]

theorem lastSet_append {α : Type} (f : Block → Option α) (g : Block) (bs : List Block) (h : Block) :
    lastSet f g (bs ++ [h]) = over (f h) (lastSet f g bs) := by
  unfold lastSet
  simp only [List.reverse_append, List.reverse_cons, List.reverse_nil, List.nil_append, List.cons_append,
    List.findSome?_cons]
  cases f h <;> rfl

/-- **C01 (host block overrides Global, set overrides unset)** for the option that switches verification off … -/
theorem C01_effective_skip (g : Block) (bs : List Block) :
    (effective g bs).skip = lastSet (·.skip) g bs := by
  induction bs using List.reverseRecOn with
  | nil => simp [effective, lastSet, over]
  | append_singleton bs h ih => rw [effective_append, lastSet_append, ← ih]; rfl

/-- … and for the expected-name options -/
theorem C01_effective_names (g : Block) (bs : List Block) :
    (effective g bs).sn = lastSet (·.sn) g bs ∧ (effective g bs).ip4 = lastSet (·.ip4) g bs ∧
      (effective g bs).ip6 = lastSet (·.ip6) g bs := by
  induction bs using List.reverseRecOn with
  | nil => simp [effective, lastSet, over]
  | append_singleton bs h ih =>
    rw [effective_append, lastSet_append, lastSet_append, lastSet_append, ← ih.1, ← ih.2.1, ← ih.2.2]
    exact ⟨rfl, rfl, rfl⟩

/-- the trusted roots are those listed in the Global block or in an applied block, and no others -/
theorem C01_effective_cas (g : Block) (bs : List Block) (r : String) :
    r ∈ (effective g bs).cas ↔ r ∈ g.cas ∨ ∃ b ∈ bs, r ∈ b.cas := by
  induction bs using List.reverseRecOn with
  | nil => simp [effective]
  | append_singleton bs h ih =>
    rw [effective_append]
    simp only [merge, List.mem_append, ih, List.mem_singleton]
    constructor
    · rintro ((h1 | ⟨b, hb, hr⟩) | h3)
      · exact Or.inl h1
      · exact Or.inr ⟨b, Or.inl hb, hr⟩
      · exact Or.inr ⟨h, Or.inr rfl, h3⟩
    · rintro (h1 | ⟨b, hb | hb, hr⟩)
      · exact Or.inl (Or.inl h1)
      · exact Or.inl (Or.inr ⟨b, hb, hr⟩)
      · exact Or.inr (hb ▸ hr)

/-- **C01 (a host block that demands verification gets it).** If the last applied block that mentions
InsecureSkipVerify says `false` — whatever the Global block and earlier blocks say — the client accepts only a
chain under a listed root for the expected name. -/
theorem C01_verification_demanded (g : Block) (bs : List Block) (host : String) (p : Presented)
    (hd : bs.reverse.findSome? (·.skip) = some false)
    (ha : accepts (effective g bs) host p = true) :
    (∃ r, p.anchor = some r ∧ (r ∈ g.cas ∨ ∃ b ∈ bs, r ∈ b.cas)) ∧ expected (effective g bs) host ∈ p.names := by
  have hs : (effective g bs).skip = some false := by
    rw [C01_effective_skip]; unfold lastSet; rw [hd]; rfl
  rcases (C01_client_cfg_accepts_iff _ _ _).mp ha with h | ⟨⟨r, hr, hm⟩, hn⟩
  · rw [hs] at h; cases h
  · exact ⟨⟨r, hr, (C01_effective_cas g bs r).mp hm⟩, hn⟩

/-- ServerName takes precedence over the address options, and the expected name is typed -/
theorem C01_expected_name (b : Block) (host : String) :
    (∀ s, b.sn = some s → s ≠ "" → expected b host = ⟨.dns, s⟩) ∧
    (∀ s, str b.sn = "" → b.ip4 = some s → s ≠ "" → expected b host = ⟨.ip4, s⟩) ∧
    (str b.sn = "" → str b.ip4 = "" → str b.ip6 = "" → expected b host = ⟨.dns, host⟩) := by
  refine ⟨?_, ?_, ?_⟩
  · intro s hs hne; simp [expected, str, hs, hne]
  · intro s h1 hs hne; simp [expected, h1, str, hs, hne]
  · intro h1 h2 h3; simp [expected, h1, h2, h3]

-- non-vacuity: Global switches verification off, the host block switches it back on
example :
    let g : Block := { skip := some true }
    let h : Block := { skip := some false, sn := some "srv.example", cas := ["own"] }
    accepts (effective g [h]) "127.0.0.1" ⟨[⟨.dns, "srv.example"⟩], none⟩ = false ∧
    accepts (effective g [h]) "127.0.0.1" ⟨[⟨.dns, "srv.example"⟩], some "own"⟩ = true ∧
    accepts (effective g [h]) "127.0.0.1" ⟨[⟨.raw, "srv.example"⟩], some "own"⟩ = false ∧
    accepts (effective g []) "127.0.0.1" ⟨[], none⟩ = true := by decide

end ClientCfg
