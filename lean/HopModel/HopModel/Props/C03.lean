/-
C03 — Transport channel: authentic, at-most-once, complete and confidential delivery.

Statements are about `Session.recv` (one end of one session processing one datagram from one
source address) and `Session.run` (any adversary schedule).  IdealAEAD is built into
`Session.genuine`: a datagram opens iff it is an unmodified sealing under this end's read key whose
header is the header that was sealed.
-/
import HopModel.Proofs.Session
import HopModel.Generated.Consts
namespace Session
open Replay

/-- **C03 (a).** A datagram that does not authenticate — forged, bit-flipped, truncated, extended,
reflected, from another session or the other direction — leaves the session state *identical*:
not closed, window, queue and peer address untouched. -/
theorem C03_forged_noop (e : Ep) (a : Nat) (d : DG) (h : genuine e d = false) : recv e a d = e := by
  unfold recv
  rcases recvV_cases e a d with h0 | ⟨p, _, hg, _⟩
  · exact h0
  · rw [h] at hg; cases hg

/-- sealed under another session's key, under the other direction's key, or reflected: no effect -/
theorem C03_no_cross (e : Ep) (a : Nat) (d : DG) (p : Sealed) (hp : d.sealed = some p)
    (h : p.sess ≠ e.sess ∨ p.dir ≠ e.rdir) : recv e a d = e := by
  apply C03_forged_noop
  unfold genuine
  rw [hp]
  rcases h with h | h <;> simp [h]

/-- **C03 (b), one step.** Whatever is added to the reader's queue is the payload of a genuine
transport sealing whose counter was fresh, and it is recorded as accepted. -/
theorem C03_queued_is_genuine (e : Ep) (a : Nat) (d : DG) (h : (recv e a d).queue ≠ e.queue) :
    ∃ p, d.sealed = some p ∧ genuine e d = true ∧ checkU e.win d.ctr = true ∧
      (recv e a d).queue = e.queue ++ [p.pay] ∧ (recv e a d).accepted = p :: e.accepted := by
  unfold recv at *
  rcases recvV_cases e a d with h0 | ⟨p, hs, hg, hc, _, _, _, hshape⟩
  · rw [h0] at h; exact absurd rfl h
  · refine ⟨p, hs, hg, hc, ?_⟩
    rcases hshape with ⟨_, _, hr⟩ | ⟨_, _, hr⟩ | ⟨_, _, hr⟩ | ⟨_, _, hr⟩ <;> rw [hr] at h ⊢ <;> simp_all

/-- invariant carried along every schedule -/
structure Inv (e : Ep) (sess : Nat) (rdir : Dir) : Prop where
  win : WinOK e
  peer : ∀ p ∈ e.accepted, p.sess = sess ∧ p.dir = rdir
  queue : ∀ m ∈ e.queue, ∃ p ∈ e.accepted, p.pay = m ∧ p.mt = mtTransport
  same : e.sess = sess ∧ e.rdir = rdir
  nodup : (e.accepted.map (·.ctr)).Nodup

/-- every sealing that exists carries a counter below 2^63 (senders start at 0 and count up) -/
def CountersBounded (sched : List (Nat × DG)) : Prop :=
  ∀ ad ∈ sched, ∀ p, ad.2.sealed = some p → p.ctr < 2 ^ 63

theorem inv_step {e : Ep} {sess : Nat} {rdir : Dir} (hi : Inv e sess rdir) (a : Nat) (d : DG)
    (hb : ∀ p, d.sealed = some p → p.ctr < 2 ^ 63) : Inv (recv e a d) sess rdir := by
  unfold recv
  rcases recvV_cases e a d with h0 | ⟨p, hs, hg, hc, _, _, hmt, hshape⟩
  · rw [h0]; exact hi
  · obtain ⟨p', hs', _, hsess, hdir, hmtp, _, _, hctr, _⟩ := genuine_sealed hg
    rw [hs] at hs'; cases hs'
    have hq : d.ctr < 2 ^ 63 := by rw [hctr]; exact hb p hs
    -- the window step is exactly `acceptU`, and the reference filter accepted the counter
    have hacc : compact (markU e.win d.ctr) = acceptU e.win d.ctr := by unfold acceptU; rw [hc]; rfl
    have hspec : specAccepts (e.accepted.map (·.ctr)) d.ctr = true := by
      rw [← sim_check hi.win hq]; exact hc
    have hwin : Sim (compact (markU e.win d.ctr)) ((p :: e.accepted).map (·.ctr)) := by
      have := sim_step hi.win hq
      rw [hspec] at this
      rw [hacc]; simpa [hctr] using this
    have hfresh : d.ctr ∉ e.accepted.map (·.ctr) := by
      unfold specAccepts at hspec
      simp only [Bool.and_eq_true, Bool.not_eq_true', decide_eq_true_eq] at hspec
      have := hspec.1
      simpa [List.contains_iff_mem] using this
    have hpeer : ∀ q ∈ p :: e.accepted, q.sess = sess ∧ q.dir = rdir := by
      intro q hq
      rcases List.mem_cons.mp hq with rfl | hq
      · exact ⟨hsess.trans hi.same.1, hdir.trans hi.same.2⟩
      · exact hi.peer q hq
    have hnd : ((p :: e.accepted).map (·.ctr)).Nodup := by
      simp only [List.map_cons, List.nodup_cons]
      exact ⟨by rw [← hctr]; exact hfresh, hi.nodup⟩
    have hqold : ∀ m ∈ e.queue, ∃ q ∈ p :: e.accepted, q.pay = m ∧ q.mt = mtTransport := by
      intro m hm
      obtain ⟨q, hq, h1, h2⟩ := hi.queue m hm
      exact ⟨q, List.mem_cons_of_mem _ hq, h1, h2⟩
    rcases hshape with ⟨hm, _, hr⟩ | ⟨_, _, hr⟩ | ⟨_, _, hr⟩ | ⟨_, _, hr⟩ <;> rw [hr]
    · refine ⟨hwin, hpeer, ?_, hi.same, hnd⟩
      intro m hmem
      simp only [List.mem_append, List.mem_singleton] at hmem
      rcases hmem with hmem | rfl
      · exact hqold m hmem
      · exact ⟨p, List.mem_cons_self, rfl, by rw [← hmtp]; exact hm⟩
    · exact ⟨hwin, hpeer, hqold, hi.same, hnd⟩
    · exact ⟨hwin, hpeer, hqold, hi.same, hnd⟩
    · exact ⟨hwin, hpeer, hqold, hi.same, hnd⟩

theorem inv_run {e : Ep} {sess : Nat} {rdir : Dir} (hi : Inv e sess rdir) (sched : List (Nat × DG))
    (hb : CountersBounded sched) : Inv (run e sched) sess rdir := by
  induction sched generalizing e with
  | nil => exact hi
  | cons ad rest ih =>
    simp only [run, List.foldl_cons]
    exact ih (inv_step hi ad.1 ad.2 (fun p hp => hb ad (by simp) p hp))
      (fun x hx => hb x (by simp [hx]))

theorem inv_fresh (s : Nat) (dir : Dir) (c r : Nat) : Inv (freshEp s dir c r) s dir :=
  ⟨winOK_fresh s dir c r, by simp [freshEp], by simp [freshEp], ⟨rfl, rfl⟩, by simp [freshEp]⟩

/-- **C03 (b).** For every adversary schedule against a freshly established session end: every
message waiting for (and hence ever returned to) the reader is the payload of a transport packet
sealed by the peer on *this* session in *this* direction, and no sealing is accepted twice — however
the network drops, duplicates, reorders, truncates, corrupts, reflects or cross-injects. -/
theorem C03_accepted_genuine_once (s : Nat) (dir : Dir) (c r : Nat) (sched : List (Nat × DG))
    (hb : CountersBounded sched) :
    let e := run (freshEp s dir c r) sched
    (∀ m ∈ e.queue, ∃ p ∈ e.accepted, p.pay = m ∧ p.mt = mtTransport) ∧
    (∀ p ∈ e.accepted, p.sess = s ∧ p.dir = dir) ∧
    (e.accepted.map (·.ctr)).Nodup := by
  have h := inv_run (inv_fresh s dir c r) sched hb
  exact ⟨h.queue, h.peer, h.nodup⟩

/-- **C03 (c).** A session is closed by the network only through an authentic control message. -/
theorem C03_closed_only_by_authentic_control (e : Ep) (a : Nat) (d : DG)
    (h : (recv e a d).closed = true) (h0 : e.closed = false) :
    genuine e d = true ∧ d.mt = mtControl := by
  unfold recv at h
  rcases recvV_cases e a d with h1 | ⟨p, _, hg, _, _, _, hmt, hshape⟩
  · rw [h1, h0] at h; cases h
  · refine ⟨hg, ?_⟩
    rcases hshape with ⟨_, _, hr⟩ | ⟨_, _, hr⟩ | ⟨hm, _, _⟩ | ⟨hm, _, _⟩
    · rw [hr] at h; simp [h0] at h
    · rw [hr] at h; simp [h0] at h
    · rcases hmt with h' | h'
      · exact absurd h' hm
      · exact h'
    · rcases hmt with h' | h'
      · exact absurd h' hm
      · exact h'

/-! ### writes -/

theorem chunksFrom_flatten (buf : List UInt8) (fuel off len : Nat) (hf : len / maxPlaintext < fuel) :
    ((chunksFrom fuel off len).map fun ol => (buf.drop ol.1).take ol.2).flatten
      = (buf.drop off).take len := by
  induction fuel generalizing off len with
  | zero => exact absurd hf (Nat.not_lt_zero _)
  | succ fuel ih =>
    unfold chunksFrom
    by_cases h : len ≤ maxPlaintext
    · simp [h]
    · simp only [h, if_false, List.map_cons, List.flatten_cons]
      have hlen : len = maxPlaintext + (len - maxPlaintext) := by omega
      rw [ih (off + maxPlaintext) (len - maxPlaintext) (by unfold maxPlaintext at *; omega)]
      conv => rhs; rw [hlen, List.take_add]
      simp [List.drop_drop]

theorem chunksFrom_le (fuel off len : Nat) : ∀ ol ∈ chunksFrom fuel off len, ol.2 ≤ maxPlaintext := by
  induction fuel generalizing off len with
  | zero => simp [chunksFrom]
  | succ fuel ih =>
    unfold chunksFrom
    by_cases h : len ≤ maxPlaintext
    · simp [h]
    · simp only [h, if_false, List.mem_cons]
      rintro ol (rfl | hm)
      · exact Nat.le_refl _
      · exact ih _ _ ol hm

/-- **C03 (d).** A write of any size is cut into packets of at most `MaxPlaintextSize` bytes whose
concatenation is exactly the buffer (so the reported length is the buffer's), and at least one
packet is sent (an empty write is one empty message). -/
theorem C03_write_chunks (buf : List UInt8) :
    ((chunks buf.length).map fun ol => (buf.drop ol.1).take ol.2).flatten = buf ∧
    (∀ ol ∈ chunks buf.length, ol.2 ≤ maxPlaintext) ∧ chunks buf.length ≠ [] := by
  refine ⟨?_, chunksFrom_le _ _ _, ?_⟩
  · unfold chunks
    rw [chunksFrom_flatten buf _ 0 buf.length (by omega)]
    simp
  · unfold chunks chunksFrom
    by_cases h : buf.length ≤ maxPlaintext <;> simp [h]

/-- counters are strictly increasing on the sending side: every sealing gets its own -/
theorem C03_counters_strict (e : Ep) (mt mt' : Nat) (pay pay' : Pay) :
    (sealPkt e mt pay).2.ctr < (sealPkt (sealPkt e mt pay).1 mt' pay').2.ctr := by
  simp [sealPkt]

/-- **C03 (e), faithful network.** What the peer sealed and the network delivers unchanged, once,
in order, is handed to the reader — as long as the (documented) queue bound is not exceeded. -/
theorem C03_faithful_delivery (e : Ep) (a : Nat) (p : Sealed)
    (hs : p.sess = e.sess) (hd : p.dir = e.rdir) (hmt : p.mt = mtTransport)
    (hfresh : checkU e.win p.ctr = true) (hopen : e.closed = false) (hk : e.hasKey = true)
    (hroom : e.queue.length < e.cap) :
    (recv e a (wire p)).queue = e.queue ++ [p.pay] := by
  have hg : genuine e (wire p) = true := by simp [genuine, wire, hs, hd]
  unfold recv
  rcases recvV_cases e a (wire p) with h0 | ⟨p', hs', _, _, _, _, _, hshape⟩
  · -- impossible: every guard passes
    exfalso
    have : (recvV e a (wire p)).1.queue = e.queue ++ [p.pay] := by
      unfold recvV
      simp [wire, overhead, hs, hopen, hmt, mtTransport, mtControl, hk, hroom, genuine, hd]
      have : checkU e.win p.ctr = true := hfresh
      have h8 : ¬ (48 + p.pay.len < 8) := by omega
      have h48 : ¬ (48 + p.pay.len < 48) := by omega
      simp [this, h8, h48]
    rw [h0] at this
    have := congrArg List.length this
    simp at this
  · simp only [wire] at hs'
    cases hs'
    rcases hshape with ⟨_, _, hr⟩ | ⟨_, hq, _⟩ | ⟨hm, _, _⟩ | ⟨hm, _, _⟩
    · rw [hr]
    · exact absurd hroom hq
    · exact absurd hmt hm
    · exact absurd hmt hm

/-! ### confidentiality of the wire format -/

/-- what an observer of the wire learns from a datagram without the key: its length and the public
header (type byte, reserved bytes, session identifier, counter) -/
def DG.publicView (d : DG) : Nat × Nat × Bool × Option Nat × Nat := (d.len, d.mt, d.rsvOk, d.sid, d.ctr)

/-- **C03 (f).** Two sealings that differ only in the *content* of what they carry (same session,
direction, counter, type and payload length) look the same on the wire: application data appears
only inside the sealing.  (That the sealing itself hides it is SANSE's confidentiality — assumed;
the observable counterpart is the `scan` of every emitted datagram in the correspondence run.) -/
theorem C03_wire_hides_payload (p q : Sealed) (hs : p.sess = q.sess) (hc : p.ctr = q.ctr)
    (hm : p.mt = q.mt) (hl : p.pay.len = q.pay.len) :
    (wire p).publicView = (wire q).publicView := by
  simp [wire, DG.publicView, hs, hc, hm, hl]

/-! ### non-vacuity -/

private def p0 : Sealed := { sess := 0, dir := .c2s, ctr := 0, mt := mtTransport, pay := .data 1 0 10 }

example : genuine (freshEp 0 .c2s 4 7) (wire p0) = true := by decide
example : (recv (freshEp 0 .c2s 4 7) 9 (wire p0)).queue = [.data 1 0 10] := by
  simp [recv, recvV, wire, p0, freshEp, overhead, mtTransport, mtControl, genuine, checkU, Replay.init, Pay.len,
    bit, slot, loc]
example : CountersBounded [(9, wire p0), (3, { wire p0 with intact := false })] := by
  intro ad had p hp
  simp at had
  rcases had with rfl | rfl <;> simp [wire, p0] at hp <;> subst hp <;> decide

/-! ### obligations on the constants extracted from the source (G-tie) -/

example : Generated.transport_MessageTypeTransport = mtTransport := by decide
example : Generated.transport_MessageTypeControl = mtControl := by decide
example : Generated.transport_ControlMessageClose = 1 := by decide
example : Generated.transport_MaxPlaintextSize = maxPlaintext := by decide
example : Generated.transport_HeaderLen + Generated.transport_SessionIDLen
            + Generated.transport_CounterLen + Generated.transport_TagLen = overhead := by decide
example : Generated.transport_AssociatedDataLen = 16 := by decide

end Session
