/-
C15 — A session's peer address moves only on authentic, fresh packets.

Same model as C03 (`Session.recv`): `remote` is the address index an endpoint sends to; the update
sits after open and dispatch, as in both `handleSessionMessage` functions.
-/
import HopModel.Proofs.Session
namespace Session
open Replay

/-- **C15 (a).** The peer address changes only on a datagram that authenticates under the session
keys (`genuine`) *and* passes the replay filter — and then it becomes that datagram's source.
Forged, corrupted or replayed packets from any address never redirect traffic. -/
theorem C15_move_only_authentic_fresh (e : Ep) (a : Nat) (d : DG)
    (h : (recv e a d).remote ≠ e.remote) :
    genuine e d = true ∧ checkU e.win d.ctr = true ∧ (recv e a d).remote = a := by
  unfold recv at *
  rcases recvV_cases e a d with h0 | ⟨p, _, hg, hc, _, _, _, hshape⟩
  · rw [h0] at h; exact absurd rfl h
  · refine ⟨hg, hc, ?_⟩
    rcases hshape with ⟨_, _, hr⟩ | ⟨_, _, hr⟩ | ⟨_, _, hr⟩ | ⟨_, _, hr⟩
    · rw [hr]
    · rw [hr]
    · rw [hr]
    · rw [hr] at h; exact absurd rfl h

/-- **C15 (b).** After a genuine fresh transport packet (or close message) from a new address the
endpoint sends to that address: a roaming client keeps its session. -/
theorem C15_follows (e : Ep) (a : Nat) (p : Sealed)
    (hs : p.sess = e.sess) (hd : p.dir = e.rdir)
    (hmt : p.mt = mtTransport ∨ (p.mt = mtControl ∧ p.pay = .ctl [1]))
    (hfresh : checkU e.win p.ctr = true) (hopen : e.closed = false) (hk : e.hasKey = true) :
    (recv e a (wire p)).remote = a := by
  have hg : genuine e (wire p) = true := by simp [genuine, wire, hs, hd]
  have h8 : ¬ (48 + p.pay.len < 8) := by omega
  have h48 : ¬ (48 + p.pay.len < 48) := by omega
  have hf : checkU e.win p.ctr = true := hfresh
  unfold recv recvV
  rcases hmt with hm | ⟨hm, hp⟩
  · by_cases hq : e.queue.length < e.cap <;>
      simp [wire, overhead, hs, hopen, hm, mtTransport, mtControl, hk, genuine, hd, hf, h8, h48, hq]
  · simp [wire, overhead, hs, hopen, hm, hp, mtTransport, mtControl, hk, genuine, hd, hf, h8, h48, Pay.len]

/-- sources of the datagrams of a schedule whose ciphertext is an intact genuine sealing for this
session and direction -/
def genuineSources (sess : Nat) (rdir : Dir) (sched : List (Nat × DG)) : List Nat :=
  (sched.filter fun ad => match ad.2.sealed with
    | some p => ad.2.intact && decide (p.sess = sess) && decide (p.dir = rdir)
    | none => false).map (·.1)

/-- **C15 (c).** Over every interleaving of genuine packets from changing addresses with forged,
bit-flipped and replayed copies from other addresses: the address an endpoint ends up sending to is
the one it started with or the source of one of the intact genuine packets of this session and
direction — never the source of anything else. -/
theorem C15_schedule (e : Ep) (sched : List (Nat × DG)) :
    (run e sched).remote = e.remote ∨ (run e sched).remote ∈ genuineSources e.sess e.rdir sched := by
  induction sched generalizing e with
  | nil => left; rfl
  | cons ad rest ih =>
    simp only [run, List.foldl_cons]
    have hsame : (recv e ad.1 ad.2).sess = e.sess ∧ (recv e ad.1 ad.2).rdir = e.rdir := by
      unfold recv
      rcases recvV_cases e ad.1 ad.2 with h0 | ⟨p, _, _, _, _, _, _, hshape⟩
      · rw [h0]; exact ⟨rfl, rfl⟩
      · rcases hshape with ⟨_, _, hr⟩ | ⟨_, _, hr⟩ | ⟨_, _, hr⟩ | ⟨_, _, hr⟩ <;> rw [hr] <;> exact ⟨rfl, rfl⟩
    have := ih (recv e ad.1 ad.2)
    rw [hsame.1, hsame.2] at this
    have hsub : ∀ x, x ∈ genuineSources e.sess e.rdir rest → x ∈ genuineSources e.sess e.rdir (ad :: rest) := by
      intro x hx
      unfold genuineSources at *
      simp only [List.mem_map, List.mem_filter] at hx ⊢
      obtain ⟨y, ⟨hy, hf⟩, rfl⟩ := hx
      exact ⟨y, ⟨List.mem_cons_of_mem _ hy, hf⟩, rfl⟩
    rcases this with h | h
    · by_cases hmove : (recv e ad.1 ad.2).remote = e.remote
      · left; exact h.trans hmove
      · right
        obtain ⟨hg, _, ha⟩ := C15_move_only_authentic_fresh e ad.1 ad.2 hmove
        obtain ⟨p, hs, hint, hsess, hdir, _⟩ := genuine_sealed hg
        have : (run (recv e ad.1 ad.2) rest).remote = ad.1 := h.trans ha
        unfold run at this
        rw [this]
        unfold genuineSources
        simp only [List.mem_map, List.mem_filter]
        exact ⟨ad, ⟨by simp, by simp [hs, hint, hsess, hdir]⟩, rfl⟩
    · right; exact hsub _ h

/-- the destination of a sealed packet is the `remote` the endpoint holds when it seals -/
theorem C15_send_uses_current (e : Ep) (mt : Nat) (pay : Pay) :
    (sealPkt e mt pay).1.remote = e.remote := rfl

/-! ### non-vacuity -/

private def q0 : Sealed := { sess := 0, dir := .c2s, ctr := 5, mt := mtTransport, pay := .data 1 0 10 }

example : (recv (freshEp 0 .c2s 4 7) 9 (wire q0)).remote = 9 :=
  C15_follows _ _ _ rfl rfl (Or.inl rfl) (by simp [checkU, freshEp, Replay.init, q0]) rfl rfl

example : (recv (freshEp 0 .c2s 4 7) 9 { wire q0 with intact := false }).remote = 7 := by
  rw [C03_forged_noop_aux]; rfl
where
  C03_forged_noop_aux : recv (freshEp 0 .c2s 4 7) 9 { wire q0 with intact := false } = freshEp 0 .c2s 4 7 := by
    unfold recv
    rcases recvV_cases (freshEp 0 .c2s 4 7) 9 { wire q0 with intact := false } with h | ⟨p, _, hg, _⟩
    · exact h
    · simp [genuine, wire, q0] at hg

end Session
