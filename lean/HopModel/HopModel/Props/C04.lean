/-
C04 — Certificate verification accepts exactly the valid chains.

Model: `Model/Certs.lean` (`verifyLeaf`, `verifyParent`, `matchesName`, `addCertificate`, `issue`).
Spec: `ValidChain` below is the property's sentence: the certificate is of leaf type, matches the
requested name when one is given, is signed by an intermediate — the presented one if the leaf names
it, else the stored one it names — of intermediate type, that intermediate is signed by a root-type
certificate present in the trust store, and all three are valid at the verification time.
"Signed by" (`SignedBy`, `Proofs/Certs.lean`) = names the signer's fingerprint, carries at least a
signature's worth of raw bytes, and the Ed25519 check `sv` succeeds under the signer's public key.

Ed25519 and SHA3 are abstract (`sv`, fingerprint identities); every theorem holds for all `sv`,
all stores, options, clocks and certificates.
-/
import HopModel.Proofs.Certs
import HopModel.Generated.Consts
namespace Certs

def ValidChain (sv : Nat → Nat → Bool) (store : Store) (opts : Options) (now : Time) (leaf : Cert) : Prop :=
  leaf.ctype = leafT ∧ NameOK opts leaf ∧
  ∃ inter root,
    IsIntermediateFor store opts leaf inter ∧ inter.ctype = intermediateT ∧ SignedBy sv leaf inter ∧
    store.has root ∧ root.fp = inter.parent ∧ root.ctype = rootT ∧ SignedBy sv inter root ∧
    validAt now leaf = true ∧ validAt now inter = true ∧ validAt now root = true

/-- **C04.** `VerifyLeaf` returns nil if and only if the chain is valid — for every well-formed
store, every option set, every clock and every signature oracle. -/
theorem C04_verify_iff (sv : Nat → Nat → Bool) (clock : Time) {store : Store} (hwf : StoreWF store)
    (opts : Options) (leaf : Cert) :
    verifyLeaf sv clock store opts leaf = .ok ↔ ValidChain sv store opts (opts.now clock) leaf := by
  constructor
  · intro h
    unfold verifyLeaf at h
    split at h
    · cases h
    rename_i hlt
    have hlt : leaf.ctype = leafT := Decidable.not_not.mp hlt
    split at h
    · cases h
    rename_i hname
    have hname : nameRefused opts leaf = false := by simpa using hname
    split at h
    · cases h
    rename_i hvl
    have hvl : validAt (opts.now clock) leaf = true := by simpa using hvl
    split at h
    · cases h
    rename_i inter hch
    split at h
    · cases h
    rename_i hit
    have hit : inter.ctype = intermediateT := Decidable.not_not.mp hit
    split at h
    · cases h
    rename_i hvi
    have hvi : validAt (opts.now clock) inter = true := by simpa using hvi
    split at h
    · cases h
    rename_i hifp
    have hifp : inter.fp = leaf.parent := Decidable.not_not.mp hifp
    split at h
    · cases h
    rename_i hls
    have hls : verifyParent sv leaf inter = true := by simpa using hls
    split at h
    · cases h
    rename_i root hget
    split at h
    · cases h
    rename_i hrt
    have hrt : root.ctype = rootT := Decidable.not_not.mp hrt
    split at h
    · cases h
    rename_i hvr
    have hvr : validAt (opts.now clock) root = true := by simpa using hvr
    split at h
    · cases h
    split at h
    · cases h
    rename_i his
    have his : verifyParent sv inter root = true := by simpa using his
    have hr := (get_iff hwf _ _).mp hget
    exact ⟨hlt, (nameRefused_iff opts leaf hlt).mp hname, inter, root,
      (choose_iff hwf opts leaf inter).mp ⟨hch, hifp⟩, hit, (verifyParent_leaf sv hlt hit).mp hls, hr.1, hr.2, hrt,
      (verifyParent_inter sv hit hrt).mp his, hvl, hvi, hvr⟩
  · rintro ⟨hlt, hname, inter, root, hint, hit, hls, hrs, hrfp, hrt, his, hvl, hvi, hvr⟩
    have hch := (choose_iff hwf opts leaf inter).mpr hint
    have hget : store.get inter.parent = some root := (get_iff hwf _ _).mpr ⟨hrs, hrfp⟩
    have hn : nameRefused opts leaf = false := (nameRefused_iff opts leaf hlt).mpr hname
    unfold verifyLeaf
    simp [hlt, hn, hvl, hch.1, hit, hvi, hch.2, (verifyParent_leaf sv hlt hit).mpr hls, hget, hrt, hvr, hrfp,
      (verifyParent_inter sv hit hrt).mpr his]

/-- The property's sentence with a plain "presented or stored": some intermediate that is presented
*or* stored, whose fingerprint the leaf names. -/
def ValidChainAny (sv : Nat → Nat → Bool) (store : Store) (opts : Options) (now : Time) (leaf : Cert) : Prop :=
  leaf.ctype = leafT ∧ NameOK opts leaf ∧
  ∃ inter root,
    (opts.presented = some inter ∨ store.has inter) ∧ inter.fp = leaf.parent ∧
    inter.ctype = intermediateT ∧ SignedBy sv leaf inter ∧
    store.has root ∧ root.fp = inter.parent ∧ root.ctype = rootT ∧ SignedBy sv inter root ∧
    validAt now leaf = true ∧ validAt now inter = true ∧ validAt now root = true

/-- **C04, "presented or stored".** When fingerprints identify certificates (SHA3 collision freedom,
needed only between the presented certificate and the stored ones), the precedence of the presented
intermediate is invisible: acceptance is equivalent to the existence of *any* valid chain. -/
theorem C04_verify_iff_any (sv : Nat → Nat → Bool) (clock : Time) {store : Store} (hwf : StoreWF store)
    (opts : Options) (leaf : Cert)
    (hinj : ∀ p, opts.presented = some p → ∀ c, store.has c → c.fp = p.fp → c = p) :
    verifyLeaf sv clock store opts leaf = .ok ↔ ValidChainAny sv store opts (opts.now clock) leaf := by
  rw [C04_verify_iff sv clock hwf]
  constructor
  · rintro ⟨h1, h2, inter, root, hint, rest⟩
    refine ⟨h1, h2, inter, root, ?_, ?_, rest⟩
    · rcases hint with ⟨hp, _⟩ | ⟨_, hs, _⟩
      · exact Or.inl hp
      · exact Or.inr hs
    · rcases hint with ⟨_, hf⟩ | ⟨_, _, hf⟩
      · exact hf.symm
      · exact hf
  · rintro ⟨h1, h2, inter, root, hps, hfp, rest⟩
    refine ⟨h1, h2, inter, root, ?_, rest⟩
    rcases hps with hp | hs
    · exact Or.inl ⟨hp, hfp.symm⟩
    · cases hp : opts.presented with
      | none =>
        refine Or.inr ⟨?_, hs, hfp⟩
        intro p' hp'
        rw [hp] at hp'
        cases hp'
      | some p =>
        by_cases hlp : leaf.parent = p.fp
        · have : inter = p := hinj p hp inter hs (hfp.trans hlp)
          subst this
          exact Or.inl ⟨hp, hlp⟩
        · refine Or.inr ⟨?_, hs, hfp⟩
          intro p' hp'
          rw [hp] at hp'
          cases hp'
          exact hlp

/-- `StoreWF` is what `AddCertificate` establishes: any store built from the empty one is well-formed … -/
theorem C04_store_wf (cs : List Cert) : StoreWF (cs.foldl addCertificate []) := storeWF_build cs

/-- … with map semantics: the last certificate added under a fingerprint is the one found. -/
theorem C04_store_add_get (s : Store) (c : Cert) (fp : Nat) :
    (addCertificate s c).get fp = if fp = c.fp then some c else s.get fp := by
  split
  · rename_i h; subst h; exact get_add_self s c
  · rename_i h; exact get_add_other s c fp h

/-- so the equivalence holds for every store a program can build -/
theorem C04_verify_iff_built (sv : Nat → Nat → Bool) (clock : Time) (cs : List Cert) (opts : Options) (leaf : Cert) :
    verifyLeaf sv clock (cs.foldl addCertificate []) opts leaf = .ok ↔
      ValidChain sv (cs.foldl addCertificate []) opts (opts.now clock) leaf :=
  C04_verify_iff sv clock (C04_store_wf cs) opts leaf

/-- **Expiry is exclusive** (and issuance inclusive) for all three certificates of an accepted chain:
at the instant `ExpiresAt` itself verification fails. -/
theorem C04_expiry_exclusive (sv : Nat → Nat → Bool) (clock : Time) {store : Store} (hwf : StoreWF store)
    (opts : Options) (leaf : Cert) (h : verifyLeaf sv clock store opts leaf = .ok) :
    ∃ inter root, IsIntermediateFor store opts leaf inter ∧ store.has root ∧ root.fp = inter.parent ∧
      ∀ c ∈ [leaf, inter, root], (opts.now clock).before c.issuedAt = false ∧
        (opts.now clock).before c.expiresAt = true ∧ opts.now clock ≠ c.expiresAt := by
  obtain ⟨_, _, inter, root, hint, _, _, hrs, hrfp, _, _, hvl, hvi, hvr⟩ := (C04_verify_iff sv clock hwf opts leaf).mp h
  refine ⟨inter, root, hint, hrs, hrfp, ?_⟩
  have key : ∀ c, validAt (opts.now clock) c = true → (opts.now clock).before c.issuedAt = false ∧
      (opts.now clock).before c.expiresAt = true ∧ opts.now clock ≠ c.expiresAt := by
    intro c hv
    have hv := (validAt_iff _ _).mp hv
    refine ⟨hv.1, hv.2, ?_⟩
    intro heq
    have h2 := hv.2
    rw [heq, Time.before_irrefl] at h2
    cases h2
  intro c hc
  simp only [List.mem_cons, List.not_mem_nil, or_false] at hc
  rcases hc with rfl | rfl | rfl
  · exact key _ hvl
  · exact key _ hvi
  · exact key _ hvr

/-- at the very instant `ExpiresAt` of the leaf verification fails, whatever else holds -/
theorem C04_expired_leaf_rejected (sv : Nat → Nat → Bool) (clock : Time) (store : Store) (opts : Options) (leaf : Cert)
    (h : opts.now clock = leaf.expiresAt) : verifyLeaf sv clock store opts leaf ≠ .ok := by
  have : validAt (opts.now clock) leaf = false := by
    simp [validAt, h, Time.before_irrefl]
  unfold verifyLeaf
  split
  · simp
  · split
    · simp
    · simp [this]

/-- **The trust anchor must be of root type**: if the stored certificate the chosen intermediate
names is not a root, verification fails whatever the signatures say. -/
theorem C04_root_must_be_root_type (sv : Nat → Nat → Bool) (clock : Time) {store : Store} (hwf : StoreWF store)
    (opts : Options) (leaf inter anchor : Cert)
    (hc : chooseIntermediate store opts leaf = some inter) (ha : store.get inter.parent = some anchor)
    (ht : anchor.ctype ≠ rootT) : verifyLeaf sv clock store opts leaf ≠ .ok := by
  intro h
  obtain ⟨_, _, inter', root, hint, _, _, hrs, hrfp, hrt, _⟩ := (C04_verify_iff sv clock hwf opts leaf).mp h
  have hc' := ((choose_iff hwf opts leaf inter').mpr hint).1
  rw [hc] at hc'
  cases hc'
  have := (get_iff hwf _ _).mpr ⟨hrs, hrfp⟩
  rw [ha] at this
  cases this
  exact ht hrt

/-- **Names are compared with their type**: a requested name whose label occurs in the leaf only
under other types does not match. -/
theorem C04_name_needs_type (sv : Nat → Nat → Bool) (clock : Time) (store : Store)
    (opts : Options) (leaf : Cert) (n : Name) (hn : opts.name = some n)
    (hdiff : ∀ b ∈ leaf.names, b.label = n.label → b.ntype ≠ n.ntype) :
    verifyLeaf sv clock store opts leaf ≠ .ok := by
  unfold verifyLeaf
  split
  · simp
  · rename_i hlt
    have hlt : leaf.ctype = leafT := Decidable.not_not.mp hlt
    have : matchesName leaf n = false := by
      cases hm : matchesName leaf n with
      | false => rfl
      | true =>
        have := (matchesName_iff leaf n hlt).mp hm
        exact absurd rfl (hdiff n this rfl)
    simp [nameRefused, hn, this]

/-- a certificate that is not of leaf type is never accepted as a leaf -/
theorem C04_leaf_type (sv : Nat → Nat → Bool) (clock : Time) (store : Store) (opts : Options) (leaf : Cert)
    (h : leaf.ctype ≠ leafT) : verifyLeaf sv clock store opts leaf ≠ .ok := by
  simp [verifyLeaf, h]

/-- **Tampering.** A leaf whose signed bytes or signature were changed has a new `tbs` identity; if no
key verifies it (Ed25519 unforgeability, the hypothesis) it is rejected … -/
theorem C04_tamper_leaf (sv : Nat → Nat → Bool) (clock : Time) {store : Store} (hwf : StoreWF store)
    (opts : Options) (leaf' : Cert) (hforge : ∀ pk, sv pk leaf'.tbs = false) :
    verifyLeaf sv clock store opts leaf' ≠ .ok := by
  intro h
  obtain ⟨_, _, inter, _, _, _, hs, _⟩ := (C04_verify_iff sv clock hwf opts leaf').mp h
  have := hs.2.2
  rw [hforge] at this
  cases this

/-- … and so is any leaf whose chosen intermediate (presented or stored) was tampered with. -/
theorem C04_tamper_intermediate (sv : Nat → Nat → Bool) (clock : Time) {store : Store} (hwf : StoreWF store)
    (opts : Options) (leaf inter' : Cert) (hc : chooseIntermediate store opts leaf = some inter')
    (hforge : ∀ pk, sv pk inter'.tbs = false) :
    verifyLeaf sv clock store opts leaf ≠ .ok := by
  intro h
  obtain ⟨_, _, inter, root, hint, _, _, _, _, _, hs, _⟩ := (C04_verify_iff sv clock hwf opts leaf).mp h
  have hc' := ((choose_iff hwf opts leaf inter).mpr hint).1
  rw [hc] at hc'
  cases hc'
  have := hs.2.2
  rw [hforge] at this
  cases this

/-- a presented intermediate the leaf does not name is ignored: the result is the same without it -/
theorem C04_presented_ignored (sv : Nat → Nat → Bool) (clock : Time) (store : Store) (opts : Options) (leaf p : Cert)
    (hp : opts.presented = some p) (hne : leaf.parent ≠ p.fp) :
    verifyLeaf sv clock store opts leaf = verifyLeaf sv clock store { opts with presented := none } leaf := by
  simp [verifyLeaf, chooseIntermediate, nameRefused, hp, hne, Options.now]

/-! ### issuance -/

theorem issue_spec {parent : Cert} {hasKey : Bool} {pubKey : Nat} {names : List Name} {ctype : Nat}
    {issuedAt : Time} {duration : Int} {fp tbs : Nat} {c : Cert}
    (h : issue parent hasKey pubKey names ctype issuedAt duration fp tbs = some c) :
    c.ctype = ctype ∧ c.names = names ∧ c.pubKey = pubKey ∧ c.parent = parent.fp ∧ c.fp = fp ∧ c.tbs = tbs ∧
      64 ≤ c.rawLen ∧ c.issuedAt = issuedAt ∧ c.issuedAt.before parent.issuedAt = false ∧
      c.issuedAt.before parent.expiresAt = true ∧ parent.expiresAt.before c.expiresAt = false := by
  unfold issue at h
  split at h
  · cases h
  split at h
  · cases h
  split at h
  · cases h
  split at h
  · cases h
  rename_i ht
  split at h
  · cases h
  simp only [Option.some.injEq] at h
  subst h
  simp only [Bool.or_eq_true, Bool.not_eq_eq_eq_not, Bool.not_true, not_or, Bool.not_eq_true, Bool.not_eq_false] at ht
  refine ⟨rfl, rfl, rfl, rfl, rfl, rfl, ?_, rfl, ht.1, ht.2, ?_⟩
  · simp only [serializedLen]; omega
  · simp only
    split
    · exact Time.before_irrefl _
    · rename_i hb
      simpa using hb

/-- **Every chain produced by the issuing functions verifies**, at every instant at which the leaf
itself is valid: issuance clamps each certificate's validity to its parent's, so the intermediate
and the root are then valid too.  Hypotheses: the root is in the (well-formed) store and is of root
type; the signatures made by `issue` verify under the issuer's key (Ed25519 correctness); the
intermediate is presented, or nothing is presented and it is stored. -/
theorem C04_issued_verifies (sv : Nat → Nat → Bool) (clock : Time) {store : Store} (hwf : StoreWF store)
    (root inter leaf : Cert) (hroot : store.has root) (hrt : root.ctype = rootT)
    {k1 k2 : Bool} {pk1 pk2 : Nat} {names1 names2 : List Name} {t1 t2 : Time} {d1 d2 : Int} {fp1 tbs1 fp2 tbs2 : Nat}
    (hi : issue root k1 pk1 names1 intermediateT t1 d1 fp1 tbs1 = some inter)
    (hl : issueLeafAt inter k2 pk2 names2 t2 d2 fp2 tbs2 = some leaf)
    (hs1 : sv root.pubKey inter.tbs = true) (hs2 : sv inter.pubKey leaf.tbs = true)
    (opts : Options)
    (hpres : opts.presented = some inter ∨ (opts.presented = none ∧ store.has inter))
    (hname : ∀ n, opts.name = some n → n ∈ names2)
    (hnow : validAt (opts.now clock) leaf = true) :
    verifyLeaf sv clock store opts leaf = .ok := by
  have hl' : issue inter k2 pk2 names2 leafT t2 d2 fp2 tbs2 = some leaf := by
    unfold issueLeafAt at hl
    split at hl
    · cases hl
    · exact hl
  obtain ⟨ict, _, _, ipar, _, _, iraw, _, iiss, _, iexp⟩ := issue_spec hi
  obtain ⟨lct, lnames, _, lpar, _, _, lraw, _, liss, _, lexp⟩ := issue_spec hl'
  have hnow' := (validAt_iff _ _).mp hnow
  have hvi' : (opts.now clock).before inter.issuedAt = false ∧ (opts.now clock).before inter.expiresAt = true :=
    ⟨Time.before_trans_le liss hnow'.1, Time.before_of_before_le hnow'.2 lexp⟩
  have hvi : validAt (opts.now clock) inter = true := (validAt_iff _ _).mpr hvi'
  have hvr : validAt (opts.now clock) root = true :=
    (validAt_iff _ _).mpr ⟨Time.before_trans_le iiss hvi'.1, Time.before_of_before_le hvi'.2 iexp⟩
  rw [C04_verify_iff sv clock hwf]
  refine ⟨lct, ?_, inter, root, ?_, ict, ⟨lpar, lraw, hs2⟩, hroot, ipar.symm, hrt, ⟨ipar, iraw, hs1⟩, hnow, hvi, hvr⟩
  · intro n hn
    rw [lnames]
    exact hname n hn
  · rcases hpres with hp | ⟨hp, hst⟩
    · exact Or.inl ⟨hp, lpar⟩
    · refine Or.inr ⟨?_, hst, lpar.symm⟩
      intro p hp'
      rw [hp] at hp'
      cases hp'

/-- `IssueIntermediate` is `issue` for the intermediate type and 366 days -/
theorem C04_issueIntermediate_eq (root : Cert) (k : Bool) (pk : Nat) (names : List Name) (now : Time) (fp tbs : Nat)
    (h : root.ctype = rootT) :
    issueIntermediate root k pk names now fp tbs =
      issue root k pk names intermediateT now (366 * 24 * 3600 * 1000000000) fp tbs := by
  simp [issueIntermediate, h]

/-! ### constants of the source -/
example : Generated.certs_Leaf = leafT := by decide
example : Generated.certs_Intermediate = intermediateT := by decide
example : Generated.certs_Root = rootT := by decide
example : Generated.certs_SignatureLen = 64 := by decide
example : Generated.certs_KeyLen + Generated.certs_SHA3Len + Generated.certs_SignatureLen + 4 + 8 + 8 + 2 = serializedLen [] := by decide
example : Check.reason .leafTime = Generated.certs_ReasonTimeInvalid ∧ Check.reason .name = Generated.certs_ReasonMismatchedName ∧
    Check.reason .noIntermediate = Generated.certs_ReasonUnknownIntermediate ∧ Check.reason .noRoot = Generated.certs_ReasonUnknownRoot ∧
    Check.reason .leafSig = Generated.certs_ReasonUnverifiedParent ∧ Check.reason .leafType = Generated.certs_ReasonInvalidCertificate ∧
    Check.reason .interFp = Generated.certs_ReasonInternalError := by decide

/-! ### non-vacuity: a concrete chain -/

def exRoot : Cert := { ctype := rootT, names := [], issuedAt := ⟨100, 0⟩, expiresAt := ⟨1000, 0⟩,
                                        pubKey := 1, parent := 0, fp := 1, rawLen := 150, tbs := 1 }
def exInter : Cert := { ctype := intermediateT, names := [], issuedAt := ⟨200, 0⟩, expiresAt := ⟨900, 0⟩,
                                        pubKey := 2, parent := 1, fp := 2, rawLen := 150, tbs := 2 }
def exLeaf : Cert := { ctype := leafT, names := [⟨1, [97]⟩], issuedAt := ⟨300, 0⟩, expiresAt := ⟨800, 0⟩,
                                        pubKey := 3, parent := 2, fp := 3, rawLen := 154, tbs := 3 }
/-- the root signed itself and the intermediate, the intermediate signed the leaf -/
def exSv (pk tbs : Nat) : Bool := (pk, tbs) == (1, 1) || (pk, tbs) == (1, 2) || (pk, tbs) == (2, 3)
def exStore : Store := addCertificate [] exRoot
def exOpts (now : Time) : Options := { presented := some exInter, name := some ⟨1, [97]⟩, currentTime := now }

example : verifyLeaf exSv ⟨0, 0⟩ exStore (exOpts ⟨500, 0⟩) exLeaf = .ok := by decide
example : ValidChain exSv exStore (exOpts ⟨500, 0⟩) ((exOpts ⟨500, 0⟩).now ⟨0, 0⟩) exLeaf :=
  (C04_verify_iff exSv ⟨0, 0⟩ (C04_store_wf [exRoot]) _ _).mp (by decide)
/-- one second before the leaf expires: accepted; at the expiry instant: rejected -/
example : verifyLeaf exSv ⟨0, 0⟩ exStore (exOpts ⟨799, 999999999⟩) exLeaf = .ok := by decide
example : verifyLeaf exSv ⟨0, 0⟩ exStore (exOpts ⟨800, 0⟩) exLeaf = .rejected .leafTime := by decide
/-- the same label under another name type -/
example : verifyLeaf exSv ⟨0, 0⟩ exStore { (exOpts ⟨500, 0⟩) with name := some ⟨0, [97]⟩ } exLeaf = .rejected .name := by decide
/-- the anchor stored as an intermediate-type certificate -/
example : verifyLeaf exSv ⟨0, 0⟩ (addCertificate [] { exRoot with ctype := intermediateT }) (exOpts ⟨500, 0⟩) exLeaf
    = .rejected .rootType := by decide
/-- intermediate neither presented nor stored; stored -/
example : verifyLeaf exSv ⟨0, 0⟩ exStore { (exOpts ⟨500, 0⟩) with presented := none } exLeaf = .rejected .noIntermediate := by
  decide
example : verifyLeaf exSv ⟨0, 0⟩ (addCertificate exStore exInter) { (exOpts ⟨500, 0⟩) with presented := none } exLeaf = .ok := by
  decide
/-- zero `CurrentTime`: the clock is used -/
example : verifyLeaf exSv ⟨500, 0⟩ exStore (exOpts zeroTime) exLeaf = .ok := by decide
/-- issuance clamps: a leaf asked for 10000 s under `exInter` expires with it -/
example : (issueLeafAt exInter true 3 [] ⟨300, 5⟩ 10000000000000 9 9).map (·.expiresAt) = some ⟨900, 0⟩ := by decide
example : issueLeafAt exInter true 3 [] ⟨900, 0⟩ 1 9 9 = none := by decide

end Certs
