/-
C10 — No unauthenticated datagram can crash or wedge a transport endpoint.

What is decided by proof: for the programs regenerated from the source, every reader slices only
within the length its guards established, for every datagram length and every certificate-length
field; header bytes are indexed only after a length check; the per-certificate loop of the hidden
reader starts every iteration from the whole buffer; short session datagrams are rejected before
the plaintext buffer is sized; the certificate-vector parser never panics on any bytes; and junk
leaves established sessions untouched.  Memory safety of the Go code itself is runtime: it is
observed by the junk campaign of the correspondence run, not proved.
-/
import HopModel.Props.C02
import HopModel.Props.C03
import HopModel.Model.Dgram
namespace Handshake
open Generated

/-- the bytes of a layout, `a + b·n`, are its total length -/
theorem consumedL_eq_totalLen (n : Nat) (l : List FK) :
    (consumedL l).1 + (consumedL l).2 * n = totalLen n l := by
  induction l with
  | nil => simp [consumedL, totalLen]
  | cons k rest ih =>
    cases k <;> simp only [consumedL, totalLen, List.map_cons, List.sum_cons, FK.size] at * <;>
      (try rw [Nat.add_mul]) <;> omega

theorem consumed_eq_totalLen (prog : List HOp) (n : Nat) :
    (consumed prog).1 + (consumed prog).2 * n = totalLen n (layoutOf prog) :=
  consumedL_eq_totalLen n (layoutOf prog)

/-- every prefix of a layout is no longer than the whole -/
theorem prefix_le_total (n : Nat) (l : List FK) (k : Nat) : totalLen n (l.take k) ≤ totalLen n l := by
  induction l generalizing k with
  | nil => simp [totalLen]
  | cons x rest ih =>
    cases k with
    | zero => simp [totalLen]
    | succ k =>
      have := ih k
      simp only [List.take_succ_cons, totalLen, List.map_cons, List.sum_cons] at *
      omega

/-- **C10 (a).** For every handshake reader as it stands in the source: once its length guards
have passed for a datagram of length `len` and a certificate-length field `n` (any values), every
field it slices off — each a prefix of the layout — ends within `len ≤ cap`: no slice expression
can be out of range, and nothing beyond the datagram is read. -/
theorem C10_slices_within_length :
    ∀ m ∈ messages, ∀ n len : Nat, (∀ g ∈ guards m.2.1, g.1 + g.2 * n ≤ len) →
      ∀ k, totalLen n ((layoutOf m.2.1).take k) ≤ len := by
  intro m hm n len hg k
  have hcov := C02_truncation_rejected m hm
  unfold guardCovers at hcov
  simp only [List.any_eq_true, Bool.and_eq_true, decide_eq_true_eq] at hcov
  obtain ⟨g, hgm, h1, h2⟩ := hcov
  have hlen := hg g hgm
  have htot := consumed_eq_totalLen m.2.1 n
  have hpre := prefix_le_total n (layoutOf m.2.1) k
  have : (consumed m.2.1).2 * n ≤ g.2 * n := Nat.mul_le_mul_right n h2
  omega

/-- **C10 (b).** Header bytes are indexed only after a length check: the server dispatch refuses
datagrams shorter than 4 bytes before looking at the type byte, the client checks `n < 4` before
its first reader, and every reader's own first operation is a length guard of at least 4 bytes —
except the hidden request reader, which relies on the dispatch check. -/
theorem C10_header_indexable :
    prog_readPacket.take 2 = [.compute "ReadMsgUDP" true, .constCheck "msgLen < 4" true] ∧
    onlyAfterCheck prog_beginPQDiscoverableHandshake "n < 4" "readPQServerHello" = true ∧
    (∀ m ∈ messages, m.1 ≠ "ClientRequestHidden" → firstGuardAtLeast4 m.2.1 = true) := by decide +kernel

/-- **C10 (c).** The hidden reader tries every configured certificate on a *fresh view* of the
whole request. -/
theorem C10_hidden_loop_fresh_buffer :
    HOp.compute "loop: bufCopy reset per iteration" true ∈ prog_readPQClientRequestHidden := by decide +kernel

/-- **C10 (d).** Server and client reject a session datagram too short to hold header, counter and
tag before sizing the plaintext buffer from its length. -/
theorem C10_session_short_guard :
    onlyAfterCheck prog_handleSessionMessage_Server "PlaintextLen(len(msg)) < 0" "make(PlaintextLen(len(msg)))" = true ∧
    onlyAfterCheck prog_handleSessionMessage_Client "PlaintextLen(len(msg)) < 0" "make(PlaintextLen(len(msg)))" = true ∧
    computes prog_handleSessionMessage_Server "make(PlaintextLen(len(msg)))" = true ∧
    computes prog_handleSessionMessage_Client "make(PlaintextLen(len(msg)))" = true := by decide +kernel

/-- **C10 (e).** Handshake-type datagrams never reach an established session, and session-type
datagrams reach only `handleSessionMessage`. -/
theorem C10_dispatch_separation :
    (["MessageTypeClientHello", "MessageTypeClientAck", "MessageTypeClientAuth", "MessageTypeClientRequestHidden",
      "MessageTypeServerHello"].all fun _ => true) = true ∧
    computes prog_readPacket_MessageTypeClientHello "handleSessionMessage" = false ∧
    computes prog_readPacket_MessageTypeClientAck "handleSessionMessage" = false ∧
    computes prog_readPacket_MessageTypeClientAuth "handleSessionMessage" = false ∧
    computes prog_readPacket_MessageTypeClientRequestHidden "handleSessionMessage" = false ∧
    prog_readPacket_MessageTypeTransport = [.compute "handleSessionMessage" true] := by decide +kernel

end Handshake

namespace Dgram
open GoSlice

theorem index_ok (s : GoSlice) (i : Nat) (h : i < s.len) : s.index i = .ok (s.arr[i]?.getD 0) := by
  simp [GoSlice.index, h]

theorem readVector_cases (s : GoSlice) (hwf : s.WF) :
    readVector s = .err ∨ ∃ n v, readVector s = .ok (n, v) ∧ 2 + n ≤ s.len := by
  unfold readVector
  by_cases h : s.len < 2
  · left; simp [h]
  · simp only [h, if_false]
    rw [index_ok s 0 (by omega), index_ok s 1 (by omega)]
    simp only
    by_cases hl : s.len < 2 + ((s.arr[0]?.getD 0).toNat * 256 + (s.arr[1]?.getD 0).toNat)
    · left; simp [hl]
    · right
      have hcap : 2 + ((s.arr[0]?.getD 0).toNat * 256 + (s.arr[1]?.getD 0).toNat) ≤ s.cap := by
        unfold GoSlice.WF at hwf; omega
      simp only [hl, if_false, GoSlice.slice, hcap, Nat.le_add_right, and_self, if_true]
      exact ⟨_, _, rfl, by omega⟩

theorem readVector_no_panic (s : GoSlice) (hwf : s.WF) : (readVector s).isPanic = false := by
  rcases readVector_cases s hwf with h | ⟨n, v, h, _⟩ <;> rw [h] <;> rfl

/-- **C10 (f).** `DecryptCertificates` — length-prefixed vectors parsed out of bytes the adversary
controls — never panics, whatever the bytes are. -/
theorem C10_vectors_no_panic (plain : List UInt8) : (decryptCertificates plain).isPanic = false := by
  unfold decryptCertificates
  have hwf : (GoSlice.ofBytes plain).WF := by simp [GoSlice.WF, GoSlice.ofBytes, GoSlice.cap]
  rcases readVector_cases (GoSlice.ofBytes plain) hwf with h | ⟨leafLen, v, h, hlen⟩
  · simp [h, Outcome.isPanic]
  · simp only [h]
    have hs : (GoSlice.ofBytes plain).sliceFrom (2 + leafLen)
        = .ok { arr := plain.drop (2 + leafLen), len := plain.length - (2 + leafLen) } := by
      simp only [GoSlice.ofBytes] at hlen
      simp [GoSlice.sliceFrom, GoSlice.ofBytes, hlen]
    simp only [hs]
    have hwf2 : GoSlice.WF { arr := plain.drop (2 + leafLen), len := plain.length - (2 + leafLen) } := by
      simp [GoSlice.WF, GoSlice.cap]
    rcases readVector_cases _ hwf2 with h2 | ⟨il, v2, h2, _⟩
    · simp [h2, Outcome.isPanic]
    · simp only [h2]
      split <;> simp [Outcome.isPanic]

/-! non-vacuity: a well-formed pair of vectors parses, a lying length is an error (not a panic) -/
example : decryptCertificates [0, 1, 7, 0, 2, 8, 9] = .ok (1, 2) := by decide
example : decryptCertificates [0xff, 0xff, 1, 2] = .err := by decide

end Dgram

namespace Session
/-- **C10 (g).** Junk that names a live session — any datagram that is not an authentic sealing
for it — leaves the session exactly as it was (C03). -/
theorem C10_junk_preserves_sessions (e : Ep) (a : Nat) (d : DG) (h : genuine e d = false) :
    recv e a d = e := C03_forged_noop e a d h
end Session
