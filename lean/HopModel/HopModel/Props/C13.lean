/-
C13 — The Cyclist duplex matches its specification and stays in sync across peers.

`Model/Cyclist.lean` is the transcription of `cyclist/cyclist.go` (= the Cyclist algorithms of the
paper) with the permutation as a parameter.  Every theorem here holds for **every** function
`f : State → State` (nothing about Keccak is used), every object state and operands of every
length.  That the Go code computes the same bytes as this model over Keccak-p[1600,12] is the
correspondence run (validation; anchored to the XKCP vector), not a theorem.
-/
import HopModel.Proofs.Cyclist
import HopModel.Generated.Consts
namespace Cyclist
open Keccak

/-! ### obligations on the constants extracted from the source -/
example : Generated.cyclist_rHash = rate := rfl
example : Generated.cyclist_rKin = rate := rfl
example : Generated.cyclist_rKout = rate := rfl
example : Generated.cyclist_fB = fB := rfl
example : Generated.cyclist_lRatchet = lRatchet := rfl

/-! ### encrypt / decrypt -/

/-- **C13.** From the same state, decrypting what `Encrypt` produced returns the plaintext and
leaves the decrypting object in exactly the state of the encrypting one — for every permutation,
every state (keyed or not: in hash mode both calls panic and leave the state alone) and every
plaintext length. -/
theorem C13_decrypt_encrypt (f : State → State) (c : Cy) (p : List UInt8) :
    match encrypt f c p with
    | (c', .bytes ct) => decrypt f c ct = (c', .bytes p)
    | (c', o) => o = .panic ∧ c' = c ∧ c.mode ≠ .key ∧ ∀ x, decrypt f c x = (c, .panic) := by
  unfold encrypt decrypt
  by_cases hm : c.mode = .key
  · simp only [hm, ne_eq, not_true_eq_false, if_false]
    have := crypt_inv f false c 0x80 p
    simp only [Bool.not_false] at this
    simp [this]
  · simp [hm]

/-- the converse: encrypting what `Decrypt` returned reproduces the ciphertext, same end state -/
theorem C13_encrypt_decrypt (f : State → State) (c : Cy) (ct : List UInt8) :
    match decrypt f c ct with
    | (c', .bytes p) => encrypt f c p = (c', .bytes ct)
    | (c', o) => o = .panic ∧ c' = c ∧ c.mode ≠ .key ∧ ∀ x, encrypt f c x = (c, .panic) := by
  unfold encrypt decrypt
  by_cases hm : c.mode = .key
  · simp only [hm, ne_eq, not_true_eq_false, if_false]
    have := crypt_inv f true c 0x80 ct
    simp only [Bool.not_true] at this
    simp [this]
  · simp [hm]

/-- keyed objects, in equational form -/
theorem C13_decrypt_encrypt_keyed (f : State → State) (c : Cy) (hk : c.mode = .key) (p : List UInt8) :
    decrypt f c (crypt f false c 0x80 p).2 = ((encrypt f c p).1, .bytes p) ∧
    encrypt f c p = ((crypt f false c 0x80 p).1, .bytes (crypt f false c 0x80 p).2) := by
  have := crypt_inv f false c 0x80 p
  simp only [Bool.not_false] at this
  simp [encrypt, decrypt, hk, this]

/-! ### mirror programs -/

/-- what the peer runs for one call of the first object, given that call's outcome: it decrypts
the produced ciphertext where the first object encrypted, encrypts the recovered plaintext where
the first object decrypted, and does the same call otherwise -/
def mirror1 (op : Op) (o : Out) : Op :=
  match op, o with
  | .encrypt _, .bytes ct => .decrypt ct
  | .decrypt _, .bytes p => .encrypt p
  | op, _ => op

/-- what the peer must output for that call: the first object's *input* for the mirrored calls,
the same bytes (tags, keys) otherwise -/
def mirrorOut (op : Op) (o : Out) : Out :=
  match op, o with
  | .encrypt p, .bytes _ => .bytes p
  | .decrypt ct, .bytes _ => .bytes ct
  | _, o => o

def mirror : List Op → List Out → List Op
  | op :: ops, o :: os => mirror1 op o :: mirror ops os
  | _, _ => []

def mirrorOuts : List Op → List Out → List Out
  | op :: ops, o :: os => mirrorOut op o :: mirrorOuts ops os
  | _, _ => []

theorem mirror_other (op : Op) (o : Out) (h1 : ∀ p, op ≠ .encrypt p) (h2 : ∀ ct, op ≠ .decrypt ct) :
    mirror1 op o = op ∧ mirrorOut op o = o := by
  cases op <;> cases o <;> simp_all [mirror1, mirrorOut]

theorem mirror_step_other (f : State → State) (c : Cy) (op : Op)
    (h1 : ∀ p, op ≠ .encrypt p) (h2 : ∀ ct, op ≠ .decrypt ct) :
    step f c (mirror1 op (step f c op).2) = ((step f c op).1, mirrorOut op (step f c op).2) := by
  rw [(mirror_other op _ h1 h2).1, (mirror_other op _ h1 h2).2]

theorem mirror_step (f : State → State) (c : Cy) (op : Op) :
    step f c (mirror1 op (step f c op).2) = ((step f c op).1, mirrorOut op (step f c op).2) := by
  cases op with
  | encrypt p =>
    have h := C13_decrypt_encrypt f c p
    simp only [step]
    generalize hr : encrypt f c p = r at h
    obtain ⟨c', o⟩ := r
    cases o with
    | bytes ct => simpa [mirror1, mirrorOut, step] using h
    | done => simp at h
    | panic =>
      obtain ⟨_, hc, _, _⟩ := h
      simp [mirror1, mirrorOut, step, hr]
  | decrypt ct =>
    have h := C13_encrypt_decrypt f c ct
    simp only [step]
    generalize hr : decrypt f c ct = r at h
    obtain ⟨c', o⟩ := r
    cases o with
    | bytes p => simpa [mirror1, mirrorOut, step] using h
    | done => simp at h
    | panic =>
      obtain ⟨_, hc, _, _⟩ := h
      simp [mirror1, mirrorOut, step, hr]
  | _ => exact mirror_step_other f c _ (by simp) (by simp)

/-- **C13.** Two objects in the same state run mirror programs of any length (any mixture of
initialisations, absorbs, encrypts, decrypts, squeezes, key squeezes, ratchets; calls that panic
included): they end in the same state, and the peer's outputs are the first object's outputs
(squeezed tags and keys are *equal*), with plaintext and ciphertext exchanged at the mirrored
calls.  By induction over the program, for every permutation. -/
theorem C13_mirror_programs (f : State → State) (prog : List Op) (c : Cy) :
    run f c (mirror prog (run f c prog).2) =
      ((run f c prog).1, mirrorOuts prog (run f c prog).2) := by
  induction prog generalizing c with
  | nil => rfl
  | cons op rest ih =>
    simp only [run, mirror, mirrorOuts]
    rw [mirror_step]
    simp only
    rw [ih]

/-- in particular every squeeze of the peer returns the bytes the first object squeezed -/
theorem C13_mirror_squeeze_equal (op : Op) (o : Out)
    (h : (∃ n, op = .squeeze n) ∨ (∃ n, op = .squeezeKey n) ∨ op = .ratchet) :
    mirror1 op o = op ∧ mirrorOut op o = o := by
  rcases h with ⟨n, rfl⟩ | ⟨n, rfl⟩ | rfl <;> cases o <;> simp [mirror1, mirrorOut]

/-! ### lengths; empty operands; block boundaries -/

/-- outputs have the requested lengths -/
theorem C13_lengths (f : State → State) (c : Cy) :
    (∀ n, ∃ y, (squeeze f c n).2 = .bytes y ∧ y.length = n) ∧
    (∀ n, c.mode = .key → ∃ y, (squeezeKey f c n).2 = .bytes y ∧ y.length = n) ∧
    (∀ p, c.mode = .key → ∃ y, (encrypt f c p).2 = .bytes y ∧ y.length = p.length) ∧
    (∀ ct, c.mode = .key → ∃ y, (decrypt f c ct).2 = .bytes y ∧ y.length = ct.length) := by
  refine ⟨fun n => ⟨_, rfl, squeezeAny_length f c n _⟩,
          fun n hk => ⟨(squeezeAny f c n 0x20).2, by simp [squeezeKey, hk], squeezeAny_length f c n _⟩,
          fun p hk => ⟨(crypt f false c 0x80 p).2, by simp [encrypt, hk], crypt_length ..⟩,
          fun p hk => ⟨(crypt f true c 0x80 p).2, by simp [decrypt, hk], crypt_length ..⟩⟩

/-- empty operands still perform one Up and one Down (the state moves) -/
theorem C13_empty_operands (f : State → State) (c : Cy) (d : Bool) (cu cd : UInt8) :
    crypt f d c cu [] = (down (up f c 0 cu).1 [] 0x00, []) ∧
    absorbAny f c [] rate cd = down (if c.phase ≠ .up then (up f c 0 0x00).1 else c) [] cd := by
  constructor
  · rw [crypt_nil]; cases d <;> simp [cryptBlock, up, extract, extractAt]
  · rw [absorbAny]; simp

/-- the fact the rate-boundary cases rest on: a first part that is exactly one block is processed
on its own, and the rest continues from the resulting state with `cu = 0` -/
theorem C13_block_boundaries (f : State → State) (d : Bool) (c : Cy) (cu : UInt8)
    (p q : List UInt8) (hp : p.length = rate) (hq : q ≠ []) :
    crypt f d c cu (p ++ q) =
      ((crypt f d (crypt f d c cu p).1 0x00 q).1,
       (crypt f d c cu p).2 ++ (crypt f d (crypt f d c cu p).1 0x00 q).2) := by
  have hql : 0 < q.length := List.length_pos_iff.mpr hq
  rw [crypt_long f d c cu (p ++ q) (by simp only [List.length_append]; omega)]
  rw [List.take_left' hp, List.drop_left' hp, crypt_short f d c cu p (by omega)]

/-! ### non-vacuity -/

/-- a toy "permutation" and a keyed state on which encrypt really produces bytes -/
private def toyF : State → State := fun s => addByte (addByte s 0x55 0) 0x0f 2
private def keyed : Cy := { phase := .up, mode := .key, s := zero }

example : (encrypt toyF keyed [1, 2, 3]).2 = .bytes [0x54, 2, 0x0c] := by
  simp only [encrypt, keyed, ne_eq, not_true_eq_false, if_false]
  rw [crypt_short _ _ _ _ _ (by decide)]
  decide

example : (decrypt toyF keyed [0x54, 2, 0x0c]).2 = .bytes [1, 2, 3] := by
  simp only [decrypt, keyed, ne_eq, not_true_eq_false, if_false]
  rw [crypt_short _ _ _ _ _ (by decide)]
  decide

/-- in hash mode the keyed-only calls are refused (the `panic` branch of the theorems is inhabited) -/
example : (encrypt toyF empty [1, 2, 3]).2 = .panic := by decide

/-- a mirror program on a keyed object: the peer's program really differs from the first object's
(it decrypts the produced ciphertext), and `C13_mirror_programs` applies to it -/
example :
    mirror [.encrypt [1, 2, 3], .squeeze 2] (run toyF keyed [.encrypt [1, 2, 3], .squeeze 2]).2
      = [.decrypt [0x54, 2, 0x0c], .squeeze 2] := by
  simp only [run, step, encrypt, squeeze, keyed, ne_eq, not_true_eq_false, if_false, mirror]
  rw [crypt_short _ _ _ _ _ (by decide)]
  decide

end Cyclist
