import HopModel.Model.Cyclist
import HopModel.Generated.Consts
namespace Cyclist

example : Generated.cyclist_rHash = rate := rfl

end Cyclist
