/-
C14 — The replay filter accepts each fresh counter once and nothing stale.

Spec: the reference filter remembers *every* accepted counter (a list) and accepts `q` iff it is
not in that list and is not more than 448 below the largest element.  The theorems say that the
model of `transport/replay.go` — the exact functions the driver executes (`checkU`, `acceptU`,
with the `uint64` wrap and ring compaction) — answers like the reference filter after every
history of counters below `2^63`, of any length and with jumps of any size.
-/
import HopModel.Proofs.Replay
import HopModel.Spec.Replay
import HopModel.Generated.Consts
namespace Replay

/-- the model run over a history (what the driver does) -/
def runU (w : Win) (hist : List Nat) : Win := hist.foldl acceptU w

def Bounded (hist : List Nat) : Prop := ∀ q ∈ hist, q < 2 ^ 63

/-! ### simulation -/

/-- model state `w` and reference state `acc` agree -/
structure Sim (w : Win) (acc : List Nat) : Prop where
  inv : Inv w (fun x => x ∈ acc)
  top : w.wt = maxL acc

theorem sim_init : Sim init [] :=
  ⟨by simpa using inv_init, rfl⟩

theorem sim_check {w : Win} {acc : List Nat} (h : Sim w acc) {q : Nat} (hq : q < 2 ^ 63) :
    checkU w q = specAccepts acc q := by
  have hb : q + 448 < u64 := by unfold u64; omega
  rw [checkU_eq w hb]
  have := check_iff h.inv q
  unfold specAccepts
  rw [← h.top]
  cases hc : check w q
  · have h' : ¬ (¬ q ∈ acc ∧ w.wt ≤ q + 448) := by rw [← this]; simp [hc]
    by_cases hm : q ∈ acc
    · simp [hm]
    · have : ¬ w.wt ≤ q + 448 := fun hw => h' ⟨hm, hw⟩
      simp [this]
  · obtain ⟨h1, h2⟩ := this.mp hc
    simp [h1, h2]

theorem sim_step {w : Win} {acc : List Nat} (h : Sim w acc) {q : Nat} (hq : q < 2 ^ 63) :
    Sim (acceptU w q) (if specAccepts acc q then q :: acc else acc) := by
  have hb : q + 448 < u64 := by unfold u64; omega
  have hcs := sim_check h hq
  unfold acceptU
  cases hc : checkU w q
  · rw [← hcs, hc]
    simp only [Bool.false_eq_true, if_false]
    exact ⟨h.inv.compact, by rw [compact_wt]; exact h.top⟩
  · rw [← hcs, hc]
    simp only [if_true]
    rw [markU_eq w hb]
    have hc' : check w q = true := by rw [← checkU_eq w hb]; exact hc
    have hwin := ((check_iff h.inv q).mp hc').2
    refine ⟨((mark_inv h.inv hc').congr ?_).compact, ?_⟩
    · intro x; simp [List.mem_cons, or_comm]
    · rw [compact_wt, mark_wt hwin, h.top]; rfl

theorem sim_run {w : Win} {acc : List Nat} (h : Sim w acc) (hist : List Nat) (hb : Bounded hist) :
    Sim (runU w hist) (specRun acc hist) := by
  induction hist generalizing w acc with
  | nil => exact h
  | cons q qs ih =>
    simp only [runU, List.foldl_cons, specRun]
    exact ih (sim_step h (hb q (by simp))) (fun x hx => hb x (by simp [hx]))

/-! ### property theorems -/

/-- **C14.** After every history (any length, any jumps), the filter's verdict on any counter is
the reference verdict: accepted iff never accepted before and not more than 448 below the highest
accepted counter. -/
theorem C14_accept_iff (hist : List Nat) (hb : Bounded hist) (q : Nat) (hq : q < 2 ^ 63) :
    checkU (runU init hist) q = specAccepts (specRun [] hist) q :=
  sim_check (sim_run sim_init hist hb) hq

/-- never lets a duplicate through -/
theorem C14_never_twice (hist : List Nat) (hb : Bounded hist) (q : Nat) (hq : q < 2 ^ 63)
    (hacc : q ∈ specRun [] hist) : checkU (runU init hist) q = false := by
  rw [C14_accept_iff hist hb q hq]; simp [specAccepts, hacc]

/-- never rejects a fresh in-window counter -/
theorem C14_never_rejects_fresh_in_window (hist : List Nat) (hb : Bounded hist) (q : Nat)
    (hq : q < 2 ^ 63) (hfresh : q ∉ specRun [] hist) (hwin : maxL (specRun [] hist) ≤ q + 448) :
    checkU (runU init hist) q = true := by
  rw [C14_accept_iff hist hb q hq]; simp [specAccepts, hfresh, hwin]

/-- the top of the window is the highest accepted counter -/
theorem C14_top_is_max (hist : List Nat) (hb : Bounded hist) :
    (runU init hist).wt = maxL (specRun [] hist) :=
  (sim_run sim_init hist hb).top

/-- robustness of the API: `Mark` without a preceding `Check` (stale, duplicate or fresh counter)
keeps the ring consistent with "accepted ∪ marked-in-window". -/
theorem C14_mark_any {w : Win} {S : Nat → Prop} (h : Inv w S) (q : Nat) (hq : q < 2 ^ 63) :
    Inv (markOnlyU w q) (fun x => S x ∨ (x = q ∧ w.wt ≤ q + 448)) := by
  have hb : q + 448 < u64 := by unfold u64; omega
  unfold markOnlyU
  rw [markU_eq w hb]
  by_cases hw : w.wt ≤ q + 448
  · exact ((mark_inv_win h hw).congr (fun x => by simp [hw])).compact
  · rw [mark_stale (by omega)]
    exact (h.congr (fun x => by simp [hw])).compact

/-- the `uint64` expression of the Go code equals the mathematical one on the property's domain -/
theorem C14_no_wrap (w : Win) (q : Nat) (hq : q < 2 ^ 63) :
    checkU w q = check w q ∧ markU w q = mark w q := by
  have hb : q + 448 < u64 := by unfold u64; omega
  exact ⟨checkU_eq w hb, markU_eq w hb⟩

/-! ### non-vacuity: a concrete history that straddles blocks, jumps past the ring and revisits
the window edge -/

example : Bounded [0, 63, 64, 5, 5, 1000, 552, 551, 1000, 2 ^ 63 - 1] := by
  intro q hq; simp at hq; omega

example : specRun [] [0, 63, 64, 5, 5, 1000, 552, 551] = [552, 1000, 5, 64, 63, 0] := by decide

/-! ### obligations on the constants extracted from the source (G-tie) -/

example : Generated.transport_numBlocks = numBlocks := by decide
example : Generated.transport_blockSize = blockSize := by decide
example : Generated.transport_windowSize = windowSize := by decide
example : Generated.transport_locationMask = 63 := by decide
example : Generated.transport_locationBits = 6 := by decide
example : Generated.transport_indexMask = 7 := by decide
example : Generated.transport_windowSize + Generated.transport_blockSize
            = Generated.transport_numBlocks * Generated.transport_blockSize := by decide

end Replay
