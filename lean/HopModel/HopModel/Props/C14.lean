/-
C14 — The replay filter accepts each fresh counter once and nothing stale.

Spec: the reference filter remembers *every* accepted counter (a list) and accepts `q` iff it is
not in that list and is not more than 448 below the largest element.  The theorems say that the
model of `transport/replay.go` — the exact functions the driver executes (`checkU`, `acceptU`,
with the `uint64` wrap and ring compaction) — answers like the reference filter after every
history of counters below `2^63`, of any length and with jumps of any size.
-/
import HopModel.Proofs.ReplaySim
import HopModel.Proofs.ReplayU64
import HopModel.Generated.Consts
namespace Replay

/-! ### property theorems -/

/-- **C14.** After every history (any length, any jumps), the filter's verdict on any counter is
the reference verdict: accepted iff never accepted before and not more than 448 below the highest
accepted counter. -/
theorem C14_accept_iff (hist : List Nat) (hb : Bounded hist) (q : Nat) (hq : q < 2 ^ 63) :
    checkU (runU init hist) q = specAccepts (specRun [] hist) q :=
  sim_check (sim_run sim_init hist hb) hq

/-- never lets a duplicate through -/
theorem C14_never_twice (hist : List Nat) (hb : Bounded hist) (q : Nat) (hq : q < 2 ^ 63)
    (hacc : q ∈ specRun [] hist) : checkU (runU init hist) q = false := by
  rw [C14_accept_iff hist hb q hq]; simp [specAccepts, hacc]

/-- never rejects a fresh in-window counter -/
theorem C14_never_rejects_fresh_in_window (hist : List Nat) (hb : Bounded hist) (q : Nat)
    (hq : q < 2 ^ 63) (hfresh : q ∉ specRun [] hist) (hwin : maxL (specRun [] hist) ≤ q + 448) :
    checkU (runU init hist) q = true := by
  rw [C14_accept_iff hist hb q hq]; simp [specAccepts, hfresh, hwin]

/-- the top of the window is the highest accepted counter -/
theorem C14_top_is_max (hist : List Nat) (hb : Bounded hist) :
    (runU init hist).wt = maxL (specRun [] hist) :=
  (sim_run sim_init hist hb).top

/-- robustness of the API: `Mark` without a preceding `Check` (stale, duplicate or fresh counter)
keeps the ring consistent with "accepted ∪ marked-in-window". -/
theorem C14_mark_any {w : Win} {S : Nat → Prop} (h : Inv w S) (q : Nat) (hq : q < 2 ^ 63) :
    Inv (markOnlyU w q) (fun x => S x ∨ (x = q ∧ w.wt ≤ q + 448)) := by
  have hb : q + 448 < u64 := by unfold u64; omega
  unfold markOnlyU
  rw [markU_eq w hb]
  by_cases hw : w.wt ≤ q + 448
  · exact ((mark_inv_win h hw).congr (fun x => by simp [hw])).compact
  · rw [mark_stale (by omega)]
    exact (h.congr (fun x => by simp [hw])).compact

/-- the `uint64` expression of the Go code equals the mathematical one on the property's domain -/
theorem C14_no_wrap (w : Win) (q : Nat) (hq : q < 2 ^ 63) :
    checkU w q = check w q ∧ markU w q = mark w q := by
  have hb : q + 448 < u64 := by unfold u64; omega
  exact ⟨checkU_eq w hb, markU_eq w hb⟩

/-! ### the machine-level transcription -/

section Machine
open ReplayU64

theorem abs_init : ReplayU64.abs ReplayU64.init = Replay.init := by
  simp only [ReplayU64.abs, ReplayU64.init, Replay.init]
  congr 1
  funext j
  simp [ReplayU64.absB, Array.getD_eq_getD_getElem?, Array.getElem?_replicate]
  split <;> rfl

/-- running the machine over a history -/
def runW (w : WinU) (hist : List UInt64) : WinU := hist.foldl ReplayU64.accept w

theorem machine_sim (w : WinU) (hs : w.blocks.size = 8) (acc : List Nat) (h : Sim (ReplayU64.abs w) acc)
    (hist : List UInt64) (hb : ∀ q ∈ hist, q.toNat < 2 ^ 63) :
    (runW w hist).blocks.size = 8 ∧ Sim (ReplayU64.abs (runW w hist)) (specRun acc (hist.map UInt64.toNat)) := by
  induction hist generalizing w acc with
  | nil => exact ⟨hs, h⟩
  | cons q qs ih =>
    simp only [runW, List.foldl_cons, List.map_cons, specRun]
    apply ih (ReplayU64.accept w q) (accept_size w hs q)
    · rw [accept_refines w hs q]
      exact sim_step_plain h (hb q (by simp))
    · intro x hx; exact hb x (by simp [hx])

/-- **C14, at the level of the Go code's own types.** The transcription of `Check`/`Mark` with
`uint64` words, shifts and masks (`Model/ReplayU64.lean`) answers, after every history of counters
below 2^63, exactly like the reference filter. -/
theorem C14_machine_accept_iff (hist : List UInt64) (hb : ∀ q ∈ hist, q.toNat < 2 ^ 63) (q : UInt64)
    (hq : q.toNat < 2 ^ 63) :
    ReplayU64.check (runW ReplayU64.init hist) q = specAccepts (specRun [] (hist.map UInt64.toNat)) q.toNat := by
  have hsim := machine_sim ReplayU64.init (by simp [ReplayU64.init]) [] (by rw [abs_init]; exact sim_init) hist hb
  rw [check_refines]
  exact sim_check hsim.2 hq

end Machine

/-! ### non-vacuity: a concrete history that straddles blocks, jumps past the ring and revisits
the window edge -/

example : Bounded [0, 63, 64, 5, 5, 1000, 552, 551, 1000, 2 ^ 63 - 1] := by
  intro q hq; simp at hq; omega

example : specRun [] [0, 63, 64, 5, 5, 1000, 552, 551] = [552, 1000, 5, 64, 63, 0] := by decide

/-! ### obligations on the constants extracted from the source (G-tie) -/

example : Generated.transport_numBlocks = numBlocks := by decide
example : Generated.transport_blockSize = blockSize := by decide
example : Generated.transport_windowSize = windowSize := by decide
example : Generated.transport_locationMask = 63 := by decide
example : Generated.transport_locationBits = 6 := by decide
example : Generated.transport_indexMask = 7 := by decide
example : Generated.transport_windowSize + Generated.transport_blockSize
            = Generated.transport_numBlocks * Generated.transport_blockSize := by decide

end Replay
