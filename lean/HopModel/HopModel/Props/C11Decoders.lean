/-
C11, decoder half — whatever bytes a peer writes into a user-authentication, execution,
window-size, port-forwarding or authorization-grant tube, the reader returns a value or an error
without panicking and without allocating memory out of proportion to the bytes received.

The readers are those of `Model/Wire.lean` (the same definitions C18 is about, tied to the Go code
by the suites `C18` and `C18junk` of `harness/cmd/c18`):

  authorization-grant tube   `rdAg` (AgMessage.ReadFrom), `rdIntent` (Intent.ReadFrom), `rdCert`,
                             `rdStr` (common.ReadString: denial reasons, target URLs)
  execution tube             `rdExec` (codex.GetCmd)
  window-size tube           `rdSize` (codex.readSize)
  user-authentication tube   `rdUA` (userauth.GetInitMsg)
  port-forwarding tube       `rdPF` (portforwarding.readPacket)

*No panic.*  A reader is a total function `Bytes → Except Err α × Bytes × Nat`; it has no panic
outcome, and `C11_dec_outcome` spells that out.  That the Go readers never panic either is
observed by the correspondence runs, where a panic is the observable `panic` (which the model never
answers): on the pinned tree this exposed `panic("unimplemented")` in `Intent.ReadFrom` for the
grant types LocalPF/RemotePF (F16, repaired).

*Allocation.*  `m.alloc bs` is the sum of the sizes the Go reader hands to `make` (or to
`io.CopyN` as copy-buffer size) before the bytes that fill those buffers have arrived;
`m.consumed bs` the number of bytes it took from the tube, also when it then fails.  For every
reader and every input, `alloc ≤ consumed + c₂` with `c₂ ≤ 65535`.  On the pinned tree
`codex.GetCmd` allocated the announced 32-bit length (F17, repaired: the bound for `rdExec` is
about the repaired reader).
-/
import HopModel.Proofs.WireAlloc
namespace Wire

/-- every reader answers every input with a value or an error (there is no third outcome) -/
theorem C11_dec_outcome (m : R α) (bs : Bytes) :
    (∃ v r, m.dec bs = .ok (v, r)) ∨ (∃ e, m.dec bs = .error e) := by
  cases h : m.dec bs with
  | ok p => exact .inl ⟨p.1, p.2, rfl⟩
  | error e => exact .inr ⟨e, rfl⟩

/-- the remainder a reader returns is a part of its input: it never "un-reads" -/
theorem C11_dec_consumed_le (m : R α) (bs : Bytes) : m.consumed bs ≤ bs.length := by
  unfold R.consumed; omega

theorem C11_dec_str_alloc (bs : Bytes) : rdStr.alloc bs ≤ rdStr.consumed bs + 255 := by
  simpa using bnd_alloc rdStr bnd_str bs

theorem C11_dec_cert_alloc (bs : Bytes) : rdCert.alloc bs ≤ rdCert.consumed bs + 287 := by
  simpa using bnd_alloc rdCert bnd_cert bs

theorem C11_dec_intent_alloc (bs : Bytes) : rdIntent.alloc bs ≤ rdIntent.consumed bs + 287 := by
  simpa using bnd_alloc rdIntent bnd_intent bs

theorem C11_dec_ag_alloc (bs : Bytes) : rdAg.alloc bs ≤ rdAg.consumed bs + 287 := by
  simpa using bnd_alloc rdAg bnd_ag bs

theorem C11_dec_exec_alloc (bs : Bytes) : rdExec.alloc bs ≤ rdExec.consumed bs + 32768 := by
  simpa using bnd_alloc rdExec bnd_exec bs

theorem C11_dec_size_alloc (bs : Bytes) : rdSize.alloc bs ≤ rdSize.consumed bs := by
  simpa using bnd_alloc rdSize bnd_size bs

theorem C11_dec_ua_alloc (bs : Bytes) : rdUA.alloc bs ≤ rdUA.consumed bs + 65535 := by
  simpa using bnd_alloc rdUA bnd_ua bs

theorem C11_dec_pf_alloc (bs : Bytes) : rdPF.alloc bs ≤ rdPF.consumed bs + 65535 := by
  simpa using bnd_alloc rdPF bnd_pf bs

/-- the form announced in DESIGN.md §5.11: `alloc ≤ 2 · consumed + 65536 + c` (here with `c = 0`
and the factor 1), for every tube-facing reader -/
theorem C11_dec_alloc_bounded (bs : Bytes) :
    rdStr.alloc bs ≤ 2 * rdStr.consumed bs + 65536 ∧ rdIntent.alloc bs ≤ 2 * rdIntent.consumed bs + 65536 ∧
    rdAg.alloc bs ≤ 2 * rdAg.consumed bs + 65536 ∧ rdExec.alloc bs ≤ 2 * rdExec.consumed bs + 65536 ∧
    rdSize.alloc bs ≤ 2 * rdSize.consumed bs + 65536 ∧ rdUA.alloc bs ≤ 2 * rdUA.consumed bs + 65536 ∧
    rdPF.alloc bs ≤ 2 * rdPF.consumed bs + 65536 := by
  have h1 := C11_dec_str_alloc bs
  have h2 := C11_dec_intent_alloc bs
  have h3 := C11_dec_ag_alloc bs
  have h4 := C11_dec_exec_alloc bs
  have h5 := C11_dec_size_alloc bs
  have h6 := C11_dec_ua_alloc bs
  have h7 := C11_dec_pf_alloc bs
  omega

/-- the exec status a server sends to the client (`codex.getStatus`): at most 64 KiB ahead of the data -/
theorem C11_dec_xst_alloc (bs : Bytes) : rdXst.alloc bs ≤ rdXst.consumed bs + 65535 := by
  simpa using bnd_alloc rdXst bnd_xst bs
theorem C11_dec_xst_total (bs : Bytes) : ∃ s r, rdXst.dec bs = .ok (s, r) := xst_total bs

/-- `GetInitMsg` has no error result: it answers every input with a name (short input is
zero-padded, as in the Go code) -/
theorem C11_dec_ua_total (bs : Bytes) : ∃ u r, rdUA.dec bs = .ok (u, r) := ua_total bs

/-! non-vacuity: the constants are reached by announcing a length and sending nothing -/
example : rdUA.alloc [0, 9] = 9 ∧ rdUA.consumed [0, 9] = 2 := by
  simp [R.alloc, R.consumed, rdUA, readPad, allocate, bind_apply, Bytes.fromBE]
example : rdPF.alloc [3, 4, 255, 255] = 65535 ∧ rdPF.dec [3, 4, 255, 255] = .error .short := by
  simp [R.alloc, R.dec, rdPF, uBE, readN, u8, allocate, bind_apply, pure_apply, Bytes.fromBE]
example : rdStr.alloc [255] = 255 ∧ rdStr.dec [255] = .error .short := by
  simp [R.alloc, R.dec, rdStr, readN, u8, allocate, bind_apply]

end Wire
