/-
C17 — Transport connections and deadline queues are safe under concurrent use.

Part 1 (this section): the sequential specification `QSpec` of the deadline-aware queue
(`Model/Queue.lean`, a transcription of the observable contract of `common.DeadlineChan`), with
theorems over ALL operation histories (any length, any mix of send / recv / close / setDeadline /
cancel / timer expiry).  The correspondence suites `C17q` (exact, sequential) and `C17lin`
(linearizability of recorded concurrent histories) tie the real `DeadlineChan` to this Spec.
-/
import HopModel.Proofs.Queue
import HopModel.Proofs.DeadlineSteps
import HopModel.Proofs.Lifecycle
import HopModel.Model.DeadlineGen
import HopModel.Generated.Shapes
namespace Queue

/-! ### FIFO, at most once -/

/-- **C17 (FIFO, at most once).** After every history on a fresh queue, the values returned by
Recv followed by the values still buffered are exactly the values accepted by Send, in order. -/
theorem C17_fifo_conservation (cap : Nat) (ops : List Op) :
    received (trace (Q.init cap) ops) ++ (final (Q.init cap) ops).buf = sent (trace (Q.init cap) ops) := by
  simpa [Q.init] using conserve (Q.init cap) ops

/-- **C17 (FIFO, at most once).** The sequence of received items is a prefix of the sequence of
sent items: each item is taken at most once, in the order it was put. -/
theorem C17_fifo_once (cap : Nat) (ops : List Op) :
    received (trace (Q.init cap) ops) <+: sent (trace (Q.init cap) ops) :=
  ⟨_, C17_fifo_conservation cap ops⟩

/-- the buffer never exceeds the capacity -/
theorem C17_capacity (cap : Nat) (ops : List Op) :
    (final (Q.init cap) ops).buf.length ≤ cap := by
  have h := final_bounded (Q.init cap) ops (by simp [Q.init])
  have hc : ∀ (q : Q) (ops : List Op), (final q ops).cap = q.cap := by
    intro q ops
    induction ops generalizing q with
    | nil => rfl
    | cons o os ih => simp [final, ih, step_cap]
  rw [hc] at h
  exact h

example : received (trace (Q.init 2) [.send 1, .send 2, .send 3, .close, .recv, .recv, .recv])
    = [1, 2] := by decide

/-! ### buffered data before end-of-stream -/

/-- **C17 (drain).** Buffered data wins over everything: in every state whose buffer is non-empty —
closed, expired, cancelled or not — Recv returns the oldest buffered item. -/
theorem C17_buffered_first (q : Q) (v : Nat) (t : List Nat) (h : q.buf = v :: t) :
    step q .recv = ({ q with buf := t }, .val v) := by
  simp [step, h]

/-- **C17 (drain before EOF).** In every history, whenever a Recv does not return a value (it
returns end-of-stream, a timeout or cancel error, or would block), every item accepted by Send
before that point has already been received: data queued before Close is returned before EOF. -/
theorem C17_drain_before_eof (cap : Nat) (pre : List Op)
    (h : ∀ v, (step (final (Q.init cap) pre) .recv).2 ≠ .val v) :
    received (trace (Q.init cap) pre) = sent (trace (Q.init cap) pre) := by
  have hc := C17_fifo_conservation cap pre
  have hb : (final (Q.init cap) pre).buf = [] := by
    cases hbuf : (final (Q.init cap) pre).buf with
    | nil => rfl
    | cons v t =>
      exfalso
      apply h v
      simp [step, hbuf]
  rw [hb, List.append_nil] at hc
  exact hc

/-- the EOF instance, with the history continuing after the close -/
example : (trace (Q.init 4) [.send 7, .send 8, .close, .recv, .recv, .recv]).map (·.2)
    = [.ok, .ok, .ok, .val 7, .val 8, .err .eof] := by decide

/-! ### close -/

/-- **C17 (close is absorbing).** Once closed, the queue stays closed after every history. -/
theorem C17_closed_absorbing (q : Q) (ops : List Op) (h : q.closed = true) :
    (final q ops).closed = true := final_closed q ops h

/-- **C17 (close is idempotent).** A second Close changes nothing and reports end-of-stream; so do
SetDeadline and Cancel after Close; Send after Close fails with end-of-stream. -/
theorem C17_close_idempotent (q : Q) :
    let q1 := (step q .close).1
    q1.closed = true ∧
    step q1 .close = (q1, .err .eof) ∧
    (∀ d, step q1 (.setDeadline d) = (q1, .err .eof)) ∧
    (∀ e, step q1 (.cancel e) = (q1, .err .eof)) ∧
    (∀ v, step q1 (.send v) = (q1, .err .eof)) := by
  have hc : (step q .close).1.closed = true := by
    simp only [step]; split
    · assumption
    · rfl
  generalize (step q .close).1 = q1 at hc
  refine ⟨hc, ?_, ?_, ?_, ?_⟩
  · simp [step, hc]
  · intro d; simp [step, hc]
  · intro e; simp [step, hc]
  · intro v; simp [step, hc]

/-- results of the Close calls of a trace -/
def closeResults : List (Op × Res) → List Res
  | [] => []
  | (.close, r) :: t => r :: closeResults t
  | _ :: t => closeResults t

theorem closeResults_closed (q : Q) (ops : List Op) (h : q.closed = true) :
    ∀ r ∈ closeResults (trace q ops), r = .err .eof := by
  induction ops generalizing q with
  | nil => simp [trace, closeResults]
  | cons o os ih =>
    have hn := step_closed q o h
    cases o <;> simp only [trace, closeResults] <;> try exact ih _ hn
    intro r hr
    simp only [List.mem_cons] at hr
    cases hr with
    | inl e => simp [e, step, h]
    | inr e => exact ih _ hn r e

/-- **C17 (close results).** In every history at most one Close call — the first — reports success;
every later Close reports end-of-stream (this is `DeadlineChan.Close`'s contract; the "same result
for every caller" clause of the property is about Client/Server.Close, see `C17_close_same_result`). -/
theorem C17_close_results (q : Q) (ops : List Op) :
    closeResults (trace q ops) = [] ∨
    ∃ r, closeResults (trace q ops) = r :: List.replicate ((closeResults (trace q ops)).length - 1) (.err .eof) := by
  induction ops generalizing q with
  | nil => left; rfl
  | cons o os ih =>
    cases o with
    | close =>
      right
      refine ⟨(step q .close).2, ?_⟩
      simp only [trace, closeResults, List.length_cons, Nat.add_sub_cancel]
      congr 1
      apply List.eq_replicate_iff.mpr
      refine ⟨rfl, ?_⟩
      apply closeResults_closed
      simp only [step]; split
      · assumption
      · rfl
    | send v => simpa [trace, closeResults] using ih _
    | recv => simpa [trace, closeResults] using ih _
    | setDeadline d => simpa [trace, closeResults] using ih _
    | cancel e => simpa [trace, closeResults] using ih _
    | timerFire => simpa [trace, closeResults] using ih _

example : closeResults (trace (Q.init 1) [.close, .send 1, .close, .close])
    = [.ok, .err .eof, .err .eof] := by decide

/-! ### timeouts -/

/-- **C17 (errors only when empty).** Recv reports an error or blocks only on an empty buffer. -/
theorem C17_recv_error_only_when_empty (q : Q) (h : ∀ v, (step q .recv).2 ≠ .val v) : q.buf = [] := by
  cases hb : q.buf with
  | nil => rfl
  | cons v t => exfalso; apply h v; simp [step, hb]

/-- **C17 (timeout only when the deadline passed).** In every history on a fresh queue, if a Recv
or Send returns the timeout error, then the most recent deadline-control event that took effect
(SetDeadline, Cancel, timer expiry, Close) is an expiry with the timeout error: a SetDeadline in
the past, the timer firing, or Cancel(timeout) — never a deadline that was since extended or
cleared, and never on a queue whose deadline was never set. -/
theorem C17_timeout_only_when_deadline_passed (cap : Nat) (pre : List Op) (o : Op)
    (ho : o = .recv ∨ ∃ v, o = .send v)
    (h : (step (final (Q.init cap) pre) o).2 = .err .timeout) :
    lastCtl .unexpired (trace (Q.init cap) pre) = .expiredBy .timeout := by
  have ha := run_agree .unexpired (Q.init cap) pre (by simp [Agree, Q.init])
  generalize final (Q.init cap) pre = q at h ha
  generalize lastCtl .unexpired (trace (Q.init cap) pre) = c at ha
  have key : q.expired = true ∧ q.err = some .timeout := by
    rcases ho with rfl | ⟨v, rfl⟩
    · simp only [step] at h
      split at h
      · simp at h
      · split at h
        · simp at h
        · split at h
          · rename_i he
            cases hq : q.err with
            | none => simp [Q.errRes, hq] at h
            | some e => simp [Q.errRes, hq] at h; simp_all
          · simp at h
    · simp only [step] at h
      split at h
      · simp at h
      · split at h
        · rename_i he
          cases hq : q.err with
          | none => simp [Q.errRes, hq] at h
          | some e => simp [Q.errRes, hq] at h; simp_all
        · split at h <;> simp at h
  cases c with
  | unexpired => simp [Agree] at ha; simp [ha] at key
  | expiredBy e =>
    simp only [Agree] at ha
    have : e = .timeout := by
      have := ha.2; rw [key.2] at this; exact (Option.some.inj this).symm
    rw [this]

/-- a timeout that is legitimate … -/
example : (trace (Q.init 1) [.setDeadline .future, .timerFire, .recv]).map (·.2)
    = [.ok, .ok, .err .timeout] := by decide
/-- … and an extended deadline un-expires the queue: the same Recv now blocks -/
example : (trace (Q.init 1) [.setDeadline .past, .setDeadline .future, .recv]).map (·.2)
    = [.ok, .ok, .block] := by decide

end Queue

/-! ### the concurrent contract used by the linearizability search (`Queue.LQ`) -/
namespace Queue

/-- **C17 (concurrent contract: end-of-stream only on an empty queue).** In the contract against
which recorded concurrent histories are decided — where a Recv may report a deadline error although
data is buffered, and Close has an intermediate phase — a Recv still reports end-of-stream only
when the buffer is empty, and then the queue is closed for good (or somebody called
`Cancel(io.EOF)` on the open queue). -/
theorem C17_concurrent_eof_only_when_empty (s s' : LQ) (h : s.admits .recv (.err .eof) = some s') :
    s.q.buf = [] ∧ s.closing = false ∧ (s.q.closed = true ∨ s.q.err = some .eof) := by
  unfold LQ.admits at h
  cases hc : s.closing with
  | true => simp [hc] at h
  | false =>
    simp only [hc, Bool.false_eq_true, if_false] at h
    unfold admits at h
    cases hb : s.q.buf with
    | cons v t => simp [step, hb] at h
    | nil =>
      refine ⟨rfl, rfl, ?_⟩
      cases hcl : s.q.closed with
      | true => left; rfl
      | false =>
        right
        cases he : s.q.expired <;> cases hr : s.q.err <;> simp [step, hb, hcl, he, hr, Q.errRes] at h
        rename_i e; cases e <;> simp_all

/-- **C17 (concurrent contract: values come from the buffer, in order).** Whatever the contract
admits for a Recv that returns a value, it is the oldest buffered item, which is removed. -/
theorem C17_concurrent_recv_value (s s' : LQ) (v : Nat) (h : s.admits .recv (.val v) = some s') :
    ∃ t, s.q.buf = v :: t ∧ s'.q.buf = t := by
  unfold LQ.admits at h
  have key : ∀ q', admits s.q .recv (.val v) = some q' → ∃ t, s.q.buf = v :: t ∧ q'.buf = t := by
    intro q' hq
    unfold admits at hq
    cases hb : s.q.buf with
    | nil =>
      cases hcl : s.q.closed <;> cases he : s.q.expired <;> cases hr : s.q.err <;>
        simp [step, hb, hcl, he, hr, Q.errRes] at hq
    | cons w t =>
      simp [step, hb] at hq
      obtain ⟨hw, hq⟩ := hq
      subst hw
      exact ⟨t, rfl, by rw [← hq]⟩
  cases hc : s.closing with
  | true =>
    simp [hc] at h
    obtain ⟨q', hq, rfl⟩ := h
    exact key q' hq
  | false =>
    simp [hc] at h
    obtain ⟨q', hq, rfl⟩ := h
    exact key q' hq

end Queue

/-!
Part 2: the small-step interleaving model of the implementation (`Model/DeadlineSteps.lean`):
any number of threads, every interleaving of the atomic actions of Recv / Send / Close /
SetDeadline / Cancel / the timer callback.
-/
namespace DeadlineSteps

def Enabled (s : DS) (t : Nat) : Prop := ∃ s', Step s t s'

/-- a thread blocked in the inner `select` of Recv or Send, waiting on deadline channel `c` -/
def Blocked (s : DS) (t c : Nat) : Prop := s.pc t = .recvBlocked c ∨ s.pc t = .sendBlocked c

/-- **C17 (the channel invariant).** In every reachable state, every deadline channel ever handed
out — except possibly the current one — is closed, and a waiting thread only holds a channel that
was handed out. -/
theorem C17_old_channels_closed {cap : Nat} {s : DS} (h : Reach cap s) :
    (∀ c, c < s.cur → s.isClosed c) ∧ (∀ t c, Holds (s.pc t) c → c ≤ s.cur) :=
  ⟨(inv_reach h).old, (inv_reach h).held⟩

/-- **C17 (no lost wake-up, expiry).** In every reachable state, a thread blocked in Recv or Send
whose deadline channel has been closed (expiry, Cancel) or replaced (it is older than the current
one) has an enabled step: it is released. -/
theorem C17_no_lost_wakeup_expiry {cap : Nat} {s : DS} (h : Reach cap s) (t c : Nat)
    (hb : Blocked s t c) (hc : s.isClosed c ∨ c < s.cur) : Enabled s t := by
  have hcl : s.isClosed c := by
    rcases hc with hc | hc
    · exact hc
    · exact (inv_reach h).old c hc
  rcases hb with hb | hb
  · exact ⟨_, Step.recvWakeExpired s t c hb hcl⟩
  · exact ⟨_, Step.sendWakeExpired s t c hb hcl⟩

/-- **C17 (no lost wake-up, close).** In every reachable state after the Cancel of a Close has run,
no thread stays blocked in Recv or Send: every blocked thread has an enabled step — whatever
SetDeadline / Cancel calls are still in flight (they can no longer un-expire the deadline). -/
theorem C17_no_lost_wakeup {cap : Nat} {s : DS} (h : Reach cap s) (hclose : s.cancelled = true)
    (t c : Nat) (hb : Blocked s t c) : Enabled s t := by
  have inv := inv_reach h
  have hle : c ≤ s.cur := by
    apply inv.held t c
    rcases hb with hb | hb <;> simp [Holds, hb]
  apply C17_no_lost_wakeup_expiry h t c hb
  by_cases hlt : c < s.cur
  · right; exact hlt
  · left
    have : c = s.cur := by omega
    rw [this]
    exact (inv.fin hclose).2

/-- **C17 (close stays final).** Once Close's Cancel has run, the current deadline channel stays
closed for ever: no later step — in particular no SetDeadline that passed its closed check before
the Close — re-opens it. -/
theorem C17_closed_deadline_final {cap : Nat} {s s' : DS} (h : Reach cap s) (hclose : s.cancelled = true)
    (t : Nat) (hs : Step s t s') : s'.cancelled = true ∧ s'.isClosed s'.cur := by
  have inv' := inv_step (inv_reach h) hs
  have hc' : s'.cancelled = true := by
    cases hs <;> simp_all [DS.cancel]
  exact ⟨hc', (inv'.fin hc').2⟩

/-- non-vacuity: a Recv blocks, a SetDeadline passes its closed check, Close runs completely, the
late SetDeadline executes — and the blocked Recv is still released (finding F23 was exactly the
failure of this in the unrepaired code). -/
example : ∃ s, Reach 1 s ∧ s.cancelled = true ∧ Blocked s 0 0 ∧ s.pc 1 = .idle ∧ Enabled s 0 := by
  let s0 := init 1
  have r0 : Reach 1 s0 := .init
  -- thread 0: Recv up to the inner select
  let s1 : DS := { s0 with pc := upd s0.pc 0 .recvPolled }
  have r1 : Reach 1 s1 := .step 0 r0 (Step.recvPoll s0 0 rfl rfl)
  let s2 : DS := { s1 with pc := upd s1.pc 0 .recvChecked }
  have r2 : Reach 1 s2 := .step 0 r1 (Step.recvSeesOpen s1 0 rfl rfl)
  let s3 : DS := { s2 with pc := upd s2.pc 0 (.recvHas s2.cur) }
  have r3 : Reach 1 s3 := .step 0 r2 (Step.recvDone s2 0 rfl)
  let s4 : DS := { s3 with pc := upd s3.pc 0 (.recvBlocked 0) }
  have r4 : Reach 1 s4 := .step 0 r3 (Step.recvOuterOpen s3 0 0 rfl (by simp [DS.isClosed, s3, s2, s1, s0, init]))
  -- thread 1: SetDeadline(zero) passes the closed check
  let s5 : DS := { s4 with pc := upd s4.pc 1 (.setChecked .zero) }
  have r5 : Reach 1 s5 := .step 1 r4 (Step.setSeesOpen s4 1 .zero rfl rfl)
  -- thread 2: Close up to and including its Cancel
  let s6 : DS := { s5 with closedFlag := true, pc := upd s5.pc 2 .closeFlagged }
  have r6 : Reach 1 s6 := .step 2 r5 (Step.closeWins s5 2 rfl rfl)
  let s7 : DS := { s6 with final := true, pc := upd s6.pc 2 .closeFinal }
  have r7 : Reach 1 s7 := .step 2 r6 (Step.closeSetFinal s6 2 rfl)
  let s8 : DS := { s7.cancel with cancelled := true, pc := upd s7.pc 2 .closeWantLock }
  have r8 : Reach 1 s8 := .step 2 r7 (Step.closeCancel s7 2 rfl)
  -- thread 1: the late SetDeadline finds the deadline final
  let s9 : DS := { s8 with pc := upd s8.pc 1 .idle }
  have r9 : Reach 1 s9 := .step 1 r8 (Step.setFinal s8 1 .zero rfl rfl)
  refine ⟨s9, r9, rfl, Or.inl rfl, rfl, ?_⟩
  exact C17_no_lost_wakeup r9 rfl 0 0 (Or.inl rfl)

end DeadlineSteps

/-!
Part 3: the lifecycle elections of `transport.Client` (`Model/Lifecycle.lean`; `transport.Server.Close`
has the same shape): any number of threads calling Handshake and Close in any interleaving.
-/
namespace Lifecycle

/-- **C17 (the handshake runs once).** In every reachable state the handshake body has been started
at most once, however many threads call Handshake / Read / Write concurrently and whenever Close
intervenes. -/
theorem C17_handshake_once {s : LS} (h : Reach s) : s.hsRuns ≤ 1 := (inv_reach h).hs1

/-- **C17 (one shutdown owner).** At most one thread is ever in the owner's part of Close. -/
theorem C17_close_elected_once {s : LS} (h : Reach s) (t u : Nat)
    (ht : OwnerPC (s.pc t)) (hu : OwnerPC (s.pc u)) : t = u := by
  have a := (inv_reach h).own t ht
  have b := (inv_reach h).own u hu
  rw [a] at b
  exact Option.some.inj b

/-- **C17 (every caller of Close observes the same result).** In every reachable state, any two
Close calls that have returned — the elected owner or callers that waited on `closeDone`, in any
order — returned the same value: the one stored in `closeErr`, which is stored once. -/
theorem C17_close_same_result {s : LS} (h : Reach s) (t u v w : Nat)
    (ht : s.pc t = .closeRet v) (hu : s.pc u = .closeRet w) : v = w := by
  have a := (inv_reach h).ret t v ht
  have b := (inv_reach h).ret u w hu
  rw [a] at b
  exact Option.some.inj b

/-- a waiting Close caller is released as soon as the owner has published: it has an enabled step -/
theorem C17_close_waiter_released {s : LS} (h : Reach s) (t : Nat)
    (ht : s.pc t = .closeWaiting) (hd : s.closeDone = true) : ∃ s', Step s t s' := by
  have := (inv_reach h).done hd
  cases he : s.closeErr with
  | none => exact absurd he this
  | some v => exact ⟨_, Step.closeWake s t v ht hd he⟩

/-- non-vacuity: thread 0 is elected for the handshake, thread 1 closes while it runs (stores 7),
thread 2 joins the close; the handshake ends (its CAS fails: end-of-stream), the owner publishes,
the waiter wakes up: both Close calls return 7. -/
example : ∃ s, Reach s ∧ s.pc 1 = .closeRet 7 ∧ s.pc 2 = .closeRet 7 ∧ s.pc 0 = .hsRet .eof ∧ s.hsRuns = 1 := by
  let s0 := init
  have r0 : Reach s0 := .init
  let s1 : LS := { s0 with state := .handshaking, hsRuns := s0.hsRuns + 1, pc := upd s0.pc 0 .hsRunning }
  have r1 : Reach s1 := .step 0 r0 (Step.hsElect s0 0 rfl rfl)
  let s2 : LS := { s1 with state := .closing, owner := some 1, pc := upd s1.pc 1 (.closeElected s1.state) }
  have r2 : Reach s2 := .step 1 r1 (Step.closeElect s1 1 rfl rfl)
  let s3 : LS := { s2 with pc := upd s2.pc 2 .closeWaiting }
  have r3 : Reach s3 := .step 2 r2 (Step.closeJoin s2 2 rfl rfl)
  let s4 : LS := { s3 with closeErr := some 7, pc := upd s3.pc 1 (.closeStored .handshaking 7) }
  have r4 : Reach s4 := .step 1 r3 (Step.closeStore s3 1 .handshaking 7 rfl)
  let s5 : LS := { s4 with state := finishState s4.state true, hsDone := true,
                           pc := upd s4.pc 0 (.hsRet (hsResult (finishState s4.state true))) }
  have r5 : Reach s5 := .step 0 r4 (Step.hsFinish s4 0 true rfl)
  let s6 : LS := { s5 with state := .closed, closeDone := true, pc := upd s5.pc 1 (.closeRet 7) }
  have r6 : Reach s6 := .step 1 r5 (Step.closePublish s5 1 .handshaking 7 rfl (fun _ => rfl))
  let s7 : LS := { s6 with pc := upd s6.pc 2 (.closeRet 7) }
  have r7 : Reach s7 := .step 2 r6 (Step.closeWake s6 2 7 rfl rfl rfl)
  exact ⟨s7, r7, rfl, rfl, rfl, rfl⟩

end Lifecycle

/-! ### timer generations: a stale timer callback never expires a later deadline -/

namespace DeadlineGen

def Inv (s : S) : Prop :=
  (∀ g ∈ s.inflight, g ≤ s.gen) ∧ (s.gen ∈ s.inflight → s.dl = .future) ∧
  (s.expired = true → s.dl = .past ∨ (s.dl = .future ∧ s.firedCur = true)) ∧
  (s.firedCur = true → s.dl = .future)

theorem inv_init : Inv {} := by
  refine ⟨?_, ?_, ?_, ?_⟩ <;> simp

theorem inv_step (s : S) (e : Ev) (h : Inv s) : Inv (step s e) := by
  obtain ⟨h1, h2, h3, h4⟩ := h
  cases e with
  | set d =>
    cases d with
    | past =>
      refine ⟨?_, ?_, ?_, ?_⟩
      · intro g hg
        have := h1 g (by simpa [step] using hg)
        simp [step]; omega
      · intro hg
        have := h1 (s.gen + 1) (by simpa [step] using hg)
        omega
      · intro _; simp [step]
      · intro hf; simp [step] at hf
    | zero =>
      refine ⟨?_, ?_, ?_, ?_⟩
      · intro g hg
        have := h1 g (by simpa [step] using hg)
        simp [step]; omega
      · intro hg
        have := h1 (s.gen + 1) (by simpa [step] using hg)
        omega
      · intro he; simp [step] at he
      · intro hf; simp [step] at hf
    | future =>
      refine ⟨?_, ?_, ?_, ?_⟩
      · intro g hg
        simp only [step, if_true, List.mem_cons] at hg
        rcases hg with rfl | hg
        · simp [step]
        · have := h1 g hg
          simp [step]; omega
      · intro _; simp [step]
      · intro he; simp [step] at he
      · intro hf; simp [step] at hf
  | callback g =>
    simp only [step]
    split
    · rename_i hg
      split
      · rename_i hgen
        subst hgen
        have hfut := h2 hg
        refine ⟨?_, ?_, ?_, ?_⟩
        · intro g' hg'
          exact h1 g' (List.mem_of_mem_erase hg')
        · intro _; exact hfut
        · intro _; exact Or.inr ⟨hfut, rfl⟩
        · intro _; exact hfut
      · refine ⟨?_, ?_, h3, h4⟩
        · intro g' hg'
          exact h1 g' (List.mem_of_mem_erase hg')
        · intro hm
          exact h2 (List.mem_of_mem_erase hm)
    · exact ⟨h1, h2, h3, h4⟩

theorem inv_run (evs : List Ev) : Inv (run evs) := by
  unfold run
  suffices ∀ s, Inv s → Inv (evs.foldl step s) from this _ inv_init
  induction evs with
  | nil => intro s h; exact h
  | cons e rest ih => intro s h; exact ih _ (inv_step s e h)

/-- After every history of `SetDeadline` calls and timer callbacks - callbacks of stopped timers
arriving late, in any order, any number of them - the deadline is expired by time only if the last
call asked for a time in the past, or asked for a future time and *its own* timer has fired. -/
theorem C17_deadline_expiry_is_current (evs : List Ev) :
    (run evs).expired = true →
      (run evs).dl = .past ∨ ((run evs).dl = .future ∧ (run evs).firedCur = true) :=
  (inv_run evs).2.2.1

/-- in particular a deadline that was cleared stays unexpired whatever callbacks still arrive -/
theorem C17_cleared_deadline_never_expires (evs : List Ev) (h : (run evs).dl = .zero) :
    (run evs).expired = false := by
  cases he : (run evs).expired with
  | false => rfl
  | true =>
    rcases C17_deadline_expiry_is_current evs he with h1 | ⟨h1, _⟩ <;> rw [h] at h1 <;> cases h1

/-- non-vacuity: a timer that does fire in time expires its deadline … -/
example : (run [.set .future, .callback 1]).expired = true := by decide
/-- … a stale one does not (the callback of call 1 runs after call 2 cleared the deadline) … -/
example : (run [.set .future, .set .zero, .callback 1]).expired = false := by decide
/-- … and counting only the arming calls loses exactly this (the seeded change C17-r2-1) -/
example : ([Ev.set .future, .set .zero, .callback 1].foldl stepLazy {}).expired = true ∧
    ([Ev.set .future, .set .zero, .callback 1].foldl stepLazy {}).dl = .zero := by decide

/-! #### the tie to common/sync.go: what the model assumes about the order of statements,
checked on the statement shapes the translator regenerates from the source on every run -/

open Shape in
/-- `SetDeadline` counts *every* call that gets past the `final` check: `d.gen++` stands at the top
level of the function, the only conditional before it is `if d.final` (whose body returns), and it
comes before the old timer is stopped, before the channel is replaced and before the `t.IsZero()`
return. -/
def genCountedOnEveryCall (sh : List Item) : Bool :=
  match find sh (· == ⟨0, "incdec", "d.gen", "d.gen++"⟩) with
  | none => false
  | some i =>
    ((sh.take i).filter (fun it => it.kind == "if" || it.kind == "for" || it.kind == "switch" || it.kind == "select"))
        == [⟨0, "if", "", "d.final"⟩] &&
    ((sh.take i).filter (fun it => it.kind == "return")) == [⟨1, "return", "", "io.EOF"⟩] &&
    (match find sh (· == ⟨0, "if", "", "t.IsZero()"⟩) with | some j => decide (i < j) | none => false) &&
    (match find sh (· == ⟨0, "if", "", "!d.timer.Stop()"⟩) with | some j => decide (i < j) | none => false) &&
    -- the counter is written exactly once
    (sh.filter (fun it => (it.kind == "incdec" || it.kind == "assign") && it.head == "d.gen")).length == 1

open Shape in
/-- the timer armed by a call carries that call's number: `gen := d.gen` and then
`d.timer = time.AfterFunc(…, func() { d.timeoutFor(gen) })`, both after the count -/
def timerCarriesGeneration (sh : List Item) : Bool :=
  match find sh (· == ⟨0, "incdec", "d.gen", "d.gen++"⟩), find sh (fun it => it.kind == "assign" && it.text == "gen := d.gen") with
  | some i, some j =>
    let d := (sh[j]?.map (·.depth)).getD 0
    decide (i < j) &&
    (match sh[j + 1]? with
     | some a => a.kind == "assign" && a.depth == d && a.head == "d.timer <- time.AfterFunc"
     | none => false) &&
    sh[j + 2]? == some ⟨d + 1, "call", "d.timeoutFor", "d.timeoutFor(gen)"⟩ &&
    (sh.filter (fun it => it.head == "d.timeoutFor")).length == 1 &&
    (sh.filter (fun it => it.head == "d.timer <- time.AfterFunc")).length == 1
  | _, _ => false

open Shape in
/-- `timeoutFor` does nothing unless its number is the current one: the first thing after taking the
lock is `if d.gen != gen { return }` -/
def callbackChecksGeneration (sh : List Item) : Bool :=
  sh.take 4 == [⟨0, "call", "d.m.Lock", "d.m.Lock()"⟩, ⟨0, "defer", "", "d.m.Unlock"⟩, ⟨0, "if", "", "d.gen != gen"⟩,
    ⟨1, "return", "", ""⟩]

example : genCountedOnEveryCall Generated.shape_common_Deadline_SetDeadline = true := by decide
example : timerCarriesGeneration Generated.shape_common_Deadline_SetDeadline = true := by decide
example : callbackChecksGeneration Generated.shape_common_Deadline_timeoutFor = true := by decide

end DeadlineGen

/-! ### tie: the listen worker is counted only when it is started (transport/client.go)

`Model/Lifecycle.lean` has the elected `Close` wait for the workers that were *started*.  In
`clientHandshakeLocked` the worker is counted (`c.wg.Add(1)`) before the final compare-and-swap; on
the branch where that swap fails (a `Close` took the state meanwhile) the count is given back before
returning, and otherwise `go c.listen` follows. -/
namespace LifecycleShapes
open Shape

def workerCountedIffStarted (sh : List Item) : Bool :=
  match find sh (· == ⟨0, "call", "c.wg.Add", "c.wg.Add(1)"⟩) with
  | some i =>
    sh[i + 1]? == some ⟨0, "if", "", "!c.state.CompareAndSwap(clientStateHandshaking, clientStateOpen)"⟩ &&
    sh[i + 2]? == some ⟨1, "call", "c.wg.Done", "c.wg.Done()"⟩ &&
    (match sh[i + 3]? with | some r => r.depth == 1 && r.kind == "return" | none => false) &&
    sh[i + 4]? == some ⟨0, "go", "", "c.listen"⟩ &&
    (positions sh (fun it => it.head == "c.wg.Add")).length == 1
  | none => false

example : workerCountedIffStarted Generated.shape_transport_Client_clientHandshakeLocked = true := by decide

end LifecycleShapes
