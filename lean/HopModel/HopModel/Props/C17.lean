/-
C17 — Transport connections and deadline queues are safe under concurrent use.

Part 1 (this section): the sequential specification `QSpec` of the deadline-aware queue
(`Model/Queue.lean`, a transcription of the observable contract of `common.DeadlineChan`), with
theorems over ALL operation histories (any length, any mix of send / recv / close / setDeadline /
cancel / timer expiry).  The correspondence suites `C17q` (exact, sequential) and `C17lin`
(linearizability of recorded concurrent histories) tie the real `DeadlineChan` to this Spec.
-/
import HopModel.Proofs.Queue
namespace Queue

/-! ### FIFO, at most once -/

/-- **C17 (FIFO, at most once).** After every history on a fresh queue, the values returned by
Recv followed by the values still buffered are exactly the values accepted by Send, in order. -/
theorem C17_fifo_conservation (cap : Nat) (ops : List Op) :
    received (trace (Q.init cap) ops) ++ (final (Q.init cap) ops).buf = sent (trace (Q.init cap) ops) := by
  simpa [Q.init] using conserve (Q.init cap) ops

/-- **C17 (FIFO, at most once).** The sequence of received items is a prefix of the sequence of
sent items: each item is taken at most once, in the order it was put. -/
theorem C17_fifo_once (cap : Nat) (ops : List Op) :
    received (trace (Q.init cap) ops) <+: sent (trace (Q.init cap) ops) :=
  ⟨_, C17_fifo_conservation cap ops⟩

/-- the buffer never exceeds the capacity -/
theorem C17_capacity (cap : Nat) (ops : List Op) :
    (final (Q.init cap) ops).buf.length ≤ cap := by
  have h := final_bounded (Q.init cap) ops (by simp [Q.init])
  have hc : ∀ (q : Q) (ops : List Op), (final q ops).cap = q.cap := by
    intro q ops
    induction ops generalizing q with
    | nil => rfl
    | cons o os ih => simp [final, ih, step_cap]
  rw [hc] at h
  exact h

example : received (trace (Q.init 2) [.send 1, .send 2, .send 3, .close, .recv, .recv, .recv])
    = [1, 2] := by decide

/-! ### buffered data before end-of-stream -/

/-- **C17 (drain).** Buffered data wins over everything: in every state whose buffer is non-empty —
closed, expired, cancelled or not — Recv returns the oldest buffered item. -/
theorem C17_buffered_first (q : Q) (v : Nat) (t : List Nat) (h : q.buf = v :: t) :
    step q .recv = ({ q with buf := t }, .val v) := by
  simp [step, h]

/-- **C17 (drain before EOF).** In every history, whenever a Recv does not return a value (it
returns end-of-stream, a timeout or cancel error, or would block), every item accepted by Send
before that point has already been received: data queued before Close is returned before EOF. -/
theorem C17_drain_before_eof (cap : Nat) (pre : List Op)
    (h : ∀ v, (step (final (Q.init cap) pre) .recv).2 ≠ .val v) :
    received (trace (Q.init cap) pre) = sent (trace (Q.init cap) pre) := by
  have hc := C17_fifo_conservation cap pre
  have hb : (final (Q.init cap) pre).buf = [] := by
    cases hbuf : (final (Q.init cap) pre).buf with
    | nil => rfl
    | cons v t =>
      exfalso
      apply h v
      simp [step, hbuf]
  rw [hb, List.append_nil] at hc
  exact hc

/-- the EOF instance, with the history continuing after the close -/
example : (trace (Q.init 4) [.send 7, .send 8, .close, .recv, .recv, .recv]).map (·.2)
    = [.ok, .ok, .ok, .val 7, .val 8, .err .eof] := by decide

/-! ### close -/

/-- **C17 (close is absorbing).** Once closed, the queue stays closed after every history. -/
theorem C17_closed_absorbing (q : Q) (ops : List Op) (h : q.closed = true) :
    (final q ops).closed = true := final_closed q ops h

/-- **C17 (close is idempotent).** A second Close changes nothing and reports end-of-stream; so do
SetDeadline and Cancel after Close; Send after Close fails with end-of-stream. -/
theorem C17_close_idempotent (q : Q) :
    let q1 := (step q .close).1
    q1.closed = true ∧
    step q1 .close = (q1, .err .eof) ∧
    (∀ d, step q1 (.setDeadline d) = (q1, .err .eof)) ∧
    (∀ e, step q1 (.cancel e) = (q1, .err .eof)) ∧
    (∀ v, step q1 (.send v) = (q1, .err .eof)) := by
  have hc : (step q .close).1.closed = true := by
    simp only [step]; split
    · assumption
    · rfl
  generalize (step q .close).1 = q1 at hc
  refine ⟨hc, ?_, ?_, ?_, ?_⟩
  · simp [step, hc]
  · intro d; simp [step, hc]
  · intro e; simp [step, hc]
  · intro v; simp [step, hc]

/-- results of the Close calls of a trace -/
def closeResults : List (Op × Res) → List Res
  | [] => []
  | (.close, r) :: t => r :: closeResults t
  | _ :: t => closeResults t

theorem closeResults_closed (q : Q) (ops : List Op) (h : q.closed = true) :
    ∀ r ∈ closeResults (trace q ops), r = .err .eof := by
  induction ops generalizing q with
  | nil => simp [trace, closeResults]
  | cons o os ih =>
    have hn := step_closed q o h
    cases o <;> simp only [trace, closeResults] <;> try exact ih _ hn
    intro r hr
    simp only [List.mem_cons] at hr
    cases hr with
    | inl e => simp [e, step, h]
    | inr e => exact ih _ hn r e

/-- **C17 (close results).** In every history at most one Close call — the first — reports success;
every later Close reports end-of-stream (this is `DeadlineChan.Close`'s contract; the "same result
for every caller" clause of the property is about Client/Server.Close, see `C17_close_same_result`). -/
theorem C17_close_results (q : Q) (ops : List Op) :
    closeResults (trace q ops) = [] ∨
    ∃ r, closeResults (trace q ops) = r :: List.replicate ((closeResults (trace q ops)).length - 1) (.err .eof) := by
  induction ops generalizing q with
  | nil => left; rfl
  | cons o os ih =>
    cases o with
    | close =>
      right
      refine ⟨(step q .close).2, ?_⟩
      simp only [trace, closeResults, List.length_cons, Nat.add_sub_cancel]
      congr 1
      apply List.eq_replicate_iff.mpr
      refine ⟨rfl, ?_⟩
      apply closeResults_closed
      simp only [step]; split
      · assumption
      · rfl
    | send v => simpa [trace, closeResults] using ih _
    | recv => simpa [trace, closeResults] using ih _
    | setDeadline d => simpa [trace, closeResults] using ih _
    | cancel e => simpa [trace, closeResults] using ih _
    | timerFire => simpa [trace, closeResults] using ih _

example : closeResults (trace (Q.init 1) [.close, .send 1, .close, .close])
    = [.ok, .err .eof, .err .eof] := by decide

/-! ### timeouts -/

/-- **C17 (errors only when empty).** Recv reports an error or blocks only on an empty buffer. -/
theorem C17_recv_error_only_when_empty (q : Q) (h : ∀ v, (step q .recv).2 ≠ .val v) : q.buf = [] := by
  cases hb : q.buf with
  | nil => rfl
  | cons v t => exfalso; apply h v; simp [step, hb]

/-- **C17 (timeout only when the deadline passed).** In every history on a fresh queue, if a Recv
or Send returns the timeout error, then the most recent deadline-control event that took effect
(SetDeadline, Cancel, timer expiry, Close) is an expiry with the timeout error: a SetDeadline in
the past, the timer firing, or Cancel(timeout) — never a deadline that was since extended or
cleared, and never on a queue whose deadline was never set. -/
theorem C17_timeout_only_when_deadline_passed (cap : Nat) (pre : List Op) (o : Op)
    (ho : o = .recv ∨ ∃ v, o = .send v)
    (h : (step (final (Q.init cap) pre) o).2 = .err .timeout) :
    lastCtl .unexpired (trace (Q.init cap) pre) = .expiredBy .timeout := by
  have ha := run_agree .unexpired (Q.init cap) pre (by simp [Agree, Q.init])
  generalize final (Q.init cap) pre = q at h ha
  generalize lastCtl .unexpired (trace (Q.init cap) pre) = c at ha
  have key : q.expired = true ∧ q.err = some .timeout := by
    rcases ho with rfl | ⟨v, rfl⟩
    · simp only [step] at h
      split at h
      · simp at h
      · split at h
        · simp at h
        · split at h
          · rename_i he
            cases hq : q.err with
            | none => simp [Q.errRes, hq] at h
            | some e => simp [Q.errRes, hq] at h; simp_all
          · simp at h
    · simp only [step] at h
      split at h
      · simp at h
      · split at h
        · rename_i he
          cases hq : q.err with
          | none => simp [Q.errRes, hq] at h
          | some e => simp [Q.errRes, hq] at h; simp_all
        · split at h <;> simp at h
  cases c with
  | unexpired => simp [Agree] at ha; simp [ha] at key
  | expiredBy e =>
    simp only [Agree] at ha
    have : e = .timeout := by
      have := ha.2; rw [key.2] at this; exact (Option.some.inj this).symm
    rw [this]

/-- a timeout that is legitimate … -/
example : (trace (Q.init 1) [.setDeadline .future, .timerFire, .recv]).map (·.2)
    = [.ok, .ok, .err .timeout] := by decide
/-- … and an extended deadline un-expires the queue: the same Recv now blocks -/
example : (trace (Q.init 1) [.setDeadline .past, .setDeadline .future, .recv]).map (·.2)
    = [.ok, .ok, .block] := by decide

end Queue
