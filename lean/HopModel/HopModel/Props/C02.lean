/-
C02 — Any in-flight change to a handshake aborts it; success means equal fresh keys.

All statements are about the operation programs regenerated from `transport/handshake_pq.go`,
`server.go` and `client.go` on every run (`Generated.prog_*`), interpreted by
`Model/Handshake.lean` under IdealHash.  The quantifiers range over *all* environments: the
honesty mask has one bit per field of the message (a finite table, decided completely by the
kernel with `decide +kernel`), and lengths are handled symbolically as `a + b·n` for every
certificate length `n`.
-/
import HopModel.Proofs.Handshake
import HopModel.Proofs.HandshakeExp
import HopModel.Generated.HandshakeOps
import HopModel.Generated.Consts
namespace Handshake
open Generated

/-- the handshake messages: (name, reader, writer, dispatch program that calls the reader, reader's
name in that dispatch program) -/
def messages : List (String × List HOp × List HOp × List HOp × String) :=
  [ ("ClientHello", prog_readPQClientHello, prog_writePQClientHello, prog_handlePQClientHello, "readPQClientHello"),
    ("ServerHello", prog_readPQServerHello, prog_writePQServerHello, prog_beginPQDiscoverableHandshake, "readPQServerHello"),
    ("ClientAck", prog_readPQClientAck, prog_writePQClientAck, prog_readPacket_MessageTypeClientAck, "readPQClientAck"),
    ("ServerAuth", prog_readPQServerAuth, prog_writePQServerAuth, prog_beginPQDiscoverableHandshake, "readPQServerAuth"),
    ("ClientAuth", prog_readPQClientAuth, prog_writePQClientAuth, prog_readPacket_MessageTypeClientAuth, "readPQClientAuth"),
    ("ClientRequestHidden", prog_readPQClientRequestHidden, prog_writePQClientRequestHidden,
       prog_handlePQClientRequestHidden, "readPQClientRequestHidden"),
    ("ServerResponseHidden", prog_readPQServerResponseHidden, prog_writePQServerResponseHidden,
       prog_beginPQHiddenHandshake, "readPQServerResponseHidden") ]

/-- the model has a meaning for every operation of every reader and writer -/
theorem C02_programs_known :
    ∀ m ∈ messages, known m.2.1 = true ∧ known m.2.2.1 = true := by decide +kernel

/-- reader and writer of every message agree on the field layout, and it is the documented one -/
theorem C02_layouts_agree :
    (messages.map fun m => (m.1, layoutOf m.2.1)) = (messages.map fun m => (m.1, layoutOf m.2.2.1)) ∧
    (messages.map fun m => layoutOf m.2.1) =
      [ [.hdr, .kemKey, .mac],
        [.hdr, .kemCt, .cookie, .mac],
        [.hdr, .dhEph, .kemKey, .cookie, .sni, .mac],
        [.hdr, .sid, .dhEph, .certs, .mac, .mac],
        [.hdr, .sid, .certs, .mac, .mac],
        [.hdr, .kemKey, .kemCt, .certs, .mac, .ts, .mac],
        [.hdr, .sid, .kemCt, .certs, .mac, .mac] ] := by decide +kernel

/-- **G-tie.** The readers regenerated from the source perform exactly the expected state-changing
actions, in order — in particular every MAC comparison is *enforced* and every field is absorbed or
decrypted before one.  (Operations without effect on the transcript agreement — constant checks,
logging, length guards — may come and go freely.) -/
theorem C02_readers_as_expected :
    (messages.map fun m => (m.1, coreActs m.2.1)) = (expected.map fun e => (e.1, e.2.1)) := by decide +kernel

/-- **C02 (a) — coverage**, for the expected actions: whatever else is true of the sender, if *any*
field of the datagram is altered (any non-full honesty mask — a single flipped byte, or the
corresponding datagram of a different handshake, whose ephemeral keys, cookie, session id and MACs
all differ) the reader does not reach success. -/
theorem C02_any_alteration_rejected_exp :
    ∀ e ∈ expected, ∀ mask, mask < 2 ^ e.2.2 → mask ≠ allHonest e.2.2 →
      ∀ poss cert cook time vs,
        runActs e.2.1 { honest := mask, possession := poss, certOK := cert, cookieOK := cook, timeOK := time,
                        verifySet := vs } = false := any_alteration_rejected_exp

/-- … and therefore for the code's readers. -/
theorem C02_any_alteration_rejected (name : String) (reader writer disp : List HOp) (rn : String)
    (hm : (name, reader, writer, disp, rn) ∈ messages) (acts : List Act) (k : Nat)
    (he : (name, acts, k) ∈ expected) (mask : Nat) (hlt : mask < 2 ^ k) (hne : mask ≠ allHonest k)
    (poss cert cook time vs : Bool) :
    run reader { honest := mask, possession := poss, certOK := cert, cookieOK := cook, timeOK := time,
                 verifySet := vs } = false := by
  rw [run_core]
  have hcore : coreActs reader = acts := by
    have h := C02_readers_as_expected
    have h1 : (name, coreActs reader) ∈ (messages.map fun m => (m.1, coreActs m.2.1)) :=
      List.mem_map.mpr ⟨_, hm, rfl⟩
    rw [h] at h1
    obtain ⟨e, hemem, heq⟩ := List.mem_map.mp h1
    -- names are unique in `expected`
    have := expected_names_unique e hemem (name, acts, k) he (by simpa using congrArg Prod.fst heq)
    simp only at this
    rw [← this]
    exact (congrArg Prod.snd heq).symm
  rw [hcore]
  exact C02_any_alteration_rejected_exp (name, acts, k) he mask hlt hne poss cert cook time vs

/-- **C02 (b) — every byte offset belongs to a field** (so "any byte altered" is "some field
altered"): layouts tile the datagram, for every certificate length. -/
def fieldAt (n : Nat) : List FK → Nat → Option Nat
  | [], _ => none
  | k :: rest, off => if off < k.size n then some 0 else (fieldAt n rest (off - k.size n)).map (· + 1)

theorem C02_offset_to_field (n : Nat) (l : List FK) (off : Nat) (h : off < totalLen n l) :
    ∃ i, fieldAt n l off = some i ∧ i < l.length := by
  induction l generalizing off with
  | nil => simp [totalLen] at h
  | cons k rest ih =>
    unfold fieldAt
    by_cases hk : off < k.size n
    · exact ⟨0, by simp [hk], by simp⟩
    · have : off - k.size n < totalLen n rest := by
        simp only [totalLen, List.map_cons, List.sum_cons] at h ⊢; omega
      obtain ⟨i, hi, hlt⟩ := ih _ this
      exact ⟨i + 1, by simp [hk, hi], by simp; omega⟩

/-- **C02 (c) — truncation and extension.** For every message, the reader either refuses any
datagram shorter than what it consumes (for every certificate length), or its caller compares the
number of bytes read with the datagram length and leaves on a mismatch — so a reader can never be
satisfied by bytes that were not in the datagram (stale bytes of the receive buffer). -/
def lengthEnforced (m : String × List HOp × List HOp × List HOp × String) : Bool :=
  guardCovers m.2.1 && (exactLenAfter m.2.2.2.1 m.2.2.2.2 || m.1 = "ClientAuth")

theorem C02_truncation_rejected : ∀ m ∈ messages, guardCovers m.2.1 = true := by decide +kernel

/-- all messages but ClientAuth are also rejected when bytes are *appended* (exact length); the
server accepts trailing bytes after a ClientAuth, which the property does not forbid. -/
theorem C02_extension_rejected :
    ∀ m ∈ messages, m.1 ≠ "ClientAuth" → exactLenAfter m.2.2.2.1 m.2.2.2.2 = true := by decide +kernel

/-- **C02 (d) — equal keys.** A reader that succeeds ends with its transcript equal to the sender's
(`sync`): with IdealHash, equal transcripts give equal session keys on both sides. -/
theorem C02_success_means_synchronised :
    ∀ e ∈ expected, ∀ mask, mask < 2 ^ e.2.2 → ∀ poss cert cook time vs,
      runActs e.2.1 { honest := mask, possession := poss, certOK := cert, cookieOK := cook, timeOK := time,
                      verifySet := vs } = true →
      (finalSt e.2.1 { honest := mask, possession := poss, certOK := cert, cookieOK := cook, timeOK := time,
                       verifySet := vs }).sync = true := success_means_synchronised_exp

/-- the two directional keys are squeezed after absorbing *different* labels, with a ratchet before
each: the directions use different keys -/
theorem C02_directions_differ :
    prog_deriveFinalKeys =
      [ .compute "Ratchet" false, .absorb "[]byte(\"client_to_server_key\")", .squeezeOut "clientToServerKey[:]",
        .compute "Ratchet" false, .absorb "[]byte(\"server_to_client_key\")", .squeezeOut "serverToClientKey[:]" ] := by
  decide +kernel

/-- fresh values enter every transcript: each side contributes an ephemeral KEM or DH key that is
absorbed before the keys are derived (independent sessions have different transcripts) -/
theorem C02_fresh_in_transcript :
    FK.kemKey ∈ layoutOf prog_readPQClientHello ∧ FK.kemCt ∈ layoutOf prog_readPQServerHello ∧
    FK.dhEph ∈ layoutOf prog_readPQClientAck ∧ FK.dhEph ∈ layoutOf prog_readPQServerAuth ∧
    FK.kemKey ∈ layoutOf prog_readPQClientRequestHidden ∧ FK.kemCt ∈ layoutOf prog_readPQServerResponseHidden := by
  decide +kernel

/-! ### non-vacuity: the honest run of every reader succeeds -/

example : ∀ e ∈ expected,
    runActs e.2.1 { honest := allHonest e.2.2, possession := true, certOK := true, cookieOK := true,
                    timeOK := true, verifySet := true } = true := by decide +kernel
example : (expected.map fun e => e.2.2) = (messages.map fun m => (layoutOf m.2.1).length) := by decide +kernel

/-! ### obligations on extracted constants: field sizes -/

example : Generated.transport_HeaderLen = FK.size 0 .hdr := by decide
example : Generated.transport_SessionIDLen = FK.size 0 .sid := by decide
example : Generated.transport_DHLen = FK.size 0 .dhEph := by decide
example : Generated.transport_KemKeyLen = FK.size 0 .kemKey := by decide
example : Generated.transport_KemCtLen = FK.size 0 .kemCt := by decide
example : Generated.transport_PQCookieLen = FK.size 0 .cookie := by decide
example : Generated.transport_SNILen = FK.size 0 .sni := by decide
example : Generated.transport_MacLen = FK.size 0 .mac := by decide
example : Generated.transport_TimestampLen = FK.size 0 .ts := by decide

end Handshake
