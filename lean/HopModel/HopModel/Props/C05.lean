/-
C05 — User login is granted only by a listed key or a live grant, failing closed.

Model: `Model/AuthKeys.lean` (file parsing and `HopServer.AuthorizeKey`), `Model/Login.lean`
(grant map, transport key set, `AddAuthGrant`, `AuthorizeKeyAuthGrant`, the decision of
`checkAuthorization`).  Spec:

* `Listed fs u k`          — user `u` exists, the authorized-keys file opens and parses as a whole,
                             and one of its lines, trimmed, is the textual form of exactly `k`;
* `Unconsumed hist u k g`  — grant `g` was added for exactly `(u, k)` somewhere in the history and no
                             later operation consumed the grants of `(u, k)` (`Proofs/Login.lean`).

All theorems quantify over every history of operations (each login with its own file-system
state), every user name, every key and both settings of `EnableAuthgrants`.
-/
import HopModel.Proofs.Login
import HopModel.Generated.Consts
import HopModel.Generated.Shapes
namespace Login
open AuthKeys

/-- `k` is a well-formed entry of `u`'s authorized-keys file -/
def Listed (fs : User → FileState) (u : User) (k : Key) : Prop :=
  ∃ data ks, fs u = .content data ∧ parseAuthorizedKeys data = some ks ∧
    ∃ line ∈ scanLines data, parseKey (trimSpace line) = some k

theorem parseKey_nil : parseKey [] = none := by decide

theorem authorizeData_ok_iff (data : Bytes) (k : Key) :
    authorizeData data k = .ok ↔
      ∃ ks, parseAuthorizedKeys data = some ks ∧ ∃ line ∈ scanLines data, parseKey (trimSpace line) = some k := by
  unfold authorizeData
  split
  · rename_i hnone
    simp [hnone]
  · rename_i ks hks
    have hmem := parseLines_mem (ks := ks) hks k
    constructor
    · intro h
      split at h
      · rename_i ha
        obtain ⟨l, hl, _, hk⟩ := hmem.mp ((allowed_iff ks k).mp ha)
        exact ⟨ks, hks, l, hl, hk⟩
      · cases h
    · rintro ⟨ks', hks', l, hl, hk⟩
      have hne : trimSpace l ≠ [] := by
        intro h0
        rw [h0, parseKey_nil] at hk
        cases hk
      have : allowed ks k = true := (allowed_iff ks k).mpr (hmem.mpr ⟨l, hl, hne, hk⟩)
      simp [this]

/-- **C05 (authorized keys).** `AuthorizeKey` succeeds exactly for a well-formed listed entry. -/
theorem C05_authorizeKey_iff (fs : User → FileState) (u : User) (k : Key) :
    authorizeKey fs u k = .ok ↔ Listed fs u k := by
  unfold authorizeKey Listed
  split
  · rename_i h; simp [h]
  · rename_i h; simp [h]
  · rename_i h
    have : authorizeData [] k ≠ .ok := by
      simp [authorizeData, parseAuthorizedKeys, scanLines, scanLinesAux, parseLines, allowed]
    simp [h, this]
  · rename_i data h
    rw [authorizeData_ok_iff]
    constructor
    · rintro ⟨ks, h1, h2⟩
      exact ⟨data, ks, h, h1, h2⟩
    · rintro ⟨data', ks, h0, h1, h2⟩
      rw [h] at h0
      cases h0
      exact ⟨ks, h1, h2⟩

/-- **C05 (fail closed).** A missing user, a missing or unreadable file, a file that does not parse
and a file without entries never authorize anybody. -/
theorem C05_fail_closed (fs : User → FileState) (u : User) (k : Key)
    (h : fs u = .noUser ∨ fs u = .missing ∨ fs u = .unreadable ∨
      ∃ data, fs u = .content data ∧ (parseAuthorizedKeys data = none ∨ parseAuthorizedKeys data = some [])) :
    authorizeKey fs u k ≠ .ok := by
  rw [Ne, C05_authorizeKey_iff]
  rintro ⟨data, ks, h0, h1, l, hl, hk⟩
  rcases h with h | h | h | ⟨data', h, hp⟩
  · rw [h] at h0; cases h0
  · rw [h] at h0; cases h0
  · rw [h] at h0; cases h0
  · rw [h] at h0
    cases h0
    rcases hp with hp | hp
    · rw [hp] at h1; cases h1
    · rw [hp] at h1
      cases h1
      have hne : trimSpace l ≠ [] := by
        intro h0
        rw [h0, parseKey_nil] at hk
        cases hk
      have := (parseLines_mem (ks := []) hp k).mpr ⟨l, hl, hne, hk⟩
      cases this

/-- one malformed line is enough: if any non-blank line of the file is not a key, nobody is authorized -/
theorem C05_one_bad_line (fs : User → FileState) (u : User) (k : Key) (data : Bytes) (h : fs u = .content data)
    (bad : ∃ l ∈ scanLines data, trimSpace l ≠ [] ∧ parseKey (trimSpace l) = none) :
    authorizeKey fs u k ≠ .ok := by
  rw [Ne, C05_authorizeKey_iff]
  rintro ⟨data', ks, h0, h1, _⟩
  rw [h] at h0
  cases h0
  obtain ⟨l, hl, hne, hnone⟩ := bad
  obtain ⟨k', hk'⟩ := parseLines_all h1 l hl hne
  rw [hnone] at hk'
  cases hk'

/-- **C05.** Whatever happened before — any history of grants added, grants used and logins, each
with its own file-system state — a login as `u` with key `k` is admitted only if `k` is a listed
well-formed entry of `u`'s file (and then no grant is touched), or grants are enabled, the key is
not listed, and the admitting grants are exactly the grants added for `(u, k)` and not consumed
since, of which there is at least one. -/
theorem C05_listed_or_granted (ag : Bool) (hist : List Op) (fs : User → FileState) (u : User) (k : Key)
    (out : Outcome) (s' : State) (h : login (run (init ag) hist) fs u k = (out, s')) (hadm : out ≠ .rejected) :
    (out = .listed ∧ Listed fs u k ∧ s' = run (init ag) hist) ∨
    (ag = true ∧ ¬ Listed fs u k ∧
      ∃ gs, out = .granted gs ∧ gs ≠ [] ∧ ∀ g, g ∈ gs ↔ Unconsumed hist u k g) := by
  have hen : (run (init ag) hist).agEnabled = ag := by rw [run_enabled]; rfl
  rw [login_eq] at h
  split at h
  · rename_i hok
    cases h
    exact Or.inl ⟨rfl, (C05_authorizeKey_iff fs u k).mp hok, rfl⟩
  · rename_i hno
    split at h
    · rename_i hg
      cases h
      rw [hen] at hg
      obtain ⟨rfl, hne⟩ := hg
      refine Or.inr ⟨rfl, fun hl => hno ((C05_authorizeKey_iff fs u k).mpr hl), _, rfl, hne, ?_⟩
      intro g
      rw [mem_grantsFor, grants_invariant]
    · cases h
      exact absurd rfl hadm

/-- **C05 (fail closed, at login).** With a missing user, a missing / unreadable / unparsable / empty
file, a login is admitted only through a live grant: without one (or with grants disabled) it is
rejected and the server state is untouched. -/
theorem C05_fail_closed_login (ag : Bool) (hist : List Op) (fs : User → FileState) (u : User) (k : Key)
    (hbad : fs u = .noUser ∨ fs u = .missing ∨ fs u = .unreadable ∨
      ∃ data, fs u = .content data ∧ (parseAuthorizedKeys data = none ∨ parseAuthorizedKeys data = some []))
    (hng : ag = false ∨ ∀ g, ¬ Unconsumed hist u k g) :
    login (run (init ag) hist) fs u k = (.rejected, run (init ag) hist) := by
  have hno := C05_fail_closed fs u k hbad
  have hen : (run (init ag) hist).agEnabled = ag := by rw [run_enabled]; rfl
  rw [login_eq]
  simp only [hno, if_false, hen]
  rcases hng with rfl | hng
  · simp
  · cases ag with
    | false => simp
    | true =>
      have : grantsFor (run (init true) hist) u k = [] := by
        apply List.eq_nil_iff_forall_not_mem.mpr
        intro g hg
        exact hng g ((grants_invariant hist u k g).mp ((mem_grantsFor _ _ _ _).mp hg))
      simp [this]

/-- **C05 (converse).** A listed key is admitted; with grants enabled so is a key holding a live grant. -/
theorem C05_login_complete (ag : Bool) (hist : List Op) (fs : User → FileState) (u : User) (k : Key) :
    (Listed fs u k → (login (run (init ag) hist) fs u k).1 = .listed) ∧
    (ag = true → (∃ g, Unconsumed hist u k g) → (login (run (init ag) hist) fs u k).1 ≠ .rejected) := by
  constructor
  · intro hl
    have := (C05_authorizeKey_iff fs u k).mpr hl
    simp [login, this]
  · rintro rfl ⟨g, hg⟩
    have hen : (run (init true) hist).agEnabled = true := by rw [run_enabled]; rfl
    have hm : g ∈ grantsFor (run (init true) hist) u k := by
      rw [mem_grantsFor, grants_invariant]; exact hg
    have hne : grantsFor (run (init true) hist) u k ≠ [] := by
      intro h0
      rw [h0] at hm
      cases hm
    rw [login_eq]
    split
    · simp
    · simp [hen, hne]

/-- **C05 (grants are consumed).** For any server state: a login admitted by grants leaves no grant
for `(u, k)`, takes the key out of the transport key set, and a second login of the same pair is
rejected unless the key has meanwhile been listed. -/
theorem C05_grant_consumed (s : State) (fs : User → FileState) (u : User) (k : Key) (gs : List Grant) (s' : State)
    (h : login s fs u k = (.granted gs, s')) :
    grantsFor s' u k = [] ∧ k ∉ s'.keySet ∧
      ∀ fs', authorizeKey fs' u k ≠ .ok → (login s' fs' u k).1 = .rejected := by
  rw [login_eq] at h
  split at h
  · cases h
  · split at h
    · simp only [Prod.mk.injEq, Outcome.granted.injEq] at h
      obtain ⟨_, rfl⟩ := h
      refine ⟨grantsFor_consume s u k, not_mem_keySet_consume s u k, ?_⟩
      intro fs' hno
      simp [login_eq, hno, grantsFor_consume]
    · cases h

/-- **C05 (grants disabled).** With `EnableAuthgrants` off only a listed key logs in, and grants
cannot even be added. -/
theorem C05_disabled (hist : List Op) (fs : User → FileState) (u : User) (k : Key)
    (h : (login (run (init false) hist) fs u k).1 ≠ .rejected) :
    (login (run (init false) hist) fs u k).1 = .listed ∧ Listed fs u k := by
  have hen : (run (init false) hist).agEnabled = false := by rw [run_enabled]; rfl
  rw [login_eq] at h ⊢
  split
  · rename_i hok
    exact ⟨rfl, (C05_authorizeKey_iff fs u k).mp hok⟩
  · rename_i hno
    simp [hno, hen] at h

theorem C05_disabled_no_grants (hist : List Op) (u : User) (k : Key) (g : Grant) :
    (addGrant (run (init false) hist) u k g).1 = false ∧ (run (init false) hist).grants = [] ∧
      (run (init false) hist).keySet = [] := by
  have hen : (run (init false) hist).agEnabled = false := by rw [run_enabled]; rfl
  exact ⟨by simp [addGrant, hen], disabled_invariant hist⟩

/-- **C05 (transport key set).** The set of keys admitted by the transport layer on account of
grants never holds a key without a live grant for some user. -/
theorem C05_keyset_live (ag : Bool) (hist : List Op) (k : Key) (h : k ∈ (run (init ag) hist).keySet) :
    ∃ u g, (u, k, g) ∈ (run (init ag) hist).grants := by
  cases ag with
  | false => rw [(disabled_invariant hist).2] at h; cases h
  | true =>
    induction hist using snocInduction generalizing k with
    | nil => cases h
    | snoc hist op ih =>
      have hen : (run (init true) hist).agEnabled = true := by rw [run_enabled]; rfl
      rw [run_snoc] at h ⊢
      have useCase : ∀ u' k', k ∈ (useGrants (run (init true) hist) u' k').2.keySet →
          ∃ u g, (u, k, g) ∈ (useGrants (run (init true) hist) u' k').2.grants := by
        intro u' k' hk
        unfold useGrants at hk
        simp only [hen, if_true] at hk
        split at hk
        · obtain ⟨u, g, hm⟩ := ih k hk
          refine ⟨u, g, ?_⟩
          rw [mem_useGrants _ hen]
          refine ⟨hm, ?_⟩
          rintro ⟨rfl, rfl⟩
          rename_i hnil
          have : g ∈ grantsFor (run (init true) hist) u' k' := (mem_grantsFor _ _ _ _).mpr hm
          rw [hnil] at this
          cases this
        · simp only [consume, List.mem_filter, Bool.not_eq_eq_eq_not, Bool.not_true, beq_eq_false_iff_ne, ne_eq] at hk
          obtain ⟨u, g, hm⟩ := ih k hk.1
          refine ⟨u, g, ?_⟩
          rw [mem_useGrants _ hen]
          exact ⟨hm, fun hh => hk.2 hh.2.symm⟩
      cases op with
      | addGrant u' k' g' =>
        simp only [step] at h ⊢
        by_cases hk : k = k'
        · subst hk
          exact ⟨u', g', (mem_addGrant _ hen _ _ _ _).mpr (Or.inr rfl)⟩
        · have : k ∈ (run (init true) hist).keySet := by
            simp only [addGrant, hen] at h
            simp only [Bool.not_true, Bool.false_eq_true, if_false] at h
            split at h
            · exact h
            · rcases List.mem_cons.mp h with h | h
              · exact absurd h hk
              · exact h
          obtain ⟨u, g, hm⟩ := ih k this
          exact ⟨u, g, (mem_addGrant _ hen _ _ _ _).mpr (Or.inl hm)⟩
      | useGrants u' k' => exact useCase u' k' h
      | login fs u' k' =>
        simp only [step, login_state, hen, if_true] at h ⊢
        split
        · rename_i hok
          simp only [hok, if_true] at h
          exact ih k h
        · rename_i hno
          simp only [hno, if_false] at h
          exact useCase u' k' h

/-- what `parseKey` accepts has the prefix and yields 32 bytes -/
theorem C05_entry_shape (l : Bytes) (k : Key) (h : parseKey l = some k) :
    hasPrefix keyPrefix l = true ∧ k.length = 32 := ⟨parseKey_prefix h, parseKey_length h⟩

/-! ### constants of the source -/
example : Generated.keys_DHPublicKeyPrefix.toList.map (fun c => UInt8.ofNat c.toNat) = keyPrefix := by decide
example : Generated.common_AuthorizedKeysFile = "authorized_keys" := by decide

/-! ### non-vacuity: a concrete key, files, and a history -/

/-- the all-zero key, its entry `hop-dh-v1-AAAA…A=` -/
def k0 : Key := List.replicate 32 0
def entry0 : Bytes := keyPrefix ++ List.replicate 43 65 ++ [61]
/-- " <entry>\r\n\n" -/
def fileGood : Bytes := [32] ++ entry0 ++ [13, 10, 10]
/-- "<entry>\n# x\n" — the same entry followed by a comment line -/
def fileComment : Bytes := entry0 ++ [10, 35, 32, 120, 10]
def alice : User := [97]
def k1 : Key := List.replicate 32 1

example : parseKey entry0 = some k0 := by decide
example : authorizeKey (fun _ => .content fileGood) alice k0 = .ok := by decide
example : Listed (fun _ => .content fileGood) alice k0 :=
  (C05_authorizeKey_iff _ _ _).mp (by decide)
/-- the input on which the pinned `AuthorizeKey` failed open: one comment line -/
example : authorizeKey (fun _ => .content fileComment) alice k0 ≠ .ok := by decide
example : authorizeKey (fun _ => .content fileComment) alice k1 ≠ .ok :=
  C05_fail_closed _ _ _ (Or.inr (Or.inr (Or.inr ⟨fileComment, rfl, Or.inl (by decide)⟩)))
example : authorizeKey (fun _ => .missing) alice k0 ≠ .ok := by decide
/-- a history: grant 7 for (alice, k1); login admits by grant 7; the second login is rejected -/
example : (login (run (init true) [.addGrant alice k1 7]) (fun _ => .content fileGood) alice k1).1 = .granted [7] := by
  decide
example : Unconsumed [.addGrant alice k1 7] alice k1 7 := ⟨[], [], rfl, by simp⟩
example : (login (run (init true) [.addGrant alice k1 7, .login (fun _ => .missing) alice k1])
    (fun _ => .missing) alice k1).1 = .rejected := by decide
example : (login (run (init false) [.addGrant alice k1 7]) (fun _ => .missing) alice k1).1 = .rejected := by decide


/-! ### the tie behind "calls are serialised": the grant map's operations are single critical sections

The models treat `AddAuthGrant` and `RemoveAuthgrants` (look-up *and* removal) as atomic steps.
That is a fact about authgrants/authgrants.go which the translator regenerates on every run as
statement shapes; the race suite `C05race` observes the same thing on the running code. -/
example : Shape.oneCriticalSection "m.agLock" Generated.shape_authgrants_AuthgrantMapSync_RemoveAuthgrants = true := by decide
example : Shape.oneCriticalSection "m.agLock" Generated.shape_authgrants_AuthgrantMapSync_AddAuthGrant = true := by decide
/-- the look-up and the removal are both inside it -/
example : (Generated.shape_authgrants_AuthgrantMapSync_RemoveAuthgrants.filter
    (fun it => it.text == "val, ok := ags[key]" || it.text == "delete(ags, key)")).length = 2 := by decide

end Login
