/-
C16 — Tube and muxer shutdown always terminates and is clean.

Part 1: the FIN state machine of a reliable tube (`Model/Fin.lean`), for ALL event sequences
(any interleaving of local closes, peer FINs/ACKs in any order and with any loss, duplicate-ACK
errors, timer expiries and forced closes).  The correspondence suite `C16` checks that the
transition log of every real tube is a path of this model (event by event).
-/
import HopModel.Model.Fin
import HopModel.Proofs.StopSteps
import HopModel.Generated.Shapes
namespace Fin

/-! ### safety: only legal transitions, closed is absorbing -/

theorem ackStep_safe (t : T) : (ackStep t).st = t.st ∨ Graceful t.st (ackStep t).st := by
  unfold ackStep
  cases h : t.st <;> simp [T.enterClosed, Graceful, h]

theorem finStep_safe (t : T) : (finStep t).st = t.st ∨ Graceful t.st (finStep t).st := by
  unfold finStep
  cases h : t.st <;> simp [T.enterClosed, Graceful, h]

/-- **C16 (legal transitions).** Every event either leaves the tube state unchanged, or moves it
along a graceful edge of the close handshake, or (only for `ackErr`, `lastAckTimer`, `forceClose`)
aborts it to `closed`; the combined ACK+FIN frame takes two graceful edges in a row. -/
theorem C16_fin_safe (t : T) (e : Ev) :
    let s' := (step t e).1.st
    s' = t.st ∨ Graceful t.st s' ∨
      (s' = .closed ∧ (e = .ackErr ∨ e = .lastAckTimer ∨ e = .forceClose)) ∨
      (e = .ackFin ∧ ∃ mid, Graceful t.st mid ∧ Graceful mid s') := by
  cases e with
  | initRecv =>
    simp only [step]; split
    · rename_i h; right; left; simp [h, Graceful]
    · left; rfl
  | localClose =>
    simp only [step]
    cases h : t.st <;> simp [Graceful, h]
  | ack =>
    simp only [step]; split
    · rcases ackStep_safe t with h | h
      · left; exact h
      · right; left; exact h
    · left; rfl
  | fin =>
    simp only [step]; split
    · rcases finStep_safe t with h | h
      · left; exact h
      · right; left; exact h
    · left; rfl
  | ackFin =>
    simp only [step]; split
    · rcases ackStep_safe t with h1 | h1 <;> rcases finStep_safe (ackStep t) with h2 | h2
      · left; rw [h2, h1]
      · right; left; rw [h1] at h2; exact h2
      · right; left; rw [h2]; exact h1
      · right; right; right; exact ⟨by trivial, _, h1, h2⟩
    · left; rfl
  | ackErr =>
    simp only [step]; split
    · right; right; left; simp [T.enterClosed]
    · left; rfl
  | lastAckTimer =>
    simp only [step]; split
    · right; right; left; simp [T.enterClosed]
    · left; rfl
  | forceClose =>
    right; right; left; simp [step, T.enterClosed]

theorem step_closed (t : T) (e : Ev) (h : t.st = .closed) : (step t e).1.st = .closed := by
  cases e <;> simp [step, h, T.receiving, T.enterClosed]
  all_goals (try split) <;> simp_all [T.enterClosed]

/-- **C16 (closed is absorbing).** After `closed`, no event sequence leaves it. -/
theorem C16_closed_absorbing (t : T) (es : List Ev) (h : t.st = .closed) : (run t es).st = .closed := by
  induction es generalizing t with
  | nil => exact h
  | cons e es ih => exact ih _ (step_closed t e h)

/-! ### the lastAck timer is pending exactly in lastAck -/

def TimerInv (t : T) : Prop := t.timer = true ↔ t.st = .lastAck

theorem step_timerInv (t : T) (e : Ev) (h : TimerInv t) : TimerInv (step t e).1 := by
  unfold TimerInv at *
  cases e with
  | initRecv =>
    simp only [step]; split
    · rename_i hs; simp [hs] at h; simp [h]
    · exact h
  | localClose =>
    simp only [step]
    cases hs : t.st <;> simp_all
  | ack =>
    simp only [step]; split
    · unfold ackStep; cases hs : t.st <;> simp_all [T.enterClosed]
    · exact h
  | fin =>
    simp only [step]; split
    · unfold finStep; cases hs : t.st <;> simp_all [T.enterClosed]
    · exact h
  | ackFin =>
    simp only [step]; split
    · unfold finStep ackStep; cases hs : t.st <;> simp_all [T.enterClosed]
    · exact h
  | ackErr => simp only [step]; split <;> simp_all [T.enterClosed]
  | lastAckTimer => simp only [step]; split <;> simp_all [T.enterClosed]
  | forceClose => simp [step, T.enterClosed]

theorem run_timerInv (t : T) (es : List Ev) (h : TimerInv t) : TimerInv (run t es) := by
  induction es generalizing t with
  | nil => exact h
  | cons e es ih => exact ih _ (step_timerInv t e h)

/-- **C16 (the passive closer never depends on the peer).** In every state reachable by any
event sequence, the tube is in `lastAck` exactly when its lastAck timer is pending. -/
theorem C16_lastAck_has_timer (es : List Ev) :
    (run T.init es).timer = true ↔ (run T.init es).st = .lastAck :=
  run_timerInv T.init es (by simp [TimerInv, T.init])

/-! ### termination of the close handshake in a bounded number of timer events -/

theorem run_append (t : T) (a b : List Ev) : run t (a ++ b) = run (run t a) b := by
  induction a generalizing t with
  | nil => rfl
  | cons e es ih => simp [run, ih]

/-- **C16 (reaches closed).** For ALL event sequences `es` (any loss pattern: the peer's FIN and
ACKs may or may not be among them) and ALL continuations `more`:
* one `forceClose` event (the `muxerTimeout` callback of `Muxer.Stop`) closes the tube, whatever
  its state — bound: 1 timer event after Stop; with a dead network Stop itself is started by the
  muxer's idle read timeout, so the bound from a dead network is 2 timer events;
* a tube in `lastAck` (the peer closed first, then the local side) is closed by its own timer —
  bound: 1 timer event, no Stop needed;
and it then stays closed. -/
theorem C16_reaches_closed (es more : List Ev) :
    (run T.init (es ++ [.forceClose] ++ more)).st = .closed ∧
    ((run T.init es).st = .lastAck → (run T.init (es ++ [.lastAckTimer] ++ more)).st = .closed) := by
  refine ⟨?_, ?_⟩
  · rw [run_append, run_append]
    apply C16_closed_absorbing
    simp [run, step, T.enterClosed]
  · intro h
    rw [run_append, run_append]
    apply C16_closed_absorbing
    have ht := (C16_lastAck_has_timer es).mpr h
    simp [run, step, ht, T.enterClosed]

/-- non-vacuity: the passive closer over a dead network (its FIN is never acknowledged) -/
example : (run T.init [.initRecv, .fin, .localClose]).st = .lastAck := by decide
example : (run T.init [.initRecv, .fin, .localClose, .lastAckTimer]).st = .closed := by decide
/-- the active closer over a dead network stays in finWait1 until the muxer's forced close -/
example : (run T.init [.initRecv, .localClose, .lastAckTimer]).st = .finWait1 := by decide
example : (run T.init [.initRecv, .localClose, .forceClose]).st = .closed := by decide
/-- the graceful paths -/
example : (run T.init [.initRecv, .localClose, .ack, .fin]).st = .closed := by decide
example : (run T.init [.initRecv, .localClose, .fin, .ack]).st = .closed := by decide
example : (run T.init [.initRecv, .localClose, .ackFin]).st = .closed := by decide
example : (run T.init [.initRecv, .fin, .localClose, .ack]).st = .closed := by decide

/-! ### Close returns, at most one Close succeeds -/

/-- **C16 (Close does not wait for the peer).** `localClose` is a single step that is enabled in
every state and answers immediately — ok, end-of-stream or bad-state — from the local state
alone; no later event is needed for it to complete.  (The only wait in `Reliable.Close` precedes
this step: it waits for the initiation handshake to finish or the tube to be closed — see
`Model/Lifecycle.lean`, where that wait is bounded by the forced close.) -/
theorem C16_close_returns (t : T) :
    (step t .localClose).2 = .ok ∨ (step t .localClose).2 = .eof ∨ (step t .localClose).2 = .bad := by
  simp only [step]
  cases t.st <;> simp

def LocallyClosed (s : St) : Prop :=
  s = .finWait1 ∨ s = .finWait2 ∨ s = .closing ∨ s = .lastAck ∨ s = .closed

theorem step_locallyClosed (t : T) (e : Ev) (h : LocallyClosed t.st) : LocallyClosed (step t e).1.st := by
  unfold LocallyClosed at *
  cases e <;> simp only [step] <;> (try split) <;>
    (first
      | exact h
      | (unfold finStep ackStep; rcases h with h | h | h | h | h <;> simp_all [T.enterClosed])
      | (unfold finStep; rcases h with h | h | h | h | h <;> simp_all [T.enterClosed])
      | (unfold ackStep; rcases h with h | h | h | h | h <;> simp_all [T.enterClosed])
      | (rcases h with h | h | h | h | h <;> simp_all [T.enterClosed]))

theorem run_locallyClosed (t : T) (es : List Ev) (h : LocallyClosed t.st) : LocallyClosed (run t es).st := by
  induction es generalizing t with
  | nil => exact h
  | cons e es ih => exact ih _ (step_locallyClosed t e h)

theorem localClose_ok (t : T) (h : (step t .localClose).2 = .ok) : LocallyClosed (step t .localClose).1.st := by
  simp only [step] at h ⊢
  cases hs : t.st <;> simp_all [LocallyClosed]

/-- **C16 (one successful Close).** After a Close that reported success, every later Close — after
any event sequence — reports end-of-stream. -/
theorem C16_close_once (t : T) (es : List Ev) (h : (step t .localClose).2 = .ok) :
    (step (run (step t .localClose).1 es) .localClose).2 = .eof := by
  have hl := run_locallyClosed _ es (localClose_ok t h)
  generalize run (step t .localClose).1 es = u at hl
  simp only [step]
  rcases hl with h | h | h | h | h <;> simp [h]

/-! ### I/O after a local close -/

/-- **C16 (writes fail after a local close).** After a successful Close, and whatever happens
afterwards, Write never succeeds (whatever the write deadline and the sender's flags). -/
theorem C16_after_close_write (t : T) (es : List Ev) (h : (step t .localClose).2 = .ok)
    (wdl finSent sclosed : Bool) :
    writeRes (run (step t .localClose).1 es) wdl finSent sclosed = .eof := by
  have hl := run_locallyClosed _ es (localClose_ok t h)
  generalize run (step t .localClose).1 es = u at hl
  unfold writeRes
  rcases hl with h | h | h | h | h <;> simp [h]

/-- **C16 (reads after a local close).** Once the local side has closed (`R.localClose` expired the
read deadline) a Read never blocks: it returns buffered bytes while there are any (never more than
are buffered), and otherwise end-of-stream or the deadline error.  After the tube is fully closed
(`R.fullClose`) the answer on an empty buffer is end-of-stream. -/
theorem C16_after_close_io (r : R) (n : Nat) (hn : 0 < n) :
    -- never blocks once the read deadline has been expired by Close, or the receiver is closed
    ((r.expired = true ∨ r.qclosed = true ∨ r.closed = true) → (read r n).1 ≠ .block) ∧
    -- buffered data first: with data buffered, Read returns some of it, and only what is buffered
    (0 < r.buf → (read r n).1 ≠ .timeout ∧ (read r n).2.1 = min n r.buf ∧ 0 < (read r n).2.1) ∧
    (read r n).2.1 ≤ r.buf ∧
    -- fully closed and drained: end of stream, again and again
    (r.closed = true → r.buf = 0 → read r n = (.eof, 0, r)) := by
  obtain ⟨buf, c, tk, ex, qc⟩ := r
  refine ⟨?_, ?_, ?_, ?_⟩
  · intro h
    simp only at h
    by_cases hb : buf = 0
    · subst hb
      cases c <;> cases tk <;> cases ex <;> cases qc <;> simp_all [read]
    · have h0 : (buf == 0) = false := by simp [hb]
      simp only [read, h0, Bool.false_and]
      simp only [Bool.false_eq_true, if_false]
      split <;> simp
  · intro hb
    simp only at hb
    have h0 : (buf == 0) = false := by simp; omega
    simp only [read, h0, Bool.false_and, Bool.false_eq_true, if_false]
    refine ⟨?_, by trivial, ?_⟩
    · split <;> simp
    · simp only [Nat.lt_min]; exact ⟨hn, hb⟩
  · by_cases hb : buf = 0
    · subst hb
      cases c <;> cases tk <;> cases ex <;> cases qc <;> simp [read]
    · have h0 : (buf == 0) = false := by simp [hb]
      simp only [read, h0, Bool.false_and, Bool.false_eq_true, if_false]
      exact Nat.min_le_right _ _
  · intro hc hb
    simp only at hc hb
    subst hc hb
    simp [read]

/-- local close on a live tube: reads of the empty buffer fail with the deadline error … -/
example : (read (R.localClose ⟨0, false, false, false, false⟩) 10).1 = .timeout := by decide
/-- … buffered data is still returned first … -/
example : (read (R.localClose ⟨5, false, true, false, false⟩) 3) = (.ok, 3, ⟨2, false, true, true, false⟩) := by decide
/-- … and after the full close the drained tube reports end-of-stream -/
example : (read (R.fullClose (R.localClose ⟨0, false, false, false, false⟩)) 10).1 = .eof := by decide
example : (read (R.fullClose ⟨4, false, true, false, false⟩) 10) = (.eof, 4, ⟨0, true, true, true, true⟩) := by decide

end Fin

/-!
Part 2: the wait-for structure of `Muxer.Stop` (`Model/StopSteps.lean`), for any number of tubes,
any subset of them closing gracefully, in any interleaving, with a transport whose writes return
or are stuck until it is closed.
-/
namespace StopSteps

/-- **C16 (the measure decreases).** Every step of the shutdown strictly decreases the measure
(open tubes, pending timers, the owner's remaining phases, running workers). -/
theorem C16_stop_measure {s s' : SS} (hs : Step s s') : measure s' < measure s := by
  cases hs <;> simp_all [measure, ownerRank] <;> (try split) <;> omega

/-- **C16 (no deadlock).** No reachable state short of completion is stuck: some goroutine is
enabled or a timer is pending — whatever the loss pattern (tubes that never close gracefully stay
`live` until the force timer) and even if transport writes block. -/
theorem C16_stop_progress {n : Nat} {b : Bool} {s : SS} (h : Reach n b s) (hnd : s.owner ≠ .done) :
    ∃ s', Step s s' := by
  have inv := inv_reach h
  by_cases hc : 0 < s.closed
  · exact ⟨_, Step.closerDone s hc⟩
  by_cases hl : 0 < s.live
  · -- a tube that has not closed: the force timer is pending, or it has fired and forces the tube
    have ho : s.owner = .waitTubes := by
      cases hq : s.owner <;> first | rfl | (have := inv.tubes (by simp [hq]); omega)
    cases hf : s.force with
    | pending => exact ⟨_, Step.forceFire s hf⟩
    | fired => exact ⟨_, Step.forceTube s hf ho hl⟩
  by_cases hm : 0 < s.marked
  · have ho : s.owner = .waitTubes := by
      cases hq : s.owner <;> first | rfl | (have := inv.tubes (by simp [hq]); omega)
    by_cases hw : s.writable = true
    · exact ⟨_, Step.drain s hm hw⟩
    · -- the transport is stuck and not yet closed: only the force timer helps, and it is pending
      cases hf : s.force with
      | pending => exact ⟨_, Step.forceFire s hf⟩
      | fired =>
        have := inv.forced hf ho
        simp [SS.writable, this] at hw
  -- all tubes are gone
  cases ho : s.owner with
  | waitTubes => exact ⟨_, Step.ownerQueues s ho (by omega) (by omega) (by omega)⟩
  | queuesClosed =>
    cases hs : s.muxSender with
    | false => exact ⟨_, Step.ownerGotSender s ho hs⟩
    | true =>
      by_cases hw : s.writable = true
      · exact ⟨_, Step.senderEnd s hs (by simp [ho]) hw⟩
      · rcases inv.sender ho with ht | hu
        · exact ⟨_, Step.senderTimerFire s ht ho⟩
        · simp [SS.writable, hu] at hw
  | gotSender => exact ⟨_, Step.ownerCloseTransport s ho⟩
  | waitReceiver =>
    cases hr : s.receiver with
    | false => exact ⟨_, Step.ownerDone s ho hr⟩
    | true => exact ⟨_, Step.receiverEnd s hr (inv.recv ho)⟩
  | done => exact absurd ho hnd

/-- runs of the model -/
inductive Run : SS → Nat → SS → Prop
  | nil (s) : Run s 0 s
  | cons {s s' s'' : SS} {k : Nat} : Step s s' → Run s' k s'' → Run s (k + 1) s''

/-- **C16 (Stop terminates).** Every run of the shutdown has at most `measure` steps — for `n` tubes
at most `3·n + 11` from the start — and by `C16_stop_progress` it cannot stop before the owner is
done: `Stop` returns after a bounded number of steps, of which at most two are timer expiries
(the force timer and the sender timer, each `muxerTimeout`). -/
theorem C16_stop_terminates {s s' : SS} {k : Nat} (h : Run s k s') : k + measure s' ≤ measure s := by
  induction h with
  | nil => simp
  | cons hs _ ih => have := C16_stop_measure hs; omega

theorem C16_stop_bound (n : Nat) (b : Bool) : measure (init n b) = 3 * n + 11 := by
  simp [measure, init, ownerRank]

/-- non-vacuity: two tubes on a dead, stuck transport: nothing can move but the force timer -/
example : ∀ s', Step (init 2 true) s' → s' = { init 2 true with force := .fired, underlyingClosed := true }
    ∨ s' = { init 2 true with live := 1, marked := 1 } := by
  intro s' hs
  cases hs <;> simp_all [init, SS.writable]
/-- … and a complete shutdown of one tube over a dead network: ten steps, one timer expiry -/
example : ∃ s', Run (init 1 false) 10 s' ∧ s'.owner = .done :=
  ⟨_, Run.cons (Step.forceFire _ rfl)
      (Run.cons (Step.forceTube _ rfl rfl (by decide))
      (Run.cons (Step.drain _ (by decide) (by decide))
      (Run.cons (Step.closerDone _ (by decide))
      (Run.cons (Step.ownerQueues _ rfl rfl rfl rfl)
      (Run.cons (Step.senderEnd _ rfl (by decide) (by decide))
      (Run.cons (Step.ownerGotSender _ rfl rfl)
      (Run.cons (Step.ownerCloseTransport _ rfl)
      (Run.cons (Step.receiverEnd _ rfl rfl)
      (Run.cons (Step.ownerDone _ rfl rfl) (Run.nil _)))))))))), rfl⟩

end StopSteps

/-! ### ties to the order of statements in tubes/reliable.go and tubes/unreliable.go

`Model/StopSteps.lean` lets the send goroutine of a tube hand frames to the sender's queues only
while the sender is not closed, and lets every way out of an initiation goroutine that starts no
sender release whoever waits for the sender.  Both are facts about where a check or a `close`
stands relative to a lock or a `return`; the translator regenerates the statement shapes on every
run (`Generated/Shapes.lean`) and these obligations read them off.  (The races themselves are also
provoked on the running code: the delay-spike batch and the `nu`/`nr` operations of suite C16.) -/
namespace ShutdownShapes
open Shape

/-- `Reliable.send`: the sender's closed flag is looked at *under the lifecycle lock* - every
`if r.sender.closed.Load()` directly follows `r.l.Lock()` - in the retransmission case and in the
window case (at least those two) -/
def closedCheckedUnderLock (sh : List Item) : Bool :=
  decide (2 ≤ (positions sh (fun it => it.kind == "if" && it.text == "r.sender.closed.Load()")).length) &&
  eachPrecededBy sh (fun it => it.kind == "if" && it.text == "r.sender.closed.Load()")
    (fun _ prev => prev.kind == "call" && prev.text == "r.l.Lock()")

/-- … and a frame goes into the sender's queue only in a `select` case that made that check: between
the send and the `case` header before it stands a closed check -/
def queueSendsAfterCheck (sh : List Item) : Bool :=
  (positions sh (fun it => it.kind == "send" && it.text == "r.sender.sendQueue <- windowFrame.frame")).all fun i =>
    match ((List.range i).filter fun j => (sh[j]?.map (fun it => it.kind == "case" && it.depth == 1)).getD false).getLast? with
    | some c => ((List.range i).drop (c + 1)).any fun j =>
        (sh[j]?.map (fun it => it.kind == "if" && it.text == "r.sender.closed.Load()")).getD false
    | none => false

/-- `Reliable.initiate`: the sender is marked running only on the path that starts its goroutine:
`r.sender.closed.Store(false)` directly precedes `go r.send`, after the state check that returns -/
def senderMarkedRunningOnlyWhenStarted (sh : List Item) : Bool :=
  (positions sh (fun it => it.head == "r.sender.closed.Store")).length == 1 &&
  eachFollowedBy sh (fun it => it.head == "r.sender.closed.Store") (fun n => n == ⟨0, "go", "", "r.send"⟩) &&
  (match find sh (· == ⟨0, "if", "", "r.tubeState != initiated"⟩), find sh (fun it => it.head == "r.sender.closed.Store") with
   | some i, some j => decide (i < j) && sh[i + 2]? == some ⟨1, "return", "", ""⟩
   | _, _ => false)

/-- `Unreliable.initiate`: every `return` of the initiation loop (the paths that start no sender)
is directly preceded by `close(u.senderDone)`; the only other way out starts the sender -/
def everyExitReleasesSenderWaiters (sh : List Item) : Bool :=
  decide (2 ≤ (positions sh (fun it => it.kind == "return")).length) &&
  eachPrecededBy sh (fun it => it.kind == "return") (fun _ prev => prev == ⟨prev.depth, "call", "close", "close(u.senderDone)"⟩) &&
  sh.getLast? == some ⟨0, "go", "", "u.sender"⟩

/-- `Muxer.sender`, after its loop ended (transport error or Stop): BOTH queues are drained by one
`select` inside one loop, so a tube blocked on the priority queue (holding its lock) is released
whatever the state of the other queue - `Model/StopSteps.lean`'s drain step takes from either
queue.  (Draining one queue to its close first deadlocks Stop: finding F29.) -/
def drainsBothQueuesTogether (sh : List Item) : Bool :=
  match find sh (fun it => it.depth == 0 && it.kind == "assign" && it.head == "sendQueue, prioritySendQueue") with
  | some i =>
    sh[i + 1]? == some ⟨0, "for", "", ""⟩ && sh[i + 2]? == some ⟨1, "select", "", ""⟩ &&
    -- the two receive cases are inside that one select (depth 2, before the loop's end)
    (let body := (sh.drop (i + 3)).takeWhile (fun it => decide (1 ≤ it.depth))
     (body.filter (fun it => it.depth == 2 && it.text == "_, open := <-sendQueue")).length == 1 &&
     (body.filter (fun it => it.depth == 2 && it.text == "_, open := <-prioritySendQueue")).length == 1 &&
     (body.filter (fun it => it.kind == "for" || it.kind == "select")).isEmpty) &&
    -- and there is no other loop after the main one
    ((sh.drop (i + 2)).filter (fun it => it.kind == "for")).isEmpty
  | none => false

example : drainsBothQueuesTogether Generated.shape_tubes_Muxer_sender = true := by decide
example : closedCheckedUnderLock Generated.shape_tubes_Reliable_send = true := by decide
example : queueSendsAfterCheck Generated.shape_tubes_Reliable_send = true := by decide
example : senderMarkedRunningOnlyWhenStarted Generated.shape_tubes_Reliable_initiate = true := by decide
example : everyExitReleasesSenderWaiters Generated.shape_tubes_Unreliable_initiate = true := by decide

end ShutdownShapes
