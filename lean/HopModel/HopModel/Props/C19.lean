/-
C19 — Server is stateless before a valid cookie and silent in hidden mode.

About the dispatch programs of `Server.readPacket` and the cookie functions as regenerated from the
source, and the expected reader actions (tied to the code by `C02_readers_as_expected`).
-/
import HopModel.Props.C02
import HopModel.Model.TimeWindow
namespace Handshake
open Generated

/-- **C19 (a).** Nothing on the ClientHello path stores per-client state: neither the dispatch case
nor `handlePQClientHello` records a handshake, creates a session or offers a connection — for valid
and invalid hellos alike. -/
theorem C19_hello_stateless :
    (["setHandshakeState", "finishHandshake", "createSessionFromHandshakeLocked"].all fun w =>
      !computes prog_readPacket_MessageTypeClientHello w && !computes prog_handlePQClientHello w &&
      !computes prog_readPQClientHello w && !computes prog_writePQServerHello w) = true := by decide +kernel

/-- **C19 (b).** A ClientAck is accepted only with a cookie that opens (`cookieOK`) and with every
field unaltered … -/
theorem C19_ack_needs_cookie :
    ∀ mask, mask < 2 ^ 6 → ∀ poss cert cook time vs,
      runActs expClientAck { honest := mask, possession := poss, certOK := cert, cookieOK := cook, timeOK := time,
                             verifySet := vs } = true → cook = true ∧ mask = allHonest 6 := by decide +kernel

/-- … state is allocated only after the ClientAck reader succeeded and the datagram had exactly
the length it consumed … -/
theorem C19_ack_state_after_reader :
    onlyAfterEnforced prog_readPacket_MessageTypeClientAck "readPQClientAck" "setHandshakeState" = true ∧
    onlyAfterCheck prog_readPacket_MessageTypeClientAck "n != msgLen" "setHandshakeState" = true ∧
    onlyAfterEnforced prog_readPacket_MessageTypeClientAck "readPQClientAck" "writePQServerAuth" = true := by
  decide +kernel

/-- … and the cookie is opened (enforced) under associated data computed from the client's KEM
key, the source IP and the source port of *this* datagram, before the transcript is replayed from
it; minting uses the same associated data. -/
theorem C19_cookie_bound_to_address_and_key :
    prog_CookieAD = [.absorb "hash:ephemeral[:]", .absorb "hash:clientAddr.IP", .absorb "hash:port[:]"] ∧
    onlyAfterEnforced prog_decryptCookie "CookieAD(remoteEphemeralBytes, hs.remoteAddr)" "Open" = true ∧
    firstCompute prog_decryptCookie "Open" ≠ none ∧
    (prog_decryptCookie.any fun op => op = .compute "Open" true) = true ∧
    onlyAfterEnforced prog_writeCookie "CookieAD(remoteEphemeralBytes, hs.remoteAddr)" "Seal" = true ∧
    prog_ReplayPQDuplexFromCookie.head? = some (.compute "decryptCookie" true) := by decide +kernel

/-- **C19 (c).** In hidden mode every discoverable-mode case is skipped as a whole; session
messages never cause a handshake write; a hidden request is answered only after its reader
succeeded with exactly the datagram's length … -/
theorem C19_hidden_silent_dispatch :
    gatedByNotHidden prog_readPacket_MessageTypeClientHello = true ∧
    gatedByNotHidden prog_readPacket_MessageTypeClientAck = true ∧
    gatedByNotHidden prog_readPacket_MessageTypeClientAuth = true ∧
    computes prog_readPacket_MessageTypeServerHello "writePacket" = false ∧
    computes prog_readPacket_MessageTypeTransport "writePacket" = false ∧
    computes prog_readPacket_default "writePacket" = false ∧
    onlyAfterEnforced prog_readPacket_MessageTypeClientRequestHidden "handlePQClientRequestHidden" "writePacket" = true ∧
    onlyAfterCheck prog_readPacket_MessageTypeClientRequestHidden "n != msgLen" "writePacket" = true ∧
    computes prog_handlePQClientRequestHidden "readPQClientRequestHidden" = true := by
  decide +kernel

/-- … and that reader succeeds only for a well-formed request (every field unaltered, i.e.
encapsulated to one of the server's KEM keys and MACed accordingly) with a fresh timestamp and an
accepted client certificate. -/
theorem C19_hidden_request_wellformed_fresh :
    ∀ mask, mask < 2 ^ 7 → ∀ poss cert cook time,
      runActs expRequestHidden { honest := mask, possession := poss, certOK := cert, cookieOK := cook, timeOK := time,
                                 verifySet := true } = true →
        time = true ∧ cert = true ∧ mask = allHonest 7 := by decide +kernel

/-! ### obligations on extracted constants -/

example : Generated.transport_HiddenModeTimestampExpiration = 5 := by decide
example : Generated.transport_PQCookieLen = 32 + Generated.transport_PQSharedSecretLen := by decide

end Handshake

/-! ### the timestamp window on machine integers -/

namespace TimeWindow

/-- For every 64-bit timestamp an adversary can put into a request and every clock reading that is
not negative, the code's condition rejects exactly the stamps that are in the future or older than
the expiration: nothing wraps around. -/
theorem C19_time_window_exact (ts now : BitVec 64) (hnow : now.toNat < 2 ^ 63) :
    rejects ts now = false ↔ fresh ts.toNat now.toNat := by
  unfold rejects fresh expiration
  simp only [Bool.or_eq_false_iff, BitVec.ult, BitVec.slt, decide_eq_false_iff_not,
    BitVec.toInt_eq_toNat_cond, BitVec.toNat_sub, BitVec.toNat_ofNat]
  constructor
  · rintro ⟨h1, h2⟩
    omega
  · rintro ⟨h1, h2⟩
    omega

/-- the obligations that tie the theorem to the source: the condition text the model gives a
meaning to, and the constant -/
example : Generated.transport_HiddenModeTimestampExpiration = expiration := by decide

/-- why the conversions matter: with signed comparisons on both sides a stamp of 2^63 passes for ever -/
example : rejectsSigned (BitVec.ofNat 64 (2 ^ 63)) (BitVec.ofNat 64 1790000000) = false := by decide
example : rejects (BitVec.ofNat 64 (2 ^ 63)) (BitVec.ofNat 64 1790000000) = true := by decide
example : fresh 1789999996 1790000000 ∧ rejects (BitVec.ofNat 64 1789999996) (BitVec.ofNat 64 1790000000) = false := by
  constructor
  · unfold fresh expiration; omega
  · decide

end TimeWindow
