import HopModel.Driver.C14
import HopModel.Driver.C20
import HopModel.Driver.C08
import HopModel.Driver.Mux

def main (args : List String) : IO UInt32 := do
  match args with
  | "C14" :: rest => Driver.C14.main rest; return 0
  | "C20" :: rest => Driver.C20.main rest; return 0
  | "C08" :: rest => Driver.C08.main rest; return 0
  | "C08sys" :: rest => Driver.C08.mainSys rest; return 0
  | "C09" :: rest => Driver.Mux.main rest; return 0
  | "C11" :: rest => Driver.Mux.main rest; return 0
  | "C09late" :: rest => Driver.Mux.mainLate rest; return 0
  | _ =>
    IO.eprintln "usage: hopmodel <Cxx> [--spec] < ops.txt > model.txt"
    return 2
