import HopModel.Driver.C14
import HopModel.Driver.C20
import HopModel.Driver.C06
import HopModel.Driver.C07

def main (args : List String) : IO UInt32 := do
  match args with
  | "C14" :: rest => Driver.C14.main rest; return 0
  | "C20" :: rest => Driver.C20.main rest; return 0
  | "C06" :: rest => Driver.C06.main rest; return 0
  | "C06t" :: rest => Driver.C06.mainT rest; return 0
  | "C07" :: rest => Driver.C07.main rest; return 0
  | "C07e2e" :: rest => Driver.C07.mainE2E rest; return 0
  | "C07full" :: rest => Driver.C07.mainFull rest; return 0
  | _ =>
    IO.eprintln "usage: hopmodel <Cxx> [--spec] < ops.txt > model.txt"
    return 2
