import HopModel.Driver.C14
import HopModel.Driver.C20
import HopModel.Driver.C17
import HopModel.Driver.C16

def main (args : List String) : IO UInt32 := do
  match args with
  | "C14" :: rest => Driver.C14.main rest; return 0
  | "C20" :: rest => Driver.C20.main rest; return 0
  | "C16" :: rest => Driver.C16.main rest; return 0
  | "C17q" :: rest => Driver.C17.mainQ rest; return 0
  | "C17lin" :: rest => Driver.C17.mainLin rest; return 0
  | "C17race" :: rest => Driver.C17.mainLin rest; return 0
  | _ =>
    IO.eprintln "usage: hopmodel <Cxx> [--spec] < ops.txt > model.txt"
    return 2
