import HopModel.Driver.C04
import HopModel.Driver.C05
import HopModel.Driver.C14
import HopModel.Driver.C20

def main (args : List String) : IO UInt32 := do
  match args with
  | "C04" :: rest => Driver.C04.main rest; return 0
  | "C05" :: rest => Driver.C05.main rest; return 0
  | "C05sess" :: rest => Driver.C05.main rest; return 0
  | "C05parse" :: rest => Driver.C05.mainParse rest; return 0
  | "C14" :: rest => Driver.C14.main rest; return 0
  | "C20" :: rest => Driver.C20.main rest; return 0
  | _ =>
    IO.eprintln "usage: hopmodel <Cxx> [--spec] < ops.txt > model.txt"
    return 2
