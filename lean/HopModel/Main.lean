import HopModel.Driver.C04
import HopModel.Driver.C05
import HopModel.Driver.C14
import HopModel.Driver.C18
import HopModel.Driver.C20
import HopModel.Driver.C03
import HopModel.Driver.C01
import HopModel.Driver.C02
import HopModel.Driver.C19
import HopModel.Driver.C10
import HopModel.Driver.C13
import HopModel.Driver.C12
import HopModel.Driver.C06
import HopModel.Driver.C07
import HopModel.Driver.C08
import HopModel.Driver.Mux
import HopModel.Driver.C17
import HopModel.Driver.C16

def main (args : List String) : IO UInt32 := do
  match args with
  | "C04" :: rest => Driver.C04.main rest; return 0
  | "C05" :: rest => Driver.C05.main rest; return 0
  | "C05sess" :: rest => Driver.C05.main rest; return 0
  | "C05race" :: rest => Driver.C05.main rest; return 0
  | "C11sess" :: rest => Driver.C05.main rest; return 0
  | "C05parse" :: rest => Driver.C05.mainParse rest; return 0
  | "C14" :: rest => Driver.C14.main rest; return 0
  | "C18" :: rest => Driver.C18.main rest; return 0
  | "C18junk" :: rest => Driver.C18.main rest; return 0
  | "C20" :: rest => Driver.C20.main rest; return 0
  | "C03" :: rest => Driver.C03.main rest; return 0
  | "C01" :: rest => Driver.C01.main rest; return 0
  | "C01cfg" :: rest => Driver.C01.mainCfg rest; return 0
  | "C10sni" :: rest => Driver.C01.mainCfg rest; return 0
  | "C19hid" :: rest => Driver.C01.mainCfg rest; return 0
  | "C01cb" :: rest => Driver.C01.main rest; return 0
  | "C02" :: rest => Driver.C02.main rest; return 0
  | "C19" :: rest => Driver.C19.main rest; return 0
  | "C10" :: rest => Driver.C10.main rest; return 0
  | "C10vec" :: rest => Driver.C10.mainVec rest; return 0
  | "C13" :: rest => Driver.C13.main rest; return 0
  | "C12" :: rest => Driver.C12.main rest; return 0
  | "C06" :: rest => Driver.C06.main rest; return 0
  | "C06t" :: rest => Driver.C06.mainT rest; return 0
  | "C07" :: rest => Driver.C07.main rest; return 0
  | "C07e2e" :: rest => Driver.C07.mainE2E rest; return 0
  | "C07full" :: rest => Driver.C07.mainFull rest; return 0
  | "C08" :: rest => Driver.C08.main rest; return 0
  | "C08sys" :: rest => Driver.C08.mainSys rest; return 0
  | "C09sys" :: rest => Driver.C08.mainSys rest; return 0
  | "C09" :: rest => Driver.Mux.main rest; return 0
  | "C11" :: rest => Driver.Mux.main rest; return 0
  | "C11fin" :: rest => Driver.Mux.main rest; return 0
  | "C09late" :: rest => Driver.Mux.mainLate rest; return 0
  | "C16" :: rest => Driver.C16.main rest; return 0
  | "C17q" :: rest => Driver.C17.mainQ rest; return 0
  | "C17lin" :: rest => Driver.C17.mainLin rest; return 0
  | "C17race" :: rest => Driver.C17.mainLin rest; return 0
  | "C17dial" :: rest => Driver.C17.mainDial rest; return 0
  | _ =>
    IO.eprintln "usage: hopmodel <Cxx> [--spec] < ops.txt > model.txt"
    return 2
