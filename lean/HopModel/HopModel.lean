import HopModel.Props.C14
import HopModel.Props.C20
import HopModel.Props.C13
import HopModel.Props.C12
