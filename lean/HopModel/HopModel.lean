import HopModel.Props.C14
import HopModel.Props.C20
import HopModel.Props.C17
import HopModel.Props.C16
