import HopModel.Props.C14
