import HopModel.Props.C14
import HopModel.Props.C20
import HopModel.Props.C03
import HopModel.Props.C15
import HopModel.Props.C01
import HopModel.Props.C02
import HopModel.Props.C13
import HopModel.Props.C12
