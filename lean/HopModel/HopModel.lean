import HopModel.Props.C14
import HopModel.Props.C20
import HopModel.Props.C08
import HopModel.Props.C11
import HopModel.Props.C09
