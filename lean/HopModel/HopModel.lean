import HopModel.Props.C04
import HopModel.Props.C05
import HopModel.Props.C14
import HopModel.Props.C20
