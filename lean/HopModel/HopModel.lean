import HopModel.Props.C14
import HopModel.Props.C11Decoders
import HopModel.Props.C18
import HopModel.Props.C20
