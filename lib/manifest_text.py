"""Texts for MANIFEST.json (level claimed, trusted base) per property."""

TEXT = {
 "C14": {
  "text": "Proof (Lean 4, kernel-checked, unbounded): C14_accept_iff shows that after every history of counters "
          "below 2^63 — any length, any jumps — the model of transport/replay.go answers exactly like the "
          "reference filter 'not accepted before and not more than 448 below the highest accepted'. "
          "The model is the executable transcription of Check/Mark (uint64 wrap included, shown unreachable). "
          "It is tied to the code on every run by a differential run of the real SlidingWindow against the "
          "compiled model with full probing of the window neighbourhood, and by obligations on the constants "
          "extracted from the source. Full proof level is right here because the filter is a pure function.",
  "design_ref": "DESIGN.md §5.14",
  "note": "Trusted: Lean kernel; axioms propext/Classical.choice/Quot.sound; the correspondence run (differential "
          "testing, quick: 3000 histories fully probed; thorough: exhaustive offset x jump family) is what connects "
          "the model to the Go code; the translator for constants.",
  "technique": "Lean 4 proof (ring invariant by induction over the history) + differential correspondence with the real SlidingWindow",
 },
}

NOT_BUILT = {}
