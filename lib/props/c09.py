from ..runner import PropCfg, SuiteCfg


def _sig(ops, io, mo, k):
    op = ops[k] if k < len(ops) else ""
    return {"op": op.split(" ", 1)[0], "impl": (io[k] if k < len(io) else "<missing>").split(" ")[0],
            "model": (mo[k] if k < len(mo) else "<missing>").split(" ")[0]}


def _sig_late(seg, impl, ver, k):
    """monitor suite: seg = trace lines, ver = verdicts; k = first line whose verdict is not ok"""
    line = seg[k] if k < len(seg) else ""
    op = line.split(" ")[0]
    verdict = ver[k] if k < len(ver) else "<missing>"
    late = next((l for l in seg[:k] if l.startswith("late ")), "")
    late_is_req = False
    if late:
        h = late.split(" ")[2]
        late_is_req = len(h) >= 4 and int(h[2:4], 16) & 1 == 1
    kind = "other"
    if verdict == "late-frame-observable":
        if late_is_req and op in ("accept", "has"):
            kind = "late-REQ-recreates-and-reoffers-reaped-tube"
        elif not late_is_req and op == "read":
            kind = "late-data-frame-read-from-successor-tube"
    return {"verdict": verdict, "kind": kind}


CFG = PropCfg(
    "C09", "HopModel.Props.C09",
    [SuiteCfg("C09", signature=_sig, timeout=3000, parts_thorough=4,
              # re-running a case in which the muxer wedged or died waits for watchdogs every time
              should_shrink=lambda f: not any(o.split(" ")[0] in ("blocked", "wedged", "stuck", "panic", "dead", "died", "hung")
                                              for o in f["impl"]),
              nontrivial=lambda ops, outs: any(o.startswith(("reap", "ccreate")) for o in ops),
              classify=lambda op, out: op.split(" ", 1)[0] + "->" + out.split(" ")[0][:6]),
     # two real muxers over a lossy network, every reliable tube shadowed by a silent unreliable tube with the
     # same id (C08's harness and monitor)
     SuiteCfg("C09sys", kind="monitor", binary="C08", parts_thorough=4, timeout=1500,
              signature=lambda seg, impl, ver, k: {"line": (seg[k] if k < len(seg) else "").split(" ")[0],
                                                   "verdict": (ver[k] if k < len(ver) else "<missing>").split("-")[0]},
              nontrivial=lambda seg, ver: any(l.startswith("eof") for l in seg)),
     SuiteCfg("C09late", kind="monitor", signature=_sig_late, parts_thorough=1,
              nontrivial=lambda seg, ver: any(l.startswith("late ") for l in seg))],
    rule="suite C09: a case is one history on a real tubes.Muxer over a scripted MsgConn (child processes): remote "
         "opens by REQ (ids 0..5 of both parities, both reliabilities, duplicate REQs), local Create* (+RESP), "
         "interleaved in-order/swapped/duplicated data on up to 6 tubes, frames for absent tubes, peer FINs, reads, "
         "writes, reaps (harness plays the peer's half of the close handshake and waits for the reaper) and "
         "re-opens of the same id up to 3 times; closes that do NOT wait for the reaper (shut) followed by stragglers of "
         "the closed tube, creations and accepts during the reservation (the harness reads the sender's RTT: an "
         "identifier released after less than one RTT is reported `early`; if more than 2 RTT pass before the "
         "dependent operations ran - a very slow machine - the rest of the case is not compared); concurrent Create* bursts of 1..129 calls after the peer took "
         "some ids; every answer (Accept results, ids, bytes/messages read, EOF, tube presence) is compared with "
         "the Lean model. suite C09sys (monitor, C08's harness): two real muxers over an in-memory network with 10-20% loss and "
         "an outage of 0.5-0.9 s (so that timeout retransmissions and their acknowledgements occur), 1-3 reliable tubes "
         "with unequal traffic in the two directions, each shadowed by an unreliable tube with the same identifier on "
         "which nobody writes: a message read from a shadow tube was written on another tube; the reliable streams "
         "must stay prefixes and complete. suite C09late (monitor): histories containing datagrams of a reaped incarnation; the "
         "Lean monitor checks the Spec 'late datagrams are unobservable' (C09_full) by running the model without "
         "them. distinct_nontrivial counts distinct histories with a reap or a concurrent creation (C09) / with a "
         "late datagram (C09late).",
    assumptions=["NoLateFrames for the isolation from earlier tubes with the same id (C09_late_partial); without it "
                 "the clause is false (C09_full_false, known finding F11)",
                 "close handshakes and reaper timers are not modelled (abstract events shut = closed and reserved, reap = "
                 "released); the harness asserts the timer's lower bound (4*RTT, judged at 1*RTT)"],
)

MANIFEST = {
    "text": "Proof (Lean 4, unbounded) over the muxer model: live tubes always have pairwise distinct "
            "(reliability, id) (C09_ids_distinct), Create* returns a free id of the muxer's parity so concurrent "
            "creations and the two ends never clash (C09_create_fresh, C09_creates_distinct, C09_parity_disjoint), the "
            "accept queue grows by exactly one entry with the opener's reliability, id and type when a REQ arrives for "
            "an absent key and never for an existing tube (C09_offer_once), every event changes at most the tube it is "
            "addressed to (C09_no_crosstalk), unreliable tubes queue one whole frame payload per message and reads "
            "return the oldest (C09_unreliable_whole). The late-packet clause is stated in full (C09_full), refuted "
            "with concrete witnesses (C09_full_false: frames carry no tube generation) and proved under NoLateFrames "
            "(C09_late_partial); for the window in which reapTube keeps the identifier of a closed reliable tube of the "
            "muxer's parity reserved it holds with no assumption on the network: C09_shut_reserves, "
            "C09_reserved_frame_dropped (a datagram for a closed tube still in the map changes nothing), "
            "C09_reserved_not_reused, C09_late_in_reservation (over every history, datagrams arriving while their "
            "tube is closed and not yet reaped are unobservable and leave the same final state). Tied to the code by differential runs of a real Muxer over a scripted MsgConn and a "
            "monitor suite that replays the late-frame witnesses on the real Muxer (known finding F11).",
    "design_ref": "DESIGN.md 5.9",
    "note": "Partial: isolation from earlier tubes with the same id holds only without late frames (F11, known). "
            "Scheduling of concurrent Create* goroutines is observed (real goroutines), the model serialises them "
            "as the muxer lock does.",
    "technique": "Lean 4 proof (invariants of the tube list over all event histories; counterexample for the late-frame "
                 "clause) + differential correspondence with a real Muxer + monitor replay of the counterexample",
}
