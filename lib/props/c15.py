from ..runner import PropCfg, SuiteCfg
from . import c03


def _nontrivial(ops, outs):
    # non-trivial: the peer address of some session end actually moved at least once in the schedule
    seen = {}
    moved = False
    for op, out in zip(ops, outs):
        if op.startswith(("dlv ", "junk ")) and " r=" in out:
            ep = out.split(" ")[0]
            r = out.split(" r=")[1]
            if ep in seen and seen[ep] != r:
                moved = True
            seen[ep] = r
    return moved


SUITE = SuiteCfg("C15", suite_arg="C03", nontrivial=_nontrivial, signature=c03._sig,
                 classify=lambda op, out: c03._verb(op), parts_thorough=16, timeout=3000)

CFG = PropCfg(
    "C15", "HopModel.Props.C15", [SUITE],
    rule="the session suite of C03 with the roaming profile: genuine packets from changing source addresses "
         "interleaved with forged, bit-flipped, truncated, replayed and cross-session copies sent from other "
         "addresses; after every delivery the peer address held by the addressed session end (server handles and "
         "clients) is compared with the Lean model, and probes show the destination of the next datagram each end "
         "really emits. distinct_nontrivial counts distinct schedules in which some end's peer address moved.",
    assumptions=["IdealAEAD as in C03"],
)

MANIFEST = {
    "text": "Proof (Lean 4) over the session model shared with C03: C15_move_only_authentic_fresh (the peer address "
            "changes only on a datagram that authenticates and passes the replay filter, and then becomes its "
            "source), C15_follows (a genuine fresh packet from a new address is followed), C15_schedule (over every "
            "schedule the final address is the initial one or the source of an intact genuine packet of this session "
            "and direction). Tied to the real server handles and clients by the step-for-step differential run with "
            "the roaming generator profile.",
    "design_ref": "DESIGN.md 5.15",
    "note": "Trusted: as C03 (IdealAEAD modelling assumption, in-memory network harness, session-snapshot hook).",
    "technique": "Lean 4 proof (case analysis of the receive path + induction over schedules) + differential correspondence with real endpoints",
}
