from ..runner import PropCfg, SuiteCfg


def _sig(ops, io, mo, k):
    op = ops[k] if k < len(ops) else ""
    return {"op": op.split(" ", 1)[0], "impl": io[k] if k < len(io) else "<missing>",
            "model": mo[k] if k < len(mo) else "<missing>"}


def _sig_lin(ops, io, mo, k):
    line = ops[k] if k < len(ops) else ""
    head = ops[0].split(" ") if ops else []
    obj = next((w for w in head if w.startswith("obj=")), "obj=?")
    verdict = mo[k] if k < len(mo) else "<missing>"
    f = line.split(" ")
    return {"obj": obj, "line": f[0], "op": f[2] if f[0] == "hang" and len(f) > 2 else "", "verdict": verdict}


CFG = PropCfg(
    "C17", "HopModel.Props.C17",
    [SuiteCfg("C17q", signature=_sig,
              nontrivial=lambda ops, outs: any(o.startswith("val") for o in outs) and "eof" in outs,
              classify=lambda op, out: op.split(" ", 1)[0] + "->" + out.split(" ", 1)[0]),
     SuiteCfg("C17lin", kind="monitor", signature=_sig_lin, timeout=3000,
              nontrivial=lambda seg, ver: sum(1 for l in seg if l.startswith("ret ")) >= 3),
     # the same programs under the Go race detector (-race): a reported data race makes the harness
     # exit non-zero, which the runner reports as a broken correspondence with the race report
     SuiteCfg("C17race", kind="monitor", signature=_sig_lin, timeout=3000, tags="race",
              env={"GORACE": "halt_on_error=1"},
              nontrivial=lambda seg, ver: sum(1 for l in seg if l.startswith("ret ")) >= 3),
     # the gonet wiring: a dialer's Timeout / Deadline bound the handshake with a peer that never answers
     SuiteCfg("C17dial", stateless=True, parts_thorough=1, nontrivial=lambda ops, outs: True)],
    rule="C17dial: transport.DialWithDialer with Timeouts of 150 ms .. 2.4 s (sub-second, whole and fractional seconds) "
         "and Deadlines, towards a loopback UDP socket that never answers: Handshake returns an error within the limit "
         "(+2.5 s of slack), it never blocks. C17q (diff): a case is one single-goroutine operation sequence (new cap; send/recv/close/set/cancel/fire "
         "...) run on a real common.DeadlineChan[int] and on QSpec; every answer is compared exactly; calls that "
         "block are observed as `block` and released by Cancel. C17lin (monitor): a case is one small concurrent "
         "program (2-7 goroutines, at most 11 queue operations; or Handshake/Read/ReadMsg/Write/WriteMsg/"
         "SetDeadline/Close/Accept/Serve on a real transport client + server + handle over an in-memory UDPLike) "
         "with seeded yield points, 16 cases at a time; the recorded call/return history is decided by the Lean "
         "driver: brute-force linearizability search against QSpec (concurrent contract Queue.LQ.admits) for the "
         "queue, and for transport histories: every call returned, all Close results per object equal, Handshake "
         "results consistent, received values were sent, at most once, in per-writer order, no value after EOF. "
         "C17race: the same programs with the harness built with -race (a data-race report fails the run). "
         "distinct_nontrivial: C17q sequences with a received value and an EOF; histories with >= 3 calls.",
    assumptions=["every generated program ends with goroutines that close the queue / client / server, so that every "
                 "call must return",
                 "C17lin uses buffered queues (cap 1-3): the sequential Spec has no rendezvous",
                 "a linearizability search that exhausts its budget (20M nodes) counts as passed (never observed)"],
    extra_trusted=["the Go runtime and race detector; wall-clock watchdog of 25 s per call",
                   "the verif hooks in common/transport (yield points, DeadlineChan.VerifState) - add-only"],
)

MANIFEST = {
    "text": "Proof (Lean 4, unbounded) for the logic, partial for the runtime part. (1) QSpec, the sequential "
            "specification of common.DeadlineChan (buffer, capacity, closed flag, deadline state, timer), with "
            "theorems over ALL operation histories: C17_fifo_conservation / C17_fifo_once (received ++ buffered = "
            "sent: each item at most once, in order), C17_buffered_first and C17_drain_before_eof (whenever Recv "
            "does not return a value everything sent has been received: data queued before Close comes before "
            "EOF), C17_closed_absorbing, C17_close_idempotent, C17_close_results, "
            "C17_timeout_only_when_deadline_passed. (2) A small-step interleaving model of the implementation "
            "(any number of threads; atomic steps = flag checks, mutex, deadline critical sections, selects): "
            "C17_old_channels_closed, C17_no_lost_wakeup_expiry and C17_no_lost_wakeup (in every reachable state "
            "after Close's cancel, every thread blocked in Recv/Send has an enabled step, whatever SetDeadline/"
            "Cancel calls are in flight), C17_closed_deadline_final. (2b) The timer generations of common.Deadline (Model/DeadlineGen: SetDeadline counts every call, a timer "
            "callback carries the number of the call that armed it and is a no-op for any other number): "
            "C17_deadline_expiry_is_current and C17_cleared_deadline_never_expires over ALL histories of calls and "
            "late callbacks of stopped timers; the order of statements this rests on (the count before every return "
            "but the `final` one, the callback's number taken after the count, timeoutFor's first check) is an "
            "obligation on the statement shapes of SetDeadline / timeoutFor that the translator REGENERATES from "
            "common/sync.go on every run (Generated/Shapes.lean). (3) The lifecycle elections of "
            "transport.Client (Server.Close has the same shape): C17_handshake_once, C17_close_elected_once, "
            "C17_close_same_result (all returned Close calls returned the one published result), "
            "C17_close_waiter_released. Ties: exact sequential differential run of the real queue against QSpec; "
            "linearizability search over recorded concurrent histories of the real queue; necessary conditions on "
            "recorded histories of a real client/server/handle; the same under the race detector. Three defects of "
            "the queue were found by the check and repaired (F22-F24).",
    "design_ref": "DESIGN.md 5.17",
    "note": "Partial: data-race freedom and the absence of hangs are observed (race detector, yield points, "
            "watchdogs), not proved. The small-step model is of the repaired code. DeadlineChan.Close reports nil "
            "to the first caller and io.EOF to later ones (its documented contract); the 'same result for every "
            "caller' clause is proved and checked for Client/Server/Handle.Close. C17_refines (every small-step run "
            "linearizes to QSpec) of the design is not proved; it is replaced by the linearizability search on "
            "recorded histories. Trusted: Lean kernel; the recorded-history runs and their generator.",
    "technique": "Lean 4 proof (sequential queue spec over all histories; small-step interleaving model with "
                 "invariants; lifecycle election invariants) + exact differential run + linearizability search on "
                 "recorded concurrent histories + race detector",
}
