from ..runner import PropCfg, SuiteCfg


def _sig(ops, io, mo, k):
    op = ops[k] if k < len(ops) else ""
    return {"op": op.split(" ", 1)[0], "impl": io[k] if k < len(io) else "<missing>",
            "model": mo[k] if k < len(mo) else "<missing>"}


def _sig_lin(ops, io, mo, k):
    line = ops[k] if k < len(ops) else ""
    head = ops[0].split(" ") if ops else []
    obj = next((w for w in head if w.startswith("obj=")), "obj=?")
    verdict = mo[k] if k < len(mo) else "<missing>"
    f = line.split(" ")
    return {"obj": obj, "line": f[0], "op": f[2] if f[0] == "hang" and len(f) > 2 else "", "verdict": verdict}


CFG = PropCfg(
    "C17", "HopModel.Props.C17",
    [SuiteCfg("C17q", signature=_sig,
              nontrivial=lambda ops, outs: any(o.startswith("val") for o in outs) and "eof" in outs,
              classify=lambda op, out: op.split(" ", 1)[0] + "->" + out.split(" ", 1)[0]),
     SuiteCfg("C17lin", kind="monitor", signature=_sig_lin, timeout=3000,
              nontrivial=lambda seg, ver: sum(1 for l in seg if l.startswith("ret ")) >= 3),
     # the same programs under the Go race detector (-race): a reported data race makes the harness
     # exit non-zero, which the runner reports as a broken correspondence with the race report
     SuiteCfg("C17race", kind="monitor", signature=_sig_lin, timeout=3000, tags="race",
              env={"GORACE": "halt_on_error=1"},
              nontrivial=lambda seg, ver: sum(1 for l in seg if l.startswith("ret ")) >= 3)],
    rule="C17q: a case is one single-goroutine operation sequence (new cap; send/recv/close/set/cancel/fire ...) "
         "run on a real common.DeadlineChan[int] and on QSpec; every answer is compared exactly; calls that "
         "block are observed as `block` and released by Cancel. distinct_nontrivial counts distinct sequences in "
         "which a value was received and end-of-stream was reported.",
)

MANIFEST = {
    "text": "TODO",
    "design_ref": "DESIGN.md 5.17",
    "note": "TODO",
    "technique": "TODO",
}
