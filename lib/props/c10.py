from ..runner import PropCfg, SuiteCfg


def _verb(op):
    f = op.split(" ")
    if f[0] in ("t", "m") and len(f) > 1:
        return f[0] + ":" + f[1]
    if f[0] == "cj" and len(f) > 1:
        return "cj:" + f[1]
    if f[0] == "sni" and len(f) > 1:
        return "sni:" + f[1]
    return f[0]


def _sig(ops, io, mo, k):
    # what kind of datagram, against which server configuration, and how the endpoint reacted
    cfg = ops[0] if ops else ""
    return {"op": _verb(ops[k]) if k < len(ops) else "", "server": cfg,
            "impl": io[k] if k < len(io) else "<missing>", "model": mo[k] if k < len(mo) else "<missing>"}


CFG = PropCfg(
    "C10", "HopModel.Props.C10",
    [SuiteCfg("C10", signature=_sig, nontrivial=lambda ops, outs: len(ops) > 10 and any(o.startswith("hs=1") for o in outs),
              classify=lambda op, out: _verb(op) + " " + out.split(" ")[0], parts_thorough=16, timeout=3000),
     # the vector parser of every reader on chosen decrypted bytes, against the transcription the theorem is about
     SuiteCfg("C10vec", stateless=True, parts_thorough=4, nontrivial=lambda ops, outs: True,
              classify=lambda op, out: out.split(" ")[0]),
     # the real hopserver.NewHopServer with one virtual host and no fallback, asked for names of every kind (C01's harness)
     SuiteCfg("C10sni", binary="C01", stateless=True, parts_thorough=1, nontrivial=lambda ops, outs: True),
     # dishonest counterparts (C01's harness): after each of them the same server must serve an honest client (a=1)
     SuiteCfg("C01", binary="C01", stateless=True, parts_thorough=8, nontrivial=lambda ops, outs: True)],
    rule="suite C01 (C01's harness): every dishonest-counterpart handshake (certificates of wrong type, expired, self-signed, "
         "foreign root, another key; every server policy incl. authorized keys and callbacks; both modes) is followed by "
         "a handshake of an honest listed client with the same server, which must succeed: a counterpart that is never "
         "authenticated must not wedge the endpoint (a lock or state left behind on a rejection path). "
         "suite C10sni (C01's harness): a real hopserver.NewHopServer with one virtual host and no `*` block; real clients "
         "over loopback UDP ask for the name, another name, names with an unknown type byte, the empty name: the server "
         "serves or refuses, and an honest client is served afterwards (the process is still there). "
         "suite C10vec: transport.DecryptCertificates / readVector on chosen decrypted bytes (two Cyclist objects in the "
         "same state: one encrypts the bytes, the other is handed to the function): every total length <= 14 with every "
         "pair of announced lengths up to total+2, and random buffers up to 4 KiB with announced lengths at the exact "
         "split points +-1, +-2, 0 and 65535; answers (lengths | err | panic) compared with Model/Dgram.lean. "
         "suite C10: a case is a junk campaign against one real transport.Server (discoverable or hidden; 1-3 certificates / "
         "virtual hosts selected with hopserver's own VirtualHosts.Match; literal or wildcard patterns) and real clients "
         "in the states idle / waiting for ServerHello / waiting for ServerAuth / established: truncations of every "
         "valid client message at every field boundary +-1 and random lengths, single-field mutations (zero, ones, "
         "random, length field +-1, +-16, 0, 0xffff), header copies (type byte + session id) of live sessions with "
         "short and random bodies sent to server and client, ClientAcks naming empty / 1-byte / 250-byte / non-UTF-8 / "
         "'*' / DNS-typed / unknown server names, random datagrams of lengths 0..65000 with every type byte; probes "
         "(fresh honest handshake, data both ways on every established session) interleaved and at the end. A panic "
         "in an endpoint goroutine kills the harness and is recorded as <crash>. distinct_nontrivial counts distinct "
         "campaigns whose probes succeeded.",
    assumptions=["memory safety of the Go code is observed (process liveness under the campaign), not proved; what is proved "
                 "is the slicing discipline of the regenerated reader programs and the vector parser's transcription",
                 "a spoofed ClientAuth from the address of an IN-PROGRESS handshake can spoil that handshake (the property "
                 "speaks of subsequent handshakes and established sessions)"],
)

MANIFEST = {
    "text": "Proof (Lean 4): C10_slices_within_length (for every reader regenerated from the source, every datagram length "
            "and every certificate-length field: once the guards passed, every field sliced off ends within the datagram - "
            "general arithmetic lemma on top of the kernel-decided guard table), C10_header_indexable, "
            "C10_hidden_loop_fresh_buffer, C10_session_short_guard, C10_dispatch_separation, C10_vectors_no_panic (the "
            "certificate-vector parser transcribed in Go-slice semantics with panic as an explicit outcome never panics, for "
            "all byte strings), C10_junk_preserves_sessions (= C03_forged_noop). Go memory safety itself is runtime: partial, "
            "observed by a junk campaign against real endpoints with liveness probes.",
    "design_ref": "DESIGN.md 5.10",
    "note": "Trusted: translator (length-guard linear forms, loop-reset fact, guard-before-make facts); the virtual-host glue in "
            "the harness mirrors the closure hopserver installs; process-level crash detection by the runner.",
    "technique": "Lean 4 proof (slicing discipline of regenerated reader programs; Go-slice model of the vector parser) + junk-campaign correspondence with liveness probes",
}
