from ..runner import PropCfg, SuiteCfg


def _verb(op):
    f = op.split(" ")
    if f[0] == "ack" and len(f) == 6:
        kind = []
        if f[2] != "" and f[1] != f[3]:
            kind.append("othercookie")
        if f[4] == "1":
            kind.append("rotated")
        if f[5] != "x":
            kind.append("flip")
        return "ack:" + ("+".join(kind) if kind else "plain")
    if f[0] == "hreq" and len(f) == 3:
        return "hreq:" + f[2].split(":")[0]
    return f[0]


def _sig(ops, io, mo, k):
    return {"op": _verb(ops[k]) if k < len(ops) else "", "impl": io[k] if k < len(io) else "<missing>",
            "model": mo[k] if k < len(mo) else "<missing>"}


def _nontrivial(ops, outs):
    # some message was accepted (a datagram was emitted) and some was silently dropped
    return any(o.startswith("out=1") for o in outs) and any(o.startswith("out=0") for o in outs)


CFG = PropCfg(
    "C19", "HopModel.Props.C19",
    [SuiteCfg("C19", signature=_sig, nontrivial=_nontrivial, classify=lambda op, out: _verb(op) + " " + out.split(" ")[0],
              parts_thorough=16, timeout=3000),
     # hidden-mode servers as hopd builds them (hopserver.NewHopServer), real clients over loopback UDP (C01's harness)
     SuiteCfg("C19hid", binary="C01", stateless=True, parts_thorough=1, nontrivial=lambda ops, outs: True)],
    rule="suite C19hid (C01's harness): a real hopserver.NewHopServer with HiddenModeVHostNames set and the KEM key configured at "
         "the top level, only in the virtual host's block, or both: a discoverable handshake gets no answer, a client that "
         "knows the KEM key is served. suite C19: a case is a sequence of datagrams against one real transport.Server (discoverable or hidden): client hellos "
         "from several addresses (also two clients sharing an address), client acks delivered from the minting "
         "address, another IP, another port, with another client's cookie (other key), after a forced cookie-key "
         "rotation, with a flipped byte in each field; hidden mode: valid requests, requests under a wrong KEM key, "
         "flipped fields, replays inside the window, one stale replay after 6.2 s, valid discoverable-mode messages, "
         "junk of many lengths and type bytes; after every datagram the number of datagrams the server emitted and "
         "the sizes of its handshake and session tables are compared with the Lean model. distinct_nontrivial counts "
         "distinct cases containing both an answered and a silently dropped datagram.",
    assumptions=["IdealAEAD for the cookie (SANSE under the cookie key with associated data H(client KEM key, IP, port))",
                 "a hidden request replayed INSIDE the 5 s window is answered again (the property says 'fresh'; no replay cache)"],
)

MANIFEST = {
    "text": "Proof (Lean 4, kernel-decided) over the translator-regenerated dispatch programs of Server.readPacket and the "
            "cookie functions: C19_hello_stateless (nothing on the ClientHello path stores state or offers a connection), "
            "C19_ack_needs_cookie + C19_ack_state_after_reader + C19_cookie_bound_to_address_and_key (state only after an "
            "enforced cookie opening under associated data from this datagram's key, IP and port, an enforced MAC and an "
            "exact-length check), C19_hidden_silent_dispatch + C19_hidden_request_wellformed_fresh (every discoverable "
            "case is gated by !IsHidden; a hidden request is answered only after its reader succeeded: every field "
            "intact, fresh timestamp, accepted certificate). Tied additionally by datagram sequences against a real server "
            "with table sizes and emitted datagrams compared step by step.",
    "design_ref": "DESIGN.md 5.19",
    "note": "Trusted: as C01 (translator, classification table, IdealAEAD for the cookie); table-size and cookie-rotation hooks.",
    "technique": "Lean 4 proof over translator-regenerated dispatch programs + step-for-step differential correspondence with a real server",
}
