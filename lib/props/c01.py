from ..runner import PropCfg, SuiteCfg


def _sig(ops, io, mo, k):
    f = ops[k].split(" ")
    # mode, policy and the two adversary kinds identify the scenario class
    return {"op": "hs", "mode": f[1] if len(f) > 1 else "", "policy": f[2] if len(f) > 2 else "",
            "server": f[3] if len(f) > 3 else "", "client": f[4] if len(f) > 4 else "",
            "impl": io[k] if k < len(io) else "<missing>", "model": mo[k] if k < len(mo) else "<missing>"}


CFG = PropCfg(
    "C01", "HopModel.Props.C01",
    [SuiteCfg("C01", stateless=True, signature=_sig, nontrivial=lambda ops, outs: True,
              classify=lambda op, out: " ".join(op.split(" ")[1:2]) + " -> " + out, parts_thorough=8),
     # server configuration -> policy: the TOML loader and NewHopServer, with real clients over loopback UDP
     SuiteCfg("C01cfg", stateless=True, parts_thorough=4, nontrivial=lambda ops, outs: True, timeout=1500,
              classify=lambda op, out: op.split(" ")[0] + " -> " + out)],
    extra_modules=["HopModel.Props.C01ClientCfg", "HopModel.Props.C20ClientCfg"],
    rule="suite C01cfg, op cli (the client's side of the configuration glue): a client configuration with a [Global] block, a "
         "host block that does not match (and would switch verification off) and a matching host block, as a TOML file "
         "through config.LoadClientConfigFromFile or as structs, goes through ClientConfig.MatchHost, Unwrap and "
         "hopclient's authenticatorSetup; a real hopclient.HopClient dials a real transport.Server over loopback UDP "
         "(discoverable or hidden) that presents one of four certificates (two name sets under the trusted root, a foreign "
         "root, self-signed): 11 ways of setting ServerName/ServerIPv4/ServerIPv6 in the two blocks x CAFiles in "
         "{own, other, none, split over both blocks} x InsecureSkipVerify absent/true/false in each block; Dial's result "
         "is compared with ClientCfg.accepts on the merged configuration (found F36, F37). "
         "suite C01cfg, ops cfg/hid/sni: a real hopserver.NewHopServer per line, configured through a TOML file read by "
         "config.LoadServerConfigFromFile or through a ServerConfig struct, for every combination of InsecureSkipVerify / "
         "DisableCertificateValidation / EnableAuthorizedKeys / EnableAuthgrants (absent, true, false), CA file listed or "
         "not, a CA-issued / self-signed / foreign-root client, a grant added for its key or not; a real client connects "
         "over loopback UDP and the outcome is compared with policyAccepts on the policy the options stand for; plus a "
         "server with one virtual host and no fallback asked for matching / non-matching names of known and unknown type "
         "(it must refuse or serve, and go on serving). suite C01: every line is one real handshake between a real transport.Client and a real transport.Server over the "
         "in-memory network, with dishonest (misconfigured) endpoints: server side {ok, valid chain but another DH key, "
         "other name, expired, not yet valid, wrong type, untrusted root, self-signed} x client side {ok, another key, "
         "expired, not yet valid, untrusted root, self-signed, wrong type} x server policy {none, skip, CA store, "
         "authorized keys, both} x key listed or not x name requested or not, in both handshake modes; observed: "
         "Client.Handshake result, whether a connection is offered to Accept, whether data flows both ways. "
         "distinct_nontrivial counts distinct scenario lines. (Garbage in MAC/tag fields and transplanted messages: C02's sweep.)",
    assumptions=["IdealHash + DH (DESIGN.md 3): a MAC squeezed after absorbing a static DH can only be produced by a holder of "
                 "the static private key - built into the model's interpreter, not proved",
                 "the translator recognises the regular style of the handshake readers; the meaning given to each "
                 "recognised operation is the hand-written table Handshake.classify"],
)

MANIFEST = {
    "text": "Proof (Lean 4, kernel-decided over the complete finite table of environments) about the operation programs "
            "REGENERATED from transport/handshake_pq.go, server.go and client.go on every run: C02_readers_as_expected ties "
            "the code's readers to the expected action lists; C01_client_success_discoverable/_hidden (success implies the "
            "policy accepted the certificates and the sender proved possession), C01_server_clientauth, "
            "C01_server_publish_discoverable/_hidden (policy attached on both paths, connection offered only after the "
            "reader succeeded, hidden-mode keys derived after DH(ss)), C01_policy_cases (the policy decision stated "
            "outright, for all configurations); C01_client_cfg_accepts_iff, C01_effective_skip/_names/_cas, "
            "C01_verification_demanded, C01_expected_name (unbounded, over every Global block and list of applied host "
            "blocks: which name the client expects, which roots it trusts and when it skips verification; a host block "
            "that demands verification gets it). Possession-from-MAC is the Noise assumption (hypothesis level). Tied "
            "additionally by real handshakes with dishonest counterparts compared scenario by scenario.",
    "design_ref": "DESIGN.md 5.1",
    "note": "Trusted: Lean kernel (decide +kernel, no native_decide); translator harness/extract/structural.go; the "
            "classification table; IdealHash/DH idealisation; harness/hs scenario builder.",
    "technique": "Lean 4 proof over translator-regenerated handshake operation programs (abstract interpretation under IdealHash) + differential correspondence with dishonest real endpoints",
}
