from ..runner import PropCfg, SuiteCfg


def _sig(ops, io, mo, k):
    line = ops[k] if k < len(ops) else ""
    f = line.split(" ")
    verdict = mo[k] if k < len(mo) else "<missing>"
    return {"line": f[0], "what": " ".join(f[1:4]) if f[0] in ("tr", "hang") else f[0], "verdict": verdict.split(" ")[0]}


CFG = PropCfg(
    "C16", "HopModel.Props.C16",
    [SuiteCfg("C16", kind="monitor", signature=_sig, timeout=3000,
              nontrivial=lambda seg, ver: sum(1 for l in seg if l.startswith("tr ")) >= 3)],
    rule="TODO",
)

MANIFEST = {
    "text": "TODO",
    "design_ref": "DESIGN.md 5.16",
    "note": "TODO",
    "technique": "TODO",
}
