from ..runner import PropCfg, SuiteCfg


def _sig(ops, io, mo, k):
    line = ops[k] if k < len(ops) else ""
    f = line.split(" ")
    verdict = mo[k] if k < len(mo) else "<missing>"
    return {"line": f[0], "what": " ".join(f[1:4]) if f[0] in ("tr", "hang") else f[0], "verdict": verdict.split(" ")[0]}


CFG = PropCfg(
    "C16", "HopModel.Props.C16",
    [SuiteCfg("C16", kind="monitor", signature=_sig, timeout=3000, crash_batch=12,
              nontrivial=lambda seg, ver: sum(1 for l in seg if l.startswith("tr ")) >= 3),
     # tubes whose request and FIN arrive back to back (crafted frames: C11's harness and driver): they close, Stop returns
     SuiteCfg("C11fin", binary="C11", timeout=900, parts_thorough=1,
              should_shrink=lambda f: not any(o.split(" ")[0] in ("blocked", "wedged", "stuck", "panic", "dead", "died", "hung")
                                              for o in f["impl"]),
              nontrivial=lambda ops, outs: any(o.startswith("reap") for o in ops))],
    rule="suite C11fin (C11's harness, scripted peer): 16 tubes per case whose request and FIN are delivered back to back, "
         "so that the FIN can be processed before the tube's initiation goroutine has finished; the tubes are then "
         "accepted, some closed through the handshake (the reaper must remove them), traffic on another tube flows and "
         "Stop returns. suite C16: a case is one generated concurrent program (2-7 goroutines of Write/Read/Close/WaitForClose/Stop on both "
         "ends, 1-3 reliable or unreliable tubes, plus one goroutine per side that eventually calls Stop) run on two "
         "real muxers (Config.Timeout 1 s) joined by an in-memory MsgConn with a loss pattern (none, 10/30/60 %, "
         "total, dead after k datagrams, one-way) and seeded yield points; 12 cases run concurrently. Programs also open "
         "tubes while they run and close them 0-500 us later (Close racing with the initiation goroutine and the "
         "peer's answer). One batch per run is the directed shape 'Stop (or the lastAck timer) with a backlog of "
         "hundreds of unsent frames while a delay spike towards the writer ends': the held acknowledgements arrive "
         "as a 1 ms-paced stream around the forced close, with the critical sections of the tube's lifecycle lock "
         "stretched by the yield hook. A panic on any goroutine kills the harness: the batch that was running is "
         "the replay. The observed "
         "trace - the verif transition log of every reliable tube, every call with result and global start/end "
         "order, calls that did not return within 45 s, the final tube states, goroutines above the baseline after "
         "both muxers stopped (polled for 20 s) - is judged line by line by the Lean driver: every logged "
         "transition must be the step of Model/Fin for the logged event, at most one Close per tube succeeds, no "
         "Write succeeds after a Close/Stop returned, reads after close are data* then EOF, every call returned, "
         "every tube is closed after Stop, no goroutine is left. distinct_nontrivial counts distinct traces with at "
         "least 3 logged transitions.",
    assumptions=["every generated program eventually calls Stop on both muxers (otherwise a Read on a healthy idle "
                 "tube legitimately blocks for ever)",
                 "the muxers run with a non-zero Config.Timeout (as every caller in hop-go configures); with "
                 "Timeout=0 and a dead network nothing starts the shutdown",
                 "at most 3 tubes per program: the accept queue (128) is never full (F18 is C11's finding)"],
    extra_trusted=["the Go runtime (scheduler, timers, goroutine accounting); wall-clock watchdogs of 45 s per call",
                   "the verif hooks in tubes (yield points, transition log) - add-only, no-ops without the tag"],
)

MANIFEST = {
    "text": "Proof (Lean 4, unbounded) about models of the shutdown protocol, partial for the runtime part. "
            "Model/Fin transcribes the FIN state machine of tubes/reliable.go (Close, the two switch blocks of "
            "receive, enterLastAckState, enterClosedState, the forced close of Muxer.Stop): C16_fin_safe (every "
            "event keeps the state, takes a graceful edge, or aborts to closed), C16_closed_absorbing, "
            "C16_lastAck_has_timer (lastAck iff its timer is pending, in every reachable state), C16_reaches_closed "
            "(for ALL event sequences - any loss pattern - one forceClose event closes the tube, and a tube in "
            "lastAck is closed by its own timer: bound 1 timer event, 2 from a dead network counting the muxer's "
            "idle timeout), C16_close_returns, C16_close_once, C16_after_close_write, C16_after_close_io (after a "
            "local close reads never block: buffered data, then EOF or the deadline error; EOF once fully closed). "
            "Model/StopSteps is the wait-for structure of Muxer.Stop for any number of tubes and a transport whose "
            "writes may be stuck: C16_stop_measure (every step decreases a measure), C16_stop_progress (no reachable "
            "state short of completion is deadlocked: a goroutine is enabled or a timer pending), "
            "C16_stop_terminates (at most 3n+11 steps, at most two timer expiries). The models are tied to the code "
            "by a monitored correspondence: generated concurrent programs on real muxers over a lossy in-memory "
            "transport with seeded yield points; the transition log of every real tube must be a path of Model/Fin "
            "event by event, and call results, hangs, final states and goroutine leaks are checked.",
    "design_ref": "DESIGN.md 5.16",
    "note": "Partial: panics, goroutine leaks, blocking and wall-clock bounds live in the Go runtime and are observed "
            "(watchdog 45 s per call, goroutine count after Stop), not proved. A local Close on a half-closed tube "
            "makes reads of an empty buffer fail with the deadline error, not EOF, until the tube is fully closed - "
            "the model states exactly this. Reliable.Close waits for the initiation handshake; on a dead network it "
            "returns only when the muxer's idle timeout has started Stop (bounded by Config.Timeout + muxerTimeout). "
            "Trusted: Lean kernel; the monitored runs and their generator.",
    "technique": "Lean 4 proof (FIN state machine over all event sequences; small-step wait-for model of Stop with a "
                 "decreasing measure and a progress theorem) + monitored correspondence (transition log of real "
                 "tubes is a path of the model; hangs, leaks, call results) under schedule perturbation and loss",
}
