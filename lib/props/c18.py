from ..runner import PropCfg, SuiteCfg


def _cls(o):
    if o in ("err", "panic", "bad-op", "<missing>") or o.startswith("harness-"):
        return o
    if o.split(" ")[0] in ("ok", "err", "panic") and o.split(" ")[-1] in ("small", "big"):
        return o
    return "value"


def _sig(ops, io, mo, k):
    f = ops[k].split(" ")
    op = f[0] + (":" + f[1] if f[0] == "junk" and len(f) > 1 else "")
    return {"op": op, "impl": _cls(io[k] if k < len(io) else "<missing>"),
            "model": _cls(mo[k] if k < len(mo) else "<missing>")}


def _classify(op, out):
    f = op.split(" ")
    return (f[0] + ":" + f[1] if f[0] == "junk" and len(f) > 1 else f[0]) + "->" + _cls(out)


CFG = PropCfg(
    "C18", "HopModel.Props.C18",
    [SuiteCfg("C18", stateless=True, signature=_sig, nontrivial=lambda ops, outs: True, classify=_classify),
     SuiteCfg("C18junk", stateless=True, signature=_sig, nontrivial=lambda ops, outs: True, classify=_classify)],
    rule="every line is one case.  C18: X-enc <value> runs the real writer (WriteString, Name/IDChunk/Certificate "
         "WriteTo/Marshal, Intent/AgMessage WriteTo, frame/initiateFrame toBytes, execInitMsg.ToBytes, userauth "
         "toBytes, portforwarding toBytes) and the model writer, bytes compared; X-dec <bytes> runs the real reader "
         "(ReadString, ReadFrom, fromBytes, GetCmd, GetInitMsg over a real reliable tube, readPacket) on a "
         "bytes.Reader and the model reader, decoded value fields (times as Unix seconds) and the unread remainder "
         "compared, errors as `err`, panics as `panic`.  Values: every length field at 0, 1, max, max+1 and "
         "beyond, every enum at known/unknown values, times at 0, int64 extremes and before 1970; byte strings: "
         "real encodings as is, with trailing bytes, truncated at every short prefix, with single bytes changed, "
         "hand-made chunk headers, every message-type and flag byte, random bytes.  C18junk: tube-facing readers "
         "on valid, damaged, truncated and random input with announced lengths up to 4 MiB; observable "
         "ok|err|panic plus whether runtime.MemStats.TotalAlloc grew by more than 256 KiB during the call.  "
         "distinct_nontrivial counts distinct operation lines.",
    assumptions=["time values are int64 Unix seconds (what time.Time.Unix() returns)",
                 "frame decoders are fed buffers of at most 65535 bytes (the muxer's datagram buffer); a panic of "
                 "fromBytes on a short buffer counts as rejection here (panic-freedom of the frame path is C11's "
                 "muxer half)",
                 "net.SplitHostPort's acceptance condition is modelled from the Go standard library source"],
)

MANIFEST = {
    "text": "Proof (Lean 4, unbounded): for each of 13 codecs (one-byte-length strings, certificate id block, id "
            "chunk, certificate, intent, grant message, tube frame and initiate frame, exec request, exec status, "
            "user-auth request, port-forward request, target info = a core.URL as text with net/url's user-name "
            "escaping for every byte value, hosts/ports of a restricted form) the model writer/reader pair, transcribed field by field from the Go "
            "code, satisfies C18_X_roundtrip (decode(encode v ++ rest) = (v, rest) for every representable v), "
            "C18_X_reject (unrepresentable values are refused by writers that have an error path) and "
            "C18_X_stable (every accepted byte string re-encodes to something that decodes to the same value); "
            "C18_dec_* bound each reader's explicit allocation counter by the bytes consumed plus a constant and "
            "state totality (ok or error, no panic outcome).  Tied to the code by differential runs of the real "
            "writers and readers against the compiled model on generated values and byte strings.",
    "design_ref": "DESIGN.md 5.18 (and the decoder half of 5.11)",
    "note": "Trusted: Lean kernel, axioms propext/Classical.choice/Quot.sound; the correspondence runs connect the "
            "models to the Go code; Go's runtime allocation is observed only as a coarse class (TotalAlloc delta "
            "> 256 KiB), the proved bound is about the model's counter of up-front allocations; pre-1970 "
            "timestamps encode but are refused by the readers (outside Representable, stated as a theorem).",
    "technique": "Lean 4 proof (reader monad with allocation counter; round trip / reject / re-encode stability per codec) + differential correspondence with the real encoders and decoders",
}
