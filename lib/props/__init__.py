"""Per-property configuration.  Every module cXX.py in this package defines
  CFG       a runner.PropCfg (how the check runs)
  MANIFEST  dict(text, design_ref, note, technique) for MANIFEST.json
and is discovered automatically."""
import importlib
import pkgutil

PROPS = {}
TEXT = {}
for _m in sorted(pkgutil.iter_modules(__path__)):
    if _m.name.startswith("c") and _m.name[1:].isdigit():
        mod = importlib.import_module(__name__ + "." + _m.name)
        PROPS[mod.CFG.id] = mod.CFG
        TEXT[mod.CFG.id] = mod.MANIFEST
