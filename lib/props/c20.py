from ..runner import PropCfg, SuiteCfg


def _sig(ops, io, mo, k):
    # identifies the failing input class: entry point, what the implementation answered, what the
    # property demands
    f = ops[k].split(" ")
    return {"op": f[0], "impl": io[k] if k < len(io) else "<missing>", "model": mo[k] if k < len(mo) else "<missing>"}


CFG = PropCfg(
    "C20", "HopModel.Props.C20",
    [SuiteCfg("C20", stateless=True, signature=_sig,
              nontrivial=lambda ops, outs: True,
              classify=lambda op, out: op.split(" ", 1)[0] + "->" + (out if len(out) < 6 else "list")),
     # the selection as wired into a real server: NewHopServer's getCert, names of every type (C01's harness)
     SuiteCfg("C10sni", binary="C01", stateless=True, parts_thorough=1, nontrivial=lambda ops, outs: True)],
    extra_modules=["HopModel.Props.C20ClientCfg"],
    rule="suite C10sni (C01's harness): a real hopserver.NewHopServer with the virtual hosts srv.example, 10.0.0.* and \\xff* "
         "and no fallback; real clients over loopback UDP ask for names of every type (raw, unknown type byte, IPv4-typed with "
         "the address text as label, a label that is not UTF-8, empty): the certificate presented is the one of the first "
         "host whose pattern matches the LABEL. Several lookups on one ClientConfig (hostseq) answer like first lookups. "
         "suite C20: every line is one case: glob <pattern> <input>, hosts <host> <blocks>, vhost <name> <patterns>, run on "
         "glob.Glob / ClientConfig.MatchHost / VirtualHosts.Match (under recover) and on the Lean model. "
         "Exhaustive over patterns in {a,b,*}^<=5 x inputs in {a,b}^<=6 (thorough: <=7 x <=9), plus random "
         "pattern/instance pairs up to length 64 over 4 letters and arbitrary bytes, plus random host-block "
         "and virtual-host lists. distinct_nontrivial counts distinct operation lines.",
)

MANIFEST = {
    "text": "Proof (Lean 4, unbounded): C20_glob_iff shows the matcher model (leftmost-greedy, one backtrack point; "
            "total by a termination proof) returns true exactly when the input is the pattern with each '*' replaced "
            "by some string (inductive relation Matches), for all patterns and inputs; C20_matchHost_mem/_sorted and "
            "C20_vhost_first/_none derive the host-block and virtual-host selection; C20_applied_mem/_order and "
            "C20_unmatched_block_irrelevant say what applying means (Model/ClientCfg: the Global block with exactly the "
            "matching blocks merged in file order; a block that does not match has no influence whatever it says). The model is tied to glob.Glob, "
            "ClientConfig.MatchHost and VirtualHosts.Match by an exhaustive small-alphabet differential run under "
            "recover (panics are an observable) plus random longer inputs.",
    "design_ref": "DESIGN.md 5.20",
    "note": "Trusted: Lean kernel, axioms propext/Quot.sound; the correspondence run connects model and Go code "
            "(exhaustive for patterns<=5 x inputs<=6 over {a,b,*} in the quick tier); panic-freedom of the Go code "
            "itself is observed (recover), not proved.",
    "technique": "Lean 4 proof (functional induction: backtracking matcher = declarative glob relation) + exhaustive small-alphabet differential correspondence",
}
