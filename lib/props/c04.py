from ..runner import PropCfg, SuiteCfg


def _word(s):
    return s.split(" ", 1)[0]


def _tag(op):
    f = op.split(" ")
    return f[-1][1:] if f and f[-1].startswith("#") else ""


def _sig(ops, io, mo, k):
    op = ops[k] if k < len(ops) else ""
    sig = {"op": _word(op), "impl": _word(io[k]) if k < len(io) else "<missing>",
           "model": _word(mo[k]) if k < len(mo) else "<missing>"}
    if _tag(op):
        sig["scenario"] = _tag(op)
    return sig


def _nontrivial(ops, outs):
    w = {o for op, o in zip(ops, outs) if _word(op) == "verify"}
    return "accept" in w and "reject" in w


_REASONS = {"0": "unknown-intermediate", "1": "unknown-root", "2": "mismatched-name", "3": "unverified-parent",
            "5": "unexpected-type", "6": "time-invalid", "7": "internal-error", "-": "accepted"}


def _classify(op, out):
    w = _word(op)
    if w == "verify":
        return "verify[%s]->%s" % (_tag(op).split(":")[0].split("-")[0], out)
    if w == "why":
        return "rejected-by:" + _REASONS.get(out, out)
    if w in ("issue", "issueleaf"):
        return "issue[%s]->%s" % ("issued" if _tag(op) == "issued" else "mutated", "err" if out == "err" else "cert")
    if w in ("vparent", "match"):
        return w + "->" + out
    return w


CFG = PropCfg(
    "C04", "HopModel.Props.C04",
    [SuiteCfg("C04", nontrivial=_nontrivial, signature=_sig, classify=_classify,
              observable=lambda op: _word(op) != "why"),
     # the caller of Store.VerifyLeaf in every handshake (transport's certificateParserAndVerifier): a failed chain check
     # is final whatever an additional callback says (C01's harness)
     SuiteCfg("C01cb", binary="C01", stateless=True, parts_thorough=1, nontrivial=lambda ops, outs: True)],
    rule="suite C01cb (C01's harness): real handshakes whose verifier carries an additional callback that accepts or refuses, "
         "against self-signed / valid certificates under every policy: the verdict of Store.VerifyLeaf is not overridden by "
         "an accepting callback. suite C04: PEM bundles (certs.ReadManyCertificatesPEM, as LoadRootStoreFromPEMFile uses it) "
         "are an alternative way of adding the same certificates to the store. A case is a sequence of scenarios over one pool of real Ed25519 keys; a scenario builds a root, an "
         "intermediate and a leaf (serialized, signed by the harness or produced by certs.issue / IssueLeafAt, then "
         "parsed with Certificate.ReadFrom), fills the trust store (random subsets, distractors from earlier "
         "scenarios, overwrites) and calls the real Store.VerifyLeaf with a presented / stored / missing / wrong "
         "intermediate, a requested name and a clock. 40% of the scenarios are valid chains (incl. clocks on the "
         "inclusive/exclusive window edges +-1 ns / +-1 s and the real clock), the rest one mutation away: wrong "
         "type (re-signed, not re-signed, struct field), expired / not yet valid / edge for each of the three "
         "certificates, name with other label / other type / on a nameless leaf, wrong parent link, wrong signer, "
         "unsigned, single bit flips and truncation of leaf and intermediate, root missing / of intermediate type / "
         "another root, intermediate claiming a foreign fingerprint. The model sees certificate records with integer "
         "identities and a signature table computed by the harness with crypto/ed25519 (not through VerifyParent); "
         "the record lines themselves are compared, so the abstract view is what the real parser produced. "
         "Reason codes (`why`) are logged into the histogram, not compared. distinct_nontrivial counts cases with at "
         "least one accepted and one rejected verification.",
    assumptions=["timestamps within +-2^62 s (time.Unix wraps beyond)",
                 "fingerprint and signed-bytes identities are assigned by byte equality (SHA3 collision freedom is "
                 "not needed for the equivalence theorem; C04_tamper_* take unforgeability as a hypothesis)"],
)

MANIFEST = {
    "text": "Proof (Lean 4, unbounded): C04_verify_iff shows, for every well-formed store (proved to be what "
            "AddCertificate builds from the empty store), every option set, clock and signature oracle, that the "
            "model of Store.VerifyLeaf accepts exactly when the chain is valid in the sense of the property's sentence "
            "(leaf type; requested name among the leaf's names with its type; intermediate presented-and-named else "
            "stored, of intermediate type, signing the leaf; a stored root-type certificate signing the intermediate; "
            "all three valid at the verification time). Corollaries: expiry is exclusive, the anchor must be of root "
            "type, names are compared with their type, tampered leaf / intermediate rejected under unforgeability, "
            "and C04_issued_verifies: every chain made by the model of issue verifies at every instant at which its "
            "leaf is valid (validity clamping). The model is tied to certs/verify.go and certs/issue.go by "
            "differential runs over real signed chains and their single mutations.",
    "design_ref": "DESIGN.md 5.4",
    "note": "Trusted: Lean kernel; Ed25519 / SHA3 abstracted as a signature table and identities that the harness "
            "computes itself; the differential run ties the model to the Go code.",
    "technique": "Lean 4 proof (decision procedure = declarative chain validity) + differential correspondence on real signed certificate chains",
}
