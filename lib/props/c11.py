from ..runner import PropCfg, SuiteCfg
from . import c18


def _kind(op):
    """class of a datagram: what about it is unusual (used for signatures and the histogram)"""
    f = op.split(" ")
    if f[0] != "raw" or len(f) != 2:
        return f[0]
    h = f[1]
    if h == "-":
        return "raw-empty"
    n = len(h) // 2
    if n < 12:
        return "raw-short"
    dl = int(h[4:8], 16)
    flags = int(h[2:4], 16)
    if 12 + dl > n:
        return "raw-len>=65524" if dl >= 65524 else "raw-len>datagram"
    if flags & 8:
        return "raw-ack"
    if flags & 3:
        return "raw-init"
    return "raw"


def _sig(ops, io, mo, k):
    op = ops[k] if k < len(ops) else ""
    impl = io[k] if k < len(io) else "<missing>"
    # how many REQ datagrams preceded a blocked receiver (F18 shape)
    reqs = sum(1 for o in ops[:k + 1] if _kind(o) == "raw-init")
    return {"op": op.split(" ", 1)[0], "kind": _kind(op), "impl": impl.split(" ")[0],
            "model": (mo[k] if k < len(mo) else "<missing>").split(" ")[0],
            "many_reqs": reqs > 128}


CFG = PropCfg(
    "C11", "HopModel.Props.C11",
    [SuiteCfg("C11", signature=_sig, timeout=3000, parts_thorough=4,
              # re-running a case in which the muxer wedged or died waits for watchdogs every time
              should_shrink=lambda f: not any(o.split(" ")[0] in ("blocked", "wedged", "stuck", "panic", "dead", "died", "hung")
                                              for o in f["impl"]),
              nontrivial=lambda ops, outs: any(o.startswith("raw") for o in ops),
              classify=lambda op, out: _kind(op) + "->" + out.split(" ")[0][:8]),
     # a session whose first tube is not a reliable user-authorization tube, through the real checkAuthorization
     # (C05's harness and driver): refused, no crash
     SuiteCfg("C11sess", binary="C05", parts_thorough=1, nontrivial=lambda ops, outs: any(o.startswith("badlogin") for o in ops)),
     # the decoder half: junk fed to every application-protocol reader (ok | err | panic, allocation
     # bucket), run by C18's harness binary
     next(SuiteCfg(s.name, binary="C18", stateless=s.stateless, signature=s.signature, nontrivial=s.nontrivial,
                   classify=s.classify, parts_thorough=s.parts_thorough, timeout=s.timeout, kind=s.kind,
                   observable=s.observable)
          for s in c18.CFG.suites if s.name == "C18junk")],
    extra_modules=["HopModel.Props.C11Decoders"],
    rule="suite C11sess (C05's harness): the peer opens an UNRELIABLE tube of the user-authorization type, or a reliable "
         "tube of another type, as the first tube of a session: hopSession.checkAuthorization refuses (no panic) and a "
         "listed key is admitted afterwards. suite C18junk (decoder half, shared with C18): valid, damaged, truncated and random byte strings incl. "
         "announced lengths up to 4 MiB through ReadString, Intent/AgMessage/Certificate.ReadFrom, GetCmd, "
         "GetInitMsg, port-forward readPacket; observable ok|err|panic plus whether the allocation delta exceeds "
         "256 KiB. suite C11: a case is one real tubes.Muxer on a scripted MsgConn, run in a child process (a panic in a "
         "muxer goroutine is the observable `panic`): a victim tube and a second tube are opened and carry "
         "traffic, then a batch of junk datagrams (all 64 flag combinations x existing/unused tube ids, length "
         "fields 0,1,n-13,n-12,n-11,32768,65523,65524,65535 on valid frames, every truncation of a frame, ACK "
         "numbers 0..2^32-1 against 0-1 frames sent, frame numbers at and beyond the window edge, random "
         "datagrams, a long datagram followed by a frame whose length field overshoots, REQ floods of 100..200 "
         "tubes with nobody accepting), then the victim must deliver further data in order, a write on it must "
         "leave the muxer, and Stop must return (watchdog 30 s). Every line is compared with the Lean muxer "
         "model. distinct_nontrivial counts distinct cases containing datagrams.",
    assumptions=["datagrams are at most 65535 bytes (the muxer's receive buffer)",
                 "close handshakes after a local Close() and all timers are not modelled (C16); the model's reap "
                 "event stands for them"],
)

MANIFEST = {
    "text": "Proof (Lean 4, unbounded) over a transcription of the muxer's receive path with Go's slice semantics "
            "and panicking index operations explicit: for every muxer state and every sequence of datagrams the "
            "receiver loop never panics (C11_no_panic, C11_decode_total), a decoded payload lies inside the datagram "
            "received (C11_decode_within_datagram), a datagram changes only the tube it names "
            "(C11_other_tubes_unaffected), and the accept queue never overflows so the receiver cannot be wedged by "
            "REQ frames (C11_never_blocked). Tied to the code by differential runs of a real Muxer over a scripted "
            "MsgConn in child processes: junk batches, then traffic on an unrelated tube must flow and Stop must return.",
    "design_ref": "DESIGN.md 5.11",
    "note": "Partial: memory safety of the real Go code and goroutine blocking are runtime - observed (child process "
            "death, watchdogs), not proved. The decoder half (application protocol readers) is Props/C11Decoders.lean.",
    "technique": "Lean 4 proof (panic-freedom of the transcribed slicing/indexing skeleton, locality of dispatch) + "
                 "differential correspondence with a real Muxer under process isolation",
}
