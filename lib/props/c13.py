from ..runner import PropCfg, SuiteCfg


def _nontrivial(ops, outs):
    # a program is non-trivial when it produced output bytes after at least one state-changing call
    kinds = {o.split(" ", 1)[0] for o in ops}
    return len(ops) > 2 and bool(kinds & {"sq", "sqk", "enc", "dec"})


def _classify(op, out):
    w = op.split(" ")
    k = w[0]
    if out in ("panic", "bad-op"):
        return k + "->" + out
    if out.endswith(" desync"):
        return k + "->desync"
    if k in ("absorb", "enc", "dec") and len(w) == 2:
        n = 0 if w[1] == "-" else len(w[1]) // 2
        return "%s[%s]" % (k, "0" if n == 0 else "<136" if n < 136 else "136" if n == 136 else "<=272" if n <= 272 else ">272")
    return k


def _sig(ops, io, mo, k):
    op = ops[k] if k < len(ops) else ""
    i = io[k] if k < len(io) else "<missing>"
    m = mo[k] if k < len(mo) else "<missing>"
    kind = "desync" if i.endswith(" desync") else "panic" if "panic" in (i, m) else "bytes"
    return {"op": op.split(" ", 1)[0], "kind": kind}


_common = dict(nontrivial=_nontrivial, signature=_sig, classify=_classify)

CFG = PropCfg(
    "C13", "HopModel.Props.C13",
    [SuiteCfg("C13", **_common),
     SuiteCfg("C13gen", suite_arg="C13", tags="purego,appengine", **_common)],
    rule="a case is one program over the exported API of cyclist.Cyclist (new; init/empty; absorb/enc/dec/sq/sqk/"
         "ratchet ...), run on the real object and on the Lean transcription of the Cyclist algorithms over the Lean "
         "Keccak-p[1600,12]; every output byte is compared. The Go side keeps a peer object running the mirror program "
         "(decrypts what was encrypted and vice versa) and flags any divergence; a quarter of the enc/dec calls are "
         "`enci`/`deci`: both objects work with output and input in the same buffer (found F38). Suite C13 is the normal build "
         "(assembly permutation on amd64), C13gen the build with tags purego,appengine (portable permutation). "
         "Fixed families: the XKCP transcript of cyclist/testdata, every operand length 0..280 for every operation "
         "in keyed and hash mode, all (|key|,|id|) pairs around the 136-byte limit, a malformed stream; then random "
         "programs with lengths from {0,1,135,136,137,271,272,273,...,1024}. distinct_nontrivial counts distinct "
         "programs (by hash) that produced output bytes.",
    assumptions=["the permutation is a parameter of the theorems (they hold for every f); that Keccak-p[1600,12] as "
                 "implemented (assembly and portable) equals the Lean Keccak is validated by the correspondence run "
                 "and the XKCP vector, not proved",
                 "cryptographic strength of the duplex (IdealHash) is not claimed"],
)

MANIFEST = {
    "text": "Proof (Lean 4, unbounded, for an arbitrary permutation f): C13_decrypt_encrypt - decrypting what was "
            "encrypted from equal states returns the plaintext and leaves equal states, for all lengths; "
            "C13_mirror_programs - two objects running mirror programs (one encrypts where the other decrypts the "
            "produced ciphertext, all else equal, panicking calls included) end in equal states and squeeze equal "
            "outputs, by induction over the program; length lemmas. Conformance of the Go code to the Cyclist "
            "specification over Keccak-p[1600,12] is validation: differential run of random API programs on the real "
            "object (assembly build and portable build) against the Lean transcription, anchored to the XKCP vector.",
    "design_ref": "DESIGN.md 5.13",
    "note": "Trusted: Lean kernel; the correspondence run ties model and code (quick: ~3400 programs / 26 000 calls per "
            "build, every operand length 0..280, ~9 s; thorough: 200 000 random programs per build plus all length pairs "
            "across two rate boundaries, ~6 M calls, ~95 s on 16 cores); conformance to Keccak/Cyclist is tested, not "
            "proved; the amd64 assembly is compared, not verified.",
    "technique": "Lean 4 proof (xor cancellation + induction over blocks and over programs, permutation abstract) + "
                 "differential correspondence on two builds + XKCP vector replay",
}
