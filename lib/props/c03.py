from ..runner import PropCfg, SuiteCfg


def _nontrivial(ops, outs):
    # a schedule is non-trivial when something was delivered to a reader and something was rejected
    got = any(op.startswith("rd ") and not out.startswith("- ") for op, out in zip(ops, outs))
    return got and len(ops) > 10


def _verb(op):
    f = op.split(" ")
    if f[0] == "dlv" and len(f) == 5:
        return "dlv:" + f[4].split(":")[0] + (":" + f[4].split(":")[1] if f[4].startswith("flip") else "")
    return f[0]


def _sig(ops, io, mo, k):
    op = ops[k] if k < len(ops) else ""
    return {"op": _verb(op), "impl": (io[k] if k < len(io) else "<missing>")[:40],
            "model": (mo[k] if k < len(mo) else "<missing>")[:40]}


SUITE = SuiteCfg("C03", nontrivial=_nontrivial, signature=_sig, classify=lambda op, out: _verb(op),
                 parts_thorough=16, timeout=3000)

CFG = PropCfg(
    "C03", "HopModel.Props.C03", [SUITE],
    rule="a case is one adversary schedule against 1-3 established sessions between a real transport.Server and "
         "real transport.Clients driven one datagram at a time over an in-memory network: writes of sizes "
         "0..3*Max+7, honest deliveries, deliveries from new addresses, bit flips in type/reserved/session id/"
         "counter/body+tag, truncations at every header boundary, extensions, replays, cross-session, "
         "cross-direction and reflected injection, made-up datagrams that copy live session headers, genuine and "
         "invalid control messages, counter bursts across the 448 window, local closes; after every delivery the "
         "closed flag and peer address of the addressed session are compared with the Lean model, readers are "
         "drained and compared message by message, probes show where each end now sends, and the wire is scanned "
         "for plaintext. distinct_nontrivial counts distinct schedules in which at least one message reached a "
         "reader.",
    assumptions=["IdealAEAD: SANSE opens a ciphertext only if it is exactly a sealing under the same key and associated "
                 "data (the unforgeability half is assumed; the structural half is C12)",
                 "the receive queue's documented drop-when-full policy is part of the model (capacities 2..50 are exercised)"],
)

MANIFEST = {
    "text": "Proof (Lean 4) over the session model (receive path in the code's order with the C14 window as a "
            "component, send path, chunking): C03_forged_noop (a datagram that does not authenticate leaves the whole "
            "session state identical), C03_accepted_genuine_once (over every adversary schedule, every message handed "
            "to the reader is a sealing by the peer on this session and direction, and no sealing is accepted twice), "
            "C03_closed_only_by_authentic_control, C03_write_chunks (a write of any size is cut into packets whose "
            "concatenation is the buffer and reports its length). Unforgeability of SANSE is an explicit hypothesis "
            "built into the model's `genuine` predicate. The model is tied to the real client and server by a "
            "step-for-step differential run under generated adversary schedules.",
    "design_ref": "DESIGN.md 5.3",
    "note": "Trusted: Lean kernel; IdealAEAD as modelling assumption; the in-memory network harness (harness/tnet) and "
            "the verif hooks that expose the session snapshot and a control-message sender; goroutine-level concurrency "
            "of writers is not modelled (C17).",
    "technique": "Lean 4 proof (invariant over adversary schedules on a session model, reusing the C14 theorem) + differential correspondence with real endpoints on an in-memory network",
}
