from ..runner import PropCfg, SuiteCfg

TUBES = {"2": "agc", "5": "pfcontrol", "6": "pf", "7": "winsize"}


def _session_kinds(ops, io):
    """creation order of sessions in a case: 'grant' (login through grants) or 'key'"""
    kinds = []
    for o, r in zip(ops, io):
        w = o.split(" ", 1)[0]
        if w in ("login", "loginkey") and r.startswith("sess "):
            kinds.append("grant" if w == "login" else "key")
    return kinds


def _sig(ops, io, mo, k):
    """identifies the failing call site: which operation, and what the implementation did that the
    property (the model's answer) forbids"""
    f = ops[k].split(" ") if k < len(ops) else ["<missing>"]
    i = io[k] if k < len(io) else "<missing>"
    m = mo[k] if k < len(mo) else "<missing>"
    sig = {"op": f[0]}
    iv, mv = i.split(" ", 1)[0], m.split(" ", 1)[0]
    if f[0] == "tube" and len(f) == 4:
        kinds = _session_kinds(ops[:k], io[:k])
        sess = kinds[int(f[1])] if f[1].isdigit() and int(f[1]) < len(kinds) else "?"
        if iv == "served" and mv == "closed" and sess == "grant":
            sig["kind"] = "ungranted-tube-served"
            sig["tube"] = TUBES.get(f[2], "type" + f[2]) + ("" if f[3] == "1" else "-unreliable")
        else:
            sig["kind"] = "tube-%s-expected-%s-in-%s-session" % (iv, mv, sess)
    elif f[0] == "issue":
        kinds = _session_kinds(ops[:k], io[:k])
        sess = kinds[int(f[1])] if f[1].isdigit() and int(f[1]) < len(kinds) else "?"
        if iv in ("confirmed", "denied") and mv == "closed" and sess == "grant":
            sig["kind"] = "ungranted-tube-served"
            sig["tube"] = "agc-issue-" + iv
        else:
            sig["kind"] = "issue-%s-expected-%s-in-%s-session" % (iv, mv, sess)
    elif f[0] == "exec":
        if iv == "started" and mv == "refused":
            sig["kind"] = "exec-started-without-valid-grant"
        elif iv == "refused" and mv == "started":
            sig["kind"] = "granted-exec-refused"
        else:
            sig["kind"] = "exec-%s-expected-%s" % (iv, mv)
    elif f[0] in ("login", "loginkey"):
        sig["kind"] = "login-%s-expected-%s" % (iv, mv)
    else:
        sig["kind"] = "%s-differs" % f[0]
    return sig


def _nontrivial(ops, outs):
    # a history in which something was started and something was refused
    v = [o.split(" ", 1)[0] for o in outs]
    return ("started" in v and "refused" in v) or ("served" in v and "closed" in v) or ("confirmed" in v and "denied" in v)


def _classify(op, out):
    return op.split(" ", 1)[0] + "->" + out.split(" ", 1)[0].split("=", 1)[0]


CFG = PropCfg(
    "C07", "HopModel.Props.C07",
    [SuiteCfg("C07", signature=_sig, nontrivial=_nontrivial, classify=_classify),
     SuiteCfg("C07e2e", signature=_sig, nontrivial=_nontrivial, classify=_classify, parts_thorough=4, timeout=900),
     # concurrent logins on one grant (the harness and driver are C05's)
     SuiteCfg("C05race", binary="C05", parts_thorough=4,
              nontrivial=lambda ops, outs: any(o.startswith("wins=1") for o in outs)),
     # last, so that its (known) disagreements cannot crowd out others
     SuiteCfg("C07full", signature=_sig, nontrivial=_nontrivial, classify=_classify, parts_thorough=1, timeout=900)],
    rule="suite C05race (C05's harness): rounds of 'store a grant, 2-16 goroutines log in with it at once' - exactly "
         "one gets it, so a single-use grant admits one session (C07_single_use over the serialised calls). "
         "suite C07: a case is one history on a real HopServer (grant = AddAuthGrant, login = "
         "AuthorizeKeyAuthGrant + session in the state checkAuthorization leaves, exec = the head of startCodex: "
         "checkCmd through the verif shim with the clock set through thunks.TimeNow, intent = checkIntent, issue = "
         "checkIntent + AddAuthGrant as handleIntentCommunication calls them, dump = grant map and key set) against the Lean world model; <= 6 grants and <= 10 requests per history, clocks "
         "at start/expiry -1/0/+1 s and sub-second offsets, near-miss command texts, shell/command kind mix-ups, "
         "several users and keys. suite C07e2e: real server and real clients over loopback UDP (real "
         "checkAuthorization, tube dispatch of hopSession.start, startCodex; commands replaced by /bin/true through "
         "thunks.StartCmd): granted command before/at/after start and expiry, wrong text, repeated, second login, "
         "every tube type x reliability in grant-admitted and key-admitted sessions (served/closed observed with "
         "a fence tube), and intents communicated on a real authorization-grant tube (handleAgc, StartTargetInstance, "
         "checkIntent, AddAuthGrant) followed by a login with the issued grant. suite C07full: the same runner against what the *full* statement demands for port "
         "forwarding / grant issuing / window-size tubes (known finding F9). distinct_nontrivial counts distinct "
         "histories in which something was started/served and something was refused/closed.",
    assumptions=["checkAuthorization, the `if usingAuthGrant` of startCodex and the tube dispatch are inline in functions "
                 "that need a live transport; suite C07 re-enacts the first two around the real checkCmd / "
                 "AuthorizeKeyAuthGrant, suite C07e2e runs them for real on fewer histories",
                 "shell grants are exercised only at the checkCmd level (an admitted shell request would start a pty)",
                 "checkIntent reads the wall clock: only clearly past / clearly future expiry times are compared"],
)

MANIFEST = {
    "text": "Proof (Lean 4, unbounded) over all histories of grants, logins, requests and clocks on a model of "
            "AddAuthGrant / AuthorizeKeyAuthGrant / checkCmd / startCodex / the tube dispatch: C07_exec_matches_grant "
            "(every command or shell action started in a grant-admitted session consumed a grant issued for that user "
            "and key, effective, unexpired, of matching kind and identical command text), C07_conservation and "
            "C07_single_use (each grant is in exactly one place and authorizes one action), C07_key_bound, "
            "C07_login_removes/_needs_grant, C07_checkCmd_first_match, C07_issue_policy. The full statement C07_full "
            "(all actions, including port forwarding, grant issuing and window-size tubes) is refuted on the faithful "
            "model (C07_full_false, C07_dispatch_ignores_grants) and reproduced end to end: known finding F9. Tied to the "
            "code by a differential run at the state-machine level and by end-to-end runs with real clients.",
    "design_ref": "DESIGN.md 5.7",
    "note": "Partial: proved for exec/shell; disproved (known finding F9) for port forwarding, grant issuing and "
            "window-size tubes. Trusted: Lean kernel, axioms propext/Quot.sound; the correspondence runs; loopback UDP "
            "for the end-to-end suites.",
    "technique": "Lean 4 proof (conservation invariant over whole-server histories) + differential correspondence (state level and end to end)",
}
