from ..runner import PropCfg, SuiteCfg
from . import c03


def _nontrivial(ops, outs):
    # a history is non-trivial when the filter both accepted and rejected something in it
    acc = [o for op, o in zip(ops, outs) if op.startswith("acc ")]
    return "1" in acc and "0" in acc


def _sig(ops, io, mo, k):
    op = ops[k] if k < len(ops) else ""
    return {"op": op.split(" ", 1)[0], "history_len": len(ops)}


CFG = PropCfg(
    "C14", "HopModel.Props.C14",
    [SuiteCfg("C14", has_spec=True, nontrivial=_nontrivial, signature=_sig),
     # the filter inside the receive path (Check before authentication, Mark only after it): the
     # session suite of C03 run by this property's harness binary
     SuiteCfg("C14sess", suite_arg="C03", nontrivial=c03._nontrivial, signature=c03._sig,
              classify=lambda op, out: c03._verb(op))],
    rule="a case is one counter history (new; acc/mark ...; probe lo n) run on the real SlidingWindow and on "
         "the Lean model; after steps the whole neighbourhood [wt-460, wt+70) is probed. Histories are built "
         "around the proof's case split (in-block, block edges, 64k+{0,1,63} jumps, jumps past the ring, "
         "window-edge revisits, counters near 2^63); the thorough tier adds the exhaustive family "
         "offset(64) x jump(704) x second jump(6). distinct_nontrivial counts distinct histories (by hash) in "
         "which the implementation both accepted and rejected at least one counter.",
    assumptions=["counters below 2^63 (the property's domain); the theorem C14_no_wrap shows the uint64 "
                 "expression cannot wrap there"],
)

MANIFEST = {
    "text": "Proof (Lean 4, kernel-checked, unbounded): C14_accept_iff shows that after every history of counters "
            "below 2^63 - any length, any jumps - the model of transport/replay.go answers exactly like the "
            "reference filter 'not accepted before and not more than 448 below the highest accepted'. "
            "The model is the executable transcription of Check/Mark (uint64 wrap included, shown unreachable). "
            "It is tied to the code on every run by a differential run of the real SlidingWindow against the "
            "compiled model with full probing of the window neighbourhood, and by obligations on the constants "
            "extracted from the source. Full proof level is right here because the filter is a pure function.",
    "design_ref": "DESIGN.md 5.14",
    "note": "Trusted: Lean kernel; axioms propext/Classical.choice/Quot.sound; the correspondence run (differential "
            "testing, quick: 3000 histories fully probed; thorough: exhaustive offset x jump family) is what connects "
            "the model to the Go code; the translator for constants.",
    "technique": "Lean 4 proof (ring invariant by induction over the history) + differential correspondence with the real SlidingWindow",
}
