from ..runner import PropCfg, SuiteCfg


def _events(s):
    return [e.split(":", 1)[0] for e in s.split(";")] if s else []


def _sig(ops, io, mo, k):
    """classifies the disagreement by what the implementation did that the property forbids"""
    op = ops[k].split(" ", 1)[0] if k < len(ops) else "<missing>"
    i = io[k] if k < len(io) else "<missing>"
    m = mo[k] if k < len(mo) else "<missing>"
    ie, me = _events(i), _events(m)
    if ie.count("tt") > me.count("tt"):
        kind = "forwarded-without-approval"
    elif ie.count("td") > me.count("td") or ie.count("re") > me.count("re"):
        kind = "more-than-one-answer"
    elif ("td:C" in i and "td:C" not in m) or ("re:C" in i and "re:C" not in m):
        kind = "confirmed-without-storing"
    elif i == "panic":
        kind = "panic"
    else:
        kind = "trace-differs"
    return {"op": op, "kind": kind, "request_no": sum(1 for o in ops[:k + 1] if o.split(" ", 1)[0] in ("req", "comm"))}


def _nontrivial(ops, outs):
    # a connection in which something was forwarded and something was refused
    j = "\n".join(outs)
    return ("tt:" in j and "td:D" in j) or ("re:C" in j and "re:D" in j)


def _classify(op, out):
    w = op.split(" ", 1)[0]
    if w in ("req", "comm"):
        return w + "->" + "+".join(e.split(":", 1)[0] + (e[2:4] if e[:2] in ("td", "re") else "") for e in out.split(";"))[:40]
    return w + "->" + out[:12]


CFG = PropCfg(
    "C06", "HopModel.Props.C06",
    [SuiteCfg("C06", signature=_sig, nontrivial=_nontrivial, classify=_classify, parts_thorough=8),
     SuiteCfg("C06t", signature=_sig, nontrivial=_nontrivial, classify=_classify, parts_thorough=4),
     # the wiring under the hypothesis `Verifying`: hopclient installs the approval of a connection's first intent as
     # the additional verify callback of the handshake with the target (C01's harness and driver)
     SuiteCfg("C01cb", binary="C01", stateless=True, parts_thorough=1, nontrivial=lambda ops, outs: True)],
    rule="suite C01cb (C01's harness): real handshakes in both modes whose client (the principal's role towards the "
         "target) or server carries an additional verify callback that accepts or refuses, combined with every server "
         "policy and with the client's InsecureSkipVerify: a refusing callback ends the handshake whatever else the "
         "policy says, so the set-up function cannot reach the target without the approval. "
         "suite C06: a case is one delegate connection (new; req/junk lines, each request carrying its own scripted "
         "approval decision, set-up behaviour and target behaviour) run through the real "
         "authgrants.StartPrincipalInstance on scripted synchronous connections and through the Lean model; the "
         "observable per request is its event segment (callback arguments and result, decoded intents written to "
         "the target, answers written to the delegate). Exhaustive over scripts of length <= 3 (thorough: 4) over "
         "{same, other target} x {approve, deny} x {confirm, deny, close}, plus random connections of up to 8 "
         "requests with all set-up behaviours (early failure, verify then fail/complete, skipping the callback), "
         "all target behaviours (confirm, deny, close, garbage, dead connection), boundary field values and "
         "non-request messages. suite C06t: the same for authgrants.StartTargetInstance with scripted policy and "
         "storing results. distinct_nontrivial counts distinct connections in which something was forwarded/"
         "confirmed and something was refused.",
    assumptions=["the set-up function invokes the verify callback before it returns a connection (Verifying), as "
                 "hopclient.setupTargetClient does through transport's AddVerifyCallback; a skipping set-up function "
                 "is modelled and exercised too but excluded from C06_forward_only_approved",
                 "grant types 3 and 4 (port forwarding) are not generated: their grant-data codecs panic "
                 "(finding F16 of C11/C18)",
                 "delegate certificates are tokens mapped injectively to certificates by the harness; byte-level "
                 "fidelity of the codec is C18's subject"],
)

MANIFEST = {
    "text": "Proof (Lean 4, unbounded): over all sequences of requests on a delegate connection, each with arbitrary "
            "approval decision, set-up behaviour and target behaviour, and from every instance state, "
            "C06_forward_only_approved shows an intent is written to the target only after the approval callback "
            "accepted that same intent in the same request's segment (given a set-up function that verifies), "
            "C06_one_answer/C06_answers_count that every served request gets exactly one answer, and "
            "C06_confirm_only_if_stored/C06_target_confirm_only_if_stored/C06_end_to_end that a confirmation means the "
            "target checked and stored exactly that intent. The model transcribes doIntentRequestChecks and "
            "handleIntentCommunication and is tied to the real StartPrincipalInstance/StartTargetInstance by a "
            "differential run on scripted connections (exhaustive short scripts + random long ones).",
    "design_ref": "DESIGN.md 5.6",
    "note": "Trusted: Lean kernel, axioms propext/Quot.sound; the correspondence run connects model and Go code; the "
            "contract of the set-up function (it calls the verify callback) is a hypothesis; denial reasons are not "
            "compared; connection failures on the delegate side are not modelled (the instance just ends).",
    "technique": "Lean 4 proof (case analysis of one step, induction over the request list) + differential correspondence with the real principal/target instances",
}
