from ..runner import PropCfg, SuiteCfg


def _nontrivial(ops, outs):
    kinds = {o.split(" ", 1)[0] for o in ops}
    return len(ops) > 1 and bool(kinds & {"seal", "vatte", "kravatte", "keydiff"})


def _nbytes(h):
    return 0 if h == "-" else len(h) // 2


def _bucket(n):
    return "0" if n == 0 else "<200" if n < 200 else "200" if n == 200 else "<=400" if n <= 400 else ">400"


def _classify(op, out):
    w = op.split(" ")
    k = w[0]
    if k == "new" and len(w) == 3:
        return "new %s key=%s->%s" % (w[1], "mult8" if _nbytes(w[2]) % 8 == 0 else "ragged", out[:3])
    if out.endswith(" alias-mismatch"):
        return k + "->alias-mismatch"
    if out in ("panic", "bad-op", "err", "none", "same", "differ"):
        return k + "->" + out
    if k == "seal" and len(w) == 4:
        return "seal[P%s,A%s]" % (_bucket(_nbytes(w[3])), _bucket(_nbytes(w[2])))
    if k == "openl" and len(w) == 4:
        return "openl->ok" if w[3] == "-" else "openl(flip)->ok"
    return k


def _keylen(ops):
    for o in ops:
        w = o.split(" ")
        if w[0] == "new" and len(w) == 3:
            return _nbytes(w[2])
        if w[0] == "keydiff" and len(w) == 5:
            return _nbytes(w[1])
    return -1


def _sig(ops, io, mo, k):
    op = ops[k] if k < len(ops) else ""
    i = io[k] if k < len(io) else "<missing>"
    m = mo[k] if k < len(mo) else "<missing>"
    kl = _keylen(ops[:k + 1][::-1])
    kind = ("alias" if i.endswith(" alias-mismatch") else "panic" if i == "panic" else
            "accept" if (i == "err") != (m == "err") else "keydiff" if op.startswith("keydiff") else "bytes")
    return {"op": op.split(" ", 1)[0], "kind": kind, "key_mod8": kl % 8 if kl >= 0 else -1}


_common = dict(nontrivial=_nontrivial, signature=_sig, classify=_classify)

CFG = PropCfg(
    "C12", "HopModel.Props.C12",
    [SuiteCfg("C12", **_common),
     SuiteCfg("C12gen", suite_arg="C12", tags="purego,appengine", **_common)],
    rule="cases are SANSE sessions on the cipher.AEAD of kravatte.NewSANSE (two objects per key: what one seals the "
         "other opens; openl re-opens the last sealed message, optionally with one bit flipped or other associated "
         "data) and programs over a raw kravatte.Kravatte (Kra/Vatte/Kravatte, bit-length interface, state dumps "
         "through a verif hook), run on the real code and on the Lean model (SANSE over Kravatte over Keccak-p[1600,6], "
         "key schedule k||1||0*). Families: the XKCP vector files of kravatte/testdata incl. their state dumps; key "
         "lengths 1..199 x (|P|,|A|) pairs around the 200-byte blocks; single-byte key changes (keydiff must answer "
         "differ); (|P|,|A|) in {0,1,199,200,201,399,400,401}^2; multi-message two-way sessions with tampering, loss "
         "and replay; single-bit flips of ciphertext, tag and associated data; raw deck-function programs; a malformed "
         "stream. On the Go side every Seal/Open runs with three buffer layouts (fresh, dst=src[:0], dst with prefix) "
         "whose results must agree and must leave caller buffers intact. Suite C12 is the normal build, C12gen the "
         "build with tags purego,appengine. distinct_nontrivial counts distinct cases (by hash) that produced output.",
    assumptions=["the deck function is a parameter of the theorems; unforgeability (no ciphertext outside the image of "
                 "seal can be produced without the key) is not claimed - C12_open_iff_seal is the structural part",
                 "conformance of Kravatte/Keccak-p[1600,6] to the specification is validated against the Lean "
                 "implementation and the XKCP vectors, not proved",
                 "aliasing behaviour is observed on the Go side only (immutable values cannot alias)"],
)

MANIFEST = {
    "text": "Proof (Lean 4, unbounded, for an arbitrary deck function): C12_open_seal / C12_session_sync - opening what "
            "was sealed from equal states returns the plaintext and leaves equal states, for sessions of any length; "
            "C12_open_iff_seal - open accepts c and returns p iff c is exactly the sealing of p under the same key "
            "state, associated data and history, all 32 tag bytes compared; C12_key_pad_injective - the key block "
            "k||1||0* determines the key for lengths < 200. Conformance of the Go code (mask derivation, compress/"
            "expand, SANSE framing) to the specification is validation: differential run against the Lean model on "
            "two builds, anchored to the XKCP vector files; aliasing variants compared on the Go side.",
    "design_ref": "DESIGN.md 5.12",
    "note": "Trusted: Lean kernel; the correspondence run ties model and code (quick: ~7 400 cases / 33 000 calls per "
            "build - 199 key lengths x 12 length pairs, 300 sessions, 4 000 bit flips, 400 raw deck programs - ~16 s; "
            "thorough: ~170 000 cases per build incl. every bit of a 1 KiB message and 64 KiB packets, ~3 min on 16 "
            "cores); unforgeability/key-recovery hardness are not claimed (C12_tamper carries it as a hypothesis); the "
            "assembly permutations are compared, not verified. Two defects were found by this check and repaired: "
            "F19 (snp.StateSetByte erased key bytes) and the portable Keccak-p[1600,6] being a panic stub.",
    "technique": "Lean 4 proof (mode-level round trip and exact-acceptance over an abstract deck function) + differential "
                 "correspondence on two builds + XKCP vector replay",
}
