from ..runner import PropCfg, SuiteCfg


def _word(s):
    return s.split(" ", 1)[0]


def _sig(ops, io, mo, k):
    # the failing call, what the server answered and what the property demands; for the
    # authorized-keys path also what kind of file the user had
    op = ops[k] if k < len(ops) else ""
    f = op.split(" ")
    sig = {"op": f[0], "impl": _word(io[k]) if k < len(io) else "<missing>",
           "model": _word(mo[k]) if k < len(mo) else "<missing>"}
    if f[0] in ("authkey", "login") and len(f) > 1:
        kind = "nofile"
        for o in ops[:k]:
            g = o.split(" ")
            if g[0] == "file" and len(g) > 2 and g[1] == f[1]:
                kind = g[2]
        sig["file"] = kind
    return sig


def _nontrivial(ops, outs):
    w = {_word(o) for op, o in zip(ops, outs) if _word(op) in ("authkey", "login", "usegrant")}
    return bool(w & {"ok", "listed", "grant"}) and bool(w & {"err", "reject"})


def _classify(op, out):
    return _word(op) + "->" + _word(out)


def _classify_parse(op, out):
    w = _word(op)
    if w in ("parse", "key"):
        return w + "->" + _word(out)
    return w


CFG = PropCfg(
    "C05", "HopModel.Props.C05",
    [SuiteCfg("C05", nontrivial=_nontrivial, signature=_sig, classify=_classify),
     SuiteCfg("C05sess", nontrivial=_nontrivial, signature=_sig, classify=_classify),
     SuiteCfg("C05parse", stateless=True, signature=_sig, classify=_classify_parse,
              nontrivial=lambda ops, outs: True),
     SuiteCfg("C05race", signature=_sig, classify=_classify, parts_thorough=4,
              nontrivial=lambda ops, outs: any(o.startswith("wins=1") for o in outs))],
    rule="suite C05: a case is a history on one real HopServer (NewHopServerExt + SetFSystem(fstest.MapFS) + faked "
         "thunks.LookupUser): users with generated authorized_keys files (45% acceptable lines only - entries with "
         "Unicode/ASCII blanks around them, foreign keys, embedded CR, non-canonical final symbol, blank lines; 35% one "
         "malformed line - comment, truncated / over-padded / unpadded base64, wrong prefix, 31/33-byte key, embedded "
         "blank, trailing comment, near-space runes, broken UTF-8; the rest several bad lines, empty, random bytes, "
         "a line at the 64 KiB scanner limit +-2), CRLF / missing final newline / concatenated entries; missing user, "
         "missing file, directory instead of file; then AuthorizeKey, AddAuthGrant, AuthorizeKeyAuthGrant, the "
         "checkAuthorization decision and the transport key set, with grants enabled or not. distinct_nontrivial "
         "counts distinct histories in which at least one request was admitted and one refused. suite C05sess: the "
         "same kind of histories, with every `login` answered by the real hopSession.checkAuthorization (verif hook) on "
         "a session whose user-auth tube runs over an in-memory message connection; the confirmation byte the client "
         "reads must agree with the method's result. suite C05parse: "
         "core.ParseAuthorizedKeys, keys.ParseDHPublicKey, strings.TrimSpace and bufio.Scanner alone on the same "
         "grammar (every line a case). suite C05race: thousands of rounds 'store a grant (sometimes two) for one "
         "(user, key); 2-16 goroutines call AuthorizeKeyAuthGrant for it at once': whatever the interleaving "
         "exactly one call gets the grants (the model serialises the calls: C05_grant_consumed).",
    assumptions=["suite C05 drives the login decision through HopServer.AuthorizeKey / AuthorizeKeyAuthGrant composed as "
                 "hopSession.checkAuthorization composes them; suite C05sess runs checkAuthorization itself, with the "
                 "transport handshake replaced by a handle that reports the client key (hook)",
                 "Go's bufio.Scanner, strings.TrimSpace and encoding/base64 are modelled from their source and tied "
                 "only by the differential run"],
)

MANIFEST = {
    "text": "Proof (Lean 4, unbounded): over every history of grants added, used and logins, and every file-system "
            "state, C05_listed_or_granted shows that the model of checkAuthorization admits (user, key) only if the "
            "key is a well-formed entry of that user's authorized_keys file (which parses as a whole), or grants are "
            "enabled and the admitted grants are exactly the grants added for that user and key and not consumed "
            "since; C05_fail_closed: no user / no file / unreadable / empty / unparsable file never authorizes; "
            "C05_grant_consumed and C05_disabled. The model transcribes ParseDHPublicKey (prefix, Go base64 with its "
            "newline and padding rules, 32 bytes), ParseAuthorizedKeys (bufio.Scanner lines with the 64 KiB limit, "
            "Unicode TrimSpace, abort on the first bad line), AuthorizeKey, AddAuthGrant, AuthorizeKeyAuthGrant and "
            "is tied to the real HopServer by differential histories over generated files.",
    "design_ref": "DESIGN.md 5.5",
    "note": "Trusted: Lean kernel; the differential run ties the model to the code; checkAuthorization runs "
            "on a hook-built session (no transport handshake); read errors in the middle of "
            "a file are not injectable through fstest.MapFS (only 'directory instead of file').",
    "technique": "Lean 4 proof (history invariant: grant map = unconsumed additions) + differential correspondence with the real HopServer",
}
