from ..runner import PropCfg, SuiteCfg


def _sig(ops, io, mo, k):
    f = ops[k].split(" ")
    kind = f[3].split(":")[0] if len(f) > 3 else ""
    return {"op": f[0], "mode": f[1] if len(f) > 1 else "", "msg": f[2] if len(f) > 2 else "", "kind": kind,
            "impl": io[k] if k < len(io) else "<missing>", "model": mo[k] if k < len(mo) else "<missing>"}


CFG = PropCfg(
    "C02", "HopModel.Props.C02",
    [SuiteCfg("C02", stateless=True, signature=_sig, nontrivial=lambda ops, outs: not ops[0].endswith(" none"),
              classify=lambda op, out: " ".join(op.split(" ")[:3]) + " " + (op.split(" ")[3].split(":")[0] if len(op.split(" ")) > 3 else ""),
              parts_thorough=16, timeout=3000)],
    rule="every line is one real handshake (or a family of them) with one message changed in flight: bit flips at "
         "every field boundary and random interior offsets of every field of every message of both modes (masks "
         "0x01/0x80/0xff), truncation at every field boundary and inside every field, extensions by 1/15/16/17 bytes, "
         "stale-buffer priming before a truncated client message, replacement by the corresponding datagram of a "
         "parallel handshake, and untampered runs with white-box comparison of session id and both directional keys; "
         "the thorough tier flips EVERY byte offset of every message with three masks (sweep lines) and checks "
         "pairwise key distinctness over 60 sessions. distinct_nontrivial counts distinct tampered lines.",
    assumptions=["IdealHash: distinct transcripts give distinct squeezed bytes (model-level); ML-KEM implicit rejection "
                 "gives an unrelated shared secret for an altered ciphertext"],
)

MANIFEST = {
    "text": "Proof (Lean 4, kernel-decided) over the translator-regenerated programs: C02_readers_as_expected, "
            "C02_layouts_agree (readers and writers agree on every message layout), C02_any_alteration_rejected (for every "
            "message and every non-full honesty mask - a flipped byte in any field, or a datagram of another handshake - "
            "the reader does not succeed, whatever else holds), C02_offset_to_field (every byte offset lies in a field, "
            "all certificate lengths), C02_truncation_rejected / C02_extension_rejected (length guards cover what is "
            "consumed; exact-length checks), C02_success_means_synchronised (success implies equal transcripts hence "
            "equal keys), C02_directions_differ, C02_fresh_in_transcript. Tied additionally by a tamper sweep on real "
            "handshakes.",
    "design_ref": "DESIGN.md 5.2",
    "note": "Trusted: as C01. 'Distinct transcripts give distinct keys' is IdealHash; key distinctness across sessions is "
            "observed (distinct lines), not proved.",
    "technique": "Lean 4 proof over translator-regenerated handshake operation programs + tamper-sweep correspondence on real handshakes",
}
