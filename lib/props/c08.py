from ..runner import PropCfg, SuiteCfg


def _nontrivial(ops, outs):
    # a receiver case is non-trivial when something was delivered out of order or rejected;
    # a sender case when at least one acknowledgement removed frames
    return any(o.startswith(("oob", "ok1")) for o in outs) or any(op.startswith("ack") for op in ops)


def _sig(ops, io, mo, k):
    op = ops[k] if k < len(ops) else ""
    side = ops[0].split(" ")[1] if ops and ops[0].startswith("new ") and len(ops[0].split(" ")) > 1 else "?"
    return {"side": side, "op": op.split(" ", 1)[0],
            "impl": (io[k] if k < len(io) else "<missing>").split(" ", 1)[0],
            "model": (mo[k] if k < len(mo) else "<missing>").split(" ", 1)[0]}


def _sig_sys(seg, impl, ver, k):
    """monitor suite: classify a failed run from the state summaries printed at the deadline"""
    import re
    verdict = ver[k] if k < len(ver) else "<missing>"
    kind = "none"
    if any(l.startswith("note deadline") for l in seg):
        kind = "stalled"
        for l in seg:
            if not l.startswith("note state"):
                continue
            m = re.search(r"state=(\d+)_sender\{ackNo=(\d+)_frameNo=\d+_frames=(\d+)_first=(\d+)", l)
            if not m:
                continue
            st, ack, frames, first = (int(x) for x in m.groups())
            if frames > 0 and first != ack % (1 << 32):
                kind = "unacked-frame-discarded"          # F10: frames no longer line up with ackNo
                break
            if frames > 0 and st == 7:
                kind = "tube-closed-with-unacked-data"    # lastAck timer gave up
    return {"verdict": verdict.split("-")[0], "line": (seg[k] if k < len(seg) else "").split(" ")[0], "kind": kind}


CFG = PropCfg(
    "C08", "HopModel.Props.C08",
    [SuiteCfg("C08", nontrivial=_nontrivial, signature=_sig,
              classify=lambda op, out: op.split(" ", 1)[0] + "->" + out.split(" ", 1)[0][:5]),
     SuiteCfg("C08sys", kind="monitor", signature=_sig_sys, parts_thorough=4, timeout=1500,
              nontrivial=lambda seg, ver: any(l.startswith("eof") for l in seg))],
    rule="suite C08: a case is one arrival schedule on a bare tubes.receiver (new rx; rcv/read ...) or one "
         "write/ack/fin sequence on a bare tubes.sender (new tx; ...), stepped through verif hooks and "
         "compared line by line with the Lean models (result, ackNo, windowStart, fragment count, buffered "
         "bytes, bytes read, EOF flag; sender: ackNo, frameNo and the whole retransmission buffer as "
         "no:len:flags:checksum), plus direct calls of unwrapFrameNo / frameInBounds (new fn). Schedules are "
         "honest streams delivered in order / reversed / shuffled / FIN first, with duplicates, stale and "
         "out-of-window frames (window edges 999..1002), frames half a number range away, keep-alives, data "
         "frames carrying ACK; positions around k*2^32 and 2^31; every 25th case is a malformed stream. "
         "distinct_nontrivial counts distinct cases in which something was rejected, a FIN was processed or "
         "an acknowledgement was handled. suite C08sys (monitor): every reliable tube is shadowed by a silent unreliable tube "
         "with the same identifier (a message read from it is a `stray`); a case is one run of two real muxers over an "
         "in-memory MsgConn pair with seeded loss (0-20%), duplication (0-20%), delay/reordering (0-30% of "
         "datagrams, up to 120 ms) and outages (quick: 0.2-1.5 s, thorough: also 12.5-15 s), 1-3 reliable tubes, "
         "both directions writing 1..6 chunks of 1..40000 bytes and closing; the trace written/read/closed/eof is "
         "checked by the Lean monitor: prefix at every read, EOF only after everything written, everything "
         "delivered before a deadline of 90-150 s.",
    assumptions=["arriving frames are honest (authenticated channel) and less than 2^31 frame numbers away from the "
                 "receiver's acknowledgement number (hypotheses Honest, Near of the theorems)",
                 "fewer than 2^62 frames per stream (no uint64 overflow)",
                 "Go's container/heap returns a minimum (the model keeps the fragments in a sorted list)"],
)

MANIFEST = {
    "text": "Proof (Lean 4, unbounded) over executable transcriptions of tubes/receiver.go and the stream side of "
            "tubes/sender.go: for every schedule of honest frame arrivals (any order, duplicates, stale and "
            "out-of-window frames, FIN early or late, across the 32-bit wrap of the wire number) interleaved with "
            "reads, the bytes read are a prefix of the written stream (C08_prefix), EOF is reported only after all "
            "data (C08_eof_after_data), unwrapping recovers the 64-bit number (C08_unwrap), each arrival of the "
            "awaited frame advances the window which never moves back, hence completeness (C08_progress, "
            "C08_complete); the sender cuts writes into consecutive non-empty chunks, numbers the FIN last and never "
            "discards an unacknowledged frame (C08_sender_*). The models are tied to the code by a differential run "
            "of the real bare receiver/sender (verif hooks) against the compiled models, and at system level by "
            "two real muxers over a seeded lossy in-memory network whose observed traces are checked against the "
            "prefix/EOF/completeness Spec by the Lean monitor.",
    "design_ref": "DESIGN.md 5.8",
    "note": "Partial: liveness is proved for the model (progress per arrival of the awaited frame; the sender model "
            "retains every unacknowledged frame); real retransmission timers, congestion control and goroutine "
            "scheduling are only observed by the system suite. Trusted: Lean kernel; container/heap; the "
            "correspondence runs.",
    "technique": "Lean 4 proof (receiver invariant by induction over the arrival schedule) + differential correspondence "
                 "with the real receiver/sender + trace monitoring of two real muxers over a faulty network",
}
