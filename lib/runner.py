"""The generic check: G-tie, proofs, D-tie, decision, evidence.  Per-property specifics come from
lib/props.py (PropCfg / SuiteCfg)."""
import collections
import hashlib
import json
import os
import shutil
import sys
import time
from concurrent.futures import ThreadPoolExecutor

from . import core


class SuiteCfg:
    def __init__(self, name, parts_thorough=16, timeout=3000, nontrivial=None, signature=None,
                 has_spec=False, describe="", kind="diff", observable=None, classify=None, env=None,
                 stateless=False, tags="", suite_arg=None, should_shrink=None, binary=None, crash_batch=16):
        self.name = name
        # monitor suites: number of cases the harness runs concurrently (a crash is blamed on the
        # batch that was running)
        self.crash_batch = crash_batch
        self.parts_thorough = parts_thorough
        self.timeout = timeout
        # nontrivial(case_ops, impl_outs) -> bool
        self.nontrivial = nontrivial or (lambda ops, outs: len(ops) > 1)
        # signature(case_ops, impl_outs, model_outs, k) -> dict identifying the failing input
        self.signature = signature or default_signature
        self.has_spec = has_spec
        self.describe = describe
        # kind "diff": impl and model answer the same ops, outputs diffed line by line
        # kind "monitor": impl runs programs and prints observed traces; the model (Spec evaluator)
        #                 reads the traces and prints one verdict per line; anything but "ok" fails
        self.kind = kind
        # observable(op_line) -> False for lines whose outputs are informational only
        self.observable = observable or (lambda op: True)
        # classify(op_line, impl_out) -> label for the evidence histogram
        self.classify = classify or (lambda op, out: op.split(" ", 1)[0])
        self.env = env or {}
        # stateless: every line is its own case (no "new" separators)
        self.stateless = stateless
        # tags: extra Go build tags for this suite's harness binary (e.g. "purego,appengine" to
        # select the portable Keccak); a separate binary .build/hv-Cxx+<tags> is built for it
        self.tags = tags
        # suite_arg: suite name passed to the hv binary and to hopmodel (default: name); lets two
        # SuiteCfgs (different tags) share one generator/driver
        self.suite_arg = suite_arg or name
        # should_shrink(failure_dict) -> False for failures whose re-runs are too slow to minimise
        # (e.g. every re-run waits for a watchdog); default: always shrink
        self.should_shrink = should_shrink or (lambda f: True)
        # binary: the property whose harness binary runs this suite (default: the check's own)
        self.binary = binary


class PropCfg:
    def __init__(self, pid, module, suites, rule, assumptions=None, extra_trusted=None, extra_modules=None):
        self.id = pid
        self.module = module
        self.suites = suites
        self.rule = rule
        self.assumptions = assumptions or []
        self.extra_trusted = extra_trusted or []
        # further Props modules whose Cxx_* theorems belong to this property
        self.extra_modules = extra_modules or []


def default_signature(case_ops, impl_outs, model_outs, k):
    op = case_ops[k] if k < len(case_ops) else "<missing>"
    return {"op": op.split(" ", 1)[0],
            "impl": impl_outs[k] if k < len(impl_outs) else "<missing>",
            "model": model_outs[k] if k < len(model_outs) else "<missing>"}


def run_case(prop, suite, ops, spec=False):
    """run one case alone on implementation and model; returns (impl_outs, model_outs)"""
    env = core.goenv()
    env.update(suite.env)
    rc, io, ie = core.run_lines([core.hv_path(suite.binary or prop, suite.tags), suite.suite_arg, "run"], ops, env=env)
    if rc != 0 and len(io) < len(ops) and suite.kind != "monitor":
        io = io + ["<crash>"] + ["<skipped>"] * (len(ops) - len(io) - 1)
    if suite.kind == "monitor":
        _, mo, _ = core.run_lines([core.HOPMODEL, suite.suite_arg], io)
        return io, mo
    _, mo, _ = core.run_lines([core.HOPMODEL, suite.suite_arg] + (["--spec"] if spec else []), ops)
    return io, mo


def differs(suite, ops, io, mo):
    if suite.kind == "monitor":
        for k, v in enumerate(mo):
            if v != "ok":
                return k
        return None if len(mo) == len(io) else min(len(mo), len(io))
    for k in range(max(len(io), len(mo), len(ops))):
        if k < len(ops) and not suite.observable(ops[k]):
            continue
        x = io[k] if k < len(io) else "<missing>"
        y = mo[k] if k < len(mo) else "<missing>"
        if x == "<skipped>":
            continue
        if x != y:
            return k
    return None


def analyse_part(prop, suite, tie, stats, failures, max_failures=12):
    """compare the two streams of one part; collect stats and failing cases"""
    ops = open(tie.path("ops")).read().split("\n")
    if ops and ops[-1] == "":
        ops.pop()
    io = open(tie.path("impl")).read().split("\n")
    if io and io[-1] == "":
        io.pop()
    mo = open(tie.path("model")).read().split("\n")
    if mo and mo[-1] == "":
        mo.pop()
    starts = core.split_cases(ops) + [len(ops)]
    stats["ops"] += len(ops)
    monitor = suite.kind == "monitor"
    if monitor:
        # traces are free-form; cases are separated in the trace by lines starting with "new"
        tstarts = core.split_cases(io) + [len(io)]
        stats["cases"] += len(tstarts) - 1
        for a, b in zip(tstarts, tstarts[1:]):
            seg, ver = io[a:b], mo[a:b]
            h = hashlib.sha1("\n".join(seg).encode()).digest()[:8]
            if suite.nontrivial(seg, ver):
                stats["distinct"].add(h)
            for l in seg:
                stats["hist"][l.split(" ", 1)[0]] += 1
            if len(stats["samples"]) < 3 and len(seg) > 1:
                stats["samples"].append({"trace": seg[:12], "verdicts": ver[:12]})
            bad = [k for k, v in enumerate(ver) if v != "ok"]
            if (bad or len(ver) != len(seg)) and len(failures) < max_failures:
                failures.append({"suite": suite.name, "ops": seg, "impl": seg, "model": ver,
                                 "k": bad[0] if bad else len(ver)})
        crash = getattr(tie, "crash", None)
        if crash and len(failures) < max_failures:
            failures.append({"suite": suite.name, "ops": crash["programs"],
                             "impl": ["<crash> " + crash["message"]] + crash["stack"], "model": ["<no crash>"], "k": 0,
                             "note": "the harness process died while it ran these programs (one concurrent batch): "
                                     + crash["message"]})
        if len(mo) != len(io) and len(failures) < max_failures and not failures:
            failures.append({"suite": suite.name, "ops": io[-5:], "impl": io[-5:], "model": mo[-5:], "k": 0,
                             "note": "trace and verdict streams have different lengths"})
        return
    if suite.stateless:
        stats["cases"] += len(ops)
        for k, o in enumerate(ops):
            r = io[k] if k < len(io) else "<missing>"
            m = mo[k] if k < len(mo) else "<missing>"
            stats["hist"][suite.classify(o, r)] += 1
            if suite.nontrivial([o], [r]):
                stats["distinct"].add(hash(o))
            if r != m and suite.observable(o) and len(failures) < 400:
                failures.append({"suite": suite.name, "ops": [o], "impl": [r], "model": [m], "k": 0})
        for k in range(0, len(ops), max(1, len(ops) // 3)):
            if len(stats["samples"]) < 3 and k < len(io) and k < len(mo):
                stats["samples"].append({"op": ops[k], "impl": io[k][:120], "model": mo[k][:120]})
        return
    for a, b in zip(starts, starts[1:]):
        cops, cio, cmo = ops[a:b], io[a:b], mo[a:b]
        stats["cases"] += 1
        h = hashlib.sha1("\n".join(cops).encode()).digest()[:8]
        if suite.nontrivial(cops, cio):
            stats["distinct"].add(h)
        for o, r in zip(cops, cio):
            stats["hist"][suite.classify(o, r)] += 1
        if len(stats["samples"]) < 3 and len(cops) > 2 and suite.nontrivial(cops, cio):
            stats["samples"].append({"ops": cops[:10], "impl": [x[:120] for x in cio[:10]],
                                     "model": [x[:120] for x in cmo[:10]]})
        k = differs(suite, cops, cio, cmo)
        if k is not None and len(failures) < max_failures:
            failures.append({"suite": suite.name, "ops": cops, "impl": cio, "model": cmo, "k": k})
    if len(io) != len(ops) or len(mo) != len(ops):
        if not failures:
            failures.append({"suite": suite.name, "ops": ops[-3:], "impl": io[-3:], "model": mo[-3:], "k": 0,
                             "note": "stream lengths differ: ops=%d impl=%d model=%d" % (len(ops), len(io), len(mo))})


def shrink_failure(prop, suite, f, deadline=None):
    """minimise a failing case; after `deadline` (shared by all failures of a check: a case of a session or
    muxer suite takes seconds to re-run) the case is reported as far as it got"""
    if suite.kind == "monitor" or "note" in f or suite.stateless or not suite.should_shrink(f):
        return f
    if deadline is not None and time.time() > deadline:
        f["note"] = "not minimised (the time set aside for shrinking was used up by earlier failures)"
        return f
    def fails(ops):
        io, mo = run_case(prop, suite, ops)
        return differs(suite, ops, io, mo) is not None
    try:
        if not fails(f["ops"]):
            f["note"] = "does not reproduce when the case is run alone (state carried across cases?)"
            return f
        ops = core.ddmin_case(f["ops"], fails, (lambda: time.time() > deadline) if deadline else None)
        io, mo = run_case(prop, suite, ops)
        k = differs(suite, ops, io, mo)
        g = {"suite": suite.name, "ops": ops, "impl": io, "model": mo, "k": k if k is not None else 0,
             "shrunk_from": len(f["ops"])}
        if suite.has_spec:
            _, so = run_case(prop, suite, ops, spec=True)
            g["spec"] = so
        return g
    except Exception as e:  # shrinking is best effort
        f["note"] = "shrink failed: %r" % (e,)
        return f


def run_check(cfg, tier, seed):
    t0 = time.time()
    pid = cfg.id
    violations = []   # (replay_path, suffix)
    known_lines = []
    notes = []

    with core.Lock():
        gok, gout = core.regenerate()
        if not gok:
            notes.append("translator failed: " + gout[-1500:])
        pr = core.prove(pid, cfg.module, tier)
        for em in cfg.extra_modules:
            pe = core.prove(pid, em, tier)
            pr["theorems"] += pe["theorems"]
            pr["examples"] += pe["examples"]
            pr["obligations"] += pe["obligations"]
            pr["discharged"] += pe["discharged"]
            pr["failed"] += pe["failed"]
            pr["axioms"].update(pe["axioms"])
            pr["ok"] = pr["ok"] and pe["ok"]
            if pe.get("log"):
                pr["log"] = (pr.get("log") or "") + pe["log"]
        hok, hout = True, ""
        for bp, tg in sorted({(s.binary or pid, s.tags) for s in cfg.suites}):
            ok1, out1 = core.build_hv(bp, tg)
            hok, hout = hok and ok1, hout + out1

    if not os.path.exists(core.HOPMODEL):
        print("internal error: Lean driver did not build\n" + pr.get("log", ""))
        # no model to compare with: the proof obligation failure is reported below

    work = os.path.join(core.WORK, "%s-%d" % (pid, os.getpid()))
    shutil.rmtree(work, ignore_errors=True)
    os.makedirs(work)
    stats_all = {}
    failures = []
    tie_errors = []
    try:
        if hok and os.path.exists(core.HOPMODEL):
            for suite in cfg.suites:
                parts = suite.parts_thorough if tier == "thorough" else 1
                ties = [core.Tie(suite.binary or pid, suite.name, tier, seed, work, p, parts, suite.tags, suite.suite_arg)
                        for p in range(parts)]
                stats = {"ops": 0, "cases": 0, "distinct": set(), "hist": collections.Counter(), "samples": []}

                def one(t, suite=suite):
                    ok, err = t.generate()
                    if not ok:
                        return ["generator failed: " + err[-1500:]]
                    if suite.kind == "monitor":
                        return execute_monitor(t, suite)
                    return t.execute(suite.timeout, suite.env, suite.stateless)
                with ThreadPoolExecutor(max_workers=min(parts, os.cpu_count() or 4)) as ex:
                    for t, errs in zip(ties, ex.map(one, ties)):
                        tie_errors += ["%s part %d: %s" % (suite.name, t.part, e) for e in errs]
                for t in ties:
                    if os.path.exists(t.path("impl")) and os.path.exists(t.path("model")):
                        analyse_part(pid, suite, t, stats, failures)
                    for n in ("ops", "impl", "model"):
                        try:
                            os.remove(t.path(n))
                        except FileNotFoundError:
                            pass
                stats_all[suite.name] = stats
        elif not hok:
            tie_errors.append("harness does not build against the current tree: " + hout[-3000:])

        # ---- search: a proof obligation is broken and the tier's own run found no failing input:
        # look for one with the thorough generator before giving up
        if not pr["ok"] and not failures and tier == "quick" and hok and os.path.exists(core.HOPMODEL):
            notes.append("proof obligation broken, no disagreement in the quick run: searching with the thorough generator")
            for suite in cfg.suites:
                if failures:
                    break
                parts = suite.parts_thorough
                ties = [core.Tie(suite.binary or pid, suite.name, "thorough", seed, work, p, parts, suite.tags, suite.suite_arg)
                        for p in range(parts)]
                sstats = {"ops": 0, "cases": 0, "distinct": set(), "hist": collections.Counter(), "samples": []}

                def one_s(t, suite=suite):
                    ok, err = t.generate()
                    if not ok:
                        return ["generator failed: " + err[-500:]]
                    if suite.kind == "monitor":
                        return execute_monitor(t, suite)
                    return t.execute(min(suite.timeout, 900), suite.env, suite.stateless)
                with ThreadPoolExecutor(max_workers=min(parts, os.cpu_count() or 4)) as ex:
                    list(ex.map(one_s, ties))
                for t in ties:
                    if os.path.exists(t.path("impl")) and os.path.exists(t.path("model")):
                        analyse_part(pid, suite, t, sstats, failures)
                    for n in ("ops", "impl", "model"):
                        try:
                            os.remove(t.path(n))
                        except FileNotFoundError:
                            pass
                stats_all[suite.name + " (search)"] = sstats

        # ---- decide
        known = [k for k in core.load_known() if k.get("property") == pid and k.get("status") == "known"]
        shrink_deadline = time.time() + (150 if tier == "quick" else 1200)
        seen_sigs = []
        suites_by_name = {s.name: s for s in cfg.suites}
        pre_seen = []
        for f in failures:
            suite = suites_by_name[f["suite"]]
            if suite.stateless:
                ps = suite.signature(f["ops"], f["impl"], f["model"], f["k"])
                if ps in pre_seen:
                    continue
                pre_seen.append(ps)
            if len(seen_sigs) >= 12 or len(violations) >= 3:
                break
            g = shrink_failure(pid, suite, f, shrink_deadline)
            k = g["k"]
            sig = suite.signature(g["ops"], g["impl"], g["model"], k)
            sig["suite"] = suite.name
            if sig in seen_sigs:
                continue
            seen_sigs.append(sig)
            match = next((e for e in known if core.sig_matches(e["signature"], sig)), None)
            if match:
                line = "KNOWN-FINDING: property=%s %s" % (pid, match["what"])
                if line not in known_lines:
                    known_lines.append(line)
                continue
            payload = {"property": pid, "kind": "correspondence-disagreement", "suite": suite.name,
                       "signature": sig, "ops": g["ops"][:400], "impl": g["impl"][:400], "model": g["model"][:400],
                       "first_difference_at_line": k, "spec": g.get("spec"), "note": g.get("note"),
                       "how_to_replay": "cd /verif && ./check %s --replay <this file>   "
                                        "(feeds `ops` to the implementation harness .build/hv-%s %s run and to "
                                        "the Lean model lean/HopModel/.lake/build/bin/hopmodel %s; the theorem in %s "
                                        "says the model's answer is what the property demands)"
                                        % (pid, pid, suite.name, suite.name, cfg.module)}
            violations.append((core.write_replay(pid, suite.name, payload), ""))

        if not pr["ok"]:
            if violations:
                pass  # the failing input found by the search is the replay
            else:
                payload = {"property": pid, "kind": "proof-obligation-broken", "module": cfg.module,
                           "failed": pr["failed"], "lean_log": pr.get("log", ""),
                           "search": "the %s-tier correspondence run found no failing input" % tier}
                violations.append((core.write_replay(pid, "proof", payload), " no-failing-input-found"))
        if tie_errors and not violations:
            payload = {"property": pid, "kind": "correspondence-broken", "errors": tie_errors}
            violations.append((core.write_replay(pid, "tie", payload), " no-failing-input-found"))
    finally:
        shutil.rmtree(work, ignore_errors=True)

    # ---- evidence
    evaluations = sum(s["ops"] for s in stats_all.values())
    distinct = sum(len(s["distinct"]) for s in stats_all.values())
    samples = []
    for s in stats_all.values():
        samples += s["samples"][:2]
    samples.append({"theorems": pr["theorems"][:6]})
    ev = {
        "property_id": pid, "tier": tier, "seed": seed, "level": "proof",
        "coverage": {
            "obligations": pr["obligations"], "discharged": pr["discharged"],
            "checker_cmd": "cd /verif/lean/HopModel && lake build %s && #print axioms audit%s" % (
                cfg.module, " && lake env leanchecker " + cfg.module if tier == "thorough" else ""),
            "trusted_base": core.TRUSTED_BASE + cfg.extra_trusted,
            "theorems": pr["theorems"], "examples": pr["examples"], "axioms": pr["axioms"],
            "proof_failures": pr["failed"],
            "evaluations": evaluations, "distinct_nontrivial": distinct,
            "rule": cfg.rule,
            "cases": {n: s["cases"] for n, s in stats_all.items()},
            "histogram": {n: dict(s["hist"].most_common(40)) for n, s in stats_all.items()},
            "samples": samples,
            "correspondence_errors": tie_errors,
            "known_findings_matched": known_lines,
            "notes": notes,
        },
        "assumptions": cfg.assumptions,
        "wall_s": round(time.time() - t0, 2),
        "violations": len(violations),
    }
    if "leanchecker" in pr:
        ev["coverage"]["leanchecker"] = pr["leanchecker"]
    if pr["discharged"] == 0:
        # the schema's proof keys require discharged >= 1; a run whose proofs do not check reports
        # the count under another key and falls back to the exploration-style counts
        ev["coverage"]["discharged_count"] = ev["coverage"].pop("discharged")
    core.write_evidence(pid, ev)

    for l in known_lines:
        print(l)
    for path, suffix in violations:
        print("VIOLATION property=%s replay=%s%s" % (pid, path, suffix))
    if not violations:
        print("OK property=%s tier=%s obligations=%d discharged=%d evaluations=%d distinct_nontrivial=%d wall=%.1fs" % (
            pid, tier, pr["obligations"], pr["discharged"], evaluations, distinct, time.time() - t0))
    return 1 if violations else 0


def execute_monitor(t, suite):
    """impl: programs -> traces; model: traces -> verdicts"""
    import subprocess
    errs = []
    env = core.goenv()
    env.update(suite.env)
    with open(t.path("ops")) as i, open(t.path("impl"), "w") as o:
        try:
            p = subprocess.run(t.impl_cmd(), stdin=i, stdout=o, stderr=subprocess.PIPE, text=True,
                               timeout=suite.timeout, env=env)
            if p.returncode != 0:
                # the harness process died (a panic on a goroutine of the code under test, or a fatal
                # runtime error).  The programs it was running are the replay: the cases after the
                # last one whose trace was written, one concurrent batch of them at most.
                ops = open(t.path("ops")).read().split("\n")
                done = sum(1 for l in open(t.path("impl")) if l.startswith("new"))
                starts = core.split_cases(ops) + [len(ops)]
                lo = starts[min(done, len(starts) - 1)]
                hi = starts[min(done + suite.crash_batch, len(starts) - 1)]
                msg = [l for l in p.stderr.split("\n") if l.startswith(("panic:", "fatal error:"))][:1]
                stack = [l for l in p.stderr.split("\n") if "hop.computer/hop" in l][:8]
                t.crash = {"programs": [l for l in ops[lo:hi] if l],
                           "message": (msg[0] if msg else "exit status %d" % p.returncode),
                           "stack": [l.strip() for l in stack]}
                errs.append("impl exited %d: %s" % (p.returncode, p.stderr[-2000:]))
        except subprocess.TimeoutExpired:
            errs.append("impl timed out after %ds" % suite.timeout)
    with open(t.path("impl")) as i, open(t.path("model"), "w") as o:
        try:
            p = subprocess.run(t.model_cmd(), stdin=i, stdout=o, stderr=subprocess.PIPE, text=True,
                               timeout=suite.timeout)
            if p.returncode != 0:
                errs.append("model exited %d: %s" % (p.returncode, p.stderr[-2000:]))
        except subprocess.TimeoutExpired:
            errs.append("model timed out after %ds" % suite.timeout)
    return errs


def replay(cfg, path):
    payload = json.load(open(path))
    if "ops" not in payload:
        print(json.dumps(payload, indent=1))
        return 0
    with core.Lock():
        core.regenerate()
        core.lake_build(["hopmodel"])
        for bp, tg in sorted({(s.binary or cfg.id, s.tags) for s in cfg.suites}):
            ok, out = core.build_hv(bp, tg)
            if not ok:
                print(out)
                return 2
    suite = next(s for s in cfg.suites if s.name == payload["suite"])
    io, mo = run_case(cfg.id, suite, payload["ops"])
    k = differs(suite, payload["ops"], io, mo)
    for i, op in enumerate(payload["ops"]):
        a = io[i] if i < len(io) else "<missing>"
        b = mo[i] if i < len(mo) else "<missing>"
        mark = "   <-- differs" if a != b and suite.kind != "monitor" else ""
        print("%-40s impl=%s model=%s%s" % (op[:200], a[:200], b[:200], mark))
    if k is None:
        print("replay: implementation and model agree on this input now")
        return 0
    print("replay: implementation still disagrees with the model at line %d" % k)
    return 1


def setup(all_props):
    """build everything once (translator output, Lean library + driver, all harness binaries)"""
    with core.Lock():
        ok, out = core.regenerate()
        if not ok:
            print("setup: translator failed\n" + out[-3000:])
            return 1
        ok, out = core.lake_build([])
        print(out[-1500:])
        if not ok:
            print("setup: lake build failed")
            return 1
        for pid in sorted(all_props):
            ok, out = True, ""
            for bp, tg in sorted({(s.binary or pid, s.tags) for s in all_props[pid].suites}):
                ok1, out1 = core.build_hv(bp, tg)
                ok, out = ok and ok1, out + out1
            if not ok:
                print("setup: harness for %s does not build (its check will report it)\n%s" % (pid, out[-1500:]))
    print("setup done")
    return 0
