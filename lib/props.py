"""Per-property configuration of the generic check (lib/runner.py)."""
from .runner import PropCfg, SuiteCfg


def _c14_nontrivial(ops, outs):
    # a history is non-trivial when the filter both accepted and rejected something in it
    acc = [o for op, o in zip(ops, outs) if op.startswith("acc ")]
    return "1" in acc and "0" in acc


def _c14_sig(ops, io, mo, k):
    op = ops[k] if k < len(ops) else ""
    return {"op": op.split(" ", 1)[0], "history_len": len(ops)}


PROPS = {}


def reg(cfg):
    PROPS[cfg.id] = cfg


reg(PropCfg(
    "C14", "HopModel.Props.C14",
    [SuiteCfg("C14", has_spec=True, nontrivial=_c14_nontrivial, signature=_c14_sig)],
    rule="a case is one counter history (new; acc/mark ...; probe lo n) run on the real SlidingWindow and on "
         "the Lean model; after steps the whole neighbourhood [wt-460, wt+70) is probed. Histories are built "
         "around the proof's case split (in-block, block edges, 64k+{0,1,63} jumps, jumps past the ring, "
         "window-edge revisits, counters near 2^63); the thorough tier adds the exhaustive family "
         "offset(64) x jump(704) x second jump(6). distinct_nontrivial counts distinct histories (by hash) in "
         "which the implementation both accepted and rejected at least one counter.",
    assumptions=["counters below 2^63 (the property's domain); the theorem C14_no_wrap shows the uint64 "
                 "expression cannot wrap there"],
))
